import Inkayaku.Model.Pgn
import Inkayaku.Spec.PgnLayout
/-!
# C17 – PGN stream reader (`pgn/src/reader.rs`, model `Inkayaku.Pgn`, layout `Inkayaku.PgnLayout`)

* Part 1 `reader_bytes`, `chunk_independent` (fully proved): through `ensure_buffer`/`increment_byte` the parser
  sees exactly the input bytes, for every chunk size ≥ 1 and every fragmentation schedule with entries ≥ 1
  (invariant `buf[cur..] ++ rest = remaining stream`, `Inv`: the buffer only shrinks, and to 0 only at EOF).
* `fuel_adequate` (fully proved): the loop fuel `input.length + 1` of the model never runs out.
* Part 2 `parse_render` (fully proved, for the whole layout – no sub-layout restriction): for every well-formed
  list of games, reading the printed database yields exactly the games.
* `c17` combines them for the buffered reader.
* kernel-evaluated examples on concrete multi-game texts at the end.

Not covered here: replaying the SAN tokens on a board (C14); the tokens are yielded verbatim.
(The helper lemmas live in this file because the task allowed only the three C17 files.)
-/
namespace Inkayaku.C17
open Inkayaku.Pgn

/-! ## Part 1: the buffered reader is transparent -/

/-- the bytes still to be delivered: unread part of the buffer, then what the underlying reader still holds -/
def stream (s : Buffered) : List UInt8 := s.buf.drop s.cur ++ s.reader.rest

/-- invariant of `PgnRawParser` over a reader whose schedule entries are ≥ 1 -/
structure Inv (s : Buffered) : Prop where
  chunk_pos : 1 ≤ s.chunkSize
  sched_pos : ∀ k, 1 ≤ s.reader.sched k
  /-- hence `bytes_read > chunk_size` (the `panic!` branch) is unreachable -/
  len_le : s.buf.length ≤ s.chunkSize
  /-- the buffer has shrunk to length 0 only at end of input -/
  nonempty : 1 ≤ s.buf.length ∨ s.reader.rest = []

theorem read_spec (r : Reader) (n : Nat) (hs : ∀ k, 1 ≤ r.sched k) :
    (r.read n).1 ++ (r.read n).2.rest = r.rest ∧ (r.read n).1.length ≤ n ∧
    ((r.read n).1.length = 0 → n = 0 ∨ r.rest = []) ∧ (r.read n).2.sched = r.sched := by
  have := hs r.calls
  simp only [Reader.read, List.take_append_drop, List.length_take, true_and]
  refine ⟨by omega, ?_, trivial⟩
  intro h
  rcases Nat.eq_zero_or_pos n with h0 | h0
  · exact Or.inl h0
  · exact Or.inr (List.eq_nil_of_length_eq_zero (by omega))

theorem ensure_spec (s : Buffered) (h : Inv s) :
    Inv s.ensure.2 ∧ stream s.ensure.2 = stream s ∧
    (s.ensure.1 = true → s.ensure.2.cur < s.ensure.2.buf.length) ∧
    (s.ensure.1 = false → stream s = []) := by
  obtain ⟨hc, hs, hl, hne⟩ := h
  unfold Buffered.ensure
  split
  · rename_i hcur
    have hdrop : s.buf.drop s.cur = [] := List.drop_eq_nil_of_le hcur
    have hst : stream s = s.reader.rest := by simp [stream, hdrop]
    obtain ⟨h1, h2, h3, h4⟩ := read_spec s.reader s.buf.length hs
    generalize s.reader.read s.buf.length = p at h1 h2 h3 h4 ⊢
    obtain ⟨data, rd⟩ := p
    simp only at h1 h2 h3 h4 ⊢
    have hs' : ∀ k, 1 ≤ rd.sched k := by rw [h4]; exact hs
    split
    · rename_i hk0
      have hd : data = [] := List.eq_nil_of_length_eq_zero hk0
      have hrest : s.reader.rest = [] := by
        rcases h3 hk0 with h5 | h5
        · rcases hne with h6 | h6
          · omega
          · exact h6
        · exact h5
      have hrd : rd.rest = [] := by simpa [hd, hrest] using h1
      refine ⟨⟨hc, hs', by simp, Or.inr hrd⟩, ?_, by simp, ?_⟩
      · simp [stream, hrest, hrd, hdrop]
      · intro _; simp [hst, hrest]
    · rename_i hk0
      split
      · rename_i hlt
        have htake : (data ++ s.buf.drop data.length).take data.length = data := by simp
        refine ⟨⟨hc, hs', ?_, Or.inl ?_⟩, ?_, ?_, by simp⟩
        · simp only [htake]; omega
        · simp only [htake]; omega
        · simp only [stream, htake, hdrop, List.drop_zero, List.nil_append]; exact h1
        · intro _; simp only [htake]; omega
      · rename_i hge
        have hdr : s.buf.drop data.length = [] := List.drop_eq_nil_of_le (by omega)
        refine ⟨⟨hc, hs', ?_, Or.inl ?_⟩, ?_, ?_, by simp⟩
        · simp only [hdr, List.append_nil]; omega
        · simp only [hdr, List.append_nil]; omega
        · simp only [stream, hdr, hdrop, List.append_nil, List.drop_zero, List.nil_append]; exact h1
        · intro _; simp only [hdr, List.append_nil]; omega
  · rename_i hcur
    exact ⟨⟨hc, hs, hl, hne⟩, rfl, fun _ => by simp only; omega, fun h => by simp at h⟩

theorem peek_spec (s : Buffered) (h : Inv s) :
    s.peek.1 = (stream s).head? ∧ Inv s.peek.2 ∧ stream s.peek.2 = stream s ∧
    (∀ b, s.peek.1 = some b → s.peek.2.cur < s.peek.2.buf.length) := by
  obtain ⟨h1, h2, h3, h4⟩ := ensure_spec s h
  unfold Buffered.peek
  generalize s.ensure = p at h1 h2 h3 h4 ⊢
  obtain ⟨ok, s'⟩ := p
  cases ok
  · simp only at h1 h2 h3 h4 ⊢
    exact ⟨by simp [h4 trivial], h1, h2, fun b hb => by simp at hb⟩
  · simp only at h1 h2 h3 h4 ⊢
    have hlt := h3 trivial
    refine ⟨?_, h1, h2, fun _ _ => hlt⟩
    rw [← h2, stream, List.head?_append, List.head?_drop, List.getElem?_eq_getElem hlt]; rfl

theorem incr_spec (s : Buffered) (h : Inv s) (hlt : s.cur < s.buf.length) :
    Inv s.incr ∧ stream s.incr = (stream s).tail := by
  obtain ⟨hc, hs, hl, hne⟩ := h
  refine ⟨⟨hc, hs, hl, hne⟩, ?_⟩
  simp only [stream, Buffered.incr]
  rw [List.tail_append_of_ne_nil (by simp; omega), List.tail_drop]

/-- the simulation relation between the parser state and the plain byte list -/
def R (s : Buffered) (l : List UInt8) : Prop := Inv s ∧ stream s = l

/-- **reader_bytes**: every program sees through `ensure_buffer`/`increment_byte` exactly the bytes of the
stream: same answer, and the states stay related -/
theorem reader_bytes {α : Type} (p : Prog α) : ∀ (s : Buffered) (l : List UInt8), R s l →
    (run p s).1 = (run p l).1 ∧ R (run p s).2 (run p l).2 := by
  induction p with
  | ret a => intro s l h; exact ⟨rfl, h⟩
  | step inc k ih =>
    intro s l ⟨hinv, hst⟩
    obtain ⟨h1, h2, h3, h4⟩ := peek_spec s hinv
    simp only [run, Source.peek]
    generalize s.peek = p at h1 h2 h3 h4 ⊢
    obtain ⟨b, s'⟩ := p
    simp only at h1 h2 h3 h4 ⊢
    rw [hst] at h1 h3
    cases l with
    | nil =>
      simp only [List.head?_nil] at h1 ⊢
      subst h1
      exact ih none s' [] ⟨h2, h3⟩
    | cons c t =>
      simp only [List.head?_cons] at h1 ⊢
      subst h1
      simp only
      by_cases hi : inc (some c) = true
      · simp only [hi, if_true, Source.incr, List.tail_cons]
        obtain ⟨h5, h6⟩ := incr_spec s' h2 (h4 c rfl)
        exact ih (some c) s'.incr t ⟨h5, by rw [h6, h3]; rfl⟩
      · simp only [hi]
        exact ih (some c) s' (c :: t) ⟨h2, h3⟩

theorem R_new (chunk : Nat) (sched : Nat → Nat) (input : List UInt8) (hchunk : 1 ≤ chunk)
    (hsched : ∀ k, 1 ≤ sched k) : R (Buffered.new ⟨input, sched, 0⟩ chunk) input := by
  refine ⟨⟨hchunk, hsched, by simp [Buffered.new], Or.inl (by simp [Buffered.new]; exact hchunk)⟩, ?_⟩
  simp [stream, Buffered.new]

/-- **chunk_independent** (main theorem of part 1): for every input, every chunk size ≥ 1 and every
fragmentation schedule with entries ≥ 1 the iterator over the buffered reader yields exactly what the parser
yields on the plain byte list -/
theorem chunk_independent (input : List UInt8) (chunk : Nat) (sched : Nat → Nat)
    (hchunk : 1 ≤ chunk) (hsched : ∀ k, 1 ≤ sched k) :
    readAllBuffered chunk sched input = readAll input :=
  (reader_bytes _ _ _ (R_new chunk sched input hchunk hsched)).1

/-- hence any two chunk sizes / schedules give the same items -/
theorem chunk_independent' (input : List UInt8) (c₁ c₂ : Nat) (s₁ s₂ : Nat → Nat)
    (h₁ : 1 ≤ c₁) (h₂ : 1 ≤ c₂) (hs₁ : ∀ k, 1 ≤ s₁ k) (hs₂ : ∀ k, 1 ≤ s₂ k) :
    readAllBuffered c₁ s₁ input = readAllBuffered c₂ s₂ input := by
  rw [chunk_independent input c₁ s₁ h₁ hs₁, chunk_independent input c₂ s₂ h₂ hs₂]

/-- the same for any fuel (used to transfer `fuel_adequate` to the buffered reader) -/
theorem chunk_independent_fuel (fuel : Nat) (input : List UInt8) (chunk : Nat) (sched : Nat → Nat)
    (hchunk : 1 ≤ chunk) (hsched : ∀ k, 1 ≤ sched k) :
    (run (readAllProg fuel) (Buffered.new ⟨input, sched, 0⟩ chunk)).1 = (run (readAllProg fuel) input).1 :=
  (reader_bytes _ _ _ (R_new chunk sched input hchunk hsched)).1

#print axioms reader_bytes
#print axioms chunk_independent
#print axioms chunk_independent'

/-- the hypotheses are satisfiable by a non-trivial value: chunk 3, reads of 2,1,5,2,1,5,… bytes -/
example : readAllBuffered 3 (fun k => [2, 1, 5].getD (k % 3) 1) "[a \"b\"]\n\ne4 *".toUTF8.toList
    = readAll "[a \"b\"]\n\ne4 *".toUTF8.toList :=
  chunk_independent _ 3 _ (by decide) (fun k => by
    have : k % 3 < 3 := Nat.mod_lt _ (by decide)
    generalize k % 3 = j at this
    match j, this with
    | 0, _ => decide
    | 1, _ => decide
    | 2, _ => decide)

/-! ## Programs on the plain byte list -/

abbrev Bytes := List UInt8

@[simp] theorem run_ret {α : Type} (a : α) (l : Bytes) : run (Prog.ret a) l = (a, l) := rfl
theorem run_step_nil {α : Type} (inc : Option UInt8 → Bool) (k : Option UInt8 → Prog α) :
    run (Prog.step inc k) ([] : Bytes) = run (k none) ([] : Bytes) := rfl
theorem run_step_cons {α : Type} (inc : Option UInt8 → Bool) (k : Option UInt8 → Prog α) (b : UInt8) (t : Bytes) :
    run (Prog.step inc k) (b :: t) = run (k (some b)) (if inc (some b) then t else b :: t) := rfl

theorem run_pbind {σ : Type} [Source σ] {α β : Type} (p : Prog α) (f : α → Prog β) :
    ∀ s : σ, run (p.bind f) s = run (f (run p s).1) (run p s).2 := by
  induction p with
  | ret a => intro s; rfl
  | step inc k ih =>
    intro s
    simp only [Prog.bind, run]
    split <;> simp [ih]

@[simp] theorem run_mpure {α : Type} (a : α) (l : Bytes) : run (M.pure a : M α) l = (.ok a, l) := rfl
@[simp] theorem run_throw {α : Type} (e : Err) (l : Bytes) : run (M.throw e : M α) l = (.error e, l) := rfl

theorem run_mbind {α β : Type} (p : M α) (f : α → M β) (l : Bytes) :
    run (p >>=ₑ f) l = match run p l with
      | (.ok a, l') => run (f a) l'
      | (.error e, l') => (.error e, l') := by
  show run (Prog.bind p _) l = _
  rw [run_pbind]
  generalize run p l = r
  obtain ⟨r, l'⟩ := r
  cases r <;> rfl

@[simp] theorem run_peekByte_nil : run peekByte ([] : Bytes) = (.error .closed, []) := rfl
@[simp] theorem run_peekByte_cons (b : UInt8) (t : Bytes) : run peekByte (b :: t) = (.ok b, b :: t) := rfl
@[simp] theorem run_popByte_nil : run popByte ([] : Bytes) = (.error .closed, []) := rfl
@[simp] theorem run_popByte_cons (b : UInt8) (t : Bytes) : run popByte (b :: t) = (.ok b, t) := rfl
@[simp] theorem run_skipByte_nil : run skipByte ([] : Bytes) = (.error .closed, []) := rfl
@[simp] theorem run_skipByte_cons (b : UInt8) (t : Bytes) : run skipByte (b :: t) = (.ok (), t) := rfl

theorem run_consume_nil (c : UInt8) : run (consume c) ([] : Bytes) = (.error .closed, []) := by
  simp [consume, run_mbind]
theorem run_consume_cons (c b : UInt8) (t : Bytes) :
    run (consume c) (b :: t) = (if b = c then .ok () else .error .consume, t) := by
  simp only [consume, run_mbind, run_popByte_cons]
  split <;> simp

theorem run_mbind_ok {α β : Type} {p : M α} {f : α → M β} {l l' : Bytes} {a : α}
    (h : run p l = (.ok a, l')) : run (p >>=ₑ f) l = run (f a) l' := by
  rw [run_mbind, h]
theorem run_mbind_err {α β : Type} {p : M α} {f : α → M β} {l l' : Bytes} {e : Err}
    (h : run p l = (.error e, l')) : run (p >>=ₑ f) l = (.error e, l') := by
  rw [run_mbind, h]

theorem run_attempt {α : Type} (p : M α) (l : Bytes) :
    run (M.attempt p) l = (.ok (run p l).1, (run p l).2) := by
  simp [M.attempt, run_pbind]

/-- a program never un-reads: what is left is no longer than what it started with -/
theorem run_length_le {α : Type} (p : Prog α) : ∀ l : Bytes, (run p l).2.length ≤ l.length := by
  induction p with
  | ret a => intro l; simp
  | step inc k ih =>
    intro l
    cases l with
    | nil => rw [run_step_nil]; exact ih none []
    | cons b t =>
      rw [run_step_cons]
      split
      · exact Nat.le_trans (ih _ t) (by simp)
      · exact ih _ _

/-! ### The byte-level loops on the plain byte list (for any sufficient fuel) -/

def isSp (c : UInt8) : Bool := c = SP
def isNl (c : UInt8) : Bool := c = NL
def isBlank (c : UInt8) : Bool := c = NL || c = SP

theorem skipSpaces_spec : ∀ (n : Nat) (l : Bytes), l.length < n →
    run (skipSpaces n) l = (if l.dropWhile isSp = [] then .error .closed else .ok (), l.dropWhile isSp) := by
  intro n
  induction n with
  | zero => intro l h; omega
  | succ n ih =>
    intro l h
    cases l with
    | nil => simp [skipSpaces, run_mbind]
    | cons b t =>
      simp only [skipSpaces, run_mbind, run_peekByte_cons]
      by_cases hb : b = SP
      · simp only [hb, if_true, run_mbind, run_skipByte_cons]
        rw [ih t (by simpa using h)]
        simp [isSp]
      · simp [hb, isSp]

theorem skipBlankLines_spec : ∀ (n : Nat) (l : Bytes), l.length < n →
    run (skipBlankLines n) l = (if l.dropWhile isNl = [] then .error .closed else .ok (), l.dropWhile isNl) := by
  intro n
  induction n with
  | zero => intro l h; omega
  | succ n ih =>
    intro l h
    cases l with
    | nil => simp [skipBlankLines, run_mbind]
    | cons b t =>
      simp only [skipBlankLines, run_mbind, run_peekByte_cons]
      by_cases hb : b = NL
      · simp only [hb, if_true, run_mbind, run_skipByte_cons]
        rw [ih t (by simpa using h)]
        simp [isNl]
      · simp [hb, isNl]

theorem skipBLS_spec : ∀ (n : Nat) (l : Bytes), l.length < n →
    run (skipBlankLinesAndSpaces n) l =
      (if l.dropWhile isBlank = [] then .error .closed else .ok (), l.dropWhile isBlank) := by
  intro n
  induction n with
  | zero => intro l h; omega
  | succ n ih =>
    intro l h
    cases l with
    | nil => simp [skipBlankLinesAndSpaces, run_mbind]
    | cons b t =>
      simp only [skipBlankLinesAndSpaces, run_mbind, run_peekByte_cons]
      by_cases hb : b = NL
      · simp only [hb, if_true, run_mbind, run_skipByte_cons]
        rw [ih t (by simpa using h)]
        simp [isBlank]
      · by_cases hb2 : b = SP
        · rw [if_neg hb]
          simp only [run_mbind, run_peekByte_cons]
          rw [if_pos hb2]
          simp only [run_mbind, run_skipByte_cons]
          rw [ih t (by simpa using h)]
          simp [isBlank, hb2]
        · rw [if_neg hb]
          simp only [run_mbind, run_peekByte_cons]
          rw [if_neg hb2]
          simp [hb, hb2, isBlank]

def notNl (c : UInt8) : Bool := c ≠ NL

theorem skipToNextLine_spec : ∀ (n : Nat) (l : Bytes), l.length < n →
    run (skipToNextLine n) l =
      (if l.dropWhile notNl = [] then .error .closed else .ok (), (l.dropWhile notNl).tail) := by
  intro n
  induction n with
  | zero => intro l h; omega
  | succ n ih =>
    intro l h
    cases l with
    | nil => simp [skipToNextLine, run_mbind]
    | cons b t =>
      simp only [skipToNextLine, run_mbind, run_popByte_cons]
      by_cases hb : b = NL
      · simp [hb, notNl]
      · simp only [ne_eq, hb, not_false_eq_true, if_true]
        rw [ih t (by simpa using h)]
        simp [notNl, hb]

theorem readUntilLoop_spec (c : UInt8) : ∀ (n : Nat) (acc : Bytes) (b : UInt8) (t : Bytes), (b :: t).length < n →
    run (readUntilLoop c n acc b) (b :: t) =
      (if (b :: t).dropWhile (· ≠ c) = [] then .error .closed else .ok (acc ++ (b :: t).takeWhile (· ≠ c)),
       (b :: t).dropWhile (· ≠ c)) := by
  intro n
  induction n with
  | zero => intro acc b t h; omega
  | succ n ih =>
    intro acc b t h
    by_cases hb : b = c
    · simp [readUntilLoop, hb]
    · simp only [readUntilLoop, ne_eq, hb, not_false_eq_true, if_true, run_mbind, run_skipByte_cons]
      cases t with
      | nil => simp [hb]
      | cons b' t' =>
        simp only [run_peekByte_cons]
        rw [ih _ b' t' (by simpa using h)]
        simp [hb]

theorem readUntil_spec (c : UInt8) (n : Nat) (l : Bytes) (h : l.length < n) :
    run (readUntil n c) l =
      (if l.dropWhile (· ≠ c) = [] then .error .closed else .ok (l.takeWhile (· ≠ c)), l.dropWhile (· ≠ c)) := by
  cases l with
  | nil => simp [readUntil, run_mbind]
  | cons b t =>
    simp only [readUntil, run_mbind, run_peekByte_cons]
    rw [readUntilLoop_spec c n [] b t h]
    simp

theorem readTokenLoop_spec : ∀ (n : Nat) (acc : Bytes) (l : Bytes), l.length < n →
    run (readTokenLoop n acc) l = (acc ++ l.takeWhile (fun c => !isBlank c), l.dropWhile (fun c => !isBlank c)) := by
  intro n
  induction n with
  | zero => intro acc l h; omega
  | succ n ih =>
    intro acc l h
    cases l with
    | nil => simp [readTokenLoop, run_step_nil]
    | cons b t =>
      simp only [readTokenLoop, run_step_cons]
      by_cases hb : (b = SP || b = NL) = true
      · have hb' : isBlank b = true := by simp [isBlank] at hb ⊢; exact hb.symm
        simp [hb, hb']
      · have hb' : isBlank b = false := by simp [isBlank] at hb ⊢; exact ⟨hb.2, hb.1⟩
        simp only [hb, Bool.not_false, if_true, Bool.false_eq_true, if_false]
        rw [ih _ t (by simpa using h)]
        simp [hb']

theorem readToken_spec (n : Nat) (l : Bytes) (h : l.length < n) :
    run (readToken n) l = (.ok (l.takeWhile (fun c => !isBlank c)), l.dropWhile (fun c => !isBlank c)) := by
  simp [readToken, run_pbind, readTokenLoop_spec n [] l h]

/-! ### Fuel adequacy: any fuel above the input length gives the same run -/

def Stable {α : Type} (p : Nat → Prog α) : Prop :=
  ∀ (l : Bytes) (n m : Nat), l.length < n → l.length < m → run (p n) l = run (p m) l

theorem stable_const {α : Type} (p : Prog α) : Stable (fun _ => p) := fun _ _ _ _ _ => rfl

theorem stable_pbind {α β : Type} {p : Nat → Prog α} {q : Nat → α → Prog β}
    (hp : Stable p) (hq : ∀ a, Stable (fun n => q n a)) : Stable (fun n => (p n).bind (q n)) := by
  intro l n m hn hm
  simp only [run_pbind]
  rw [hp l n m hn hm]
  have := run_length_le (p m) l
  exact hq _ _ n m (by omega) (by omega)

theorem stable_mbind {α β : Type} {p : Nat → M α} {q : Nat → α → M β}
    (hp : Stable p) (hq : ∀ a, Stable (fun n => q n a)) : Stable (fun n => p n >>=ₑ q n) := by
  unfold M.bind
  refine stable_pbind hp ?_
  intro r
  cases r with
  | error e => exact stable_const _
  | ok a => exact hq a

theorem stable_ite {α : Type} (c : Prop) [Decidable c] {p q : Nat → Prog α}
    (hp : Stable p) (hq : Stable q) : Stable (fun n => if c then p n else q n) := by
  by_cases h : c
  · simpa [h] using hp
  · simpa [h] using hq

theorem stable_attempt {α : Type} {p : Nat → M α} (hp : Stable p) : Stable (fun n => M.attempt (p n)) :=
  stable_pbind hp fun _ => stable_const _

theorem stable_skipSpaces : Stable skipSpaces := fun l n m hn hm => by
  rw [skipSpaces_spec n l hn, skipSpaces_spec m l hm]
theorem stable_skipBlankLines : Stable skipBlankLines := fun l n m hn hm => by
  rw [skipBlankLines_spec n l hn, skipBlankLines_spec m l hm]
theorem stable_skipBLS : Stable skipBlankLinesAndSpaces := fun l n m hn hm => by
  rw [skipBLS_spec n l hn, skipBLS_spec m l hm]
theorem stable_skipToNextLine : Stable skipToNextLine := fun l n m hn hm => by
  rw [skipToNextLine_spec n l hn, skipToNextLine_spec m l hm]
theorem stable_readUntil (c : UInt8) : Stable (fun n => readUntil n c) := fun l n m hn hm => by
  rw [readUntil_spec c n l hn, readUntil_spec c m l hm]
theorem stable_readToken : Stable readToken := fun l n m hn hm => by
  rw [readToken_spec n l hn, readToken_spec m l hm]

theorem stable_readTagValue : Stable readTagValue :=
  stable_mbind (stable_const _) fun _ =>
  stable_mbind (stable_attempt (stable_readUntil 34)) fun _ => stable_const _

theorem stable_readTagPairLine : Stable readTagPairLine :=
  stable_mbind (stable_const _) fun _ =>
  stable_mbind (stable_readUntil SP) fun _ =>
  stable_mbind (stable_const _) fun _ =>
  stable_mbind stable_readTagValue fun _ => stable_const _

theorem stable_readBraced : Stable readBracedAnnotation :=
  stable_mbind (stable_const _) fun _ =>
  stable_mbind (stable_attempt (stable_readUntil 125)) fun _ => stable_const _

theorem stable_readSemicolon : Stable readSemicolonAnnotation :=
  stable_mbind (stable_const _) fun _ =>
  stable_mbind (stable_attempt (stable_readUntil NL)) fun _ => stable_const _

theorem stable_readMove : Stable readMove :=
  stable_mbind stable_skipBLS fun _ =>
  stable_mbind stable_readToken fun _ =>
  stable_ite _ (stable_const _) <|
  stable_mbind (stable_ite _ (stable_mbind stable_skipSpaces fun _ => stable_readToken) (stable_const _)) fun _ =>
  stable_mbind stable_skipSpaces fun _ =>
  stable_mbind (stable_const _) fun _ =>
  stable_mbind
    (stable_ite _ (stable_mbind stable_readBraced fun _ => stable_const _) <|
     stable_ite _ (stable_mbind stable_readSemicolon fun _ => stable_const _) (stable_const _))
    fun _ => stable_const _

/-- a program that starts with `consume` and succeeds has consumed at least one byte -/
theorem consume_bind_decreases {α : Type} (c : UInt8) (f : Unit → M α) (l l' : Bytes) (a : α)
    (h : run (consume c >>=ₑ f) l = (.ok a, l')) : l'.length < l.length := by
  cases l with
  | nil => simp [run_mbind, run_consume_nil] at h
  | cons b t =>
    rw [run_mbind, run_consume_cons] at h
    by_cases hb : b = c
    · simp only [hb, if_true] at h
      have := run_length_le (f ()) t
      rw [h] at this
      simp at this ⊢; omega
    · simp [hb] at h

theorem readTagPairLine_decreases (N : Nat) (l l' : Bytes) (kv : Bytes × Bytes)
    (h : run (readTagPairLine N) l = (.ok kv, l')) : l'.length < l.length :=
  consume_bind_decreases _ _ _ _ _ h

theorem stable_readTagPairsLoop : ∀ (k k' N N' : Nat) (acc : List (Bytes × Bytes)) (l : Bytes),
    l.length < k → l.length < k' → l.length < N → l.length < N' →
    run (readTagPairsLoop N k acc) l = run (readTagPairsLoop N' k' acc) l := by
  intro k
  induction k with
  | zero => intro k' N N' acc l h; omega
  | succ k ih =>
    intro k' N N' acc l hk hk' hN hN'
    cases k' with
    | zero => omega
    | succ k' =>
      cases l with
      | nil => simp [readTagPairsLoop, run_mbind]
      | cons b t =>
        simp only [readTagPairsLoop, run_mbind, run_peekByte_cons]
        by_cases hb : b = 91
        · simp only [hb, if_true, run_mbind]
          rw [← hb, stable_readTagPairLine (b :: t) N N' hN hN']
          generalize hr : run (readTagPairLine N') (b :: t) = r
          obtain ⟨r, l'⟩ := r
          cases r with
          | error e => rfl
          | ok kv =>
            have hd := readTagPairLine_decreases _ _ _ _ hr
            simp only [List.length_cons] at hd hk hk' hN hN'
            exact ih k' N N' _ l' (by omega) (by omega) (by omega) (by omega)
        · simp [hb]

theorem stable_readTagPairs : Stable readTagPairs := fun l n m hn hm =>
  stable_readTagPairsLoop n m n m [] l hn hm hn hm

theorem length_dropWhile_le (p : UInt8 → Bool) (l : Bytes) : (l.dropWhile p).length ≤ l.length :=
  (List.dropWhile_sublist p).length_le

theorem dropWhile_isBlank_head (l : Bytes) (c : UInt8) (t : Bytes) (h : l.dropWhile isBlank = c :: t) :
    isBlank c = false := by
  have := List.head_dropWhile_not isBlank (l := l) (by simp [h])
  simpa [h] using this

theorem readMove_decreases (N : Nat) (l l' : Bytes) (mv : RawMove) (hN : l.length < N)
    (h : run (readMove N) l = (.ok (some mv), l')) : l'.length < l.length := by
  unfold readMove at h
  rw [run_mbind, skipBLS_spec N l hN] at h
  generalize hd : l.dropWhile isBlank = d at h
  cases d with
  | nil => simp at h
  | cons c t =>
    have hc := dropWhile_isBlank_head l c t hd
    have hlen : (c :: t).length ≤ l.length := by rw [← hd]; exact length_dropWhile_le _ _
    simp only [reduceCtorEq, if_false] at h
    rw [run_mbind, readToken_spec N (c :: t) (by omega)] at h
    simp only at h
    have h2 : ((c :: t).dropWhile (fun c => !isBlank c)).length ≤ t.length := by
      simp only [List.dropWhile_cons, hc, Bool.not_false, if_true]
      exact length_dropWhile_le _ _
    have h3 := run_length_le
      (if isResultToken ((c :: t).takeWhile (fun c => !isBlank c)) then M.pure none
       else
        (if ((c :: t).takeWhile (fun c => !isBlank c)).contains 46 then skipSpaces N >>ₑ readToken N
          else M.pure ((c :: t).takeWhile (fun c => !isBlank c))) >>=ₑ fun mv =>
        skipSpaces N >>ₑ
        peekByte >>=ₑ fun byte =>
        (if byte = 123 then readBracedAnnotation N >>=ₑ fun a => M.pure (some a)
         else if byte = 59 then readSemicolonAnnotation N >>=ₑ fun a => M.pure (some a)
         else M.pure none) >>=ₑ fun annotation =>
        M.pure (some (⟨mv, annotation⟩ : RawMove)))
      ((c :: t).dropWhile (fun c => !isBlank c))
    rw [h] at h3
    simp only [List.length_cons] at hlen h3 ⊢
    omega

theorem stable_readMovesLoop : ∀ (k k' N N' : Nat) (acc : List RawMove) (l : Bytes),
    l.length < k → l.length < k' → l.length < N → l.length < N' →
    run (readMovesLoop N k acc) l = run (readMovesLoop N' k' acc) l := by
  intro k
  induction k with
  | zero => intro k' N N' acc l h; omega
  | succ k ih =>
    intro k' N N' acc l hk hk' hN hN'
    cases k' with
    | zero => omega
    | succ k' =>
      simp only [readMovesLoop, run_mbind]
      rw [stable_readMove l N N' hN hN']
      generalize hr : run (readMove N') l = r
      obtain ⟨r, l'⟩ := r
      cases r with
      | error e => rfl
      | ok m =>
        cases m with
        | none => rfl
        | some mv =>
          have hd := readMove_decreases _ _ _ _ hN' hr
          exact ih k' N N' _ l' (by omega) (by omega) (by omega) (by omega)

theorem stable_readMoves : Stable readMoves :=
  stable_mbind (fun l n m hn hm => stable_readMovesLoop n m n m [] l hn hm hn hm) fun _ =>
  stable_mbind (stable_attempt stable_skipToNextLine) fun _ => stable_const _

theorem stable_readPgn : Stable readPgn :=
  stable_mbind stable_readTagPairs fun _ =>
  stable_mbind stable_skipBlankLines fun _ =>
  stable_mbind stable_readMoves fun _ => stable_const _

theorem stable_next : Stable next := by
  unfold next
  refine stable_pbind stable_skipBLS ?_
  intro r
  match r with
  | .ok () => exact stable_pbind stable_readPgn fun _ => stable_const _
  | .error .closed => exact stable_const _
  | .error .consume => exact stable_const _
  | .error .symbol => exact stable_const _

theorem decr_mbind {α β : Type} (p : M α) (f : α → M β) (l : Bytes)
    (hp : ∀ a l', run p l = (.ok a, l') → l'.length < l.length) :
    ∀ b l', run (p >>=ₑ f) l = (.ok b, l') → l'.length < l.length := by
  intro b l' h
  rw [run_mbind] at h
  generalize hr : run p l = r at h
  obtain ⟨r, l1⟩ := r
  cases r with
  | error e => simp at h
  | ok a =>
    have h1 := hp a l1 hr
    have h2 := run_length_le (f a) l1
    simp only at h
    rw [h] at h2
    simp only at h2
    omega

theorem next_decreases (N : Nat) (l l' : Bytes) (g : RawGame) (hN : l.length < N)
    (h : run (next N) l = (some (.ok g), l')) : l'.length < l.length := by
  unfold next at h
  rw [run_pbind, skipBLS_spec N l hN] at h
  generalize hd : l.dropWhile isBlank = d at h
  cases d with
  | nil => simp at h
  | cons c t =>
    have hc := dropWhile_isBlank_head l c t hd
    have hlen : (c :: t).length ≤ l.length := by rw [← hd]; exact length_dropWhile_le _ _
    simp only [reduceCtorEq, if_false, run_pbind, run_ret] at h
    have hg : run (readPgn N) (c :: t) = (.ok g, l') := by
      generalize run (readPgn N) (c :: t) = r at h
      obtain ⟨r, l1⟩ := r
      simp only [Prod.mk.injEq, Option.some.injEq] at h
      rw [h.1, h.2]
    suffices l'.length < (c :: t).length by omega
    revert hg
    unfold readPgn readTagPairs
    apply decr_mbind
    cases N with
    | zero => omega
    | succ N' =>
      intro a l1 h1
      simp only [readTagPairsLoop, run_mbind, run_peekByte_cons] at h1
      by_cases hb : c = 91
      · simp only [hb, if_true] at h1
        rw [← hb] at h1
        exact decr_mbind _ _ _ (fun kv l2 h2 => readTagPairLine_decreases _ _ _ _ h2) a l1 h1
      · have hnl : c ≠ NL := by
          intro h0; simp [isBlank, h0] at hc
        simp [hb, hnl] at h1

theorem stable_readAllLoop : ∀ (k k' N N' : Nat) (acc : List Item) (l : Bytes),
    l.length < k → l.length < k' → l.length < N → l.length < N' →
    run (readAllLoop N k acc) l = run (readAllLoop N' k' acc) l := by
  intro k
  induction k with
  | zero => intro k' N N' acc l h; omega
  | succ k ih =>
    intro k' N N' acc l hk hk' hN hN'
    cases k' with
    | zero => omega
    | succ k' =>
      simp only [readAllLoop, run_pbind]
      rw [stable_next l N N' hN hN']
      generalize hr : run (next N') l = r
      obtain ⟨r, l'⟩ := r
      match r, hr with
      | none, _ => rfl
      | some (.error e), _ => rfl
      | some (.ok g), hr =>
        have hd := next_decreases _ _ _ _ hN' hr
        exact ih k' N N' _ l' (by omega) (by omega) (by omega) (by omega)

/-- **fuel_adequate**: the fuel `input.length + 1` used by `readAll` never runs out – every larger fuel gives
the same items -/
theorem fuel_adequate (input : Bytes) (fuel : Nat) (h : input.length < fuel) :
    (run (readAllProg fuel) input).1 = readAll input := by
  unfold readAll readAllProg
  rw [stable_readAllLoop fuel (input.length + 1) fuel (input.length + 1) [] input h (by omega) h (by omega)]

/-! ## Part 2: the reader inverts the Lichess-layout printer -/

open Inkayaku.PgnLayout

@[simp] theorem SP_eq : SP = 32 := rfl
@[simp] theorem NL_eq : NL = 10 := rfl

theorem run_consume_same (c : UInt8) (t : Bytes) : run (consume c) (c :: t) = (.ok (), t) := by
  simp [run_consume_cons]

theorem takeWhile_append_stop (p : UInt8 → Bool) (pre r : Bytes) (hpre : ∀ a ∈ pre, p a = true)
    (hr : ∀ b, r.head? = some b → p b = false) :
    (pre ++ r).takeWhile p = pre ∧ (pre ++ r).dropWhile p = r := by
  rw [List.takeWhile_append_of_pos hpre, List.dropWhile_append_of_pos hpre]
  cases r with
  | nil => simp
  | cons b r' => simp [hr b rfl]

theorem readUntil_append (c : UInt8) (n : Nat) (pre r : Bytes) (hpre : c ∉ pre)
    (hn : (pre ++ c :: r).length < n) : run (readUntil n c) (pre ++ c :: r) = (.ok pre, c :: r) := by
  rw [readUntil_spec c n _ hn]
  obtain ⟨h1, h2⟩ := takeWhile_append_stop (· ≠ c) pre (c :: r)
    (fun a ha => by simp; intro h; exact hpre (h ▸ ha)) (fun b hb => by simp at hb; simp [hb])
  rw [h1, h2]; simp

theorem readToken_append (n : Nat) (tok r : Bytes) (htok : ∀ a ∈ tok, isBlank a = false)
    (hr : ∀ b, r.head? = some b → isBlank b = true)
    (hn : (tok ++ r).length < n) : run (readToken n) (tok ++ r) = (.ok tok, r) := by
  rw [readToken_spec n _ hn]
  obtain ⟨h1, h2⟩ := takeWhile_append_stop (fun c => !isBlank c) tok r
    (fun a ha => by simp [htok a ha]) (fun b hb => by simp [hr b hb])
  rw [h1, h2]

theorem readTagValue_spec (N : Nat) (v rest : Bytes) (hv : (34 : UInt8) ∉ v)
    (hN : (34 :: (v ++ 34 :: rest)).length < N) :
    run (readTagValue N) (34 :: (v ++ 34 :: rest)) = (.ok v, rest) := by
  unfold readTagValue
  rw [run_mbind_ok (run_consume_same _ _)]
  rw [run_mbind_ok (a := .ok v) (l' := 34 :: rest)]
  · rw [run_mbind_ok (run_consume_same _ _)]; rfl
  · rw [run_attempt, readUntil_append 34 N v rest hv (by simp at hN ⊢; omega)]

theorem readTagPairLine_spec (N : Nat) (k v rest : Bytes) (hk : (32 : UInt8) ∉ k) (hv : (34 : UInt8) ∉ v)
    (hN : (renderTag (k, v) ++ rest).length < N) :
    run (readTagPairLine N) (renderTag (k, v) ++ rest) = (.ok (k, v), rest) := by
  have e : renderTag (k, v) ++ rest = 91 :: (k ++ 32 :: 34 :: (v ++ 34 :: 93 :: 10 :: rest)) := by
    simp [renderTag]
  rw [e] at hN ⊢
  unfold readTagPairLine readTagName
  simp only [SP_eq, NL_eq]
  rw [run_mbind_ok (run_consume_same _ _)]
  rw [run_mbind_ok (readUntil_append 32 N k _ hk (by simp at hN ⊢; omega))]
  rw [run_mbind_ok (run_consume_same _ _)]
  rw [run_mbind_ok (readTagValue_spec N v _ hv (by simp at hN ⊢; omega))]
  rw [run_mbind_ok (run_consume_same _ _)]
  rw [run_mbind_ok (run_consume_same _ _)]
  rfl

theorem tagInsert_fresh (k v : Bytes) : ∀ (acc : List (Bytes × Bytes)), k ∉ acc.map (·.1) →
    tagInsert k v acc = acc ++ [(k, v)] := by
  intro acc
  induction acc with
  | nil => intro _; rfl
  | cons a acc ih =>
    intro h
    simp only [List.map_cons, List.mem_cons, not_or] at h
    obtain ⟨k', v'⟩ := a
    simp only [tagInsert]
    rw [if_neg (fun h' => h.1 h'.symm), ih h.2]
    rfl

theorem readTagPairsLoop_spec (N : Nat) : ∀ (ts : List (Bytes × Bytes)) (k : Nat) (acc : List (Bytes × Bytes))
    (rest : Bytes), (∀ t ∈ ts, (32 : UInt8) ∉ t.1 ∧ (34 : UInt8) ∉ t.2) → ((acc ++ ts).map (·.1)).Nodup →
    (renderTags ts ++ 10 :: rest).length < N → (renderTags ts ++ 10 :: rest).length < k →
    run (readTagPairsLoop N k acc) (renderTags ts ++ 10 :: rest) = (.ok (acc ++ ts), 10 :: rest) := by
  intro ts
  induction ts with
  | nil =>
    intro k acc rest _ _ _ hk
    cases k with
    | zero => omega
    | succ k => simp [renderTags, readTagPairsLoop, run_mbind]
  | cons t ts ih =>
    intro k acc rest hwf hnd hN hk
    obtain ⟨tk, tv⟩ := t
    have e : renderTags ((tk, tv) :: ts) ++ 10 :: rest = renderTag (tk, tv) ++ (renderTags ts ++ 10 :: rest) := by
      simp [renderTags]
    rw [e] at hN hk ⊢
    cases k with
    | zero => omega
    | succ k =>
      have e2 : renderTag (tk, tv) ++ (renderTags ts ++ 10 :: rest)
          = 91 :: (tk ++ 32 :: 34 :: (tv ++ 34 :: 93 :: 10 :: (renderTags ts ++ 10 :: rest))) := by
        simp [renderTag]
      have hlen : (renderTags ts ++ 10 :: rest).length + 1 ≤ (renderTag (tk, tv) ++ (renderTags ts ++ 10 :: rest)).length := by
        rw [e2]; simp; omega
      unfold readTagPairsLoop
      rw [run_mbind_ok (a := 91) (l' := renderTag (tk, tv) ++ (renderTags ts ++ 10 :: rest)) (by rw [e2]; rfl)]
      simp only [if_true]
      have hw := hwf (tk, tv) (by simp)
      rw [run_mbind_ok (readTagPairLine_spec N tk tv _ hw.1 hw.2 hN)]
      simp only
      have hfresh : tk ∉ acc.map (·.1) := by
        intro hmem
        simp only [List.map_append, List.map_cons] at hnd
        have := (List.nodup_append.mp hnd).2.2 tk hmem tk (by simp)
        exact this rfl
      rw [tagInsert_fresh tk tv acc hfresh]
      have := ih k (acc ++ [(tk, tv)]) rest (fun t ht => hwf t (by simp [ht])) (by simpa using hnd)
        (by omega) (by omega)
      simpa using this

/-! ### Moves -/

def toRawMove (m : Move) : RawMove := ⟨m.san, m.comment⟩
def toRaw (g : Game) : RawGame := ⟨g.tags, g.moves.map toRawMove⟩

/-- starts with a byte that is neither blank nor the start of an annotation -/
def GoodStart (l : Bytes) : Prop := ∃ c t, l = c :: t ∧ c ≠ 32 ∧ c ≠ 10 ∧ c ≠ 123 ∧ c ≠ 59

def GoodByte (c : UInt8) : Prop := c ≠ 32 ∧ c ≠ 10 ∧ c ≠ 46 ∧ c ≠ 123 ∧ c ≠ 59
instance (c : UInt8) : Decidable (GoodByte c) := by unfold GoodByte; infer_instance

theorem digit_good : ∀ (d : Nat), d < 10 → GoodByte (UInt8.ofNat (48 + d))
  | 0, _ => by decide
  | 1, _ => by decide
  | 2, _ => by decide
  | 3, _ => by decide
  | 4, _ => by decide
  | 5, _ => by decide
  | 6, _ => by decide
  | 7, _ => by decide
  | 8, _ => by decide
  | 9, _ => by decide
  | n + 10, h => by omega

theorem decimalAux_good : ∀ (fuel n : Nat) (acc : Bytes), (∀ a ∈ acc, GoodByte a) →
    (∀ a ∈ decimalAux fuel n acc, GoodByte a) ∧ (acc ≠ [] ∨ 0 < fuel → decimalAux fuel n acc ≠ []) := by
  intro fuel
  induction fuel with
  | zero => intro n acc h; exact ⟨h, fun h' => by simpa [decimalAux] using h'⟩
  | succ f ih =>
    intro n acc h
    have hacc' : ∀ a ∈ UInt8.ofNat (48 + n % 10) :: acc, GoodByte a := by
      intro a ha
      rcases List.mem_cons.mp ha with h1 | h1
      · rw [h1]; exact digit_good _ (Nat.mod_lt _ (by decide))
      · exact h a h1
    simp only [decimalAux]
    split
    · exact ⟨hacc', fun _ => by simp⟩
    · exact ⟨(ih _ _ hacc').1, fun _ => (ih _ _ hacc').2 (Or.inl (by simp))⟩

theorem decimal_good (n : Nat) : (∀ a ∈ decimal n, GoodByte a) ∧ decimal n ≠ [] :=
  ⟨(decimalAux_good _ _ [] (by simp)).1, (decimalAux_good _ _ [] (by simp)).2 (Or.inr (by omega))⟩

/-- a move-number token: non-empty, contains `.`, made of digits and `.` only -/
def NumTok (t : Bytes) : Prop :=
  (∃ c r, t = c :: r ∧ GoodByte c) ∧ (∀ a ∈ t, isBlank a = false) ∧ t.contains 46 = true

theorem numTok_decimal (n : Nat) (dots : Bytes) (hd : dots = [46] ∨ dots = [46, 46, 46]) :
    NumTok (decimal n ++ dots) := by
  obtain ⟨h1, h2⟩ := decimal_good n
  refine ⟨?_, ?_, ?_⟩
  · cases hdn : decimal n with
    | nil => exact absurd hdn h2
    | cons c r => exact ⟨c, r ++ dots, by simp, h1 c (by simp [hdn])⟩
  · intro a ha
    rcases List.mem_append.mp ha with h | h
    · have := h1 a h
      simp [isBlank, this.1, this.2.1]
    · have : a = 46 := by rcases hd with h' | h' <;> simp [h'] at h <;> exact h
      rw [this]; decide
  · rcases hd with h' | h' <;> simp [h']

theorem numberPrefix_cases (nb : Bool) (i : Nat) :
    numberPrefix nb i = [] ∨ ∃ t, numberPrefix nb i = t ++ [32] ∧ NumTok t := by
  unfold numberPrefix
  cases nb with
  | false => exact Or.inl rfl
  | true =>
    simp only [if_true]
    split
    · exact Or.inr ⟨decimal (i / 2 + 1) ++ [46], by simp, numTok_decimal _ _ (Or.inl rfl)⟩
    · exact Or.inr ⟨decimal (i / 2 + 1) ++ [46, 46, 46], by simp, numTok_decimal _ _ (Or.inr rfl)⟩

def afterSan (m : Move) (more : Bytes) : Bytes :=
  match m.comment with
  | none => more
  | some c => 123 :: (c ++ 125 :: 32 :: more)

theorem afterSan_length (m : Move) (more : Bytes) : more.length ≤ (afterSan m more).length := by
  unfold afterSan
  cases m.comment <;> simp <;> omega

theorem renderMove_eq (i : Nat) (m : Move) (more : Bytes) :
    renderMove i m ++ more = numberPrefix m.numbered i ++ (m.san ++ 32 :: afterSan m more) := by
  unfold renderMove afterSan renderComment
  cases m.comment <;> simp

theorem skipBLS_blanks (N : Nat) (pre : Bytes) (c : UInt8) (t : Bytes) (hpre : ∀ a ∈ pre, isBlank a = true)
    (hc : isBlank c = false) (hN : (pre ++ c :: t).length < N) :
    run (skipBlankLinesAndSpaces N) (pre ++ c :: t) = (.ok (), c :: t) := by
  rw [skipBLS_spec N _ hN, List.dropWhile_append_of_pos hpre]
  simp [hc]

theorem skipSpaces_one (N : Nat) (c : UInt8) (t : Bytes) (hc : c ≠ 32) (hN : (32 :: c :: t).length < N) :
    run (skipSpaces N) (32 :: c :: t) = (.ok (), c :: t) := by
  rw [skipSpaces_spec N _ hN]
  simp [isSp, hc]

theorem isResultToken_no_dot (t : Bytes) (h : t.contains 46 = true) : isResultToken t = false := by
  cases hr : isResultToken t with
  | false => rfl
  | true =>
    simp only [isResultToken, Bool.or_eq_true, decide_eq_true_eq] at hr
    rcases hr with ((h1 | h1) | h1) | h1 <;> (rw [h1] at h; exact absurd h (by decide))

theorem san_facts (s : Bytes) (h : WFSan s) :
    (∀ a ∈ s, isBlank a = false) ∧ isResultToken s = false ∧ s.contains 46 = false ∧
    ∃ c r, s = c :: r ∧ c ≠ 32 ∧ c ≠ 10 ∧ c ≠ 123 ∧ c ≠ 59 := by
  obtain ⟨h1, h2, h3, h4, h5, h6, h7⟩ := h
  refine ⟨?_, ?_, ?_, ?_⟩
  · intro a ha
    have ha1 : a ≠ 32 := fun h' => h2 (h' ▸ ha)
    have ha2 : a ≠ 10 := fun h' => h3 (h' ▸ ha)
    simp [isBlank, ha1, ha2]
  · simp only [resultTokens, Result.token, List.mem_cons, List.not_mem_nil, or_false, not_or] at h5
    simp [isResultToken, h5.1, h5.2.1, h5.2.2.1, h5.2.2.2]
  · simpa using h4
  · cases s with
    | nil => exact absurd rfl h1
    | cons c r =>
      refine ⟨c, r, rfl, ?_, ?_, ?_, ?_⟩
      · intro h'; exact h2 (by simp [h'])
      · intro h'; exact h3 (by simp [h'])
      · intro h'; exact h6 (by simp [h'])
      · intro h'; exact h7 (by simp [h'])

/-- the part of `read_move` after the SAN token `mv` has been read -/
theorem readMove_tail (N : Nat) (mv : Bytes) (m : Move) (more : Bytes) (hc : (125 : UInt8) ∉ m.comment.getD [])
    (hmore : GoodStart more) (hN : (32 :: afterSan m more).length < N) :
    run (skipSpaces N >>ₑ
      peekByte >>=ₑ fun byte =>
      (if byte = 123 then readBracedAnnotation N >>=ₑ fun a => M.pure (some a)
       else if byte = 59 then readSemicolonAnnotation N >>=ₑ fun a => M.pure (some a)
       else M.pure none) >>=ₑ fun annotation =>
      M.pure (some (⟨mv, annotation⟩ : RawMove))) (32 :: afterSan m more)
    = (.ok (some ⟨mv, m.comment⟩), if m.comment.isSome then 32 :: more else more) := by
  obtain ⟨c, t, hct, h32, h10, h123, h59⟩ := hmore
  unfold afterSan at hN ⊢
  cases hcm : m.comment with
  | none =>
    simp only [hcm] at hN ⊢
    subst hct
    rw [run_mbind_ok (skipSpaces_one N c t h32 hN)]
    rw [run_mbind_ok (run_peekByte_cons c t)]
    rw [if_neg h123, if_neg h59]
    rfl
  | some cm =>
    simp only [hcm, Option.getD_some] at hN hc ⊢
    rw [run_mbind_ok (skipSpaces_one N 123 _ (by decide) hN)]
    rw [run_mbind_ok (run_peekByte_cons 123 _)]
    rw [if_pos rfl]
    have hb : run (readBracedAnnotation N) (123 :: (cm ++ 125 :: 32 :: more)) = (.ok cm, 32 :: more) := by
      unfold readBracedAnnotation
      rw [run_mbind_ok (run_consume_same _ _)]
      rw [run_mbind_ok (a := .ok cm) (l' := 125 :: 32 :: more)]
      · rw [run_mbind_ok (run_consume_same _ _)]; rfl
      · rw [run_attempt, readUntil_append 125 N cm _ hc (by simp at hN ⊢; omega)]
    rw [run_mbind_ok (a := some cm) (l' := 32 :: more) (by rw [run_mbind_ok hb]; rfl)]
    rfl

theorem replicate_blank (j : Nat) (b : UInt8) (hb : isBlank b = true) :
    ∀ a ∈ List.replicate j b, isBlank a = true := by
  intro a ha
  rw [(List.mem_replicate.mp ha).2]; exact hb

/-- `read_move` on one rendered half-move (after any number of spaces) -/
theorem readMove_move (N j i : Nat) (m : Move) (more : Bytes)
    (hm : WFMove m) (hmore : GoodStart more)
    (hN : (List.replicate j 32 ++ (renderMove i m ++ more)).length < N) :
    run (readMove N) (List.replicate j 32 ++ (renderMove i m ++ more))
      = (.ok (some (toRawMove m)), if m.comment.isSome then 32 :: more else more) := by
  obtain ⟨hsan, hcomment⟩ := hm
  obtain ⟨hs1, hs2, hs3, c, r, hs, hc32, hc10, hc123, hc59⟩ := san_facts m.san hsan
  have hcb : isBlank c = false := by simp [isBlank, hc32, hc10]
  rw [renderMove_eq] at hN ⊢
  unfold readMove
  rcases numberPrefix_cases m.numbered i with hp | ⟨t, hp, ⟨d, dr, hd, hdg⟩, ht2, ht3⟩
  · -- no move number
    rw [hp, List.nil_append] at hN ⊢
    have hN' : (m.san ++ 32 :: afterSan m more).length < N := by simp at hN ⊢; omega
    have e : m.san ++ 32 :: afterSan m more = c :: (r ++ 32 :: afterSan m more) := by rw [hs]; rfl
    rw [run_mbind_ok (a := ()) (l' := m.san ++ 32 :: afterSan m more)
      (by rw [e] at hN ⊢; exact skipBLS_blanks N _ c _ (replicate_blank j 32 (by decide)) hcb hN)]
    rw [run_mbind_ok (readToken_append N m.san _ hs1 (fun b hb => by simp at hb; rw [← hb]; decide) hN')]
    simp only [hs2, hs3, Bool.false_eq_true, if_false]
    rw [run_mbind_ok (run_mpure m.san _)]
    exact readMove_tail N m.san m more hcomment hmore (by simp at hN' ⊢; omega)
  · -- move number token `t`, then a space
    have hdb : isBlank d = false := by simp [isBlank, hdg.1, hdg.2.1]
    have e : t ++ [32] ++ (m.san ++ 32 :: afterSan m more) = t ++ 32 :: (m.san ++ 32 :: afterSan m more) := by simp
    rw [hp, e] at hN ⊢
    have hN1 : (t ++ 32 :: (m.san ++ 32 :: afterSan m more)).length < N := by simp at hN ⊢; omega
    have hN2 : (32 :: (m.san ++ 32 :: afterSan m more)).length < N := by simp at hN1 ⊢; omega
    have hN3 : (m.san ++ 32 :: afterSan m more).length < N := by simp at hN2 ⊢; omega
    have e2 : t ++ 32 :: (m.san ++ 32 :: afterSan m more) = d :: (dr ++ 32 :: (m.san ++ 32 :: afterSan m more)) := by
      rw [hd]; rfl
    rw [run_mbind_ok (a := ()) (l' := t ++ 32 :: (m.san ++ 32 :: afterSan m more))
      (by rw [e2] at hN ⊢; exact skipBLS_blanks N _ d _ (replicate_blank j 32 (by decide)) hdb hN)]
    rw [run_mbind_ok (readToken_append N t _ ht2 (fun b hb => by simp at hb; rw [← hb]; decide) hN1)]
    simp only [isResultToken_no_dot t ht3, ht3, Bool.false_eq_true, if_false, if_true]
    have hmv : run (skipSpaces N >>ₑ readToken N) (32 :: (m.san ++ 32 :: afterSan m more))
        = (.ok m.san, 32 :: afterSan m more) := by
      have e3 : m.san ++ 32 :: afterSan m more = c :: (r ++ 32 :: afterSan m more) := by rw [hs]; rfl
      rw [run_mbind_ok (a := ()) (l' := m.san ++ 32 :: afterSan m more)
        (by rw [e3] at hN2 ⊢; exact skipSpaces_one N c _ hc32 hN2)]
      exact readToken_append N m.san _ hs1 (fun b hb => by simp at hb; rw [← hb]; decide) hN3
    rw [run_mbind_ok hmv]
    exact readMove_tail N m.san m more hcomment hmore (by simp at hN3 ⊢; omega)

theorem result_token_facts (res : Result) :
    isResultToken res.token = true ∧ (∀ a ∈ res.token, isBlank a = false) ∧
    ∃ c r, res.token = c :: r ∧ c ≠ 32 ∧ c ≠ 10 ∧ c ≠ 123 ∧ c ≠ 59 := by
  cases res <;> refine ⟨by decide, by decide, _, _, rfl, by decide, by decide, by decide, by decide⟩

/-- `read_move` on the result token: `Ok(None)` -/
theorem readMove_result (N j : Nat) (res : Result) (tail : Bytes)
    (htail : ∀ b, tail.head? = some b → b = 10)
    (hN : (List.replicate j 32 ++ (res.token ++ tail)).length < N) :
    run (readMove N) (List.replicate j 32 ++ (res.token ++ tail)) = (.ok none, tail) := by
  obtain ⟨h1, h2, c, r, hcr, hc32, hc10, _, _⟩ := result_token_facts res
  have hcb : isBlank c = false := by simp [isBlank, hc32, hc10]
  have hN' : (res.token ++ tail).length < N := by simp at hN ⊢; omega
  unfold readMove
  have e : res.token ++ tail = c :: (r ++ tail) := by rw [hcr]; rfl
  rw [run_mbind_ok (a := ()) (l' := res.token ++ tail)
    (by rw [e] at hN ⊢; exact skipBLS_blanks N _ c _ (replicate_blank j 32 (by decide)) hcb hN)]
  rw [run_mbind_ok (readToken_append N res.token tail h2 (fun b hb => by rw [htail b hb]; decide) hN')]
  simp only [h1, if_true]
  rfl

theorem goodStart_moves (res : Result) (tail : Bytes) : ∀ (ms : List Move) (i : Nat),
    (∀ m ∈ ms, WFMove m) → GoodStart (renderMoves i ms ++ (res.token ++ tail)) := by
  intro ms i hms
  cases ms with
  | nil =>
    obtain ⟨_, _, c, r, hcr, h⟩ := result_token_facts res
    exact ⟨c, r ++ tail, by simp [renderMoves, hcr], h⟩
  | cons m ms =>
    obtain ⟨_, _, _, c, r, hs, h⟩ := san_facts m.san (hms m (by simp)).1
    simp only [renderMoves, List.append_assoc]
    rw [renderMove_eq]
    rcases numberPrefix_cases m.numbered i with hp | ⟨t, hp, ⟨d, dr, hd, hdg⟩, _, _⟩
    · rw [hp, hs]; exact ⟨c, _, rfl, h⟩
    · rw [hp, hd]; exact ⟨d, _, rfl, hdg.1, hdg.2.1, hdg.2.2.2.1, hdg.2.2.2.2⟩

theorem readMovesLoop_spec (N : Nat) (res : Result) (tail : Bytes)
    (htail : ∀ b, tail.head? = some b → b = 10) :
    ∀ (ms : List Move) (i j k : Nat) (acc : List RawMove), (∀ m ∈ ms, WFMove m) →
    (List.replicate j 32 ++ (renderMoves i ms ++ (res.token ++ tail))).length < N →
    (List.replicate j 32 ++ (renderMoves i ms ++ (res.token ++ tail))).length < k →
    run (readMovesLoop N k acc) (List.replicate j 32 ++ (renderMoves i ms ++ (res.token ++ tail)))
      = (.ok (acc ++ ms.map toRawMove), tail) := by
  intro ms
  induction ms with
  | nil =>
    intro i j k acc _ hN hk
    cases k with
    | zero => omega
    | succ k =>
      simp only [renderMoves, List.nil_append] at hN ⊢
      unfold readMovesLoop
      rw [run_mbind_ok (readMove_result N j res tail htail hN)]
      simp
  | cons m ms ih =>
    intro i j k acc hms hN hk
    cases k with
    | zero => omega
    | succ k =>
      simp only [renderMoves, List.append_assoc] at hN hk ⊢
      have hgs := goodStart_moves res tail ms (i + 1) (fun m' h' => hms m' (by simp [h']))
      unfold readMovesLoop
      rw [run_mbind_ok (readMove_move N j i m _ (hms m (by simp)) hgs hN)]
      simp only
      have hlen : (renderMoves (i + 1) ms ++ (res.token ++ tail)).length + 2 ≤
          (List.replicate j 32 ++ (renderMove i m ++ (renderMoves (i + 1) ms ++ (res.token ++ tail)))).length := by
        obtain ⟨_, _, _, c, r, hs, _⟩ := san_facts m.san (hms m (by simp)).1
        have := afterSan_length m (renderMoves (i + 1) ms ++ (res.token ++ tail))
        rw [renderMove_eq, hs]
        simp only [List.length_append, List.length_cons] at this ⊢
        omega
      cases hcm : m.comment with
      | none =>
        simp only [Option.isSome_none, Bool.false_eq_true, if_false]
        have := ih (i + 1) 0 k (acc ++ [toRawMove m]) (fun m' h' => hms m' (by simp [h']))
          (by simp only [List.replicate_zero, List.nil_append]; omega)
          (by simp only [List.replicate_zero, List.nil_append]; omega)
        simpa using this
      | some cm =>
        simp only [Option.isSome_some, if_true]
        have := ih (i + 1) 1 k (acc ++ [toRawMove m]) (fun m' h' => hms m' (by simp [h']))
          (by simp only [List.replicate_succ, List.replicate_zero, List.cons_append, List.nil_append, List.length_cons]; omega)
          (by simp only [List.replicate_succ, List.replicate_zero, List.cons_append, List.nil_append, List.length_cons]; omega)
        simpa using this

theorem readMoves_spec (N : Nat) (res : Result) (tail : Bytes) (ms : List Move)
    (htail : ∀ b, tail.head? = some b → b = 10) (hms : ∀ m ∈ ms, WFMove m)
    (hN : (renderMoves 0 ms ++ (res.token ++ tail)).length < N) :
    run (readMoves N) (renderMoves 0 ms ++ (res.token ++ tail)) = (.ok (ms.map toRawMove), tail.tail) := by
  have h := readMovesLoop_spec N res tail htail ms 0 0 N [] hms
    (by simpa using hN) (by simpa using hN)
  simp only [List.replicate_zero, List.nil_append] at h
  unfold readMoves
  rw [run_mbind_ok h, run_mbind, run_attempt]
  have hN' : tail.length < N := by simp at hN; omega
  rw [skipToNextLine_spec N tail hN']
  cases tail with
  | nil => rfl
  | cons b t =>
    have hb : b = 10 := htail b rfl
    subst hb
    simp [notNl]

theorem renderGame_eq (g : Game) (rest : Bytes) :
    renderGame g ++ rest = renderTags g.tags ++
      10 :: (renderMoves 0 g.moves ++ (g.result.token ++ (List.replicate g.trailing 10 ++ rest))) := by
  simp [renderGame]

theorem readPgn_spec (N : Nat) (g : Game) (rest : Bytes) (hg : WFGame g)
    (hrest : 1 ≤ g.trailing ∨ rest = []) (hN : (renderGame g ++ rest).length < N) :
    run (readPgn N) (renderGame g ++ rest) = (.ok (toRaw g), (List.replicate g.trailing 10 ++ rest).tail) := by
  obtain ⟨_, htags, hnd, hms⟩ := hg
  have htail : ∀ b, (List.replicate g.trailing 10 ++ rest).head? = some b → b = 10 := by
    intro b hb
    rcases hrest with h | h
    · obtain ⟨n, hn⟩ : ∃ n, g.trailing = n + 1 := ⟨g.trailing - 1, by omega⟩
      rw [hn, List.replicate_succ] at hb
      simp at hb; exact hb.symm
    · rw [h, List.append_nil] at hb
      cases ht : g.trailing with
      | zero => rw [ht] at hb; simp at hb
      | succ n => rw [ht, List.replicate_succ] at hb; simp at hb; exact hb.symm
  rw [renderGame_eq] at hN ⊢
  unfold readPgn readTagPairs
  rw [run_mbind_ok (readTagPairsLoop_spec N g.tags N [] _ htags (by simpa using hnd) hN hN)]
  obtain ⟨c, t, hct, hc32, hc10, _, _⟩ := goodStart_moves g.result
    (List.replicate g.trailing 10 ++ rest) g.moves 0 hms
  have hN2 : (renderMoves 0 g.moves ++ (g.result.token ++ (List.replicate g.trailing 10 ++ rest))).length < N := by
    simp only [List.length_append, List.length_cons] at hN ⊢; omega
  rw [run_mbind_ok (a := ()) (l' := renderMoves 0 g.moves ++ (g.result.token ++ (List.replicate g.trailing 10 ++ rest)))
    (by
      rw [skipBlankLines_spec N _ (by simp only [List.length_append, List.length_cons] at hN ⊢; omega), hct]
      simp [isNl, hc10])]
  rw [run_mbind_ok (readMoves_spec N g.result _ g.moves htail hms hN2)]
  rfl

theorem renderGame_head (g : Game) (hg : WFGame g) (rest : Bytes) : ∃ t, renderGame g ++ rest = 91 :: t := by
  obtain ⟨hne, _⟩ := hg
  rw [renderGame_eq]
  cases htg : g.tags with
  | nil => exact absurd htg hne
  | cons a as => exact ⟨_, by simp [renderTags, renderTag]; rfl⟩

/-- `Iterator::next` on one rendered game (after any number of blank lines) -/
theorem next_spec (N j : Nat) (g : Game) (rest : Bytes) (hg : WFGame g)
    (hrest : 1 ≤ g.trailing ∨ rest = []) (hN : (List.replicate j 10 ++ (renderGame g ++ rest)).length < N) :
    run (next N) (List.replicate j 10 ++ (renderGame g ++ rest))
      = (some (.ok (toRaw g)), (List.replicate g.trailing 10 ++ rest).tail) := by
  obtain ⟨t, ht⟩ := renderGame_head g hg rest
  have hN' : (renderGame g ++ rest).length < N := by simp only [List.length_append] at hN ⊢; omega
  unfold next
  rw [run_pbind]
  have h1 : run (skipBlankLinesAndSpaces N) (List.replicate j 10 ++ (renderGame g ++ rest))
      = (.ok (), renderGame g ++ rest) := by
    rw [ht] at hN ⊢
    exact skipBLS_blanks N _ 91 t (replicate_blank j 10 (by decide)) (by decide) hN
  rw [h1]
  simp only [run_pbind, readPgn_spec N g rest hg hrest hN', run_ret]

theorem render_cons (g : Game) (gs : List Game) : render (g :: gs) = renderGame g ++ render gs := by
  simp [render]

theorem readAllLoop_spec (N : Nat) : ∀ (gs : List Game) (j k : Nat) (acc : List Item), WFGames gs →
    (List.replicate j 10 ++ render gs).length < N → (List.replicate j 10 ++ render gs).length < k →
    (run (readAllLoop N k acc) (List.replicate j 10 ++ render gs)).1
      = acc ++ gs.map (fun g => Item.game (toRaw g)) := by
  intro gs
  induction gs with
  | nil =>
    intro j k acc _ hN hk
    cases k with
    | zero => omega
    | succ k =>
      simp only [render, List.map_nil, List.flatten_nil, List.append_nil] at hN ⊢
      unfold readAllLoop next
      rw [run_pbind, run_pbind, skipBLS_spec N _ hN]
      have : (List.replicate j (10 : UInt8)).dropWhile isBlank = [] := by
        rw [List.dropWhile_replicate]; simp [isBlank]
      rw [this]
      simp
  | cons g gs ih =>
    intro j k acc hwf hN hk
    cases k with
    | zero => omega
    | succ k =>
      have hg : WFGame g := by
        cases gs with
        | nil => exact hwf
        | cons g' gs' => exact hwf.1
      have hrest : 1 ≤ g.trailing ∨ render gs = [] := by
        cases gs with
        | nil => exact Or.inr rfl
        | cons g' gs' => exact Or.inl hwf.2.1
      have hwf' : WFGames gs := by
        cases gs with
        | nil => trivial
        | cons g' gs' => exact hwf.2.2
      rw [render_cons] at hN hk ⊢
      unfold readAllLoop
      rw [run_pbind, next_spec N j g (render gs) hg hrest hN]
      simp only
      obtain ⟨t, ht⟩ := renderGame_head g hg (render gs)
      have hlen : (List.replicate g.trailing 10 ++ render gs).length < (renderGame g ++ render gs).length := by
        rw [renderGame_eq]
        simp only [List.length_append, List.length_cons, List.length_replicate]
        have := (result_token_facts g.result).2.2
        obtain ⟨c, r, hcr, _⟩ := this
        rw [hcr]; simp only [List.length_cons]; omega
      have htl : ∃ j', (List.replicate g.trailing 10 ++ render gs).tail = List.replicate j' 10 ++ render gs ∧
          j' ≤ g.trailing := by
        rcases hrest with h | h
        · obtain ⟨n, hn⟩ : ∃ n, g.trailing = n + 1 := ⟨g.trailing - 1, by omega⟩
          exact ⟨n, by rw [hn, List.replicate_succ]; rfl, by omega⟩
        · refine ⟨g.trailing - 1, ?_, by omega⟩
          rw [h]
          cases g.trailing with
          | zero => rfl
          | succ n => simp [List.replicate_succ]
      obtain ⟨j', hj', hjle⟩ := htl
      rw [hj']
      have hlen' : (List.replicate j' 10 ++ render gs).length < (List.replicate j 10 ++ (renderGame g ++ render gs)).length := by
        simp only [List.length_append, List.length_replicate] at hlen ⊢; omega
      rw [ih j' k _ hwf' (by omega) (by omega)]
      simp

/-- **parse_render**: reading a rendered well-formed database yields exactly its games, in order, each with all
tag pairs (in order) and all SAN moves with their comments (the bytes between the braces, untrimmed) -/
theorem parse_render (gs : List Game) (h : WFGames gs) :
    readAll (render gs) = gs.map (fun g => Item.game (toRaw g)) := by
  have := readAllLoop_spec ((render gs).length + 1) gs 0 ((render gs).length + 1) [] h (by simp) (by simp)
  simpa [readAll, readAllProg] using this

#print axioms fuel_adequate
#print axioms parse_render

/-- **C17** for the real reader: for every well-formed database in the Lichess layout, every chunk size ≥ 1 and
every fragmentation of the underlying reads, `PgnRawParser` yields exactly the games – in order, with all tag
pairs and all SAN tokens (castling or not, first game or not) with their comments, and no error item.
The SAN tokens are yielded verbatim (`toRawMove`), so replaying them is replaying the original game (SAN replay
itself is property C14). -/
theorem c17 (gs : List Game) (h : WFGames gs) (chunk : Nat) (sched : Nat → Nat)
    (hchunk : 1 ≤ chunk) (hsched : ∀ k, 1 ≤ sched k) :
    readAllBuffered chunk sched (render gs) = gs.map (fun g => Item.game (toRaw g)) := by
  rw [chunk_independent _ chunk sched hchunk hsched, parse_render gs h]

/-- the fuel of `readAllBuffered` is adequate as well -/
theorem fuel_adequate_buffered (input : Bytes) (fuel : Nat) (h : input.length < fuel) (chunk : Nat)
    (sched : Nat → Nat) (hchunk : 1 ≤ chunk) (hsched : ∀ k, 1 ≤ sched k) :
    (run (readAllProg fuel) (Buffered.new ⟨input, sched, 0⟩ chunk)).1 = readAllBuffered chunk sched input := by
  rw [chunk_independent_fuel fuel input chunk sched hchunk hsched, fuel_adequate input fuel h,
    chunk_independent input chunk sched hchunk hsched]

#print axioms c17
#print axioms fuel_adequate_buffered

/-! ## Concrete checks (kernel evaluation of the model, independent of the proofs above) -/

/-- ASCII text to bytes -/
def B (s : String) : Bytes := s.toUTF8.data.toList

def mv (san : String) : RawMove := ⟨B san, none⟩
def mvc (san c : String) : RawMove := ⟨B san, some (B c)⟩

/-- 1: the real Lichess export (clock comments, `1...` after a comment, three line breaks after each game);
both sides castle; the second game is read like the first -/
def text1 : Bytes := B ("[Event \"Rated Blitz game\"]\n[Site \"https://lichess.org/abc\"]\n\n" ++
  "1. e4 { [%clk 0:03:00] } 1... e5 { [%clk 0:03:00] } 2. Nf3 Nc6 3. Bc4 Bc5 4. O-O Nf6 5. d3 O-O 1/2-1/2\n\n\n" ++
  "[Event \"x\"]\n\n1. d4 d5 2. Nc3 Nc6 3. Bf4 Bf5 4. Qd2 Qd7 5. O-O-O O-O-O 1-0\n\n\n")

def items1 : List Item := [
  .game ⟨[(B "Event", B "Rated Blitz game"), (B "Site", B "https://lichess.org/abc")],
    [mvc "e4" " [%clk 0:03:00] ", mvc "e5" " [%clk 0:03:00] ", mv "Nf3", mv "Nc6", mv "Bc4", mv "Bc5",
     mv "O-O", mv "Nf6", mv "d3", mv "O-O"]⟩,
  .game ⟨[(B "Event", B "x")],
    [mv "d4", mv "d5", mv "Nc3", mv "Nc6", mv "Bf4", mv "Bf5", mv "Qd2", mv "Qd7", mv "O-O-O", mv "O-O-O"]⟩]

example : readAll text1 = items1 := by decide +kernel

/-- 2: black `O-O` / `O-O-O` without move number, the result token directly followed by `\n\n[` of the next
game, an empty comment, the last game without trailing newline -/
def text2 : Bytes := B ("[White \"a\"]\n[Black \"b\"]\n\n1. e4 e5 2. Nf3 Nf6 3. Bc4 Bc5 4. O-O O-O 0-1\n\n" ++
  "[White \"c\"]\n\n1. d4 {} d5 { book } 2. Nc3 Nc6 3. Bf4 Bf5 4. Qd2 Qd7 5. O-O-O O-O-O *\n\n" ++
  "[White \"d\"]\n\n1. e4 1-0")

def items2 : List Item := [
  .game ⟨[(B "White", B "a"), (B "Black", B "b")],
    [mv "e4", mv "e5", mv "Nf3", mv "Nf6", mv "Bc4", mv "Bc5", mv "O-O", mv "O-O"]⟩,
  .game ⟨[(B "White", B "c")],
    [mvc "d4" "", mvc "d5" " book ", mv "Nc3", mv "Nc6", mv "Bf4", mv "Bf5", mv "Qd2", mv "Qd7",
     mv "O-O-O", mv "O-O-O"]⟩,
  .game ⟨[(B "White", B "d")], [mv "e4"]⟩]

example : readAll text2 = items2 := by decide +kernel

/-- the same through the buffered reader: chunk 3 with reads of 2,1,5,… bytes (the buffer shrinks to 2, then 1),
chunk 1, and one big chunk -/
example : readAllBuffered 3 (fun k => [2, 1, 5].getD (k % 3) 1) text2 = items2 := by decide +kernel
example : readAllBuffered 1 (fun _ => 1) text2 = items2 := by decide +kernel
example : readAllBuffered 8192 (fun _ => 8192) text2 = items2 := by decide +kernel

/-- 3: no move numbers at all, three games, a game without moves, one line break between games, `*` and `0-1` -/
def text3 : Bytes := B ("[E \"1\"]\n\ne4 e5 Nf3 Nc6 Bb5 a6 O-O { castles } Be7 *\n" ++
  "[E \"2\"]\n\n0-1\n" ++
  "[E \"3\"]\n[R \"1/2-1/2\"]\n\nd4 { [%clk 0:01:00] } d5 { [%clk 0:00:59] } 1/2-1/2\n")

def items3 : List Item := [
  .game ⟨[(B "E", B "1")],
    [mv "e4", mv "e5", mv "Nf3", mv "Nc6", mv "Bb5", mv "a6", mvc "O-O" " castles ", mv "Be7"]⟩,
  .game ⟨[(B "E", B "2")], []⟩,
  .game ⟨[(B "E", B "3"), (B "R", B "1/2-1/2")], [mvc "d4" " [%clk 0:01:00] ", mvc "d5" " [%clk 0:00:59] "]⟩]

example : readAll text3 = items3 := by decide +kernel
example : readAllBuffered 4 (fun k => [3, 1].getD (k % 2) 1) text3 = items3 := by decide +kernel

/-- the three texts are what the layout printer produces for well-formed databases, so `parse_render` (and
`c17`) apply to them; the kernel evaluations above agree with the theorem -/
def games2 : List Game := [
  ⟨[(B "White", B "a"), (B "Black", B "b")],
    Numbering.white.apply [(B "e4", none), (B "e5", none), (B "Nf3", none), (B "Nf6", none), (B "Bc4", none),
      (B "Bc5", none), (B "O-O", none), (B "O-O", none)], .blackWins, 2⟩,
  ⟨[(B "White", B "c")],
    Numbering.white.apply [(B "d4", some []), (B "d5", some (B " book ")), (B "Nc3", none), (B "Nc6", none),
      (B "Bf4", none), (B "Bf5", none), (B "Qd2", none), (B "Qd7", none), (B "O-O-O", none), (B "O-O-O", none)],
    .unknown, 2⟩,
  ⟨[(B "White", B "d")], Numbering.white.apply [(B "e4", none)], .whiteWins, 0⟩]

example : render games2 = text2 := by decide +kernel
example : WFGames games2 := by decide +kernel
example : games2.map (fun g => Item.game (toRaw g)) = items2 := by decide +kernel
example : readAll text2 = items2 := by
  have h := parse_render games2 (by decide +kernel)
  rw [show render games2 = text2 by decide +kernel,
    show games2.map (fun g => Item.game (toRaw g)) = items2 by decide +kernel] at h
  exact h

def games1 : List Game := [
  ⟨[(B "Event", B "Rated Blitz game"), (B "Site", B "https://lichess.org/abc")],
    Numbering.lichess.apply [(B "e4", some (B " [%clk 0:03:00] ")), (B "e5", some (B " [%clk 0:03:00] ")),
      (B "Nf3", none), (B "Nc6", none), (B "Bc4", none), (B "Bc5", none), (B "O-O", none), (B "Nf6", none),
      (B "d3", none), (B "O-O", none)], .draw, 3⟩,
  ⟨[(B "Event", B "x")],
    Numbering.lichess.apply [(B "d4", none), (B "d5", none), (B "Nc3", none), (B "Nc6", none), (B "Bf4", none),
      (B "Bf5", none), (B "Qd2", none), (B "Qd7", none), (B "O-O-O", none), (B "O-O-O", none)], .whiteWins, 3⟩]

example : render games1 = text1 ∧ LichessGames games1 := by decide +kernel

def games3 : List Game := [
  ⟨[(B "E", B "1")],
    Numbering.none.apply [(B "e4", none), (B "e5", none), (B "Nf3", none), (B "Nc6", none), (B "Bb5", none),
      (B "a6", none), (B "O-O", some (B " castles ")), (B "Be7", none)], .unknown, 1⟩,
  ⟨[(B "E", B "2")], [], .blackWins, 1⟩,
  ⟨[(B "E", B "3"), (B "R", B "1/2-1/2")],
    Numbering.none.apply [(B "d4", some (B " [%clk 0:01:00] ")), (B "d5", some (B " [%clk 0:00:59] "))], .draw, 1⟩]

example : render games3 = text3 ∧ WFGames games3 := by decide +kernel

/-- the hypotheses of `c17` are satisfiable by a non-trivial value -/
example : readAllBuffered 3 (fun k => [2, 1, 5].getD (k % 3) 1) (render games2) = items2 := by
  rw [c17 games2 (by decide +kernel) 3 _ (by decide) (fun k => by
    have : k % 3 < 3 := Nat.mod_lt _ (by decide)
    generalize k % 3 = j at this
    match j, this with
    | 0, _ => decide
    | 1, _ => decide
    | 2, _ => decide)]
  decide +kernel

/-- `WFGames` is not vacuous in the other direction: the conditions are needed.  A SAN token that is a result
token ends the game early, and a game without trailing line break in the middle swallows the next tag line. -/
example : readAll (B "[a \"b\"]\n\ne4 1-0[c \"d\"]\n\nd4 *") ≠
    [.game ⟨[(B "a", B "b")], [mv "e4"]⟩, .game ⟨[(B "c", B "d")], [mv "d4"]⟩] := by decide +kernel

end Inkayaku.C17
