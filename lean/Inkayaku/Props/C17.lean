import Inkayaku.Model.Pgn
import Inkayaku.Spec.PgnLayout
/-!
# C17 – PGN stream reader

Part 1 (`chunk_independent`): the parser sees the same bytes through the buffered reader as in the plain input,
for every chunk size ≥ 1 and every fragmentation schedule with entries ≥ 1.
-/
namespace Inkayaku.C17
open Inkayaku.Pgn

/-! ## Part 1: the buffered reader is transparent -/

/-- the bytes still to be delivered: unread part of the buffer, then what the underlying reader still holds -/
def stream (s : Buffered) : List UInt8 := s.buf.drop s.cur ++ s.reader.rest

/-- invariant of `PgnRawParser` over a reader whose schedule entries are ≥ 1 -/
structure Inv (s : Buffered) : Prop where
  chunk_pos : 1 ≤ s.chunkSize
  sched_pos : ∀ k, 1 ≤ s.reader.sched k
  /-- hence `bytes_read > chunk_size` (the `panic!` branch) is unreachable -/
  len_le : s.buf.length ≤ s.chunkSize
  /-- the buffer has shrunk to length 0 only at end of input -/
  nonempty : 1 ≤ s.buf.length ∨ s.reader.rest = []

theorem read_spec (r : Reader) (n : Nat) (hs : ∀ k, 1 ≤ r.sched k) :
    (r.read n).1 ++ (r.read n).2.rest = r.rest ∧ (r.read n).1.length ≤ n ∧
    ((r.read n).1.length = 0 → n = 0 ∨ r.rest = []) ∧ (r.read n).2.sched = r.sched := by
  have := hs r.calls
  simp only [Reader.read, List.take_append_drop, List.length_take, true_and]
  refine ⟨by omega, ?_, trivial⟩
  intro h
  rcases Nat.eq_zero_or_pos n with h0 | h0
  · exact Or.inl h0
  · exact Or.inr (List.eq_nil_of_length_eq_zero (by omega))

theorem ensure_spec (s : Buffered) (h : Inv s) :
    Inv s.ensure.2 ∧ stream s.ensure.2 = stream s ∧
    (s.ensure.1 = true → s.ensure.2.cur < s.ensure.2.buf.length) ∧
    (s.ensure.1 = false → stream s = []) := by
  obtain ⟨hc, hs, hl, hne⟩ := h
  unfold Buffered.ensure
  split
  · rename_i hcur
    have hdrop : s.buf.drop s.cur = [] := List.drop_eq_nil_of_le hcur
    have hst : stream s = s.reader.rest := by simp [stream, hdrop]
    obtain ⟨h1, h2, h3, h4⟩ := read_spec s.reader s.buf.length hs
    generalize s.reader.read s.buf.length = p at h1 h2 h3 h4 ⊢
    obtain ⟨data, rd⟩ := p
    simp only at h1 h2 h3 h4 ⊢
    have hs' : ∀ k, 1 ≤ rd.sched k := by rw [h4]; exact hs
    split
    · rename_i hk0
      have hd : data = [] := List.eq_nil_of_length_eq_zero hk0
      have hrest : s.reader.rest = [] := by
        rcases h3 hk0 with h5 | h5
        · rcases hne with h6 | h6
          · omega
          · exact h6
        · exact h5
      have hrd : rd.rest = [] := by simpa [hd, hrest] using h1
      refine ⟨⟨hc, hs', by simp, Or.inr hrd⟩, ?_, by simp, ?_⟩
      · simp [stream, hrest, hrd, hdrop]
      · intro _; simp [hst, hrest]
    · rename_i hk0
      split
      · rename_i hlt
        have htake : (data ++ s.buf.drop data.length).take data.length = data := by simp
        refine ⟨⟨hc, hs', ?_, Or.inl ?_⟩, ?_, ?_, by simp⟩
        · simp only [htake]; omega
        · simp only [htake]; omega
        · simp only [stream, htake, hdrop, List.drop_zero, List.nil_append]; exact h1
        · intro _; simp only [htake]; omega
      · rename_i hge
        have hdr : s.buf.drop data.length = [] := List.drop_eq_nil_of_le (by omega)
        refine ⟨⟨hc, hs', ?_, Or.inl ?_⟩, ?_, ?_, by simp⟩
        · simp only [hdr, List.append_nil]; omega
        · simp only [hdr, List.append_nil]; omega
        · simp only [stream, hdr, hdrop, List.append_nil, List.drop_zero, List.nil_append]; exact h1
        · intro _; simp only [hdr, List.append_nil]; omega
  · rename_i hcur
    exact ⟨⟨hc, hs, hl, hne⟩, rfl, fun _ => by simp only; omega, fun h => by simp at h⟩

theorem peek_spec (s : Buffered) (h : Inv s) :
    s.peek.1 = (stream s).head? ∧ Inv s.peek.2 ∧ stream s.peek.2 = stream s ∧
    (∀ b, s.peek.1 = some b → s.peek.2.cur < s.peek.2.buf.length) := by
  obtain ⟨h1, h2, h3, h4⟩ := ensure_spec s h
  unfold Buffered.peek
  generalize s.ensure = p at h1 h2 h3 h4 ⊢
  obtain ⟨ok, s'⟩ := p
  cases ok
  · simp only at h1 h2 h3 h4 ⊢
    exact ⟨by simp [h4 trivial], h1, h2, fun b hb => by simp at hb⟩
  · simp only at h1 h2 h3 h4 ⊢
    have hlt := h3 trivial
    refine ⟨?_, h1, h2, fun _ _ => hlt⟩
    rw [← h2, stream, List.head?_append, List.head?_drop, List.getElem?_eq_getElem hlt]; rfl

theorem incr_spec (s : Buffered) (h : Inv s) (hlt : s.cur < s.buf.length) :
    Inv s.incr ∧ stream s.incr = (stream s).tail := by
  obtain ⟨hc, hs, hl, hne⟩ := h
  refine ⟨⟨hc, hs, hl, hne⟩, ?_⟩
  simp only [stream, Buffered.incr]
  rw [List.tail_append_of_ne_nil (by simp; omega), List.tail_drop]

/-- the simulation relation between the parser state and the plain byte list -/
def R (s : Buffered) (l : List UInt8) : Prop := Inv s ∧ stream s = l

/-- **reader_bytes**: every program sees through `ensure_buffer`/`increment_byte` exactly the bytes of the
stream: same answer, and the states stay related -/
theorem reader_bytes {α : Type} (p : Prog α) : ∀ (s : Buffered) (l : List UInt8), R s l →
    (run p s).1 = (run p l).1 ∧ R (run p s).2 (run p l).2 := by
  induction p with
  | ret a => intro s l h; exact ⟨rfl, h⟩
  | step inc k ih =>
    intro s l ⟨hinv, hst⟩
    obtain ⟨h1, h2, h3, h4⟩ := peek_spec s hinv
    simp only [run, Source.peek]
    generalize s.peek = p at h1 h2 h3 h4 ⊢
    obtain ⟨b, s'⟩ := p
    simp only at h1 h2 h3 h4 ⊢
    rw [hst] at h1 h3
    cases l with
    | nil =>
      simp only [List.head?_nil] at h1 ⊢
      subst h1
      exact ih none s' [] ⟨h2, h3⟩
    | cons c t =>
      simp only [List.head?_cons] at h1 ⊢
      subst h1
      simp only
      by_cases hi : inc (some c) = true
      · simp only [hi, if_true, Source.incr, List.tail_cons]
        obtain ⟨h5, h6⟩ := incr_spec s' h2 (h4 c rfl)
        exact ih (some c) s'.incr t ⟨h5, by rw [h6, h3]; rfl⟩
      · simp only [hi]
        exact ih (some c) s' (c :: t) ⟨h2, h3⟩

theorem R_new (chunk : Nat) (sched : Nat → Nat) (input : List UInt8) (hchunk : 1 ≤ chunk)
    (hsched : ∀ k, 1 ≤ sched k) : R (Buffered.new ⟨input, sched, 0⟩ chunk) input := by
  refine ⟨⟨hchunk, hsched, by simp [Buffered.new], Or.inl (by simp [Buffered.new]; exact hchunk)⟩, ?_⟩
  simp [stream, Buffered.new]

/-- **chunk_independent** (main theorem of part 1): for every input, every chunk size ≥ 1 and every
fragmentation schedule with entries ≥ 1 the iterator over the buffered reader yields exactly what the parser
yields on the plain byte list -/
theorem chunk_independent (input : List UInt8) (chunk : Nat) (sched : Nat → Nat)
    (hchunk : 1 ≤ chunk) (hsched : ∀ k, 1 ≤ sched k) :
    readAllBuffered chunk sched input = readAll input :=
  (reader_bytes _ _ _ (R_new chunk sched input hchunk hsched)).1

/-- hence any two chunk sizes / schedules give the same items -/
theorem chunk_independent' (input : List UInt8) (c₁ c₂ : Nat) (s₁ s₂ : Nat → Nat)
    (h₁ : 1 ≤ c₁) (h₂ : 1 ≤ c₂) (hs₁ : ∀ k, 1 ≤ s₁ k) (hs₂ : ∀ k, 1 ≤ s₂ k) :
    readAllBuffered c₁ s₁ input = readAllBuffered c₂ s₂ input := by
  rw [chunk_independent input c₁ s₁ h₁ hs₁, chunk_independent input c₂ s₂ h₂ hs₂]

/-- the same for any fuel (used to transfer `fuel_adequate` to the buffered reader) -/
theorem chunk_independent_fuel (fuel : Nat) (input : List UInt8) (chunk : Nat) (sched : Nat → Nat)
    (hchunk : 1 ≤ chunk) (hsched : ∀ k, 1 ≤ sched k) :
    (run (readAllProg fuel) (Buffered.new ⟨input, sched, 0⟩ chunk)).1 = (run (readAllProg fuel) input).1 :=
  (reader_bytes _ _ _ (R_new chunk sched input hchunk hsched)).1

#print axioms reader_bytes
#print axioms chunk_independent
#print axioms chunk_independent'

/-- the hypotheses are satisfiable by a non-trivial value: chunk 3, reads of 2,1,5,2,1,5,… bytes -/
example : readAllBuffered 3 (fun k => [2, 1, 5].getD (k % 3) 1) "[a \"b\"]\n\ne4 *".toUTF8.toList
    = readAll "[a \"b\"]\n\ne4 *".toUTF8.toList :=
  chunk_independent _ 3 _ (by decide) (fun k => by
    have : k % 3 < 3 := Nat.mod_lt _ (by decide)
    generalize k % 3 = j at this
    match j, this with
    | 0, _ => decide
    | 1, _ => decide
    | 2, _ => decide)

end Inkayaku.C17
