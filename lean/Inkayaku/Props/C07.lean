import Inkayaku.Proofs.SearchDepth1
import Inkayaku.Proofs.WfStepProof
import Inkayaku.Model.FenBoard
/-!
# C07 — every search is answered by exactly one legal bestmove

"Whenever the engine is asked to search a position that has at least one legal move — under any finite limit (depth,
movetime, clock times with or without increment, including zero increment and near-zero time), with or without
searchmoves, or under go infinite followed by stop — it answers with exactly one bestmove, that move is legal in the
position given by the last position command (and is one of searchmoves when given), and it is never the null move.
When the position has no legal move it answers with the null move instead of crashing or hanging."

Model: `Inkayaku.Search.goCmd`.  All theorems quantify over every state `s` (poll period, pending messages = the
`stop` of "go infinite; stop", virtual clock, flags, transposition table, previous PV, killers) and every parameter set
`g : GoParams` (depth, movetime, wtime/btime, winc/binc incl. `some 0`, searchmoves), so "any finite limit" and
"near-zero time" are instances.  `goCmd` is a total function: the modelled search cannot crash; hanging is excluded up
to the model's iteration bound `maxIter` (the engine's own bound is 999 999 iterations) and the recursion fuel.

Hypotheses: the board laws H1 and H2' are PROVED (`Search.unmake_make_of_generated`, `Search.boardLaws` — see C09); what
remains is the side condition `Inv (goBudget maxIter) s.board`: the position held is well-formed and its clocks leave room for the deepest line the
search can reach (`wf s.board`, `halfmove + maxIter + 201 ≤ 4095`, `fullmove + maxIter + 201 < 2^31`; real limits of the
engine: the 12-bit undo field of the half-move clock).  The transposition-table invariant `TTRootFresh` (no entry deep enough to
answer the root) is PROVED for every iteration of every `go` (`Search.iters_legal`).

Proved: exactly one bestmove; the move is legal and in searchmoves; null move when there is no legal move; the first
iteration cannot be interrupted (`depth1_not_interrupted`).
Partial (TARGET at the end): the move is never null when a legal move exists (`depth1_completes`) is reduced to a
value-range hypothesis on the depth-1 child searches (`depth1_completes_partial`).
-/
namespace Inkayaku.C07
open Inkayaku.Search Inkayaku.Board Inkayaku.WF

/-- **exactly one bestmove**, after infos only -/
theorem go_exactly_one_bestmove (s : St) (g : GoParams) (maxIter : Nat) (h0 : s.out = []) :
    ∃ best ponder infos, (goCmd s g maxIter).out = .bestMove best ponder :: infos ∧ bestMoves infos = [] := by
  obtain ⟨news, h, hc, -⟩ := goCmd_out s g maxIter
  rw [h0, List.append_nil] at h
  exact ⟨_, _, news, h, hc.bestMoves_nil⟩

/-- **the bestmove is legal in the position held and is one of `searchmoves` when given**
(`LegalRoot b sm m` = `m ∈ genPseudo b ∧ isValid (make b m) ∧ (sm ≠ [] → m.uci ∈ sm)`) -/
theorem bestmove_legal (s : St) (g : GoParams) (maxIter : Nat) (hwf : Inv (goBudget maxIter) s.board)
    (m : Move) (ponder : Option Move) (rest : List Out)
    (h : (goCmd s g maxIter).out = .bestMove (some m) ponder :: rest) :
    m ∈ genPseudo s.board ∧ isValid (make s.board m) = true ∧ (g.searchMoves ≠ [] → m.uci ∈ g.searchMoves) := by
  rw [goCmd_eq] at h
  have hb : bestMoveOf (goDeepen s g maxIter).1 = some m := by
    have := (List.cons.inj h).1; injection this
  exact go_bestmove_legal boardLaws s g maxIter hwf m hb

/-- the root search of every iteration returns a legal move or none, for every iteration of every `go`
(this is where `TTRootFresh` is discharged) -/
theorem every_iteration_legal (s : St) (g : GoParams) (maxIter : Nat) (hwf : Inv (goBudget maxIter) s.board)
    (r : VM × St) (hr : r ∈ goIterations s g maxIter) (m : Move) (hm : r.1.mv = some m) :
    LegalRoot s.board g.searchMoves m :=
  iters_legal boardLaws s.board g.searchMoves _ (goPrep s g) 1 _ none none
    (Inv_mono (by have := goIters_le g maxIter; unfold fuelFor goBudget; omega) hwf) (by rw [goPrep_board])
    (goPrep_searchMoves s g) (Nat.le_refl 1) (goPrep_ttBound s g) r hr m hm

/-- a root search that is not answered from the transposition table returns `none` or a legal move of the
(searchmoves-filtered) buffer -/
theorem root_move_from_buffer (fuel : Nat) (s : St) (maxPly : Nat) (α β : Int) (isPv : Bool)
    (hash ph : UInt64) (hwf : Inv fuel s.board) (hpos : 0 < maxPly) (hfresh : TTRootFresh s hash maxPly) (m : Move)
    (hm : (negamax fuel s 0 maxPly α β isPv hash ph).1.mv = some m) :
    m ∈ genPseudo s.board ∧ (s.go.searchMoves ≠ [] → m.uci ∈ s.go.searchMoves) ∧ isValid (make s.board m) = true := by
  obtain ⟨h1, h2⟩ := Search.root_move_from_buffer boardLaws fuel s maxPly α β isPv hash ph hwf hpos hfresh m hm
  obtain ⟨h3, h4⟩ := mem_rootBuffer_zero h1
  exact ⟨h3, h4, h2⟩

/-- **no legal move (among `searchmoves`): the answer is the null move, without ponder move** -/
theorem nolegal_null (s : St) (g : GoParams) (maxIter : Nat) (hwf : Inv (goBudget maxIter) s.board) (h0 : s.out = [])
    (hno : ∀ m, ¬ LegalRoot s.board g.searchMoves m) :
    ∃ infos, (goCmd s g maxIter).out = .bestMove none none :: infos ∧ bestMoves infos = [] := by
  obtain ⟨infos, h, hb⟩ := go_nolegal_null boardLaws s g maxIter hwf hno
  rw [h0, List.append_nil] at h
  exact ⟨infos, h, hb⟩

#print axioms go_exactly_one_bestmove
#print axioms bestmove_legal
#print axioms every_iteration_legal
#print axioms root_move_from_buffer
#print axioms nolegal_null

/-- **iteration 1 cannot be interrupted**: `go` zeroes the node counter and clears the stop flag; if the pseudo-legal move
list of the position is shorter than the poll period (the engine's is 100 000), no node of iteration 1 polls the
flags, so — whatever waits in the channel, whatever the time limit — iteration 1 ends with the stop flag clear and
the channel untouched.  (`goPrep s g` is the state in which iteration 1 starts, `rootSearch · 1` its root search.) -/
theorem depth1_not_interrupted (s : St) (g : GoParams) (hwf : Inv (fuelFor 1) s.board)
    (hpoll : (genPseudo s.board).length < s.pollPeriod) :
    (rootSearch (goPrep s g) 1).2.stop = false ∧ (rootSearch (goPrep s g) 1).2.pending = s.pending :=
  Search.depth1_not_interrupted boardLaws s g hwf hpoll

/-- `depth1_completes`, reduced to the value-range hypothesis `HorizonBelowWin` (every depth-1 child search of the
position, started between two polls with an empty table and window `[lossScore, β]`, `β ≤ winScore`, returns a value
`< winScore`): **a position with a legal move never gets the null move**, under any limit and any interruption -/
theorem depth1_completes_partial (s : St) (g : GoParams) (maxIter : Nat) (hwf : Inv (fuelFor 1) s.board)
    (hiter : 1 ≤ maxIter) (hpoll : (genPseudo s.board).length < s.pollPeriod)
    (hlegal : ∃ m, LegalRoot s.board g.searchMoves m)
    (hval : HorizonBelowWin s.board (fuelFor 1 - 1)) (h0 : s.out = []) :
    ∃ m ponder infos, (goCmd s g maxIter).out = .bestMove (some m) ponder :: infos := by
  have hne := Search.depth1_completes_partial boardLaws s g maxIter hwf hiter hpoll hlegal hval
  obtain ⟨news, h, -, -⟩ := goCmd_out s g maxIter
  rw [h0, List.append_nil] at h
  cases hb : bestMoveOf (goDeepen s g maxIter).1 with
  | none => exact absurd hb hne
  | some m => rw [hb] at h; exact ⟨m, _, news, h⟩

#print axioms depth1_not_interrupted
#print axioms depth1_completes_partial

/- TARGET (not yet proved): the answer is never the null move when a legal move exists.

   theorem depth1_completes (s : St) (g : GoParams) (maxIter : Nat) (hwf : Inv (fuelFor 1) s.board)
       (hiter : 1 ≤ maxIter)
       (hpoll : 219 < s.pollPeriod)                                   -- the engine polls every 100 000 nodes
       (hlegal : ∃ m, LegalRoot s.board g.searchMoves m) (h0 : s.out = []) :
       ∃ m ponder infos, (goCmd s g maxIter).out = .bestMove (some m) ponder :: infos

   Proved instead: `depth1_completes_partial`, which has the two extra hypotheses
   (1) `(genPseudo s.board).length < s.pollPeriod` in place of `219 < s.pollPeriod` — missing is the chess fact
       `(genPseudo b).length ≤ 218` for well-formed boards;
   (2) `HorizonBelowWin s.board 200`, the value-range invariant
         lossScore < -(value of the child search at ply 1)   for every legal root move.
       The children are horizon nodes: static evaluations (|evaluateOngoing| ≤ 64·max piece value + 64·6·max table
       entry ≪ winScore = 2^24; mate scores `winScore - fullmove` with `1 ≤ fullmove`), the repetition value
       `drawScore ± contempt`, or quiescence values, which are clamped to the window `[-winScore, -alpha]` and equal
       `winScore` only if a static evaluation reaches `winScore` or the recursion fuel (200 plies of captures) runs
       out.  Missing: bounds on `evaluate` over well-formed boards and adequacy of the quiescence fuel.
   Everything else — no poll, hence no stop / quit / time-out before iteration 1 has completed; the budget test
   `tooLittle` only runs after the iteration's result has been stored; later iterations can only replace the result
   by another completed one — is proved. -/

/-! ## non-vacuity -/

example : Inv (goBudget 64) Search.initial.board := ⟨by decide +kernel, by decide, by decide⟩
example : Inv (fuelFor 1) Search.initial.board := ⟨by decide +kernel, by decide, by decide⟩
example : Search.initial.out = [] := rfl

/-- depth 1 from the start position: exactly one bestmove, and it is a legal move -/
def d1 : St := goCmd Search.initial { depth := some 1 } 4
#guard (bestMoves d1.out).length == 1
#guard match d1.out with
  | .bestMove (some m) _ :: _ => (genPseudo Search.initial.board).contains m && isValid (make Search.initial.board m)
  | _ => false

/-- searchmoves -/
def dsm : St := goCmd Search.initial { depth := some 2, searchMoves := ["a2a3", "h2h4"] } 4
#guard match dsm.out with
  | .bestMove (some m) _ :: _ => ["a2a3", "h2h4"].contains m.uci
  | _ => false

/-- near-zero time, zero increment: iteration 1 completes and is kept -/
def dzero : St := goCmd { Search.initial with nsPerNode := some 1000000 } { wtime := some 1, btime := some 1, winc := some 0, binc := some 0 } 8
#guard match dzero.out with
  | .bestMove (some _) _ :: _ => true
  | _ => false

/-- go infinite, `stop` already waiting, engine poll period -/
def dinf : St := goCmd { Search.initial with pollPeriod := 400, pending := [.stop] } {} 8
#guard match dinf.out with
  | .bestMove (some _) _ :: _ => true
  | _ => false

/-- a searchmoves list without any legal move: the hypothesis of `nolegal_null` is satisfiable; the answer is null -/
def dnone : St := goCmd Search.initial { depth := some 2, searchMoves := ["e2e5"] } 4
#guard match dnone.out with
  | .bestMove none none :: _ => true
  | _ => false

/-- the hypotheses of `depth1_completes_partial` on the start position: 20 pseudo-legal moves; every depth-1 child
value is below `winScore` (evaluated for the children the search visits) -/
def childValuesBelowWin (b : Board) : Bool :=
  (genLegal b).all fun m =>
    (negamax 200 { Search.initial with board := make b m, negamaxNodes := 1 } 1 1 Eval.lossScore Gen.winScore false
      (Zobrist.hash (make b m)) (Zobrist.pawnHash (make b m))).1.value < Gen.winScore
#guard (genPseudo Search.initial.board).length == 20
#guard childValuesBelowWin Search.initial.board

end Inkayaku.C07
