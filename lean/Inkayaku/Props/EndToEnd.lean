import Inkayaku.Proofs.EndToEndText
import Inkayaku.Proofs.EndToEndSearch
import Inkayaku.Proofs.EndToEndProject
import Inkayaku.Props.C08Transp
import Inkayaku.Props.C07Final
import Inkayaku.Model.AppOps
/-!
# End to end at the PROCESS level: from the text a GUI sends to the text the engine prints

The process model `App.appRun` (`Model/App.lean`) maps stdin lines to stdout lines.  The theorems of this file compose the
per-property results into statements whose hypotheses AND conclusions are texts and rules-level objects only:

    stdin text ──C15 parser──▶ command ──C12 FEN reader──▶ board ──C13 find_uci / C02 make──▶ position
               ──C07/C08 search──▶ `Out` stream ──C16 `toTx` + `Console.render`──▶ stdout text

The lines sent (defined in `Proofs/EndToEndText.lean`):
`positionLine b = "position fen " ++ fenText b`, `positionMovesLine b ms = … ++ " moves m1 … mn"`,
`goDepthLine d = "go depth " ++ toString d`, where `fenText b` is the canonical FEN of `b` written by the independent printer
`Spec/FenText.lean` (= what the engine's own writer prints, `printFen_fenText`, C12).

1. `app_position_fen_sets_board` – `position fen <FEN of b>` on a live process prints nothing and makes the search thread hold
   EXACTLY `WF.vis b` (`b` with its two scratch words cleared; `= b` when they are clear, e.g. for every board read from a FEN),
   a fresh repetition history containing the hash of `b`, and no played moves.
2. `app_go_depth_reports_minimax` – the script `[position fen <FEN of b>, go depth d]`, `d ∈ {1,2,3}`, makes a freshly started
   process print the banner, info lines, among them `info depth d [time T] nodes N pv … score S hashfull H nps P […]` where `S` is the
   text of `scoreFromValue (specValue d b) b` – the exact minimax value of the rules-level specification –, and as last line
   `bestmove m[ ponder p]` with `m ∈ specBestMoves d b`; `infoLine_projected`: the projected form of that info line is
   `info depth d pv m1 … mk score S`.  Hypotheses: those of `C08Transp.go_eq_spec_le3` (no 64-bit hash
   collision / zero hash within `d` plies, clock budget, at least one legal move).
3. `app_go_bestmove_legal` – after `position fen <FEN of b>`, ANY line that parses to a `go` (all limits, `searchmoves`) is answered
   by info lines and then exactly one line `bestmove <text of a legal move of the rules Spec>[ ponder …]`, never `bestmove 0000`.
4. `app_position_moves` – `position fen <FEN of b> moves m1 … mn`: if every `mi` is a legal move of the rules where it is played,
   the search thread holds a board that stands for the position the rules Spec reaches (`Spec.apply` folded over the moves);
   otherwise the state of the process is unchanged; nothing is printed either way.
Also: `app_go_bestmove_legal_held` (3 for whatever legal position the process holds), `app_run_go_bestmove_legal` (3 as the whole
stdout of a fresh process), `app_go_bestmove_legal_after_moves` (3 + 4: `position fen … moves …` then any `go`: the announced move
is legal by the rules in the position REACHED by the line).

The text-level projection used by the `app` driver op (`AppOps.projectLine`, defined with `String.splitOn`) is mirrored on
characters by `projectChars` (`Proofs/EndToEndProject.lean`); `project_infoLine` / `infoLine_projected` prove the projected form
of the info line of theorem 2 (`info depth d pv … score S`).  TARGET (not proved; evaluated by `#guard` on every line of the
example scripts, on periodic infos, non-info lines and degenerate texts):

    theorem projectLine_eq (l : String) : AppOps.projectLine l = String.ofList (projectChars l.toList)

— it needs a theory of `String.splitOn` / `String.intercalate` on byte positions that core Lean does not provide.
-/
namespace Inkayaku.EndToEnd
open Inkayaku.App Inkayaku.Board Inkayaku.WF Inkayaku.BoardCongr Inkayaku.Search Inkayaku.EngineOut Inkayaku.Abs
open Inkayaku.SearchSim Inkayaku.SpecSearch Inkayaku.Eval
open Inkayaku.Uci (UciMove parseLine)
open Inkayaku.UciGrammar (MoveWf)
open Inkayaku.Console (render)
open Inkayaku.C16App (goStart goRun isBestmoveLine)

/-! ## 1. `position fen <FEN of b>` -/

/-- the search thread after `position fen <FEN of b>`: `set_position_from` on the visible part of `b` -/
theorem app_position_fen_setPosition (cfg : Cfg) {s : AppSt} (halive : s.alive = true) {b : Board} (hwf : wf b = true) :
    appStep cfg s (positionLine b) = ({ s with search := setPosition s.search (vis b) [] }, []) := by
  have hr := C12.wf_repr hwf
  obtain ⟨b0, hb0, hs⟩ := C16App.app_position cfg halive (parseLine_positionLine hr)
  have hb : b0 = vis b := by
    have h1 : FenBoard.fromFenString (String.ofList (fenChars b)) = .ok (vis b) := fromFen_fenText hr
    rw [hb0] at h1
    injection h1
  rw [hs, hb]
  rfl

/-- **1. `app_position_fen_sets_board`.**  For every legal position `b` (`WF.wf`), the line `position fen <canonical FEN of b>`
sent to a live process prints nothing and leaves the process in the state in which the search thread holds exactly
`WF.vis b` – the board `b` with its two scratch occupancy words cleared –, the repetition history of a new game (all zero except
the hash of `b` at its ply clock) and an empty list of played moves; everything else (table, killers, previous PV, debug
switch, …) is as before. -/
theorem app_position_fen_sets_board (cfg : Cfg) {s : AppSt} (halive : s.alive = true) {b : Board} (hwf : wf b = true) :
    appStep cfg s (positionLine b) =
      ({ s with search := { s.search with
          board := vis b
          history := historySet (Array.replicate 5000 0) (plyClock b) (Zobrist.hash b).toNat
          playedMoves := [] } }, []) := by
  rw [app_position_fen_setPosition cfg halive hwf, SearchSim.setPosition_nil, hash_vis, plyClock_vis]

/-- the scratch words are clear (every board read from a FEN, every board of `setPosition`'s input in the process) -/
theorem vis_eq_self {b : Board} (hw : b.white.o0 = 0) (hb : b.black.o0 = 0) : vis b = b :=
  (eq_vis_of_scratch rfl hw hb).symm

/-- … so the board held is `b` up to `vis`, stands for the same position of the rules, and is `b` itself when the
scratch words of `b` are clear -/
theorem app_position_fen_board (cfg : Cfg) {s : AppSt} (halive : s.alive = true) {b : Board} (hwf : wf b = true) :
    (appStep cfg s (positionLine b)).2 = [] ∧
    (appStep cfg s (positionLine b)).1.search.board = vis b ∧
    vis (appStep cfg s (positionLine b)).1.search.board = vis b ∧
    abs (appStep cfg s (positionLine b)).1.search.board = abs b ∧
    (b.white.o0 = 0 → b.black.o0 = 0 → (appStep cfg s (positionLine b)).1.search.board = b) ∧
    (appStep cfg s (positionLine b)).1.alive = true := by
  rw [app_position_fen_sets_board cfg halive hwf]
  exact ⟨rfl, rfl, rfl, rfl, fun hw hb => vis_eq_self hw hb, halive⟩

/-! ## 2. `position fen <FEN of b>` + `go depth d`: the exact minimax value and an optimal move -/

/-- the text of the iteration info `o = info (some d) t n (some sc) (some pv)` as the process prints it under `cfg` -/
def infoLine (cfg : Cfg) (debug : Bool) (d : Nat) (t : Option Nat) (n : Nat) (sc : Score) (pv : List Move) : String :=
  let aux := auxOf cfg debug (.info (some d) t n (some sc) (some pv))
  String.ofList (infoLineChars d t n (pv.map fun m => m.uci.toList) (Console.scoreText (scoreOf sc)) aux.hashfull aux.nps
    (aux.debug.map debugText))

theorem render_infoLine (cfg : Cfg) (debug : Bool) (d : Nat) (t : Option Nat) (n : Nat) (sc : Score) (pv : List Move) :
    render (toTx (auxOf cfg debug (.info (some d) t n (some sc) (some pv))) (.info (some d) t n (some sc) (some pv))) =
      infoLine cfg debug d t n sc pv := by
  unfold render infoLine
  rw [render_info]

/-- **the projected form of that line** (`projectChars` = the `app` op's projection on characters, see
`Proofs/EndToEndProject.lean`): `info depth d pv m1 … mk score S` — run dependent fields and the debug string removed -/
theorem infoLine_projected (cfg : Cfg) (debug : Bool) (d : Nat) (t : Option Nat) (n : Nat) (sc : Score) {pv : List Move}
    (hpv : pv ≠ []) :
    projectChars (infoLine cfg debug d t n sc pv).toList =
      "info depth ".toList ++ (Console.natText d ++ (" pv ".toList ++ (Console.joinSp (pv.map fun m => m.uci.toList) ++
        (" score ".toList ++ Console.scoreText (scoreOf sc))))) := by
  unfold infoLine
  rw [String.toList_ofList]
  refine project_infoLine d t n (by simpa using hpv) ?_ (scoreOf sc) (by cases sc <;> intro v b h <;> cases h) _ _ _
  intro w hw
  obtain ⟨m, -, rfl⟩ := List.mem_map.mp hw
  exact plain_uci m

/-- no line printed for an output without bestmove message is a `bestmove` line -/
theorem searchLines_no_bestmove (aux : Out → Aux) {infos : List Out} (hn : bestMoves infos = []) :
    ∀ l ∈ searchLines aux infos, isBestmoveLine l = false := by
  intro l hl
  obtain ⟨o, ho, rfl⟩ := List.mem_map.mp hl
  rw [C16App.isBestmoveLine_render]
  have hf := C16App.filter_isBestOut_of_bestMoves_nil infos hn
  cases hb : C16App.isBestOut o with
  | false => rfl
  | true =>
    have : o ∈ infos.filter C16App.isBestOut := List.mem_filter.mpr ⟨List.mem_reverse.mp ho, hb⟩
    rw [hf] at this; cases this

/-- what a two-line script prints -/
theorem appRun_two (cfg : Cfg) (l1 l2 : String) :
    appRun [l1, l2] cfg =
      bannerLine :: ((appStep cfg (appInit cfg) l1).2 ++ (appStep cfg (appStep cfg (appInit cfg) l1).1 l2).2) := by
  simp only [appRun, appSteps, List.append_nil]

theorem appSteps_two (cfg : Cfg) (s : AppSt) (l1 l2 : String) :
    (appSteps cfg s [l1, l2]).2 = (appStep cfg s l1).2 ++ (appStep cfg (appStep cfg s l1).1 l2).2 := by
  simp only [appSteps, List.append_nil]

theorem st_clear_eq (s : St) (h1 : s.out = []) (h2 : s.pending = []) : { s with out := [], pending := [] } = s := by
  cases s
  simp only at h1 h2
  subst h1; subst h2
  rfl

/-- the search a `go depth d` line runs on a freshly started process after `position fen <FEN of b>` prints what
`goCmd (setPosition initial b []) {depth := some d}` prints (C08's statement) -/
theorem goRun_fresh_out (cfg : Cfg) (b : Board) (d : Nat) (hd1 : 1 ≤ d) (hd64 : d ≤ 64) :
    (goRun cfg { appInit cfg with search := setPosition (appInit cfg).search (vis b) [] } { depth := some d }).out =
      (goCmd (setPosition initial b []) { depth := some d }).out := by
  have hstart : goStart { appInit cfg with search := setPosition (appInit cfg).search (vis b) [] } =
      setPosition initial (vis b) [] := by
    show ({ setPosition initial (vis b) [] with out := [], pending := [] } : St) = _
    exact st_clear_eq _ (by rw [SearchSim.setPosition_nil]; rfl) (by rw [SearchSim.setPosition_nil]; rfl)
  have hg : SessionOps.goParamsOf { depth := some d } = ({ depth := some d } : GoParams) := rfl
  have hm : maxIterOf cfg { depth := some d } = max d 1 := rfl
  unfold goRun
  rw [hstart, hg, hm,
    goCmd_iters _ _ (n := max d 1) (n' := 64)
      (by rw [goIters_depth rfl hd1 (by omega), goIters_depth rfl hd1 hd64])]
  exact (goCmd_congr (eqv_setPosition_vis initial b) { depth := some d } 64).1

/-- **2. `app_go_depth_reports_minimax`.**  From the TEXT a GUI sends to the TEXT the process prints: for a legal position `b`
that has a legal move, a search depth `d ∈ {1, 2, 3}`, within the clock budget and without 64-bit hash collision / zero hash
among the positions within `d` plies (the hypotheses of `C08Transp.go_eq_spec_le3`), a freshly started process that reads

    position fen <canonical FEN of b>
    go depth d

prints: the banner; info lines (none of them a `bestmove` line), one of which is

    info depth d [time T] nodes N pv m1 … mk score S hashfull H nps P [string …]

with `S` the text of `scoreFromValue (specValue d b) b` — centipawns or mate distance of the EXACT depth-`d` minimax value
of the rules-level specification —; and, as its last line, `bestmove m[ ponder p]` where `m` is an optimal move
(`m ∈ specBestMoves d b`) and `p` the second move of that info's PV.  For every `cfg` (run dependent numbers, debug texts). -/
theorem app_go_depth_reports_minimax (cfg : Cfg) (b : Board) (d : Nat) (hd1 : 1 ≤ d) (hd3 : d ≤ 3)
    (hinv : Inv (fuelFor d) b) (hlegal : genLegal b ≠ []) (hnowrap : ply2 b + d < 65536)
    (hnc : NoCollision b d) (hnz : HashNonzero b d) (hmat : material b ≤ 64) :
    ∃ (pre post : List String) (t : Option Nat) (nodes : Nat) (pv : List Move) (m : Move),
      appRun [positionLine b, goDepthLine d] cfg =
        bannerLine :: (pre ++ infoLine cfg cfg.debugDefault d t nodes (scoreFromValue (specValue d b) b) pv :: post ++
          [bestLine m pv[1]?]) ∧
      m.uci ∈ specBestMoves d b ∧ pv ≠ [] ∧
      (∀ l ∈ pre ++ infoLine cfg cfg.debugDefault d t nodes (scoreFromValue (specValue d b) b) pv :: post,
        isBestmoveLine l = false) := by
  have hwf := hinv.wf
  -- the two steps of the process
  have h1 := app_position_fen_setPosition cfg (s := appInit cfg) rfl hwf
  have hp2 := parseLine_goDepthLine d (by omega)
  rw [appRun_two, h1]
  have halive : ({ appInit cfg with search := setPosition (appInit cfg).search (vis b) [] } : AppSt).alive = true := rfl
  rw [C16App.appStep_ok cfg halive hp2]
  show ∃ pre post t nodes pv m, bannerLine :: ([] ++ (runGo cfg _ _).2) = _ ∧ _
  rw [C16App.runGo_lines, goRun_fresh_out cfg b d hd1 (by omega)]
  -- the search model: C08 (value, optimal move) and C07 (exactly one bestmove, at the end)
  obtain ⟨pv, nodes, t, hinfo, m, hbest, hopt⟩ := C08Transp.go_eq_spec_le3 b d hd1 hd3 hinv hlegal hnowrap hnc hnz hmat
  obtain ⟨best, ponder, infos, hout, hnil⟩ :=
    C07.go_exactly_one_bestmove (setPosition initial b []) { depth := some d } 64 (by rw [SearchSim.setPosition_nil]; rfl)
  have hpvne : pv ≠ [] :=
    C16Wf.engine_pv_nonempty (setPosition initial b []) { depth := some d } 64 _ _ _ _ pv hinfo
      (by rw [SearchSim.setPosition_nil]; exact List.not_mem_nil)
  rw [hout] at hinfo hbest ⊢
  obtain ⟨e1, e2⟩ := bestMove_is_head hnil hbest
  subst e1; subst e2
  have hinfo' := info_mem_tail (bm := .bestMove (some m) pv[1]?) rfl hinfo
  obtain ⟨pre, post, hsplit⟩ := searchLines_mem (auxOf cfg cfg.debugDefault) hinfo'
  rw [render_infoLine] at hsplit
  refine ⟨pre, post, t, nodes, pv, m, ?_, hopt, hpvne, ?_⟩
  · show bannerLine :: ([] ++ searchLines (auxOf cfg cfg.debugDefault) (.bestMove (some m) pv[1]? :: infos)) = _
    rw [searchLines_shape, hsplit, render_bestMove]
    simp only [List.nil_append, List.append_assoc, List.cons_append]
  · rw [← hsplit]
    exact searchLines_no_bestmove _ hnil

/-! ## 3. any `go`: the announced move is a legal move of the rules -/

theorem sm_uci_ne_null (sm : Spec.SMove) : sm.uci ≠ "0000" := by
  intro h
  have h' := congrArg String.toList h
  rw [GenSpec.uci_toList] at h'
  have h0 : "0000".toList = ['0', '0', '0', '0'] := by decide
  rw [h0] at h'
  simp only [List.cons_append, List.cons.injEq] at h'
  have hk : ∀ k, k < 8 → Char.ofNat (97 + k) ≠ '0' := by decide
  exact hk _ (Nat.mod_lt _ (by decide)) h'.1

theorem legalRoot_of_rules {b : Board} (hwf : wf b = true) {texts : List String}
    (h : ∃ sm ∈ Spec.legalMoves (abs b), texts = [] ∨ sm.uci ∈ texts) : ∃ m, LegalRoot b texts m := by
  obtain ⟨sm, hsm, hin⟩ := h
  obtain ⟨m, hm, hmu⟩ := List.mem_map.mp ((Closure.genLegal_eq_rules hwf sm).mpr hsm)
  have hmu' : smove m = sm := hmu
  have hmp : m ∈ genPseudo b := (List.mem_filter.mp hm).1
  refine ⟨m, hmp, (List.mem_filter.mp hm).2, ?_⟩
  intro hne
  rcases hin with e | hin
  · exact absurd e hne
  · rw [uci_smove hwf hmp, hmu']; exact hin

/-- the answer of one `go` line: info lines, then `bestmove <legal move of the rules in position p>[ ponder …]` -/
def AnswersLegal (lines : List String) (p : Spec.Pos) (searchmoves : List String) : Prop :=
  ∃ (infoLines : List String) (sm : Spec.SMove) (ponder : Option Move),
    lines = infoLines ++ ["bestmove " ++ sm.uci ++ (match ponder with | none => "" | some q => " ponder " ++ q.uci)] ∧
    sm ∈ Spec.legalMoves p ∧ sm.uci ≠ "0000" ∧ (searchmoves ≠ [] → sm.uci ∈ searchmoves) ∧
    (∀ x ∈ infoLines, isBestmoveLine x = false)

/-- **whatever position the process holds**: a live process (poll period above 41 218 nodes; the engine's is 100 000) whose
search thread holds a legal position with a legal move by the rules (among `searchmoves` if given), within the clock budget of
the search, answers ANY line that parses to a `go` by info lines followed by exactly one `bestmove` line with the UCI text of a
legal move of the rules Spec in the held position — never `0000` -/
theorem app_go_bestmove_legal_held (cfg : Cfg) {s : AppSt} (halive : s.alive = true) (hpoll : 41218 < s.search.pollPeriod)
    {l : String} {g : Uci.Go} (hp : parseLine l = .ok (.go g))
    (hinv : Inv (goBudget (maxIterOf cfg g)) s.search.board) (hfm : s.search.board.fullmove < 33554431)
    (hfuel : g.depth = none → 1 ≤ cfg.fuel)
    (hlegal : ∃ sm ∈ Spec.legalMoves (abs s.search.board),
      moveTexts g.searchMoves = [] ∨ sm.uci ∈ moveTexts g.searchMoves) :
    AnswersLegal (appStep cfg s l).2 (abs s.search.board) (moveTexts g.searchMoves) := by
  have hwf := hinv.wf
  rw [C16App.appStep_ok cfg halive hp]
  show AnswersLegal (runGo cfg s g).2 _ _
  rw [C16App.runGo_lines]
  unfold goRun
  have hiter : 1 ≤ maxIterOf cfg g := by
    unfold maxIterOf
    cases hd : g.depth with
    | none => exact hfuel hd
    | some d => exact Nat.le_max_right _ _
  obtain ⟨m, ponder, infos, hout, hnil, hmp, hvalid, hsm⟩ :=
    C07.go_answers_legal_move (goStart s) (SessionOps.goParamsOf g) (maxIterOf cfg g) hinv hfm hiter hpoll
      (legalRoot_of_rules hwf hlegal) rfl
  have hmp' : m ∈ genPseudo s.search.board := hmp
  have hvalid' : isValid (make s.search.board m) = true := hvalid
  refine ⟨searchLines (auxOf cfg s.debug) infos, smove m, ponder, ?_, smove_legal hwf hmp' hvalid', sm_uci_ne_null _, ?_,
    searchLines_no_bestmove _ hnil⟩
  · rw [hout, searchLines_shape, render_bestMove, ← uci_smove hwf hmp']
    rfl
  · intro hne
    rw [← uci_smove hwf hmp']
    exact hsm hne

/-- the same with the held board named -/
theorem app_go_bestmove_legal_board (cfg : Cfg) {s : AppSt} (halive : s.alive = true) (hpoll : 41218 < s.search.pollPeriod)
    {l : String} {g : Uci.Go} (hp : parseLine l = .ok (.go g)) {b0 : Board} (hb : s.search.board = b0)
    (hinv : Inv (goBudget (maxIterOf cfg g)) b0) (hfm : b0.fullmove < 33554431)
    (hfuel : g.depth = none → 1 ≤ cfg.fuel)
    (hlegal : ∃ sm ∈ Spec.legalMoves (abs b0), moveTexts g.searchMoves = [] ∨ sm.uci ∈ moveTexts g.searchMoves) :
    AnswersLegal (appStep cfg s l).2 (abs b0) (moveTexts g.searchMoves) := by
  subst hb
  exact app_go_bestmove_legal_held cfg halive hpoll hp hinv hfm hfuel hlegal

/-- **3. `app_go_bestmove_legal`.**  A live process (with the engine's poll period: more than 41 218 nodes between two polls; the
engine's is 100 000) reads `position fen <FEN of b>` for a legal position `b` that has a legal move by the rules (one of
`searchmoves` if the `go` names some), and then ANY line that parses to a `go` command — every combination of limits.  Within the
clock budget of the search (`Inv (goBudget maxIter)`, as in C07) it prints info lines and then exactly one `bestmove` line, whose
move is the UCI text of a LEGAL MOVE OF THE RULES Spec in `b` (and one of `searchmoves` when given) — never `bestmove 0000`. -/
theorem app_go_bestmove_legal (cfg : Cfg) {s : AppSt} (halive : s.alive = true) (hpoll : 41218 < s.search.pollPeriod)
    {b : Board} {l : String} {g : Uci.Go} (hp : parseLine l = .ok (.go g))
    (hinv : Inv (goBudget (maxIterOf cfg g)) b) (hfm : b.fullmove < 33554431) (hfuel : g.depth = none → 1 ≤ cfg.fuel)
    (hlegal : ∃ sm ∈ Spec.legalMoves (abs b), moveTexts g.searchMoves = [] ∨ sm.uci ∈ moveTexts g.searchMoves) :
    AnswersLegal (appSteps cfg s [positionLine b, l]).2 (abs b) (moveTexts g.searchMoves) := by
  have hwf := hinv.wf
  rw [appSteps_two, app_position_fen_sets_board cfg halive hwf, List.nil_append]
  refine app_go_bestmove_legal_board cfg (s := _) ?_ ?_ hp (b0 := vis b) ?_ (inv_vis hinv) hfm hfuel hlegal
  · exact halive
  · exact hpoll
  · rfl

/-- the same for a freshly started process (poll period 100 000): the whole stdout of the two-line script -/
theorem app_run_go_bestmove_legal (cfg : Cfg) {b : Board} {l : String} {g : Uci.Go} (hp : parseLine l = .ok (.go g))
    (hinv : Inv (goBudget (maxIterOf cfg g)) b) (hfm : b.fullmove < 33554431) (hfuel : g.depth = none → 1 ≤ cfg.fuel)
    (hlegal : ∃ sm ∈ Spec.legalMoves (abs b), moveTexts g.searchMoves = [] ∨ sm.uci ∈ moveTexts g.searchMoves) :
    ∃ lines, appRun [positionLine b, l] cfg = bannerLine :: lines ∧
      AnswersLegal lines (abs b) (moveTexts g.searchMoves) :=
  ⟨_, rfl, app_go_bestmove_legal cfg (s := appInit cfg) rfl (by show 41218 < 100000; decide) hp hinv hfm hfuel hlegal⟩

/-! ## 4. `position fen <FEN of b> moves m1 … mn` -/

/-- **4. `app_position_moves`.**  `position fen <FEN of b> moves m1 … mn` on a live process, `b` legal with a clock budget of
`n + k` plies, the `mi` any UCI move values (squares on the board).  Nothing is printed.  If every `mi` is a legal move of the
rules Spec in the position reached by `m1 … m(i-1)` (`RulesLine`), the process afterwards differs from before in the search
thread's board, repetition history and played-move list only, and the board is well-formed (budget `k` left), `n` plies after
`b`, and stands for the position `Spec.apply (… (Spec.apply (abs b) m1) …) mn`.  If some `mi` is not legal there, the state of the
process is EXACTLY what it was (the engine keeps its old position). -/
theorem app_position_moves (cfg : Cfg) {s : AppSt} (halive : s.alive = true) {b : Board} {us : List UciMove}
    (hus : ∀ u ∈ us, MoveWf u) (k : Nat) (hinv : Inv (us.length + k) b) :
    (RulesLine (abs b) (us.map toSMove) →
      ∃ b' hist mv, appStep cfg s (positionMovesLine b us) =
          ({ s with search := { s.search with board := b', history := hist, playedMoves := mv } }, []) ∧
        Inv k b' ∧ abs b' = applyLine (abs b) (us.map toSMove) ∧ mv.length = us.length ∧
        b'.fullmove ≤ b.fullmove + us.length) ∧
    (¬ RulesLine (abs b) (us.map toSMove) → appStep cfg s (positionMovesLine b us) = (s, [])) := by
  have hwf := hinv.wf
  have hr := C12.wf_repr hwf
  obtain ⟨b0, hb0, hs⟩ := C16App.app_position cfg halive (parseLine_positionMovesLine hr hus)
  have hb : b0 = vis b := by
    have h1 : FenBoard.fromFenString (String.ofList (fenChars b)) = .ok (vis b) := fromFen_fenText hr
    rw [hb0] at h1
    injection h1
  subst hb
  obtain ⟨g1, g2⟩ := setPosition_go_rules k us (vis b)
    (historySet (Array.replicate 5000 0) (plyClock (vis b)) (Zobrist.hash (vis b)).toNat) [] hus (inv_vis hinv)
  constructor
  · intro hl
    obtain ⟨b', h', mv, e1, e2, e3, e4, e5⟩ := g1 hl
    refine ⟨b', h', mv, ?_, e2, e3, by simpa using e4, fullmove_of_ply2 hwf e2.wf e5⟩
    rw [hs]
    show (({ s with search := setPosition s.search (vis b) (moveTexts us) } : AppSt), ([] : List String)) = _
    rw [SearchRep.setPosition_of_go_some _ _ _ _ _ _ e1]
  · intro hl
    rw [hs]
    show (({ s with search := setPosition s.search (vis b) (moveTexts us) } : AppSt), ([] : List String)) = _
    rw [SearchRep.setPosition_of_go_none _ _ _ (g2 hl)]

/-- **3 + 4: a game, then any `go`.**  `position fen <FEN of b> moves m1 … mn` with a legal line of the rules, followed by any
line that parses to a `go`: the process answers with info lines and one `bestmove` line carrying a legal move of the rules
Spec IN THE POSITION REACHED BY THE LINE (`applyLine (abs b) [m1, …, mn]`), never `0000` — provided that position has a legal
move (among `searchmoves` if given) and the clocks of `b` leave room for the game and the search. -/
theorem app_go_bestmove_legal_after_moves (cfg : Cfg) {s : AppSt} (halive : s.alive = true)
    (hpoll : 41218 < s.search.pollPeriod) {b : Board} {us : List UciMove} (hus : ∀ u ∈ us, MoveWf u)
    {l : String} {g : Uci.Go} (hp : parseLine l = .ok (.go g))
    (hinv : Inv (us.length + goBudget (maxIterOf cfg g)) b) (hfm : b.fullmove + us.length < 33554431)
    (hfuel : g.depth = none → 1 ≤ cfg.fuel) (hline : RulesLine (abs b) (us.map toSMove))
    (hlegal : ∃ sm ∈ Spec.legalMoves (applyLine (abs b) (us.map toSMove)),
      moveTexts g.searchMoves = [] ∨ sm.uci ∈ moveTexts g.searchMoves) :
    AnswersLegal (appSteps cfg s [positionMovesLine b us, l]).2 (applyLine (abs b) (us.map toSMove))
      (moveTexts g.searchMoves) := by
  obtain ⟨b', hist, mv, e1, e2, e3, -, e5⟩ := (app_position_moves cfg halive hus _ hinv).1 hline
  rw [appSteps_two, e1, List.nil_append, ← e3]
  refine app_go_bestmove_legal_board cfg (s := _) ?_ ?_ hp (b0 := b') ?_ e2 (by omega) hfuel (by rw [e3]; exact hlegal)
  · exact halive
  · exact hpoll
  · rfl

#print axioms app_position_fen_sets_board
#print axioms app_position_fen_board
#print axioms app_go_depth_reports_minimax
#print axioms app_go_bestmove_legal_held
#print axioms app_go_bestmove_legal
#print axioms app_go_bestmove_legal_after_moves
#print axioms infoLine_projected
#print axioms app_run_go_bestmove_legal
#print axioms app_position_moves


/-! ## 5. non-vacuity: concrete scripts

`kc` = `k7/8/2K5/8/8/8/8/7R w - - 0 1` (White mates in two: depth 3 reports `mate 2`), `kr` = `k7/8/1K6/8/8/8/8/7R w - - 0 1`
(`C08.Example.kr`).  Hypotheses that are propositions about the bitboard model (`wf`, clock budget, legal move, hash hypotheses
at depth 2) are checked IN THE KERNEL and the theorems are instantiated; the printed texts themselves (`Std.HashMap`, strings)
are evaluated by the compiler (`#guard`) and compared with `specValue` / `specBestMoves`. -/
namespace Example
open Inkayaku.C08.Example Inkayaku.C08Sim.Example

def kc : Board := boardOf "k7/8/2K5/8/8/8/8/7R w - - 0 1"

theorem kc_wf : wf kc = true := by decide +kernel
theorem kr_wf : wf kr = true := by decide +kernel

-- the lines, as texts
#guard fenText kc == "k7/8/2K5/8/8/8/8/7R w - - 0 1" && FenBoard.printFen kc == some (fenText kc)
#guard positionLine kc == "position fen k7/8/2K5/8/8/8/8/7R w - - 0 1"
#guard positionLine FenBoard.startBoard == "position fen rnbqkbnr/pppppppp/8/8/8/8/PPPPPPPP/RNBQKBNR w KQkq - 0 1"
#guard goDepthLine 3 == "go depth 3" && goDepthLine 12 == "go depth 12"
#guard positionMovesLine kc [⟨63, 62, none⟩, ⟨0, 8, none⟩] == "position fen k7/8/2K5/8/8/8/8/7R w - - 0 1 moves h1g1 a8a7"
#guard positionMovesLine kc [] == "position fen k7/8/2K5/8/8/8/8/7R w - - 0 1 moves"

/-! ### 1. `position fen` -/

/-- theorem 1 instantiated: the freshly started process, the line of `kc` -/
example : (appStep {} appInit (positionLine kc)).2 = [] ∧ (appStep {} appInit (positionLine kc)).1.search.board = vis kc :=
  ⟨(app_position_fen_board {} (s := appInit) rfl kc_wf).1, (app_position_fen_board {} (s := appInit) rfl kc_wf).2.1⟩
-- `kc` was read from a FEN: its scratch words are clear, the board held is `kc` itself
#guard vis kc == kc && (appFinal [positionLine kc]).search.board == kc
-- also in the middle of a session (table, killers, previous PV present)
#guard (appFinal ["go depth 2", positionLine kc]).search.board == kc && (appRun ["go depth 1", positionLine kc]).length == 3

/-! ### 2. `go depth d` reports the exact minimax value -/

/-- the hash hypotheses of `kr` at depth 2, in the kernel -/
theorem kr_hash2 : hashInjB kr 2 = true ∧ hashNonzeroB kr 2 = true := ⟨by decide +kernel, by decide +kernel⟩

/-- theorem 2 instantiated at `kr`, depth 2 (every hypothesis kernel-checked) -/
example : ∃ (pre post : List String) (t : Option Nat) (nodes : Nat) (pv : List Move) (m : Move),
    appRun [positionLine kr, goDepthLine 2] =
      bannerLine :: (pre ++ infoLine {} false 2 t nodes (scoreFromValue (specValue 2 kr) kr) pv :: post ++
        [bestLine m pv[1]?]) ∧
    m.uci ∈ specBestMoves 2 kr ∧ pv ≠ [] ∧
    (∀ l ∈ pre ++ infoLine {} false 2 t nodes (scoreFromValue (specValue 2 kr) kr) pv :: post, isBestmoveLine l = false) :=
  app_go_depth_reports_minimax {} kr 2 (by decide) (by decide) ⟨kr_wf, by decide, by decide⟩ (by decide +kernel) (by decide)
    (noCollision_of_hashInj (hashInj_of_check kr_hash2.1)) (hashNonzero_of_check kr_hash2.2) (by decide +kernel)

/-- the conclusion of theorem 2, evaluated on the printed text: some line projects to `info depth d pv … score S` with `S` the
text of the exact minimax value, the last line announces an optimal move -/
def reportsMinimax (b : Board) (d : Nat) : Bool :=
  let out := (appRun [positionLine b, goDepthLine d]).tail
  let want := " score " ++ String.ofList (Console.scoreText (scoreOf (scoreFromValue (specValue d b) b)))
  let head := "info depth " ++ toString d ++ " pv "
  (out.any fun l =>
    let p := String.ofList (projectChars l.toList)
    p == AppOps.projectLine l && p.startsWith head && p.endsWith want) &&
  (match out.getLast? with
   | some l => (specBestMoves d b).any fun m => l == "bestmove " ++ m || l.startsWith ("bestmove " ++ m ++ " ponder ")
   | none => false) &&
  C16App.countBestmoves out == 1

#guard hypotheses kc 1 && reportsMinimax kc 1
#guard hypotheses kc 2 && reportsMinimax kc 2
#guard hypotheses kc 3 && reportsMinimax kc 3
#guard reportsMinimax kr 3      -- (`hypotheses kr 3`: `#guard` in Props/C08Sim.lean)
-- black to move, castling rights / e.p. / promotion in the tree
#guard hypotheses (boardOf "7K/8/5k2/8/8/8/8/r7 b - - 60 40") 2 && reportsMinimax (boardOf "7K/8/5k2/8/8/8/8/r7 b - - 60 40") 2
#guard hypotheses (boardOf "r3k3/1P6/8/3pP3/8/8/8/4K2R w Kq d6 0 2") 2 &&
  reportsMinimax (boardOf "r3k3/1P6/8/3pP3/8/8/8/4K2R w Kq d6 0 2") 2
-- the texts themselves
#guard specValue 2 kc == 570 && specScore 3 kc == "mate2" && specBestMoves 3 kc == ["c6c7", "c6b6"]
#guard appRun [positionLine kc, goDepthLine 2] ==
  ["Inkayaku by Marvin Kuhnke (see https://github.com/marvk/rust-chess)",
   "info depth 1 time 0 nodes 22 pv c6d5 score cp 590 hashfull 0 nps 0",
   "info depth 2 time 0 nodes 67 pv c6d5 a8b8 score cp 570 hashfull 0 nps 0",
   "bestmove c6d5 ponder a8b8"]
#guard (appRun [positionLine kc, goDepthLine 3]).map AppOps.projectLine ==
  ["Inkayaku by Marvin Kuhnke (see https://github.com/marvk/rust-chess)",
   "info depth 1 pv c6d5 score cp 590", "info depth 2 pv c6d5 a8b8 score cp 570",
   "info depth 3 pv c6c7 a8a7 h1a1 score mate 2", "bestmove c6c7 ponder a8a7"]
-- run dependent numbers and the debug string do not matter
#guard (appRun [positionLine kc, goDepthLine 3] C16App.Example.cfg2).map AppOps.projectLine ==
  (appRun [positionLine kc, goDepthLine 3]).map AppOps.projectLine
#guard ((appRun ["debug on", positionLine kc, goDepthLine 3]).map fun l => String.ofList (projectChars l.toList)) ==
  (appRun [positionLine kc, goDepthLine 3]).map AppOps.projectLine

/-! ### 3. any `go`: a legal move of the rules -/

def isGo (l : String) (g : Uci.Go) : Bool := match parseLine l with | .ok (.go g') => g' == g | _ => false

theorem go_of_isGo {l : String} {g : Uci.Go} (h : isGo l g = true) : parseLine l = .ok (.go g) := by
  unfold isGo at h
  split at h
  · rename_i g' hp; rw [hp]; simp at h; rw [h]
  · cases h

/-- theorem 3 instantiated: `go movetime 0` (no depth: `cfg.fuel = 4` iterations in the model) after the line of `kc` -/
example : ∃ lines, appRun [positionLine kc, "go movetime 0"] = bannerLine :: lines ∧ AnswersLegal lines (abs kc) [] :=
  app_run_go_bestmove_legal {} (g := { moveTime := some 0 }) (go_of_isGo (by decide +kernel))
    ⟨kc_wf, by decide, by decide⟩ (by decide) (fun _ => by decide)
    ⟨⟨63, 7, none⟩, by decide +kernel, Or.inl rfl⟩

/-- … with clocks, zero increments and `searchmoves`: the announced move is one of them -/
example : ∃ lines, appRun [positionLine kc, "go wtime 1 btime 1 winc 0 binc 0 searchmoves h1h8 c6c7"] = bannerLine :: lines ∧
    AnswersLegal lines (abs kc) ["h1h8", "c6c7"] :=
  app_run_go_bestmove_legal {}
    (g := { wtime := some 1, btime := some 1, winc := some 0, binc := some 0, searchMoves := [⟨63, 7, none⟩, ⟨18, 10, none⟩] })
    (go_of_isGo (by decide +kernel)) ⟨kc_wf, by decide, by decide⟩ (by decide) (fun _ => by decide)
    ⟨⟨63, 7, none⟩, by decide +kernel, Or.inr (by decide)⟩

/-- the conclusion evaluated: the last line announces a legal move of the rules Spec, all other lines are infos -/
def answersLegal (b : Board) (goLine : String) : Bool :=
  let out := (appRun [positionLine b, goLine]).tail
  (match out.getLast? with
   | some l => (Spec.legalMoves (abs b)).any fun sm => l == "bestmove " ++ sm.uci || l.startsWith ("bestmove " ++ sm.uci ++ " ponder ")
   | none => false) &&
  out.dropLast.all fun l => !isBestmoveLine l

#guard answersLegal kc "go movetime 0" && answersLegal kc "go" && answersLegal kc "go infinite" && answersLegal kc "go depth 0"
#guard answersLegal kc "go wtime 1 btime 1 winc 0 binc 0 searchmoves h1h8 c6c7" && answersLegal kc "go depth 4 nodes 1 mate 1"
#guard answersLegal FenBoard.startBoard "go depth 2" && answersLegal FenBoard.startBoard "go movetime 1 ponder"
#guard (appRun [positionLine kc, "go depth 2 searchmoves h1h8"]).getLast? == some "bestmove h1h8 ponder a8a7"
-- without a legal move the hypothesis fails and the answer is the null move (stalemate position)
#guard (Spec.legalMoves (abs (boardOf "k7/8/1Q6/8/8/8/8/K7 b - - 0 1"))).isEmpty &&
  (appRun [positionLine (boardOf "k7/8/1Q6/8/8/8/8/K7 b - - 0 1"), "go depth 2"]).getLast? == some "bestmove 0000"

/-! ### 4. `position … moves …` -/

theorem kc_line : RulesLine (abs kc) ([⟨63, 62, none⟩, ⟨0, 8, none⟩].map toSMove) :=
  ⟨by decide +kernel, by decide +kernel, trivial⟩

theorem kc_not_line : ¬ RulesLine (abs kc) ([⟨63, 62, none⟩, ⟨0, 9, none⟩].map toSMove) :=
  fun h => absurd h.2.1 (by decide +kernel)

/-- theorem 4 instantiated, legal line `h1g1 a8a7` -/
example : ∃ b' hist mv, appStep {} appInit (positionMovesLine kc [⟨63, 62, none⟩, ⟨0, 8, none⟩]) =
      ({ appInit with search := { appInit.search with board := b', history := hist, playedMoves := mv } }, []) ∧
    Inv 0 b' ∧ abs b' = applyLine (abs kc) ([⟨63, 62, none⟩, ⟨0, 8, none⟩].map toSMove) ∧ mv.length = 2 ∧
    b'.fullmove ≤ kc.fullmove + 2 :=
  (app_position_moves {} (s := appInit) rfl (by decide) 0 ⟨kc_wf, by decide, by decide⟩).1 kc_line

/-- … and with the illegal second move `a8b7` (the king would step next to the white king): nothing changes -/
example : appStep {} appInit (positionMovesLine kc [⟨63, 62, none⟩, ⟨0, 9, none⟩]) = (appInit, []) :=
  (app_position_moves {} (s := appInit) rfl (by decide) 0 ⟨kc_wf, by decide, by decide⟩).2 kc_not_line

/-- 3 + 4 instantiated: the game `h1g1 a8a7`, then `go depth 2` -/
example : AnswersLegal (appSteps {} appInit [positionMovesLine kc [⟨63, 62, none⟩, ⟨0, 8, none⟩], "go depth 2"]).2
    (applyLine (abs kc) ([⟨63, 62, none⟩, ⟨0, 8, none⟩].map toSMove)) [] :=
  app_go_bestmove_legal_after_moves {} (s := appInit) rfl (by show 41218 < 100000; decide) (by decide)
    (g := { depth := some 2 }) (go_of_isGo (by decide +kernel)) ⟨kc_wf, by decide, by decide⟩ (by decide) (fun h => by cases h)
    kc_line ⟨⟨62, 6, none⟩, by decide +kernel, Or.inl rfl⟩

#guard FenBoard.printFen (appFinal [positionMovesLine kc [⟨63, 62, none⟩, ⟨0, 8, none⟩]]).search.board ==
  some "8/k7/2K5/8/8/8/8/6R1 w - - 2 2"
#guard Spec.fen (applyLine (abs kc) ([⟨63, 62, none⟩, ⟨0, 8, none⟩].map toSMove)) == "8/k7/2K5/8/8/8/8/6R1 w - - 2 2"
#guard (appFinal [positionMovesLine kc [⟨63, 62, none⟩, ⟨0, 8, none⟩]]).search.playedMoves.map Move.uci == ["h1g1", "a8a7"]
-- the illegal line keeps the previous position (here: the start position), on stdout nothing
#guard (appFinal [positionMovesLine kc [⟨63, 62, none⟩, ⟨0, 9, none⟩]]).search.board == FenBoard.startBoard
#guard appRun [positionLine kc, positionMovesLine kc [⟨63, 62, none⟩, ⟨0, 9, none⟩], "go depth 2"] ==
  appRun [positionLine kc, "go depth 2"]
#guard (appRun [positionMovesLine kc [⟨63, 62, none⟩, ⟨0, 8, none⟩], goDepthLine 2]).getLast? == some "bestmove g1g7 ponder a7a6"

end Example

end Inkayaku.EndToEnd
