import Inkayaku.Proofs.GenFacts
import Inkayaku.Model.FenBoard
/-!
# C06 for generated moves, unconditionally

`Props/C06.lean` proves the incremental Zobrist identities relative to the decidable hypothesis
`ZobristStep.HashMoveOK b m.f`.  `GenFacts.genPseudo_hashok` shows that this hypothesis holds for every move the
generator emits on a well-formed board, so here the identities are stated with no hypothesis other than
"`b` is a legal position (`wf`) and `m` was generated".  Any half-move clock `wf` allows; pseudo-legal moves included.
-/
namespace Inkayaku.C06Gen
open Inkayaku.Board Inkayaku.Zobrist

/-- **C06, position hash, every generated move**: XOR-ing `zobrist_xor(m).0` into the hash of `b` gives the hash
computed from scratch for the position after `m` -/
theorem hash_incremental_generated {b : Board} (hwf : WF.wf b = true) {m : Move} (hm : m ∈ genPseudo b) :
    Zobrist.hash (make b m) = Zobrist.hash b ^^^ (xorOf m.f).1 :=
  ZobristStep.hash_incremental (GenFacts.genPseudo_hashok hwf m hm)

/-- **C06, pawn hash, every generated move** -/
theorem pawnHash_incremental_generated {b : Board} (hwf : WF.wf b = true) {m : Move} (hm : m ∈ genPseudo b) :
    pawnHash (make b m) = pawnHash b ^^^ (xorOf m.f).2 :=
  ZobristStep.pawnHash_incremental (GenFacts.genPseudo_hashok hwf m hm)

/-- the same for legal moves -/
theorem hash_incremental_legal {b : Board} (hwf : WF.wf b = true) {m : Move} (hm : m ∈ genLegal b) :
    Zobrist.hash (make b m) = Zobrist.hash b ^^^ (xorOf m.f).1 ∧ pawnHash (make b m) = pawnHash b ^^^ (xorOf m.f).2 :=
  ⟨hash_incremental_generated hwf (List.mem_filter.mp hm).1, pawnHash_incremental_generated hwf (List.mem_filter.mp hm).1⟩

/-- and for the capture/promotion-only generator of the quiescence search -/
theorem hash_incremental_nonQuiescent {b : Board} (hwf : WF.wf b = true) {m : Move} (hm : m ∈ genNonQuiescent b) :
    Zobrist.hash (make b m) = Zobrist.hash b ^^^ (xorOf m.f).1 ∧ pawnHash (make b m) = pawnHash b ^^^ (xorOf m.f).2 :=
  ⟨ZobristStep.hash_incremental (GenFacts.genNonQuiescent_hashok hwf m hm),
   ZobristStep.pawnHash_incremental (GenFacts.genNonQuiescent_hashok hwf m hm)⟩

#print axioms hash_incremental_generated
#print axioms pawnHash_incremental_generated
#print axioms hash_incremental_legal
#print axioms hash_incremental_nonQuiescent

/-! ## Non-vacuity: well-formed positions with generated moves of every kind -/

def bd (s : String) : Board :=
  match FenBoard.fromFenString s with
  | .ok b => b
  | .error _ => default

/-- castling, an e.p. capture, promotions with and without capture (taking the a8 rook, which costs black the
queen-side right), king and rook moves that lose the white right -/
def mixed := "r3k3/1P6/8/3pP3/8/8/8/4K2R w Kq d6 0 2"
def kiwipete := "r3k2r/p1ppqpb1/bn2pnp1/3PN3/1p2P3/2N2Q1p/PPPBBPPP/R3K2R w KQkq - 0 1"

example : WF.wf (bd mixed) = true ∧ (genPseudo (bd mixed)).length = 25 ∧ (genLegal (bd mixed)).length = 25 := by
  decide +kernel
example : WF.wf (bd kiwipete) = true ∧ (genPseudo (bd kiwipete)).length = 48 := by decide +kernel
-- `GenFacts` (decidable) evaluated directly on every generated move, independently of the proof
example : (genPseudo (bd mixed)).all (fun m => decide (GenFacts.GenFacts (bd mixed) m.f)) = true := by decide +kernel
example : (genPseudo (bd kiwipete)).all (fun m => decide (GenFacts.GenFacts (bd kiwipete) m.f)) = true := by
  decide +kernel

example (m : Move) (hm : m ∈ genPseudo (bd kiwipete)) :
    Zobrist.hash (make (bd kiwipete) m) = Zobrist.hash (bd kiwipete) ^^^ (xorOf m.f).1 :=
  hash_incremental_generated (by decide +kernel) hm

end Inkayaku.C06Gen

namespace Inkayaku.C06Gen
open Inkayaku.Gen

/-- the e.p. key of the CODE depends on the file of the square only (all 64 squares of the current build): this ties the
8-entry key list used by the model and by `hash_ep_file` to `Zobrist::en_passant_square_hash` -/
theorem ep_key_by_file :
    zobristEnPassantBySquare.length = 64 ∧
    (List.range 64).all (fun sq => zobristEnPassantBySquare.getD sq 0 == zobristEnPassant.getD (sq % 8) 0) = true := by
  decide +kernel

#print axioms ep_key_by_file

end Inkayaku.C06Gen
