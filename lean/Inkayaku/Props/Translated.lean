import Inkayaku.Props.Translated.Basic
import Inkayaku.Props.Translated.History
import Inkayaku.Props.Translated.PlyClock
import Inkayaku.Props.Translated.Heuristic
import Inkayaku.Props.Translated.Square
import Inkayaku.Props.Translated.Ordering
import Inkayaku.Props.Translated.Fen
import Inkayaku.Props.Translated.Time
import Inkayaku.Props.Translated.Table
import Inkayaku.Props.Translated.Magic
import Inkayaku.Props.Translated.MoveBits
import Inkayaku.Props.Translated.Check
import Inkayaku.Props.Translated.ZobristXor
import Inkayaku.Props.Translated.Demo
import Inkayaku.Props.Translated.MakeUnmakeCommon
import Inkayaku.Props.Translated.Make
import Inkayaku.Props.Translated.Unmake
import Inkayaku.Props.Translated.MakeUnmake
import Inkayaku.Props.Translated.GenCommon
import Inkayaku.Props.Translated.GenMake
import Inkayaku.Props.Translated.GenUnmake
import Inkayaku.Props.Translated.GenXor
import Inkayaku.Props.Translated.Generated
/-! Umbrella module: the equivalence theorems between the Rust functions translated on every run (`Gen/Rs/*.lean`, by
`/verif/translator`) and the hand-written model live in `Props/Translated/*.lean`, one file per Rust source / topic.
The first ten targets are listed in `Props/Translated/Basic.lean`; round 2 added:

| Rust                                                            | generated `Inkayaku.Rs.…` (module)                 | model                              | theorems (file) |
|-----------------------------------------------------------------|----------------------------------------------------|------------------------------------|-----------------|
| `HashTable::{new, clear, put, get, len}`                        | `HashTable.new` … (`Table`)                        | `Table.new/clear/put/get/len`      | `rs_table_new_eq`, `rs_table_clear_eq`, `rs_table_put_eq`, `rs_table_put_no_panic`, `rs_table_get_eq`, `rs_table_len_eq`, `rs_table_run_eq`, `rs_table_run_spec` (`Table.lean`) |
| `magic_hash`, `MagicConfiguration::{hash, get_attacks}`, `Magics::get_attacks` | `magic_hash`, `MagicConfiguration.get_attacks`, `Magics.get_attacks` (`Magic`) | `Magic.magicIndex`, `lookup`, `Board.rookAttacks/bishopAttacks` | `rs_magic_hash_eq`, `rs_magic_get_attacks_eq`, `rs_rook_attacks_eq`, `rs_bishop_attacks_eq`, `rs_rook_magics_eq`, `rs_bishop_magics_eq` (`Magic.lean`) |
| constants.rs masks / shifts / piece codes, `impl Move` getters, setters, predicates | `PIECE_MOVED_MASK` …, `Move.get_piece_moved` … (`MoveBits`) | `Gen.BoardConsts`, `Board.decode` (= `Move.f`), `Board.encode` | `rs_move_masks`, `rs_move_shifts`, `rs_piece_consts`, `rs_move_decode_eq`, `rs_move_encode_eq`, `rs_move_roundtrip`, `rs_is_attack_eq`, `rs_is_promotion_eq` (`MoveBits.lean`) |
| `Bitboard::{is_valid, is_current_in_check, is_in_check, _is_in_check_by_bits, _is_square_in_check}`, `PlayerState::{kings, …, full_occupancy}`, `opposite_color` | `Bitboard.is_valid` … (`Check`) | `Board.isValid`, `isCurrentInCheck`, `inCheck`, `squareInCheck` | `rs_is_square_in_check_eq`, `rs_is_in_check_by_bits_eq`, `rs_is_current_in_check_eq`, `rs_is_in_check_eq`, `rs_is_valid_eq` (`Check.lean`) |
| `Bitboard::zobrist_xor`                                         | `Bitboard.zobrist_xor` (`ZobristXor`)              | `Zobrist.xorOf`                    | `rs_zobrist_xor_eq`, `rs_zobrist_xor_move` (`ZobristXor.lean`) |
| `Bitboard::{make, make_castle}`, `get_active_and_passive_mut`, `PlayerState::{occupancy_ref, kings_ref, rooks_ref, pawns_ref}` | `Bitboard.make`, `.make_castle` … (`MakeUnmake`) | `Board.makeF` (`make`) | `rs_make_castle_eq`, `rs_make_eq`, `rs_make_move_eq` (`Make.lean`; shared helpers, `rs_is_white_turn_eq`: `MakeUnmakeCommon.lean`) |
| `Bitboard::{unmake, unmake_castle}` (same borrows / index functions) | `Bitboard.unmake`, `.unmake_castle` (`MakeUnmake`) | `Board.unmakeF` (`unmake`) | `rs_unmake_castle_eq`, `rs_unmake_eq`, `rs_unmake_move_eq` (`Unmake.lean`; does not import `Make.lean` and vice versa) |

`Props/Translated/GenMake.lean`, `GenUnmake.lean`, `GenXor.lean` discharge the panic hypotheses of `rs_make_eq`, `rs_unmake_eq`,
`rs_zobrist_xor_eq` for every move the generator emits on a `WF.wf` board: `rs_make_generated`, `rs_is_valid_after_make` (`GenMake.lean`),
`rs_unmake_generated` and the end-to-end `rs_is_move_legal_generated` for `Bitboard::is_move_legal` (`make; is_valid; unmake`; generated
module `Legal`) (`GenUnmake.lean`), `rs_zobrist_xor_generated` (`GenXor.lean`); shared model-only helpers in `GenCommon.lean`, `Demo.lean`.

MODULE GRANULARITY.  The check of a property builds only the theorem modules it lists, and a module that fails to build fails all
its theorems.  Hence one theorem file per Rust function (group): a change of `unmake` breaks `Unmake.lean`, `GenUnmake.lean` (and the
umbrellas `MakeUnmake.lean`, `Generated.lean`, this file) but not `Make.lean`, `GenMake.lean`, `GenXor.lean`; a change of `zobrist_xor`
breaks `ZobristXor.lean`, `GenXor.lean` only.  `MakeUnmake.lean` and `Generated.lean` only import the split files (compatibility).

Mutation sanity check of all of these: `/verif/translator/mutation_check.sh`. -/
