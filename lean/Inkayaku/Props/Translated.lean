import Inkayaku.Props.Translated.Basic
import Inkayaku.Props.Translated.History
import Inkayaku.Props.Translated.PlyClock
import Inkayaku.Props.Translated.Heuristic
import Inkayaku.Props.Translated.Square
import Inkayaku.Props.Translated.Ordering
import Inkayaku.Props.Translated.Fen
import Inkayaku.Props.Translated.Time
import Inkayaku.Props.Translated.Table
import Inkayaku.Props.Translated.Magic
import Inkayaku.Props.Translated.MoveBits
/-! Umbrella module: the equivalence theorems between the Rust functions translated on every run (`Gen/Rs/*.lean`, by
`/verif/translator`) and the hand-written model live in `Props/Translated/*.lean`, one file per Rust source. -/
