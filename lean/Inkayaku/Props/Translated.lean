import Inkayaku.Gen.Rs.Board
import Inkayaku.Gen.Rs.ZobristHistory
import Inkayaku.Gen.Rs.Uci
import Inkayaku.Gen.Rs.Heuristic
import Inkayaku.Gen.Rs.Square
import Inkayaku.Gen.Rs.KillerTable
import Inkayaku.Gen.Rs.MoveOrder
import Inkayaku.Gen.Rs.Fen
import Inkayaku.Model.History
import Inkayaku.Model.Board
import Inkayaku.Model.Eval
import Inkayaku.Model.Uci
import Inkayaku.Model.FenSyntax
import Inkayaku.Model.Search
/-!
# Translated Rust functions = hand-written model functions

`Inkayaku/Gen/Rs/*.lean` is regenerated on every run from the CURRENT Rust sources by `/verif/translator` (`rs2lean`,
a `syn`-based translator of a small subset of Rust; semantics: header of `Gen/Rs/Prelude.lean`).  This file proves,
for each translated function, that it computes the same value as the hand-written model function the property
theorems are about (and that it does not panic), under preconditions that are exactly the ranges the Rust types
impose plus, where the Rust really can overflow, the exact no-overflow condition.

A semantic change of one of these Rust functions changes the generated definition and breaks the proof here.

| Rust                                                   | generated `Inkayaku.Rs.…`                | model                         | theorem |
|--------------------------------------------------------|------------------------------------------|-------------------------------|---------|
| `ZobristHistory::count_repetitions`                    | `ZobristHistory.count_repetitions`       | `History.countRepetitions`    | `rs_count_repetitions_eq` |
| `Bitboard::ply_clock`                                  | `Bitboard.ply_clock`                     | `Board.plyClock`              | `rs_ply_clock_eq`, `rs_ply_clock_panics` |
| `Heuristic::{win,loss,draw}_score`, `MAX_FULL_MOVES`   | `Heuristic.win_score` …                  | `Gen.winScore` …              | `rs_win_score` … |
| `Heuristic::is_checkmate`                              | `Heuristic.is_checkmate`                 | `Eval.isCheckmateValue`       | `rs_is_checkmate_eq` |
| `Heuristic::evaluate` (`evaluate_ongoing` opaque)      | `Heuristic.evaluate`                     | `Eval.evaluate`               | `rs_evaluate_eq` |
| `Heuristic::score_from_value`                          | `Heuristic.score_from_value`             | `Eval.scoreFromValue`         | `rs_score_from_value_eq` |
| `Square::from_chars`, `from_indices`, `to_square_index_from_indices` (`from_index` opaque) | `Square.from_chars` … | `Uci.squareFromChars` | `rs_from_chars_eq` |
| `Fen::validate_rank`                                  | `Fen.validate_rank`                      | `FenSyntax.validateRank`      | `rs_validate_rank_eq` |
| `KillerTable::get` / `put`                             | `KillerTable.get` / `.put`               | `Search.killerGet/killerPut`  | `rs_killer_get_eq`, `rs_killer_put_eq` |
| `MvvLvaMoveOrder::{eval,move_bonus}`, key closure of `sort` | `MvvLvaMoveOrder.sort_key` …        | `Search.moveKey`              | `rs_sort_key_eq` |
-/

namespace Inkayaku.Rs

/-! ### Facts about the prelude -/

theorem chk_eq_some {t : Ty} {x : Int} (h1 : t.lo ≤ x) (h2 : x ≤ t.hi) : chk t x = some x := by
  simp [chk, h1, h2]

theorem chk_eq_none {t : Ty} {x : Int} (h : x < t.lo ∨ t.hi < x) : chk t x = none := by
  have : ¬ (t.lo ≤ x ∧ x ≤ t.hi) := by omega
  simp [chk, this]

theorem cast_eq_self {t : Ty} {x : Int} (h1 : t.lo ≤ x) (h2 : x ≤ t.hi) : cast t x = x := by
  unfold cast Ty.modulus
  rw [Int.emod_eq_of_lt (by omega) (by omega)]; omega

theorem chk_i32 {x : Int} (h1 : -2147483648 ≤ x) (h2 : x ≤ 2147483647) : chk .i32 x = some x := chk_eq_some h1 h2
theorem chk_u32 {x : Int} (h1 : 0 ≤ x) (h2 : x ≤ 4294967295) : chk .u32 x = some x := chk_eq_some h1 h2
theorem chk_usize {x : Int} (h1 : 0 ≤ x) (h2 : x ≤ 18446744073709551615) : chk .usize x = some x := chk_eq_some h1 h2
theorem cast_i32 {x : Int} (h1 : -2147483648 ≤ x) (h2 : x ≤ 2147483647) : cast .i32 x = x := cast_eq_self h1 h2
theorem cast_usize {x : Int} (h1 : 0 ≤ x) (h2 : x ≤ 18446744073709551615) : cast .usize x = x := cast_eq_self h1 h2
theorem cast_u16_eq (x : Int) : cast .u16 x = x % 65536 := by simp [cast, Ty.lo, Ty.modulus, Ty.hi]

/-- value of a function that ends with a loop: the early-return value or a component of the final state -/
def Ctl.val {ρ σ : Type} (f : σ → ρ) : Ctl ρ σ → ρ
  | .ret r => r
  | .next s => f s

end Inkayaku.Rs

namespace Inkayaku.Translated
open Inkayaku.Rs Inkayaku.Board


/-! ### a. `ZobristHistory::count_repetitions` -/

theorem count_repetitions_loop (h : Nat → Nat) (z : Nat) (minIdx : Int) (hmin : 0 ≤ minIdx) :
    ∀ (k : Nat) (cur : Int) (reps : Nat), (cur < minIdx ∨ cur + 2 ≤ 2 * (k : Int)) → -2 ≤ cur → cur ≤ 65535 → reps ≤ 2 →
      ∃ r, ZobristHistory.count_repetitions.while_1 (fun i => (h i : Int)) (z : Int) minIdx (k + 1) cur (reps : Int) = some r ∧
        Ctl.val (fun s => s.2) r = ((History.loop h z minIdx k cur reps : Nat) : Int) := by
  intro k
  induction k with
  | zero =>
    intro cur reps hen _ _ _
    have hlt : ¬ cur ≥ minIdx := by omega
    refine ⟨.next (cur, reps), ?_, ?_⟩
    · unfold ZobristHistory.count_repetitions.while_1
      simp only [hlt, if_false, Option.pure_def]
    · simp [Ctl.val, History.loop]
  | succ k ih =>
    intro cur reps hen hlo hhi hreps
    unfold ZobristHistory.count_repetitions.while_1 History.loop
    by_cases hc : cur ≥ minIdx
    · have hcu : cast .usize cur = cur := cast_usize (by omega) (by omega)
      have hchk1 : chk .usize ((reps : Int) + 1) = some ((reps : Int) + 1) := chk_usize (by omega) (by omega)
      have hchk2 : chk .i32 (cur - 2) = some (cur - 2) := chk_i32 (by omega) (by omega)
      simp only [hc, if_true, hcu, hchk1, hchk2, Option.bind_eq_bind, Option.bind_some, Option.pure_def, Int.natCast_inj]
      by_cases hz : h cur.toNat = z
      · simp only [hz, if_true]
        by_cases h3 : reps + 1 ≥ 3
        · have h3' : (reps : Int) + 1 ≥ 3 := by omega
          simp only [h3, h3', if_true]
          exact ⟨_, rfl, rfl⟩
        · have h3' : ¬ (reps : Int) + 1 ≥ 3 := by omega
          simp only [h3, h3', if_false]
          have := ih (cur - 2) (reps + 1) (by omega) (by omega) (by omega) (by omega)
          simpa using this
      · simp only [hz, if_false]
        exact ih (cur - 2) reps (by omega) (by omega) (by omega) hreps
    · refine ⟨.next (cur, reps), ?_, ?_⟩
      · simp only [hc, if_false, Option.pure_def]
      · simp [Ctl.val, hc]

/-- **`ZobristHistory::count_repetitions` (translated from the Rust source) equals the model.**
Preconditions = the Rust parameter types (`u16`).  Fuel `start + 1` is enough; the result is `some`, i.e. no
arithmetic panic (index-out-of-bounds is not modelled by the function-style history, see `countRepetitionsChecked`). -/
theorem rs_count_repetitions_eq (h : Nat → Nat) (start hm : Nat) (hs : start < 65536) (hh : hm < 65536) :
    ZobristHistory.count_repetitions (fun i => (h i : Int)) (start : Int) (hm : Int) (start + 1) =
      some ((History.countRepetitions h start hm : Nat) : Int) := by
  unfold ZobristHistory.count_repetitions History.countRepetitions
  by_cases h4 : start < 4
  · have h4' : (start : Int) < 4 := by omega
    simp [h4, h4']
  · have h4' : ¬ (start : Int) < 4 := by omega
    have c1 : cast .i32 (start : Int) = start := cast_i32 (by omega) (by omega)
    have c2 : cast .i32 (hm : Int) = hm := cast_i32 (by omega) (by omega)
    have c3 : cast .usize (start : Int) = start := cast_usize (by omega) (by omega)
    have k1 : chk .i32 ((start : Int) - 4) = some ((start : Int) - 4) := chk_i32 (by omega) (by omega)
    have k2 : chk .i32 ((start : Int) - (hm : Int)) = some ((start : Int) - (hm : Int)) := chk_i32 (by omega) (by omega)
    obtain ⟨r, hr, hv⟩ := count_repetitions_loop h (h start) (max 0 ((start : Int) - (hm : Int))) (by omega) start
      ((start : Int) - 4) 1 (by omega) (by omega) (by omega) (by omega)
    simp only [h4, h4', if_false, c1, c2, c3, k1, k2, Option.bind_eq_bind, Option.bind_some, Option.pure_def, Int.toNat_natCast]
    have hr' : ZobristHistory.count_repetitions.while_1 (fun i => (h i : Int)) (h start : Int) (max 0 ((start : Int) - (hm : Int))) (start + 1) ((start : Int) - 4) 1 = some r := hr
    rw [hr']
    cases r with
    | ret r => simpa [Ctl.val] using hv
    | next s => obtain ⟨a, b⟩ := s; simpa [Ctl.val] using hv



#print axioms rs_count_repetitions_eq

/-- non-vacuity / sanity: the Rust unit test's history (`count_repetitions(10, 8) = 3`, `(10, 7) = 2`), run through the
TRANSLATED definition -/
example : ZobristHistory.count_repetitions (fun i => ([123, 4312, 1, 2, 3, 4, 1, 2, 3, 4, 1].getD i 0 : Nat)) 10 8 11 = some 3 := by decide
example : ZobristHistory.count_repetitions (fun i => ([123, 4312, 1, 2, 3, 4, 1, 2, 3, 4, 1].getD i 0 : Nat)) 10 7 11 = some 2 := by decide
/-- too little fuel is `none`, never a wrong value -/
example : ZobristHistory.count_repetitions (fun i => ([123, 4312, 1, 2, 3, 4, 1, 2, 3, 4, 1].getD i 0 : Nat)) 10 7 2 = none := by decide

/-! ### b. ply_clock -/
theorem rs_ply_clock_eq (b : Board) (hf : b.fullmove < 4294967296) (hno : 2 * (b.fullmove - 1) + b.turn < 4294967296) :
    Bitboard.ply_clock (b.turn : Int) (b.fullmove : Int) = some ((plyClock b : Nat) : Int) := by
  unfold Bitboard.ply_clock plyClock
  have hs : satSub .u32 (b.fullmove : Int) 1 = ((b.fullmove - 1 : Nat) : Int) := by
    simp only [satSub, Ty.lo, Ty.hi]; omega
  have k1 : chk .u32 (2 * ((b.fullmove - 1 : Nat) : Int)) = some (2 * ((b.fullmove - 1 : Nat) : Int)) := chk_u32 (by omega) (by omega)
  have k2 : chk .u32 (2 * ((b.fullmove - 1 : Nat) : Int) + (b.turn : Int)) = some (2 * ((b.fullmove - 1 : Nat) : Int) + (b.turn : Int)) :=
    chk_u32 (by omega) (by omega)
  simp only [hs, k1, k2, Option.bind_eq_bind, Option.bind_some, Option.pure_def, cast_u16_eq]
  exact congrArg some (by omega)

#print axioms rs_ply_clock_eq

/-- non-vacuity: move 1 black to move, and the largest full-move number that does not overflow -/
example : Bitboard.ply_clock 1 1 = some 1 := by decide
example : Bitboard.ply_clock 1 2147483648 = some 65535 := by decide

theorem rs_ply_clock_panics (b : Board) (hf : b.fullmove < 4294967296) (hno : ¬ 2 * (b.fullmove - 1) + b.turn < 4294967296) :
    Bitboard.ply_clock (b.turn : Int) (b.fullmove : Int) = none := by
  unfold Bitboard.ply_clock
  have hs : satSub .u32 (b.fullmove : Int) 1 = ((b.fullmove - 1 : Nat) : Int) := by
    simp only [satSub, Ty.lo, Ty.hi]; omega
  simp only [hs, Option.bind_eq_bind, Option.pure_def]
  by_cases h1 : 2 * ((b.fullmove - 1 : Nat) : Int) ≤ 4294967295
  · rw [chk_u32 (by omega) h1, Option.bind_some, chk_eq_none (by simp only [Ty.hi]; omega)]; rfl
  · rw [chk_eq_none (by simp only [Ty.hi]; omega)]; rfl

#print axioms rs_ply_clock_panics

/-- non-vacuity: `2 * (2^31 + 1 - 1)` does not fit `u32` -/
example : Bitboard.ply_clock 0 2147483649 = none := by decide

/-! ### c. Heuristic -/
theorem rs_win_score : Heuristic.win_score = some Gen.winScore := by decide
theorem rs_max_full_moves : Heuristic.MAX_FULL_MOVES = some Gen.maxFullMoves := by decide
theorem rs_loss_score : Heuristic.loss_score = some Eval.lossScore := by decide
theorem rs_draw_score : Heuristic.draw_score = some Gen.drawScore := by decide

theorem rs_is_checkmate_eq (v : Int) : Heuristic.is_checkmate v = some (Eval.isCheckmateValue v) := by
  unfold Heuristic.is_checkmate Eval.isCheckmateValue
  simp only [rs_win_score, rs_max_full_moves, rs_loss_score, Option.bind_eq_bind, Option.bind_some, Option.pure_def,
    Gen.winScore, Gen.maxFullMoves, Eval.lossScore]
  rw [chk_i32 (by omega) (by omega), chk_i32 (by omega) (by omega)]
  simp only [Option.bind_some]
  by_cases h : (15728640 : Int) < v <;> simp [h] <;> rfl


#print axioms rs_is_checkmate_eq

example : Heuristic.is_checkmate 16777000 = some true := by decide
example : Heuristic.is_checkmate 300 = some false := by decide

theorem rs_evaluate_eq (b : Board) (legal : Bool) (zph : Int) (ht : b.turn ≤ 1) (hf : b.fullmove < 2147483648) :
    Heuristic.evaluate (Eval.evaluateOngoing b) (b.turn : Int) (b.fullmove : Int) (b.halfmove : Int)
      (isCurrentInCheck b) zph legal = some (Eval.evaluate b legal) := by
  unfold Heuristic.evaluate Eval.evaluate
  have c1 : cast .i32 (b.fullmove : Int) = b.fullmove := cast_i32 (by omega) (by omega)
  simp only [rs_win_score, rs_loss_score, rs_draw_score, Option.bind_eq_bind, Option.bind_some, Option.pure_def,
    Heuristic.MAX_HALF_MOVES, Gen.maxHalfMoves, WHITE, BLACK, c1, Gen.winScore, Eval.lossScore]
  cases legal
  · simp only [Bool.false_eq_true, if_false]
    cases hchk : isCurrentInCheck b
    · simp
    · have h01 : b.turn = 0 ∨ b.turn = 1 := by omega
      rcases h01 with h0 | h1
      · simp [h0]
        exact chk_i32 (by omega) (by omega)
      · simp [h1]
        exact chk_i32 (by omega) (by omega)
  · simp only [if_true]
    by_cases hh : b.halfmove ≥ 100
    · have hh' : (b.halfmove : Int) ≥ 100 := by omega
      simp [hh, hh']
    · have hh' : ¬ (b.halfmove : Int) ≥ 100 := by omega
      simp [hh, hh']


#print axioms rs_evaluate_eq

/-- non-vacuity: white is mated at full move 7 / stalemate / fifty-move draw -/
example : Heuristic.evaluate 55 0 7 3 true 0 false = some (-16777209) := by decide
example : Heuristic.evaluate 55 1 7 3 false 0 false = some 0 := by decide
example : Heuristic.evaluate 55 1 7 100 false 0 true = some 0 := by decide
example : Heuristic.evaluate 55 1 7 99 false 0 true = some 55 := by decide

/-- the Rust `Score` value of a model score -/
def toRsScore : Eval.Score → Rs.Score
  | .cp v => .Centipawn v
  | .mate n => .Mate n

theorem rs_score_from_value_eq (v : Int) (b : Board) (hv : -2147483648 < v) (hv2 : v ≤ 2147483647)
    (hf : b.fullmove < 2147483648) (hsum : (v.natAbs : Int) + b.fullmove < 16777216 + 2147483648) :
    Heuristic.score_from_value v (b.turn : Int) (b.fullmove : Int) = some (toRsScore (Eval.scoreFromValue v b)) := by
  unfold Heuristic.score_from_value Eval.scoreFromValue
  have c1 : cast .i32 (b.fullmove : Int) = b.fullmove := cast_i32 (by omega) (by omega)
  have ha : Rs.abs .i32 v = some (v.natAbs : Int) := chk_i32 (by omega) (by omega)
  have hd : Rs.div .i32 16777216 2 = some 8388608 := by decide
  simp only [rs_win_score, Option.bind_eq_bind, Option.bind_some, Option.pure_def, Gen.winScore, ha, hd, c1]
  by_cases hgt : (v.natAbs : Int) > 8388608
  · have hgt' : (v.natAbs : Int) > 16777216 / 2 := by omega
    simp only [hgt, hgt', if_true]
    have hoff : ofBool (decide (v > 0) && decide ((b.turn : Int) = WHITE)) = (if (v > 0 && b.turn == 0) = true then 1 else 0) := by
      by_cases h1 : v > 0 <;> by_cases h2 : b.turn = 0 <;> simp [ofBool, WHITE, h1, h2]
    rw [hoff]
    generalize hoffv : (if (v > 0 && b.turn == 0) = true then (1 : Int) else 0) = off
    have hoffr : 0 ≤ off ∧ off ≤ 1 := by subst hoffv; split <;> omega
    have hsg : signum v = v.sign := rfl
    have hsgn : v.sign = 1 ∨ v.sign = -1 := by
      rcases Int.lt_trichotomy v 0 with h | h | h
      · right; exact Int.sign_eq_neg_one_of_neg h
      · subst h; simp at hgt
      · left; exact Int.sign_eq_one_of_pos h
    rw [chk_i32 (by omega) (by omega)]
    simp only [Option.bind_some]
    rw [chk_i32 (by omega) (by omega)]
    simp only [Option.bind_some]
    rw [chk_i32 (by omega) (by omega)]
    simp only [Option.bind_some, hsg]
    rw [chk_i32 (by rcases hsgn with h | h <;> rw [h] <;> omega) (by rcases hsgn with h | h <;> rw [h] <;> omega)]
    simp [toRsScore]
  · have hgt' : ¬ (v.natAbs : Int) > 16777216 / 2 := by omega
    simp [hgt, toRsScore]



#print axioms rs_score_from_value_eq

/-- non-vacuity: a mate score and a centipawn score -/
example : Heuristic.score_from_value (16777216 - 9) 0 7 = some (Score.Mate 3) := by decide
example : Heuristic.score_from_value (-120) 1 7 = some (Score.Centipawn (-120)) := by decide
/-- outside the precondition the Rust really panics: `i32::MIN.abs()` -/
example : Heuristic.score_from_value (-2147483648) 0 1 = none := by decide

/-! ### e. `Square::from_chars` -/

/-- `Square::from_index` seen through the square index: `Some(square i)` for `i < 64` (the 64 `match` arms) -/
def squareFromIndex (i : Int) : Option Nat := if 0 ≤ i ∧ i < 64 then some i.toNat else none

theorem char_lt_2_21 (c : Char) : c.toNat < 1114112 := by
  have := c.valid
  rcases this with h | h
  · have : c.toNat < 55296 := h; omega
  · exact h.2

theorem rs_from_chars_eq (f r : Char) :
    Square.from_chars f r squareFromIndex = some (Uci.squareFromChars f r) := by
  unfold Square.from_chars Uci.squareFromChars
  have hf := char_lt_2_21 f
  have hr := char_lt_2_21 r
  have c1 : cast .usize (ofChar f) = (f.toNat : Int) := cast_usize (by simp [ofChar]) (by simp only [ofChar]; omega)
  have c2 : cast .usize (ofChar 'a') = 97 := by decide
  simp only [c1, c2, checkedSub]
  by_cases h97 : f.toNat < 97
  · rw [chk_eq_none (by left; simp only [Ty.lo]; omega)]
    simp [h97]
  · rw [chk_usize (by omega) (by omega)]
    simp only [h97, if_false]
    by_cases hd : FenSyntax.isAsciiDigit r = true
    · have hd' : 48 ≤ r.toNat ∧ r.toNat ≤ 57 := by
        simpa [FenSyntax.isAsciiDigit, Char.le_def, Char.lt_def, ← Char.toNat_val, UInt32.le_iff_toNat_le] using hd
      simp only [toDigit10, hd', and_self, if_true, hd, Bool.not_true, Bool.false_eq_true, if_false]
      have hw : cast .usize (wrappingSub .u32 8 ((r.toNat : Int) - 48)) = (((8 + 4294967296 - FenSyntax.digitVal r) % 4294967296 : Nat) : Int) := by
        simp only [wrappingSub, Rs.cast, Ty.lo, Ty.hi, Ty.modulus, FenSyntax.digitVal]; omega
      rw [hw]
      unfold Square.from_indices to_square_index_from_indices
      generalize (8 + 4294967296 - FenSyntax.digitVal r) % 4294967296 = rank
      by_cases h8 : f.toNat - 97 < 8 ∧ rank < 8
      · have h8' : ((f.toNat : Int) - 97 < 8) ∧ ((rank : Int) < 8) := by omega
        simp only [h8, h8', and_self, if_true, Option.bind_eq_bind, Option.pure_def]
        rw [chk_usize (by omega) (by omega)]
        simp only [Option.bind_some]
        rw [chk_usize (by omega) (by omega)]
        simp only [Option.bind_some, squareFromIndex]
        have : (0 : Int) ≤ (f.toNat : Int) - 97 + (rank : Int) * 8 ∧ (f.toNat : Int) - 97 + (rank : Int) * 8 < 64 := by omega
        simp only [this, and_self, if_true]
        congr 2; omega
      · have h8' : ¬ (((f.toNat : Int) - 97 < 8) ∧ ((rank : Int) < 8)) := by omega
        simp [h8, h8']
    · have hd' : ¬ (48 ≤ r.toNat ∧ r.toNat ≤ 57) := by
        simpa [FenSyntax.isAsciiDigit, Char.le_def, Char.lt_def, ← Char.toNat_val, UInt32.le_iff_toNat_le] using hd
      simp [toDigit10, hd', hd]


#print axioms rs_from_chars_eq

example : Square.from_chars 'e' '4' squareFromIndex = some (some 36) := by decide
example : Square.from_chars 'e' '9' squareFromIndex = some none := by decide
example : Square.from_chars 'A' '1' squareFromIndex = some none := by decide

/-! ### f. `KillerTable::put/get`, the `MvvLvaMoveOrder` sort key -/

/-- the Rust `Move` value of a model move -/
def toRsMove (m : Board.Move) : Rs.Move := ⟨m.bits.toNat, m.mvvlva⟩

theorem toRsMove_bits_eq (a b : Board.Move) : ((toRsMove a).bits = (toRsMove b).bits) ↔ a.bits = b.bits := by
  simp [toRsMove, Int.natCast_inj, UInt64.toNat_inj]

theorem rs_killer_get_eq (k : List Board.Move) (d : Nat) :
    KillerTable.get (k.map toRsMove) (d : Int) = some ((Search.killerGet k d).map toRsMove) := by
  unfold KillerTable.get Search.killerGet vecGet
  simp only [Option.pure_def, Int.toNat_natCast, List.getElem?_map]
  cases k[d]? with
  | none => rfl
  | some m =>
    by_cases hb : m.bits = 0
    · simp [hb, toRsMove]
    · have : ¬ m.bits.toNat = 0 := fun h => hb (UInt64.toNat_inj.mp (by simpa using h))
      simp [hb, toRsMove, this]

#print axioms rs_killer_get_eq

theorem rs_killer_put_eq (k : List Board.Move) (d : Nat) (m : Board.Move) (hd : d < 18446744073709551615) :
    KillerTable.put (k.map toRsMove) (d : Int) (toRsMove m) = some ((Search.killerPut k d m).map toRsMove) := by
  unfold KillerTable.put Search.killerPut vecResize vecSet
  rw [chk_usize (by omega) (by omega)]
  have e1 : ((d : Int) + 1).toNat = d + 1 := by omega
  have z : ({ bits := 0, mvvlva := 0 } : Rs.Move) = toRsMove ⟨0, 0⟩ := rfl
  simp only [Option.bind_eq_bind, Option.bind_some, e1, Int.toNat_natCast, List.length_map, z]
  by_cases hl : k.length ≥ d + 1
  · simp only [hl, if_true, ← List.map_take, List.length_map, List.length_take]
    have : d < min (d + 1) k.length := by omega
    simp [this, List.map_set]
  · simp only [hl, if_false, List.length_append, List.length_map, List.length_replicate]
    have : d < k.length + (d + 1 - k.length) := by omega
    simp [this, List.map_set]

#print axioms rs_killer_put_eq

/-- non-vacuity: `put` truncates a longer table (the `resize` quirk the model describes) and extends a shorter one -/
example : KillerTable.put [⟨5, 0⟩, ⟨6, 0⟩, ⟨7, 0⟩] 1 ⟨9, 1⟩ = some [⟨5, 0⟩, ⟨9, 1⟩] := by decide
example : KillerTable.put [] 2 ⟨9, 1⟩ = some [⟨0, 0⟩, ⟨0, 0⟩, ⟨9, 1⟩] := by decide
example : KillerTable.get [⟨5, 0⟩, ⟨0, 3⟩] 1 = some none := by decide
example : KillerTable.get [⟨5, 0⟩, ⟨0, 3⟩] 0 = some (some ⟨5, 0⟩) := by decide

theorem rs_move_bonus_eq (m : Board.Move) (h : Option Board.Move) (b : Int) :
    MvvLvaMoveOrder.move_bonus (toRsMove m) (h.map toRsMove) b =
      some (match h with | some x => if x.bits == m.bits then b else 0 | none => 0) := by
  unfold MvvLvaMoveOrder.move_bonus
  cases h with
  | none => rfl
  | some x =>
    by_cases hb : x.bits = m.bits
    · have := (toRsMove_bits_eq x m).mpr hb
      simp [Option.filter, this, hb]
    · have hne : ¬ (toRsMove x).bits = (toRsMove m).bits := fun h => hb ((toRsMove_bits_eq x m).mp h)
      simp [Option.filter, hne, hb]

theorem rs_sort_key_eq (m : Board.Move) (pv tt killer : Option Board.Move)
    (hlo : -2147483648 ≤ m.mvvlva) (hhi : m.mvvlva + 2400000 ≤ 2147483647) :
    MvvLvaMoveOrder.sort_key (toRsMove m) (pv.map toRsMove) (tt.map toRsMove) (killer.map toRsMove) =
      some (Search.moveKey m pv tt killer) := by
  unfold MvvLvaMoveOrder.sort_key Search.moveKey MvvLvaMoveOrder.eval
  simp only [rs_move_bonus_eq, Option.bind_eq_bind, Option.bind_some, Option.pure_def]
  generalize h1 : (match pv with | some x => if x.bits == m.bits then (900000 : Int) else 0 | none => 0) = b1
  generalize h2 : (match tt with | some x => if x.bits == m.bits then (800000 : Int) else 0 | none => 0) = b2
  generalize h3 : (match killer with | some x => if x.bits == m.bits then (700000 : Int) else 0 | none => 0) = b3
  have r1 : 0 ≤ b1 ∧ b1 ≤ 900000 := by
    subst h1; split
    · split <;> omega
    · omega
  have r2 : 0 ≤ b2 ∧ b2 ≤ 800000 := by
    subst h2; split
    · split <;> omega
    · omega
  have r3 : 0 ≤ b3 ∧ b3 ≤ 700000 := by
    subst h3; split
    · split <;> omega
    · omega
  have e : (toRsMove m).mvvlva = m.mvvlva := rfl
  rw [e, chk_i32 (by omega) (by omega)]
  simp only [Option.bind_some]
  rw [chk_i32 (by omega) (by omega)]
  simp only [Option.bind_some]
  rw [chk_i32 (by omega) (by omega)]
  subst h1 h2 h3; rfl


#print axioms rs_sort_key_eq

example : MvvLvaMoveOrder.sort_key ⟨77, 500⟩ (some ⟨77, 0⟩) none (some ⟨77, 1⟩) = some 1600500 := by decide
/-- outside the precondition the Rust really overflows -/
example : MvvLvaMoveOrder.sort_key ⟨77, 2147000000⟩ (some ⟨77, 0⟩) none none = none := by decide

/-! ### e. `Fen::validate_rank` -/

theorem int_sum_nonneg (l : List Int) (hl : ∀ x ∈ l, 0 ≤ x) : 0 ≤ l.sum := by
  induction l with
  | nil => simp
  | cons x xs ih =>
    have := hl x (by simp)
    have := ih (fun y hy => hl y (by simp [hy]))
    simp only [List.sum_cons]; omega

theorem iterSum_go (t : Ty) (l : List Int) (hl : ∀ x ∈ l, 0 ≤ x) (a : Int) (ha : t.lo ≤ a) (hs : a + l.sum ≤ t.hi) :
    l.foldl (fun acc x => acc.bind fun a => chk t (a + x)) (some a) = some (a + l.sum) := by
  induction l generalizing a with
  | nil => simp
  | cons x xs ih =>
    have hx : 0 ≤ x := hl x (by simp)
    have hxs : ∀ y ∈ xs, 0 ≤ y := fun y hy => hl y (by simp [hy])
    have hsum : 0 ≤ xs.sum := int_sum_nonneg xs hxs
    simp only [List.sum_cons] at hs
    simp only [List.foldl_cons, Option.bind_some]
    rw [chk_eq_some (by omega) (by omega), ih hxs (a + x) (by omega) (by omega)]
    simp only [List.sum_cons]; congr 1; omega

theorem isAsciiDigit_iff (c : Char) : FenSyntax.isAsciiDigit c = true ↔ 48 ≤ c.toNat ∧ c.toNat ≤ 57 := by
  simp [FenSyntax.isAsciiDigit, Char.le_def, ← Char.toNat_val, UInt32.le_iff_toNat_le]

theorem rs_isAsciiDigit_eq (c : Char) : Rs.isAsciiDigit c = FenSyntax.isAsciiDigit c := by
  by_cases h : FenSyntax.isAsciiDigit c = true
  · rw [h]; simpa [Rs.isAsciiDigit] using (isAsciiDigit_iff c).mp h
  · have h' : ¬ (48 ≤ c.toNat ∧ c.toNat ≤ 57) := fun x => h ((isAsciiDigit_iff c).mpr x)
    simp only [Bool.not_eq_true] at h
    rw [h]; simpa [Rs.isAsciiDigit] using h'


/-- the summand of `count`: `c.to_digit(10).unwrap_or(1)` -/
theorem rs_digit_or_one (c : Char) :
    (toDigit10 c).getD 1 = ((if FenSyntax.isAsciiDigit c then FenSyntax.digitVal c else 1 : Nat) : Int) := by
  by_cases h : FenSyntax.isAsciiDigit c = true
  · have h' := (isAsciiDigit_iff c).mp h
    simp only [toDigit10, h', and_self, if_true, h, Option.getD_some, FenSyntax.digitVal]; omega
  · have h' : ¬ (48 ≤ c.toNat ∧ c.toNat ≤ 57) := fun x => h ((isAsciiDigit_iff c).mpr x)
    simp [toDigit10, h', h]

theorem rs_count_eq (r : List Char) (hlen : r.length ≤ 400000000) :
    iterSum .u32 (r.map (fun c => (toDigit10 c).getD 1)) = some ((FenSyntax.rankCount r : Nat) : Int) := by
  have hmap : r.map (fun c => (toDigit10 c).getD 1) =
      r.map (fun c => ((if FenSyntax.isAsciiDigit c then FenSyntax.digitVal c else 1 : Nat) : Int)) :=
    List.map_congr_left (fun c _ => rs_digit_or_one c)
  have hsum : ∀ l : List Char, ((l.map (fun c => ((if FenSyntax.isAsciiDigit c then FenSyntax.digitVal c else 1 : Nat) : Int))).sum : Int)
      = (((l.map fun c => if FenSyntax.isAsciiDigit c then FenSyntax.digitVal c else 1).sum : Nat) : Int) := by
    intro l; induction l with
    | nil => simp
    | cons x xs ih => simp only [List.map_cons, List.sum_cons, ih]; omega
  have hbound : ∀ l : List Char, (l.map fun c => if FenSyntax.isAsciiDigit c then FenSyntax.digitVal c else 1).sum ≤ 9 * l.length := by
    intro l; induction l with
    | nil => simp
    | cons x xs ih =>
      simp only [List.map_cons, List.sum_cons, List.length_cons]
      by_cases h : FenSyntax.isAsciiDigit x = true
      · have := (isAsciiDigit_iff x).mp h
        have : FenSyntax.digitVal x ≤ 9 := by simp only [FenSyntax.digitVal]; omega
        simp only [h, if_true]; omega
      · simp only [h]; simp only [Bool.false_eq_true, if_false]; omega
  unfold iterSum
  rw [hmap, iterSum_go .u32 _ (by intro x hx; simp only [List.mem_map] at hx; obtain ⟨c, _, rfl⟩ := hx; omega) 0 (by simp [Ty.lo])
    (by rw [hsum]; have := hbound r; simp only [Ty.hi]; omega)]
  rw [hsum]; simp [FenSyntax.rankCount]

theorem rs_strLen_ascii (r : List Char) (hascii : ∀ c ∈ r, c.toNat < 128) : strLen r = (r.length : Int) := by
  unfold strLen
  congr 1
  induction r with
  | nil => rfl
  | cons x xs ih =>
    have hx : x.toNat < 128 := hascii x (by simp)
    have h1 : x.utf8Size = 1 := by
      have : x.val.toNat ≤ 127 := by have : x.val.toNat = x.toNat := Char.toNat_val; omega
      simp only [Char.utf8Size]
      have h' : x.val ≤ 127 := by rw [UInt32.le_iff_toNat_le]; exact this
      simp [h']
    simp only [List.map_cons, List.sum_cons, List.length_cons, h1, ih (fun c hc => hascii c (by simp [hc]))]; omega

/-- the result the Rust function gives for a model verdict -/
def rankResult (r : List Char) : Except Rs.FenParseError Unit :=
  match FenSyntax.validateRank r with
  | none => .ok ()
  | some .count => .error (.RankWithInvalidPieceCount r (FenSyntax.rankCount r))
  | some .concurrent => .error (.ConcurrentNumbers r)
  | some .capture => .ok ()   -- never produced by `validateRank`

theorem validate_rank_loop (r : List Char) (hne : 1 ≤ r.length) (hlen : r.length ≤ 400000000) :
    ∀ (k i : Nat), i + k = r.length - 1 →
      Fen.validate_rank.for_1 r r ((r.length : Int) - 1) (k + 1) (i : Int) =
        some (if FenSyntax.hasAdjacentDigits (r.drop i) then Ctl.ret (Except.error (FenParseError.ConcurrentNumbers r))
              else Ctl.next ((r.length : Int) - 1)) := by
  intro k
  induction k with
  | zero =>
    intro i hi
    have hi' : i = r.length - 1 := by omega
    have hd : r.drop i = [r[i]'(by omega)] := by
      rw [List.drop_eq_getElem_cons (by omega)]; congr 1; apply List.drop_of_length_le; omega
    unfold Fen.validate_rank.for_1
    have : ¬ ((i : Int) < (r.length : Int) - 1) := by omega
    simp only [this, if_false, hd, FenSyntax.hasAdjacentDigits, Option.pure_def, Bool.false_eq_true]
    congr 2; omega
  | succ k ih =>
    intro i hi
    have hlt : (i : Int) < (r.length : Int) - 1 := by omega
    have hd : r.drop i = r[i]'(by omega) :: r[i+1]'(by omega) :: r.drop (i + 2) := by
      rw [List.drop_eq_getElem_cons (by omega), List.drop_eq_getElem_cons (by omega)]
    unfold Fen.validate_rank.for_1
    have e1 : vecIdx r (i : Int) = some (r[i]'(by omega)) := by simp [vecIdx]
    have e2 : chk .usize ((i : Int) + 1) = some ((i : Int) + 1) := chk_usize (by omega) (by omega)
    have e3 : vecIdx r ((i : Int) + 1) = some (r[i+1]'(by omega)) := by
      have : ((i : Int) + 1).toNat = i + 1 := by omega
      simp [vecIdx, this]
    have hd1 : r.drop (i + 1) = r[i+1]'(by omega) :: r.drop (i + 2) := by
      rw [List.drop_eq_getElem_cons (by omega)]
    have hrec := ih (i + 1) (by omega)
    rw [hd1] at hrec
    simp only [hlt, if_true, e1, e2, e3, Option.bind_eq_bind, Option.bind_some, Option.pure_def, rs_isAsciiDigit_eq, hd,
      FenSyntax.hasAdjacentDigits]
    by_cases ha : FenSyntax.isAsciiDigit (r[i]'(by omega)) = true
    · by_cases hb : FenSyntax.isAsciiDigit (r[i+1]'(by omega)) = true
      · simp [ha, hb]
      · simp only [Bool.not_eq_true] at hb
        simp only [ha, hb, if_true, Bool.and_false, Bool.false_or, Bool.false_eq_true, if_false]
        have : ((i : Int) + 1) = ((i + 1 : Nat) : Int) := by omega
        rw [this]; exact hrec
    · simp only [Bool.not_eq_true] at ha
      simp only [ha, Bool.false_eq_true, if_false, Bool.false_and, Bool.false_or]
      have : ((i : Int) + 1) = ((i + 1 : Nat) : Int) := by omega
      rw [this]; exact hrec


/-- **`Fen::validate_rank` (translated) equals the model verdict.**  Preconditions: the rank is ASCII (guaranteed by
`FEN_REGEX`, which is matched first; for non-ASCII input the Rust loop bound `rank.len()` counts BYTES and `chars[i + 1]`
can go out of bounds, see the example below) and short enough for the `u32` sum not to overflow. -/
theorem rs_validate_rank_eq (r : List Char) (hascii : ∀ c ∈ r, c.toNat < 128) (hlen : r.length ≤ 400000000) :
    Fen.validate_rank r r.length = some (rankResult r) := by
  unfold Fen.validate_rank rankResult FenSyntax.validateRank
  rw [rs_count_eq r hlen]
  simp only [Option.bind_eq_bind, Option.bind_some, Option.pure_def]
  by_cases hc : FenSyntax.rankCount r ≠ 8
  · have hc' : ((FenSyntax.rankCount r : Nat) : Int) ≠ 8 := by omega
    simp [hc, hc']
  · have hc' : ¬ ((FenSyntax.rankCount r : Nat) : Int) ≠ 8 := by omega
    have hne : 1 ≤ r.length := by
      cases r with
      | nil => simp [FenSyntax.rankCount] at hc
      | cons x xs => simp
    rw [rs_strLen_ascii r hascii]
    simp only [hc, hc', if_false]
    rw [chk_usize (by omega) (by omega)]
    simp only [Option.bind_some]
    have hl := validate_rank_loop r hne hlen (r.length - 1) 0 (by omega)
    have e : r.length - 1 + 1 = r.length := by omega
    rw [e] at hl
    simp only [List.drop_zero] at hl
    have z : ((0 : Nat) : Int) = 0 := rfl
    rw [z] at hl
    rw [hl]
    by_cases had : FenSyntax.hasAdjacentDigits r = true
    · simp [had]
    · simp [had]

#print axioms rs_validate_rank_eq

/-- non-vacuity: accepted rank, wrong count, adjacent digits -/
example : Fen.validate_rank ['4', 'p', '3'] 3 = some (.ok ()) := by rfl
example : Fen.validate_rank ['p', 'p', 'p'] 3 = some (.error (.RankWithInvalidPieceCount ['p', 'p', 'p'] 3)) := by rfl
example : Fen.validate_rank ['4', '4'] 2 = some (.error (.ConcurrentNumbers ['4', '4'])) := by rfl
/-- outside the precondition (non-ASCII) the Rust function PANICS (`rank.len()` counts bytes; `chars[8]` is out of
bounds); unreachable in the engine because `FEN_REGEX` is matched first -/
example : Fen.validate_rank "éééééééé".toList 20 = none := by decide

end Inkayaku.Translated
