import Inkayaku.Props.Translated.Basic
import Inkayaku.Props.Translated.History
import Inkayaku.Props.Translated.PlyClock
import Inkayaku.Props.Translated.Heuristic
import Inkayaku.Props.Translated.Square
import Inkayaku.Props.Translated.Ordering
import Inkayaku.Props.Translated.Fen
import Inkayaku.Props.Translated.Time
import Inkayaku.Props.Translated.Table
import Inkayaku.Props.Translated.Magic
import Inkayaku.Props.Translated.MoveBits
import Inkayaku.Props.Translated.Check
import Inkayaku.Props.Translated.ZobristXor
import Inkayaku.Props.Translated.Demo
import Inkayaku.Props.Translated.MakeUnmakeCommon
import Inkayaku.Props.Translated.Make
import Inkayaku.Props.Translated.Unmake
import Inkayaku.Props.Translated.MakeUnmake
import Inkayaku.Props.Translated.GenCommon
import Inkayaku.Props.Translated.GenMake
import Inkayaku.Props.Translated.GenUnmake
import Inkayaku.Props.Translated.GenXor
import Inkayaku.Props.Translated.Generated
import Inkayaku.Props.Translated.GenerateCtor
import Inkayaku.Props.Translated.GenerateScan
import Inkayaku.Props.Translated.GenerateAttacks
import Inkayaku.Props.Translated.GeneratePawns
import Inkayaku.Props.Translated.GenerateCastle
import Inkayaku.Props.Translated.GenerateTop
import Inkayaku.Props.Translated.GenerateLegal
import Inkayaku.Props.Translated.GenerateRules
import Inkayaku.Props.Translated.FenDecode
import Inkayaku.Props.Translated.FenFromStr
import Inkayaku.Props.Translated.FenRoundtrip
import Inkayaku.Props.Translated.FenWrite
import Inkayaku.Props.Translated.PgnBuffer
import Inkayaku.Props.Translated.PgnBytes
import Inkayaku.Props.Translated.PgnLoops
import Inkayaku.Props.Translated.PgnTags
import Inkayaku.Props.Translated.PgnMoves
import Inkayaku.Props.Translated.PgnIter
import Inkayaku.Props.Translated.PgnTotal
import Inkayaku.Props.Translated.UciText
import Inkayaku.Props.Translated.FindUci
import Inkayaku.Props.Translated.MakeAllUci
import Inkayaku.Props.Translated.Simple
/-! Umbrella module: the equivalence theorems between the Rust functions translated on every run (`Gen/Rs/*.lean`, by
`/verif/translator`) and the hand-written model live in `Props/Translated/*.lean`, one file per Rust source / topic.
The first ten targets are listed in `Props/Translated/Basic.lean`; round 2 added:

| Rust                                                            | generated `Inkayaku.Rs.…` (module)                 | model                              | theorems (file) |
|-----------------------------------------------------------------|----------------------------------------------------|------------------------------------|-----------------|
| `HashTable::{new, clear, put, get, len}`                        | `HashTable.new` … (`Table`)                        | `Table.new/clear/put/get/len`      | `rs_table_new_eq`, `rs_table_clear_eq`, `rs_table_put_eq`, `rs_table_put_no_panic`, `rs_table_get_eq`, `rs_table_len_eq`, `rs_table_run_eq`, `rs_table_run_spec` (`Table.lean`) |
| `magic_hash`, `MagicConfiguration::{hash, get_attacks}`, `Magics::get_attacks` | `magic_hash`, `MagicConfiguration.get_attacks`, `Magics.get_attacks` (`Magic`) | `Magic.magicIndex`, `lookup`, `Board.rookAttacks/bishopAttacks` | `rs_magic_hash_eq`, `rs_magic_get_attacks_eq`, `rs_rook_attacks_eq`, `rs_bishop_attacks_eq`, `rs_rook_magics_eq`, `rs_bishop_magics_eq` (`Magic.lean`) |
| constants.rs masks / shifts / piece codes, `impl Move` getters, setters, predicates | `PIECE_MOVED_MASK` …, `Move.get_piece_moved` … (`MoveBits`) | `Gen.BoardConsts`, `Board.decode` (= `Move.f`), `Board.encode` | `rs_move_masks`, `rs_move_shifts`, `rs_piece_consts`, `rs_move_decode_eq`, `rs_move_encode_eq`, `rs_move_roundtrip`, `rs_is_attack_eq`, `rs_is_promotion_eq` (`MoveBits.lean`) |
| `Bitboard::{is_valid, is_current_in_check, is_in_check, _is_in_check_by_bits, _is_square_in_check}`, `PlayerState::{kings, …, full_occupancy}`, `opposite_color` | `Bitboard.is_valid` … (`Check`) | `Board.isValid`, `isCurrentInCheck`, `inCheck`, `squareInCheck` | `rs_is_square_in_check_eq`, `rs_is_in_check_by_bits_eq`, `rs_is_current_in_check_eq`, `rs_is_in_check_eq`, `rs_is_valid_eq` (`Check.lean`) |
| `Bitboard::zobrist_xor`                                         | `Bitboard.zobrist_xor` (`ZobristXor`)              | `Zobrist.xorOf`                    | `rs_zobrist_xor_eq`, `rs_zobrist_xor_move` (`ZobristXor.lean`) |
| `Bitboard::{make, make_castle}`, `get_active_and_passive_mut`, `PlayerState::{occupancy_ref, kings_ref, rooks_ref, pawns_ref}` | `Bitboard.make`, `.make_castle` … (`MakeUnmake`) | `Board.makeF` (`make`) | `rs_make_castle_eq`, `rs_make_eq`, `rs_make_move_eq` (`Make.lean`; shared helpers, `rs_is_white_turn_eq`: `MakeUnmakeCommon.lean`) |
| `Bitboard::{unmake, unmake_castle}` (same borrows / index functions) | `Bitboard.unmake`, `.unmake_castle` (`MakeUnmake`) | `Board.unmakeF` (`unmake`) | `rs_unmake_castle_eq`, `rs_unmake_eq`, `rs_unmake_move_eq` (`Unmake.lean`; does not import `Make.lean` and vice versa) |

`Props/Translated/GenMake.lean`, `GenUnmake.lean`, `GenXor.lean` discharge the panic hypotheses of `rs_make_eq`, `rs_unmake_eq`,
`rs_zobrist_xor_eq` for every move the generator emits on a `WF.wf` board: `rs_make_generated`, `rs_is_valid_after_make` (`GenMake.lean`),
`rs_unmake_generated` and the end-to-end `rs_is_move_legal_generated` for `Bitboard::is_move_legal` (`make; is_valid; unmake`; generated
module `Legal`) (`GenUnmake.lean`), `rs_zobrist_xor_generated` (`GenXor.lean`); shared model-only helpers in `GenCommon.lean`, `Demo.lean`.

MODULE GRANULARITY.  The check of a property builds only the theorem modules it lists, and a module that fails to build fails all
its theorems.  Hence one theorem file per Rust function (group): a change of `unmake` breaks `Unmake.lean`, `GenUnmake.lean` (and the
umbrellas `MakeUnmake.lean`, `Generated.lean`, this file) but not `Make.lean`, `GenMake.lean`, `GenXor.lean`; a change of `zobrist_xor`
breaks `ZobristXor.lean`, `GenXor.lean` only.  `MakeUnmake.lean` and `Generated.lean` only import the split files (compatibility).

ROUND 3: MOVE GENERATION (property C01; `make_move` also C02).  Generated modules `MoveCtor` (the move constructor), `Generate` (constants,
bit-scan helper, the generator helpers, the top-level generators), `GenerateLegal` (the legality filter).  `result: &mut Vec<Move>` is an
in/out list of packed moves (`encMove m = (m.bits, m.mvvlva)`); all equalities are equalities of LISTS (same moves, same order).

| Rust (board/src/board.rs)                                       | generated `Inkayaku.Rs.…` (module)                 | model                              | theorems (file) |
|-----------------------------------------------------------------|----------------------------------------------------|------------------------------------|-----------------|
| `Bitboard::{make_move, mvv_lva, PIECE_VALUES}`, `PlayerState::get_piece_const_by_square_{shift,mask}` | `Bitboard.make_move` … (`MoveCtor`) | `Board.mkMove`, `mvvLva`, `Side.pieceAt` | `rs_make_move_ctor_eq`, `rs_make_move_push`, `rs_make_move_panics`, `rs_piece_at`, `rs_mvv_lva` (`GenerateCtor.lean`) |
| `mask_and_shift_from_lowest_one_bit` (lib.rs), the `while occ != 0 { pop lowest bit }` loops, rank / castling / flag constants | `mask_and_shift_from_lowest_one_bit`, `RANK_1_OCCUPANCY` … (`Generate`) | `bitsAsc`, `trailingZeros`, `Gen.BoardConsts` | `bitsAsc_pop`, `rs_mask_and_shift`, `scan_loop`, `rs_gen_consts`, `rs_flag_consts` (`GenerateScan.lean`) |
| `Bitboard::{generate_attacks, sliding_moves, single_moves}`     | `Bitboard.sliding_moves` … (`Generate`)            | `genAttacks`, `slidingMoves`, `singleMoves` | `rs_generate_attacks_eq`, `rs_sliding_moves_eq`, `rs_single_moves_eq` (`GenerateAttacks.lean`) |
| `Bitboard::{generate_pawn_promotion(s), generate_pawn_attacks, pawn_attacks, pawn_moves}` | `Bitboard.pawn_attacks` … (`Generate`) | `promotions`, `pawnAttacks`, `pawnMoves` | `rs_generate_pawn_promotions_eq`, `rs_generate_pawn_attacks_eq`, `rs_pawn_attacks_eq`, `rs_pawn_moves_eq` (`GeneratePawns.lean`) |
| `Bitboard::{_is_occupancy_in_check, make_castle_move, castle_moves}` | `Bitboard.castle_moves` … (`Generate`)        | `occupancyInCheck`, `castleMoves`  | `rs_is_occupancy_in_check_eq`, `rs_make_castle_move_eq`, `rs_castle_moves_eq` (`GenerateCastle.lean`) |
| `Bitboard::{generate_pseudo_legal_moves(_with_buffer), generate_pseudo_legal_non_quiescent_moves(_with_buffer), get_active_and_passive}` | `Bitboard.generate_pseudo_legal_moves` … (`Generate`) | `genPseudo`, `genNonQuiescent` | `rs_generate_pseudo_legal_buffer_eq`, `rs_generate_non_quiescent_buffer_eq`, `rs_generate_pseudo_legal_eq`, `rs_generate_non_quiescent_eq`, `rs_generate_pseudo_legal_wf`, `rs_generate_non_quiescent_wf` (`GenerateTop.lean`) |
| `Bitboard::{generate_legal_moves, is_any_move_legal}`           | `Bitboard.generate_legal_moves`, `.is_any_move_legal` (`GenerateLegal`) | `genLegal`, `isAnyMoveLegal` | `rs_generate_legal_moves_eq`, `rs_is_any_move_legal_eq` (`GenerateLegal.lean`) |
| C01 for the regenerated source                                  |                                                    | `Spec.legalMoves`, `Spec.pseudoMoves` | `rs_generate_legal_eq_rules`, `rs_generate_pseudo_legal_eq_rules` (`GenerateRules.lean`: composition with `Closure.genLegal_eq_rules` / `C01.legal_moves_exact`) |

ROUND 4: FEN READER / WRITER (property C12).  Generated modules `FenText` (the `Fen` value = text + byte ranges of the regex groups, its
getters with the four-field defaults), `FenFromStr` (`validate_ranks`, `from_str` without the regex), `FenDecode` (`FenParseExt`,
`From<&Fen> for Bitboard`), `FenWrite` (`From<&Bitboard> for Fen`, `get_colored_piece`, `square_to_string`).  Opaque: the regex match
(`Fen::parse`, `Captures::get`, `Match::range`; assumed to behave like `FenSyntax.regexGroups`: `RegexModel`) and the data tables of
`inkayaku_core::constants` (`Square`, `Piece`, `ColoredPiece`).

| Rust                                                            | generated `Inkayaku.Rs.…` (module)                 | model                              | theorems (file) |
|-----------------------------------------------------------------|----------------------------------------------------|------------------------------------|-----------------|
| `FenParseExt for Fen` (`parse_player_states`, `parse_turn`, `parse_en_passant_square_shift`, `parse_*_clock`), `From<&Fen> for Bitboard`, `square_shift_from_fen_unchecked`, `square_mask_from_index`, `Fen::get_*` | `Fen.parse_player_states` …, `Bitboard.from` (`FenDecode`, `FenText`) | `FenBoard.boardOfFields`, `placeRank(s)`, `squareOfName` | `rs_place_rank`, `rs_place_ranks`, `rs_parse_player_states_eq`, `rs_parse_turn_eq`, `rs_parse_ep_eq`, `rs_square_shift_from_fen`, `parseU32_clock`, `rs_fen_decode_eq`, `rs_fen_decode_fromFenString` (`FenDecode.lean`) |
| reader composed, round trip through the translated reader | | `fromFenString`, `printFen`, `C12.print_parse_board` | `rs_fen_read_eq`, `rs_fen_roundtrip_read`, `rs_fen_roundtrip` (translated writer, then translated reader on the writer's `Fen` value) (`FenRoundtrip.lean`) |
| `From<&Bitboard> for Fen` (writer: rank / file loops with empty-run counting, side, castling letters, e.p. text, clocks, re-parse), `Bitboard::get_colored_piece`, `PlayerState::find_piece_struct_by_square_mask`, `square_to_string`, `Square::from_indices` | `Fen.from`, `Fen.from.for_1/for_2`, `Bitboard.get_colored_piece`, `square_to_string` (`FenWrite`) | `FenBoard.printFen`, `printRank(s)`, `coloredPiece` | `rs_find_piece`, `rs_get_colored_piece_eq`, `rs_for_2`, `rs_for_1`, `rs_square_to_string`, `rs_fen_write_eq` (`FenWrite.lean`; assumptions `PieceTables`, `SquareTables`, `RegexModel`) |
| `Fen::validate_ranks`, `impl FromStr for Fen` (`from_str`: alias, rank validation, clock checks, construction of the `Fen` value) | `Fen.validate_ranks`, `Fen.from_str` (`FenFromStr`) | `FenSyntax.validateRanks`, `parseChars` | `rs_validate_rank_fuel`, `rs_validate_ranks_eq`, `rs_fen_from_str_eq`, `rs_fen_from_str_startpos` (`FenFromStr.lean`) |

ROUND 5: THE PGN READER (property C17).  Generated module `Pgn` = the whole of pgn/src/reader.rs (`PgnRawParser<R: Read>`), translated in
MONADIC MODE (translator/src/monadic.rs): every `&mut self` method is a `do` block in the state monad `RsM (PgnRawParser R)` (`none` = panic /
loop bound exhausted), a `Result` is an `Except` value, `e?` a `match` whose `Err` arm returns, every loop a definition by recursion on a
counter (`Ctl.ret` = returned from inside the loop, `Ctl.next` = loop ended / `break`).  OPAQUE: `Read::read(&mut self.reader, &mut
self.current_buffer)` = the function parameter `Read_read`; mapping assumption `ReadModel` (= the model's `Reader.read`: `min buf.len()
(sched calls) rest.length` bytes to the front of the buffer, `Ok(n)`).  `toRs : Buffered → Rs.PgnRawParser Reader`; `Good` = `C17.Inv` + machine
bounds (`chunk_size`, `position + remaining stream < 2^64`); `Sim m p rel` = whenever the translated method `m` returns on the image of a `Good`
state, the model program `p` ends in the corresponding state with a related result (strings = code-point lists `strOf`, error payloads dropped).

| Rust (pgn/src/reader.rs)                                        | generated `Inkayaku.Rs.PgnRawParser.…` (`Pgn`)      | model (`Model/Pgn.lean`)           | theorems (file) |
|-----------------------------------------------------------------|----------------------------------------------------|------------------------------------|-----------------|
| `ensure_buffer` (refill, short reads shrink the buffer, `Ok(0)` = eof), `increment_byte` | `ensure_buffer`, `increment_byte` | `Buffered.ensure`, `incr` | `rs_ensure_buffer_eq`, `rs_increment_byte_eq` (exact equalities, no panic), `peek_cases`, `good_run`, `sim_bind` (`PgnBuffer.lean`) |
| `peek_byte`, `pop_byte`, `skip_byte`, `consume`                 | `peek_byte` …                                      | `peekByte`, `popByte`, `skipByte`, `consume` | `rs_peek_byte_eq`, `rs_pop_byte_eq`, `rs_skip_byte_eq` (total), `rs_consume_sim` (`PgnBytes.lean`) |
| `skip_blank_lines`, `skip_blank_lines_and_spaces`, `skip_spaces`, `skip_to_next_line`, `read_until`, `read_token` | `….loop_1`, wrappers | `skipBlankLines` …, `readUntil`, `readToken` | `rs_skip_blank_lines_sim`, `rs_skip_blank_lines_and_spaces_sim`, `rs_skip_spaces_sim`, `rs_skip_to_next_line_sim`, `rs_read_until_sim`, `rs_read_token_sim` (`PgnLoops.lean`) |
| `read_tag_name`, `read_tag_value`, `read_tag_pair_line`, `read_tag_pairs` (`HashMap::insert`) | `read_tag_pairs` … | `readTagPairs` …, `tagInsert` | `hmInsert_tagsOf`, `rs_read_tag_value_sim`, `rs_read_tag_pair_line_sim`, `rs_read_tag_pairs_sim` (`PgnTags.lean`) |
| `read_braced_annotation`, `read_semicolon_annotation`, `read_move`, `read_moves`, `read_pgn`, `Iterator::next` | `read_move` …, `next` | `readMove`, `readMoves`, `readPgn`, `next` | `rs_read_move_sim`, `rs_read_moves_sim`, `rs_read_pgn_sim`, `rs_pgn_next_eq` (`PgnMoves.lean`) |
| iteration of `next` over `with_chunk_size(reader, chunk)`       | `with_chunk_size`, `rsItems` (defined in `PgnIter.lean`) | `readAllBuffered`, `readAll`, `C17.chunk_independent` | `rs_with_chunk_size_eq`, `rs_items_eq`, `rs_pgn_chunk_independent` (`PgnIter.lean`) |
| NO PANIC / fuel adequacy of every method (measure: length of the remaining stream, via `C17.reader_bytes` and the decrease lemmas of `C17.fuel_adequate`) | all of the above | | `TotalF`, `rs_*_total`, `rs_pgn_next_total`, `rs_items_total`, `rs_pgn_reader_correct` (total form of C17 on the regenerated reader) (`PgnTotal.lean`) |

ROUND 6: UCI TEXT LOOKUP (property C13) AND THE STATIC EVALUATION (property C11).  Generated modules `UciText` (`piece_to_string`,
`Move::to_uci_string`; preamble `strTrim` = `str::trim`), `FindUci` (`MoveFromUciError`, `Bitboard::find_uci` with its `.find(..)` as
`find_uci.find_1`, `make_uci`).  Opaque: the `Square` / `Piece` tables (`SquareTables`, `PieceLetters`).

| Rust                                                            | generated `Inkayaku.Rs.…` (module)                 | model                              | theorems (file) |
|-----------------------------------------------------------------|----------------------------------------------------|------------------------------------|-----------------|
| `piece_to_string` (lib.rs), `Move::to_uci_string`, `str::trim`  | `piece_to_string`, `Move.to_uci_string`, `strTrim` (`UciText`) | `pieceString`, `Move.uci`, `Util.rustTrim` | `rs_str_trim_string`, `rs_piece_to_string`, `rs_to_uci_string_eq` (`UciText.lean`) |
| `Bitboard::{find_uci, make_uci}`, `enum MoveFromUciError`       | `Bitboard.find_uci`, `.find_uci.find_1`, `.make_uci` (`FindUci`) | `San.findUci`, `San.makeUci` | `rs_to_uci_string_generated`, `rs_find_loop`, `rs_find_uci_vis`, `rs_find_uci_eq`, `findUci_vis`, `rs_make_uci_vis`, `rs_make_uci_eq`, `makeUci_error_vis` (`FindUci.lean`) |
| `Bitboard::make_all_uci` (loop over the texts with the rollback vector, early `return Err(..)` after taking every made move back) | `Bitboard.make_all_uci`, `.make_all_uci.for_1` (main loop), `.for_2` (rollback loop) (`MakeAllUci`) | `San.makeAllUci` / `makeAllUciAux` | `Roll`, `rs_unmake_vis`, `rs_rollback`, `rs_make_all_loop`, `rs_make_all_uci_eq` (needs `Search.Inv moves.len() b`: well-formed with clock budget; uses `Search.make_inv`) (`MakeAllUci.lean`) |
| `SimpleHeuristic::{piece_value, game_stage, piece_square_sum, piece_square_sum_for_player, piece_square_value}`, `Heuristic for SimpleHeuristic::evaluate_ongoing`, `QUEEN_VALUE` …, `MID`, `LATE` (heuristic/simple.rs; `WHITE_TABLES` / `BLACK_TABLES` = opaque list parameters) | `SimpleHeuristic.piece_value` …, `.piece_square_sum.while_1`, `.evaluate_ongoing` (`Simple`) | `Eval.pieceValue`, `gameStage`, `squareSum`, `sideSquareSum`, `pieceSquareValue`, `evaluateOngoing` | `gen_tables_ok`, `rs_piece_value_eq`, `rs_game_stage_eq`, `rs_square_loop`, `rs_piece_square_sum_eq`, `rs_piece_square_sum_for_player_eq`, `rs_piece_square_value_eq`, `rs_evaluate_ongoing_eq`, `rs_evaluate_full_eq` (no opaque result left in `Heuristic::evaluate`) (`Simple.lean`) |

Mutation sanity check of all of these: `/verif/translator/mutation_check.sh`. -/
