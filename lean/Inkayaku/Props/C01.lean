import Inkayaku.Proofs.GenSpecStruct
import Inkayaku.Model.FenBoard
/-!
# C01 — the moves the board offers are exactly the moves of the rules

Property text: *For every legal chess position, the set of moves the board offers as legal (written in UCI
long-algebraic form, promotions included) is exactly the set of moves the FIDE rules allow: nothing missing, nothing
extra, no duplicates.  The same holds for the pseudo-legal generator followed by the make/validity filter that the
search and perft use, and the capture/promotion-only generator yields exactly the capture-or-promotion subset.*

Objects: `Board.genPseudo` = `generate_pseudo_legal_moves`, `Board.genNonQuiescent` =
`generate_pseudo_legal_non_quiescent_moves`, `Board.genLegal` = `generate_legal_moves`, `Board.perft` (models of
board/src/board.rs), `Spec.pseudoMoves` / `Spec.pawnMoves` / `Spec.castleMoves` / `Spec.legalMoves` (the rules,
`Spec/Chess.lean`), `Abs.abs` / `Abs.absMove` (bitboard ↦ mailbox position, packed move ↦ (source, target, promotion)),
`WF.wf` ("legal position").  Proofs: `Proofs/GenSpec*.lean`; they rest on C04 (magic lookups = ray walks for all
occupancies), C05 (`occupancy_in_check`, `move_legal`), `GenOK` (every generated move fits the packed word) and
kernel-evaluated 64 × 64 checks of the CURRENT tables and masks against the Spec's file/rank arithmetic.

Everything below is fully proved (all piece kinds, both directions); nothing is left as a TARGET.  Scope notes:
* `genLegal_eq_spec` / `legal_moves_exact` take the successor property `hsucc` (property C02:
  `abs (make b m) = Spec.apply (abs b) (absMove m.f)` for the pseudo-legal moves of `b`) as an explicit hypothesis.
  That `make` keeps the piece words disjoint with one king per side (needed by `C05.move_legal`) is proved
  (`GenSpec.struct_make`, from `MakeWf.step_disj` / `step_kings`); `genLegal_eq_spec_explicit` is the variant that takes
  it as a second hypothesis and does not import `MakeWf`.
* `genNonQuiescent_eq_filter` needs `wf b`: it is false for arbitrary values of the model's unbounded fields
  (`b.halfmove ≥ 2^24` spills into the promotion field) and for an e.p. square with no pawn behind it
  (`pawnAttacks` ignores the `nq` flag); see `Proofs/GenSpecNoisy.lean`.
-/
namespace Inkayaku.C01
open Inkayaku.Board Inkayaku.Gen Inkayaku.Abs Inkayaku.Spec

/-! ## 1. the castling masks and rank/file masks of the current build -/

/-- squares a8 = 0 … h8 = 7, a1 = 56, b1 = 57, c1 = 58, d1 = 59, e1 = 60, f1 = 61, g1 = 62, h1 = 63.
Between king and rook empty: b1 c1 d1 / f1 g1 / b8 c8 d8 / f8 g8; king's start, crossing and landing square not
attacked: c1 d1 e1 / e1 f1 g1 / c8 d8 e8 / e8 f8 g8. -/
theorem castle_masks_eq_fide :
    bitsAsc whiteQueenSideCastleEmpty.toUInt64 = [57, 58, 59] ∧
    bitsAsc whiteKingSideCastleEmpty.toUInt64 = [61, 62] ∧
    bitsAsc blackQueenSideCastleEmpty.toUInt64 = [1, 2, 3] ∧
    bitsAsc blackKingSideCastleEmpty.toUInt64 = [5, 6] ∧
    bitsAsc whiteQueenSideCastleCheck.toUInt64 = [58, 59, 60] ∧
    bitsAsc whiteKingSideCastleCheck.toUInt64 = [60, 61, 62] ∧
    bitsAsc blackQueenSideCastleCheck.toUInt64 = [2, 3, 4] ∧
    bitsAsc blackKingSideCastleCheck.toUInt64 = [4, 5, 6] ∧
    (∀ m ∈ [whiteQueenSideCastleEmpty, whiteKingSideCastleEmpty, blackQueenSideCastleEmpty, blackKingSideCastleEmpty,
        whiteQueenSideCastleCheck, whiteKingSideCastleCheck, blackQueenSideCastleCheck, blackKingSideCastleCheck,
        rank1, rank2, rank3, rank4, rank5, rank6, rank7, rank8,
        fileA, fileB, fileC, fileD, fileE, fileF, fileG, fileH], m < 2 ^ 64) ∧
    (Geometry.between 60 56 = [59, 58, 57] ∧ Geometry.between 60 63 = [61, 62] ∧
      Geometry.between 4 0 = [3, 2, 1] ∧ Geometry.between 4 7 = [5, 6]) ∧
    (castleSquares true false = (60, 58, 56, 59) ∧ castleSquares true true = (60, 62, 63, 61) ∧
      castleSquares false false = (4, 2, 0, 3) ∧ castleSquares false true = (4, 6, 7, 5)) ∧
    (∀ s, s < 64 →
      rank8.testBit s = decide (s / 8 = 0) ∧ rank7.testBit s = decide (s / 8 = 1) ∧
      rank6.testBit s = decide (s / 8 = 2) ∧ rank5.testBit s = decide (s / 8 = 3) ∧
      rank4.testBit s = decide (s / 8 = 4) ∧ rank3.testBit s = decide (s / 8 = 5) ∧
      rank2.testBit s = decide (s / 8 = 6) ∧ rank1.testBit s = decide (s / 8 = 7) ∧
      fileA.testBit s = decide (s % 8 = 0) ∧ fileB.testBit s = decide (s % 8 = 1) ∧
      fileC.testBit s = decide (s % 8 = 2) ∧ fileD.testBit s = decide (s % 8 = 3) ∧
      fileE.testBit s = decide (s % 8 = 4) ∧ fileF.testBit s = decide (s % 8 = 5) ∧
      fileG.testBit s = decide (s % 8 = 6) ∧ fileH.testBit s = decide (s % 8 = 7)) :=
  GenSpec.castle_masks_eq_fide

/-! ## 2. the capture/promotion-only generator -/

/-- same moves, same order, same multiplicities (a LIST equality) -/
theorem genNonQuiescent_eq_filter {b : Board} (h : WF.wf b = true) :
    genNonQuiescent b = (genPseudo b).filter (fun m => m.isAttack || m.isPromotion) :=
  GenSpec.genNonQuiescent_eq_filter h

/-! ## 3. pseudo-legal generation, per piece kind and combined -/

/-- queens, rooks and bishops (`k` one of the three; queens are generated in two passes, both covered) -/
theorem sliding_iff {b : Board} (h : WF.wf b = true) (k : Kind) (hk : k = .queen ∨ k = .rook ∨ k = .bishop)
    (s t : Nat) :
    (∃ m ∈ genPseudo b, m.f.pieceMoved = kindCode k ∧ m.f.castle = false ∧ absMove m.f = ⟨s, t, none⟩) ↔
      (s < 64 ∧ t < 64 ∧ (abs b).at s = some ⟨(abs b).whiteToMove, k⟩ ∧
        Spec.attacksGeom (abs b) k (abs b).whiteToMove s t = true ∧
        (match (abs b).at t with | some o => o.white != (abs b).whiteToMove | none => true) = true) :=
  GenSpec.sliding_iff h k hk s t

theorem knight_iff {b : Board} (h : WF.wf b = true) (s t : Nat) :
    (∃ m ∈ genPseudo b, m.f.pieceMoved = KNIGHT ∧ m.f.castle = false ∧ absMove m.f = ⟨s, t, none⟩) ↔
      (s < 64 ∧ t < 64 ∧ (abs b).at s = some ⟨(abs b).whiteToMove, .knight⟩ ∧
        Spec.attacksGeom (abs b) .knight (abs b).whiteToMove s t = true ∧
        (match (abs b).at t with | some o => o.white != (abs b).whiteToMove | none => true) = true) :=
  GenSpec.knight_iff h s t

/-- king steps; castling (also a move of the king, with the castle flag set) is `castle_iff` -/
theorem king_iff {b : Board} (h : WF.wf b = true) (s t : Nat) :
    (∃ m ∈ genPseudo b, m.f.pieceMoved = KING ∧ m.f.castle = false ∧ absMove m.f = ⟨s, t, none⟩) ↔
      (s < 64 ∧ t < 64 ∧ (abs b).at s = some ⟨(abs b).whiteToMove, .king⟩ ∧
        Spec.attacksGeom (abs b) .king (abs b).whiteToMove s t = true ∧
        (match (abs b).at t with | some o => o.white != (abs b).whiteToMove | none => true) = true) :=
  GenSpec.king_iff h s t

/-- pawns: pushes, double pushes, captures, en passant, all four promotions (with and without capture) -/
theorem pawn_iff {b : Board} (h : WF.wf b = true) (sm : SMove) :
    (∃ m ∈ genPseudo b, m.f.pieceMoved = PAWN ∧ absMove m.f = sm) ↔
      (∃ s, s < 64 ∧ (abs b).at s = some ⟨(abs b).whiteToMove, .pawn⟩ ∧
        sm ∈ Spec.pawnMoves (abs b) (abs b).whiteToMove s) :=
  GenSpec.pawn_iff h sm

/-- castling: right present, squares between king and rook empty, king's start, crossing and landing squares not
attacked; king and rook on their home squares follows from the right on legal positions (conjunct (5) of `wf`) -/
theorem castle_iff {b : Board} (h : WF.wf b = true) (sm : SMove) :
    (∃ m ∈ genPseudo b, m.f.castle = true ∧ absMove m.f = sm) ↔
      sm ∈ Spec.castleMoves (abs b) (abs b).whiteToMove :=
  GenSpec.castle_iff h sm

/-- **pseudo-legal moves: nothing missing, nothing extra** -/
theorem genPseudo_iff {b : Board} (h : WF.wf b = true) (sm : SMove) :
    sm ∈ (genPseudo b).map (absMove ∘ Move.f) ↔ sm ∈ Spec.pseudoMoves (abs b) :=
  GenSpec.genPseudo_iff h sm

theorem genPseudo_uci_iff {b : Board} (h : WF.wf b = true) (s : String) :
    s ∈ (genPseudo b).map Move.uci ↔ s ∈ (Spec.pseudoMoves (abs b)).map SMove.uci :=
  GenSpec.genPseudo_uci_iff h s

/-! ## 4. no duplicates; UCI text -/

theorem genPseudo_nodup {b : Board} (h : WF.wf b = true) : ((genPseudo b).map Move.uci).Nodup :=
  GenSpec.genPseudo_nodup h

theorem genLegal_nodup {b : Board} (h : WF.wf b = true) : ((genLegal b).map Move.uci).Nodup :=
  GenSpec.genLegal_nodup h

/-- the model's UCI text is the Spec's UCI text of the abstracted move (generated moves satisfy the bounds:
`GenSpec.gen_bounds`) -/
theorem uci_agree (f : MoveF) (hs : f.source < 64) (ht : f.target < 64) (hp : f.promotion ≤ 6) :
    f.uci = (absMove f).uci :=
  GenSpec.uci_agree f hs ht hp

/-- the UCI text determines (source, target, promotion) -/
theorem uci_injective {a c : SMove} (ha : a.src < 64 ∧ a.tgt < 64) (hc : c.src < 64 ∧ c.tgt < 64)
    (h : a.uci = c.uci) : a = c :=
  GenSpec.uci_injective ha hc h

/-! ## 5. legal moves -/

/-- `hsucc` = property C02 for the pseudo-legal moves of `b` -/
theorem genLegal_eq_spec {b : Board} (h : WF.wf b = true)
    (hsucc : ∀ m ∈ genPseudo b, abs (make b m) = Spec.apply (abs b) (absMove m.f)) (sm : SMove) :
    sm ∈ (genLegal b).map (absMove ∘ Move.f) ↔ sm ∈ Spec.legalMoves (abs b) :=
  GenSpec.genLegal_eq_spec_of_succ h hsucc sm

/-- variant with both facts about `make` as hypotheses (does not rest on `MakeWf`) -/
theorem genLegal_eq_spec_explicit {b : Board} (h : WF.wf b = true)
    (hsucc : ∀ m ∈ genPseudo b, abs (make b m) = Spec.apply (abs b) (absMove m.f))
    (hstruct : ∀ m ∈ genPseudo b, Check.Struct (make b m)) (sm : SMove) :
    sm ∈ (genLegal b).map (absMove ∘ Move.f) ↔ sm ∈ Spec.legalMoves (abs b) :=
  GenSpec.genLegal_eq_spec h hsucc hstruct sm

/-- the perft / search path: pseudo-legal generation, `make`, `is_valid` — visits exactly `genLegal b`, in order -/
theorem perft_moves (b : Board) (depth : Nat) : (perft b depth).map Prod.fst = genLegal b :=
  GenSpec.perft_moves b depth

theorem search_filter (b : Board) : (genPseudo b).filter (fun m => isValid (make b m)) = genLegal b := rfl

/-- **C01.**  For every legal position (given the successor property C02 for its pseudo-legal moves):
the UCI strings of the moves offered as legal are exactly the UCI strings of the legal moves of the rules, without
duplicates; the perft/search path (pseudo-legal generation + make/validity filter) yields the same list; the
capture/promotion-only generator yields exactly the capture-or-promotion sublist of the pseudo-legal moves. -/
theorem legal_moves_exact {b : Board} (h : WF.wf b = true)
    (hsucc : ∀ m ∈ genPseudo b, abs (make b m) = Spec.apply (abs b) (absMove m.f)) :
    (∀ s : String, s ∈ (genLegal b).map Move.uci ↔ s ∈ (Spec.legalMoves (abs b)).map SMove.uci) ∧
    ((genLegal b).map Move.uci).Nodup ∧
    (∀ depth, (perft b depth).map Prod.fst = genLegal b) ∧
    (genPseudo b).filter (fun m => isValid (make b m)) = genLegal b ∧
    genNonQuiescent b = (genPseudo b).filter (fun m => m.isAttack || m.isPromotion) :=
  ⟨GenSpec.genLegal_uci_eq_spec_of_succ h hsucc, GenSpec.genLegal_nodup h, perft_moves b, rfl,
    GenSpec.genNonQuiescent_eq_filter h⟩

#print axioms castle_masks_eq_fide
#print axioms genNonQuiescent_eq_filter
#print axioms sliding_iff
#print axioms knight_iff
#print axioms king_iff
#print axioms pawn_iff
#print axioms castle_iff
#print axioms genPseudo_iff
#print axioms genPseudo_uci_iff
#print axioms genPseudo_nodup
#print axioms genLegal_nodup
#print axioms uci_agree
#print axioms uci_injective
#print axioms genLegal_eq_spec
#print axioms genLegal_eq_spec_explicit
#print axioms perft_moves
#print axioms legal_moves_exact

/-! ## Non-vacuity and sanity: concrete positions, both sides evaluated independently by the kernel -/

def bd (s : String) : Board :=
  match FenBoard.fromFenString s with
  | .ok b => b
  | .error _ => default

def sameSet (l1 l2 : List SMove) : Bool := l1.all (fun x => l2.contains x) && l2.all (fun x => l1.contains x)

/-- pseudo-legal level: legal position, both generators agree with the Spec as sets, with the expected count, and the
capture generator is the filter -/
def agreePseudo (fen : String) (n : Nat) : Bool :=
  let b := bd fen
  WF.wf b
  && ((genPseudo b).length == n) && ((Spec.pseudoMoves (abs b)).length == n)
  && sameSet ((genPseudo b).map (absMove ∘ Move.f)) (Spec.pseudoMoves (abs b))
  && (genNonQuiescent b == (genPseudo b).filter (fun m => m.isAttack || m.isPromotion))

/-- legal level: the hypothesis `hsucc` of `genLegal_eq_spec` holds and both sides give the same `n` legal moves -/
def agreeLegal (fen : String) (n : Nat) : Bool :=
  let b := bd fen
  WF.wf b
  && (genPseudo b).all (fun m => abs (make b m) == Spec.apply (abs b) (absMove m.f))
  && ((genLegal b).length == n) && ((Spec.legalMoves (abs b)).length == n)
  && sameSet ((genLegal b).map (absMove ∘ Move.f)) (Spec.legalMoves (abs b))

/-- the perft position ("kiwipete"): castling both sides, captures, pins -/
def kiwipete : String := "r3k2r/p1ppqpb1/bn2pnp1/3PN3/1p2P3/2N2Q1p/PPPBBPPP/R3K2R w KQkq - 0 1"

-- `wf` holds for the perft position and both sides of `genPseudo_iff` evaluate to the same 48-element set
example : WF.wf (bd kiwipete) = true := by decide +kernel
example : agreePseudo kiwipete 48 = true := by decide +kernel
-- white: en passant (e5xd6), promotion (b7-b8) and capturing promotion (b7xa8), castling both sides: 36 moves
example : agreePseudo "r3k2r/1P6/8/3pP3/8/8/8/R3K2R w KQkq d6 0 2" 36 = true := by decide +kernel
-- black: en passant (e4xd3), promotion (b2-b1) and capturing promotion (b2xa1), castling both sides: 36 moves
example : agreePseudo "r3k2r/8/8/8/3Pp3/8/1p6/R3K2R b KQkq d3 0 2" 36 = true := by decide +kernel
-- `hsucc` is satisfiable and the legal sets agree: king in check by an unprotected rook, 3 of 5 king moves are legal
example : agreeLegal "4k3/8/8/8/8/8/4r3/4K3 w - - 0 1" 3 = true := by decide +kernel
-- a promotion position, black to move: 5 king moves + 4 promotions, all legal
example : agreeLegal "4k3/8/8/8/8/8/1p6/4K3 b - - 0 1" 9 = true := by decide +kernel

end Inkayaku.C01
