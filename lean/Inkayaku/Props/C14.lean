import Inkayaku.Proofs.SanProofs
import Inkayaku.Props.C05
import Inkayaku.Props.C01
import Inkayaku.Model.FenBoard
/-!
# C14 — SAN: what `uci_to_pgn` writes and what `pgn_to_bb` reads

Property text: *For every legal position and legal move, the SAN text produced for the move is the standard algebraic
notation of that move: piece letter, minimal disambiguation (file, else rank, else both) whenever another piece of the
same kind can legally reach the target, capture mark, promotion suffix, castling as O-O/O-O-O, `+` for check and `#`
only for checkmate (never for stalemate).  Parsing that text back in the same position yields exactly the original
move, and the SAN parser maps any standard SAN string to the unique legal move it denotes or reports an error.*

Objects: `San.uciToSan` = `uci_to_pgn`, `San.sanToMove` = `pgn_to_bb`, `San.sanCaptures` = the hand translation of
`PGN_REGEX` (model of board/src/board.rs, `Model/San.lean`); `Spec.SanGrammar` = the SAN shapes as a printer
(`renderSan`), the standard disambiguation rule (`standardDisamb`); `Spec.isCheckmate` / `Spec.isStalemate` /
`Spec.inCheck` (the rules), `Abs.abs`, `WF.wf` ("legal position").  Proofs: `Proofs/SanProofs.lean`.

Everything below is proved; the only hypotheses besides `WF.wf b` are
* `UciNodup b` (the UCI texts of the pseudo-legal moves are pairwise different: part of property C01) — round trip;
  `san_roundtrip_wf` discharges it with `C01.genPseudo_nodup`, so that only `WF.wf b` remains;
* `WF.wf (make b m)` and `hlegal` (the model's legal-move list after the move is empty iff the Spec's is: C01/C02) —
  only where the check mark is related to the RULES (`check_mark_rules`, `never_hash_for_stalemate`); the statement
  about the model (`check_mark`) has no hypothesis.
The facts about the move generator the round trip needs (`SanProofs.SanGenFacts`: castling squares, king step, promotion
rank, pawn geometry incl. en passant and the double step) are PROVED from `WF.wf b` (`SanProofs.sanGenFacts_of_wf`).

One statement is kept as a TARGET (end of file): the literal equation with the executable reference
`Spec.san (Abs.abs b) (Abs.absMove m.f)`, which needs the generator/successor correspondences of C01/C02.
-/
namespace Inkayaku.C14
open Inkayaku.Board Inkayaku.San Inkayaku.Spec.SanGrammar Inkayaku.SanProofs Inkayaku.Util

/-! ## 1. The parser's regular expression reads exactly the printed shapes -/

/-- every printed shape — all combinations of piece letter, source file, source rank, capture mark, promotion, either
castling, any check mark, any annotation — is read back with exactly its parts as captures (the
greedy-then-backtrack order of the optional groups picks the right decomposition) -/
theorem sanCaptures_render (sh : SanShape) (h : sh.wf = true) : sanCaptures (renderSan sh) = some (capsOf sh) :=
  SanProofs.sanCaptures_render sh h

/-- nothing else is accepted -/
theorem sanCaptures_complete {s : List Char} {r : SanCaps} (h : sanCaptures s = some r) :
    ∃ sh : SanShape, sh.wf = true ∧ renderSan sh = s ∧ capsOf sh = r :=
  SanProofs.sanCaptures_inv h

theorem sanCaptures_none {s : List Char} (h : ¬ ∃ sh : SanShape, sh.wf = true ∧ renderSan sh = s) :
    sanCaptures s = none :=
  SanProofs.sanCaptures_none h

theorem sanCaptures_empty : sanCaptures [] = none := SanProofs.sanCaptures_nil

theorem sanCaptures_illegal_char {s : List Char} {c : Char} (hc : c ∈ s) (hbad : isSanChar c = false) :
    sanCaptures s = none :=
  SanProofs.sanCaptures_illegal_char hc hbad

theorem sanCaptures_short {s : List Char} (h : s.length < 2) : sanCaptures s = none :=
  SanProofs.sanCaptures_short h

/-! ## 2. The check mark -/

/-- **the check mark, as a statement about the model**: whenever `uci_to_pgn` answers `s` for the text `u`, `u`
(trimmed) names a pseudo-legal move `m` that is legal, and the LAST character of `s` is
`#` iff the side to move after `m` is in check and has no legal move,
`+` iff it is in check and has a legal move, and no check mark at all iff it is not in check. -/
theorem check_mark {b : Board} {u s : String} (h : (uciToSan b u).1 = .ok s) :
    ∃ m, (genPseudo b).find? (fun m => m.uci == rustTrim u) = some m ∧ isMoveLegal b m = true ∧
      (s.toList.getLast? = some '#' ↔ (isCurrentInCheck (make b m) = true ∧ genLegal (make b m) = [])) ∧
      (s.toList.getLast? = some '+' ↔ (isCurrentInCheck (make b m) = true ∧ genLegal (make b m) ≠ [])) ∧
      ((∀ c, s.toList.getLast? = some c → isCheckMark c = false) ↔ isCurrentInCheck (make b m) = false) :=
  uciToSan_suffix h

/-- **the check mark and the rules**: if the position after the move is legal (`WF.wf`) and its legal-move list is
empty exactly when the Spec's is, then `#` ⇔ checkmate, `+` ⇔ check that is not mate, and in a stalemate the text
carries no check mark -/
theorem check_mark_rules {b : Board} {u s : String} (h : (uciToSan b u).1 = .ok s) :
    ∃ m, (genPseudo b).find? (fun m => m.uci == rustTrim u) = some m ∧ isMoveLegal b m = true ∧
      ∀ (_hwf1 : WF.wf (make b m) = true)
        (_hlegal : (genLegal (make b m)).isEmpty = (Spec.legalMoves (Abs.abs (make b m))).isEmpty),
        (s.toList.getLast? = some '#' ↔ Spec.isCheckmate (Abs.abs (make b m)) = true) ∧
        (s.toList.getLast? = some '+' ↔
          (Spec.inCheck (Abs.abs (make b m)) (Abs.abs (make b m)).whiteToMove = true ∧
            Spec.isCheckmate (Abs.abs (make b m)) = false)) ∧
        (Spec.isStalemate (Abs.abs (make b m)) = true → ∀ c, s.toList.getLast? = some c → isCheckMark c = false) := by
  obtain ⟨m, hfind, hleg, hhash, hplus, hnone⟩ := uciToSan_suffix h
  refine ⟨m, hfind, hleg, fun hwf1 hlegal => ?_⟩
  obtain ⟨hmate, hstale, _, _⟩ := C05.no_moves_iff (make b m) hwf1 hlegal
  have hchk := C05.current_in_check (make b m) hwf1
  rw [← hmate, ← hstale, ← hchk]
  refine ⟨?_, ?_, ?_⟩
  · rw [hhash, ← List.isEmpty_iff]
    cases (genLegal (make b m)).isEmpty <;> cases isCurrentInCheck (make b m) <;> simp
  · rw [hplus, Ne, ← List.isEmpty_iff]
    cases (genLegal (make b m)).isEmpty <;> cases isCurrentInCheck (make b m) <;> simp
  · intro hst
    apply hnone.mpr
    cases hc : isCurrentInCheck (make b m)
    · rfl
    · rw [hc] at hst; simp at hst

/-- **never `#` (nor `+`) for stalemate** -/
theorem never_hash_for_stalemate {b : Board} {u s : String} (h : (uciToSan b u).1 = .ok s) :
    ∃ m, (genPseudo b).find? (fun m => m.uci == rustTrim u) = some m ∧
      ∀ (_hwf1 : WF.wf (make b m) = true)
        (_hlegal : (genLegal (make b m)).isEmpty = (Spec.legalMoves (Abs.abs (make b m))).isEmpty),
        Spec.isStalemate (Abs.abs (make b m)) = true →
          s.toList.getLast? ≠ some '#' ∧ s.toList.getLast? ≠ some '+' := by
  obtain ⟨m, hfind, _, hrules⟩ := check_mark_rules h
  refine ⟨m, hfind, fun hwf1 hlegal hst => ?_⟩
  have := (hrules hwf1 hlegal).2.2 hst
  exact ⟨fun h' => by have := this _ h'; revert this; decide, fun h' => by have := this _ h'; revert this; decide⟩

/-! ## 3. Disambiguation -/

/-- **the four-way case split of `uci_to_pgn` is the standard rule** (`cands` = source squares of the legal moves of
the same kind of piece to the same target, the mover included): no other candidate → nothing; else no other
candidate on the mover's file → file letter; else none on its rank → rank digit; else both -/
theorem disamb_standard (src : Nat) (cands : List Nat) : modelDisamb src cands false = standardDisamb src cands :=
  SanProofs.disamb_standard src cands

/-- **the hint identifies the mover uniquely among the candidates** -/
theorem disamb_unique (src : Nat) (cands : List Nat) (o : Nat) (ho : o ∈ cands)
    (h : (standardDisamb src cands).agrees src o = true) : o = src :=
  SanProofs.disamb_unique src cands o ho h

/-- the candidates: `o` is a candidate source iff some LEGAL move of the same kind of piece goes from `o` to the target -/
theorem mem_candSources {b : Board} {m : Move} {o : Nat} :
    o ∈ candSources b (genPseudo b) m.f ↔
      ∃ x ∈ genLegal b, x.f.target = m.f.target ∧ x.f.pieceMoved = m.f.pieceMoved ∧ x.f.source = o := by
  unfold candSources genLegal
  simp only [List.mem_map, List.mem_filter, Bool.and_eq_true, beq_iff_eq]
  constructor
  · rintro ⟨x, ⟨hx, ⟨hl, ht⟩, hp⟩, rfl⟩; exact ⟨x, ⟨hx, hl⟩, ht, hp, rfl⟩
  · rintro ⟨x, ⟨hx, hl⟩, ht, hp, rfl⟩; exact ⟨x, ⟨hx, ⟨hl, ht⟩, hp⟩, rfl⟩

/-- **what is written for a legal move**: the text is the rendering of `shapeOfMove b m`, and that shape is a
STANDARD SAN shape (a pawn move has no piece letter and no source rank, names its source file exactly when it
captures; a piece move has no promotion; no annotation) -/
theorem text_standard {b : Board} (hwf : WF.wf b = true) (hnd : UciNodup b) {m : Move} (hm : m ∈ genLegal b)
    {s : String} (h : (uciToSan b m.uci).1 = .ok s) :
    s.toList = renderSan (shapeOfMove b m) ∧ (shapeOfMove b m).standard = true :=
  uciToSan_standard hwf hnd hm h

/-- the shape of a piece move: piece letter, the STANDARD disambiguation over the candidate sources, capture mark
iff something is captured, target square, no promotion, check mark from the position after the move -/
theorem shape_piece {b : Board} (hwf : WF.wf b = true) {m : Move} (hm : m ∈ genLegal b)
    (hck : castleKind m.f = none) (hp : m.f.pieceMoved ≠ PAWN) :
    shapeOfMove b m =
      ⟨.move (letterOf m.f.pieceMoved)
          ((standardDisamb m.f.source (candSources b (genPseudo b) m.f)).fileOf (fileChar m.f.source))
          ((standardDisamb m.f.source (candSources b (genPseudo b) m.f)).rankOf (rankChar m.f.source))
          (capturesOf m.f) (fileChar m.f.target) (rankChar m.f.target) none,
        sanSuffix (make b m), []⟩ := by
  have hpr0 := (sanGenFacts_of_wf hwf).promo_piece m (mem_genPseudo_of_legal hm) hp
  have hne : (m.f.pieceMoved == PAWN) = false := by simpa using hp
  simp only [shapeOfMove, sanBodyOf, hck, hne, Bool.false_eq_true, if_false, promoOf_zero hpr0,
    SanProofs.disamb_standard]

/-- the shape of a pawn move: no piece letter, the source file iff it captures, capture mark, target, promotion -/
theorem shape_pawn {b : Board} {m : Move} (hck : castleKind m.f = none) (hp : m.f.pieceMoved = PAWN) :
    shapeOfMove b m =
      ⟨.move none (if capturesOf m.f then some (fileChar m.f.source) else none) none (capturesOf m.f)
          (fileChar m.f.target) (rankChar m.f.target) (promoOf m.f),
        sanSuffix (make b m), []⟩ := by
  simp only [shapeOfMove, sanBodyOf, hck, hp, beq_self_eq_true, if_true]

/-- castling is written `O-O` / `O-O-O` -/
theorem shape_castle {b : Board} {m : Move} {long : Bool} (hck : castleKind m.f = some long) :
    shapeOfMove b m = ⟨.castle long, sanSuffix (make b m), []⟩ := by
  simp only [shapeOfMove, sanBodyOf, hck]

/-- … and exactly the generated castling moves are written that way -/
theorem castleKind_iff {b : Board} (hwf : WF.wf b = true) {m : Move} (hm : m ∈ genPseudo b) :
    (castleKind m.f).isSome = m.f.castle := by
  have hF := sanGenFacts_of_wf hwf
  cases hc : m.f.castle
  · cases hck : castleKind m.f with
    | none => rfl
    | some long =>
      obtain ⟨hk, h4, ht⟩ := castleKind_some hck
      exfalso
      refine hF.king_step m hm hc hk ⟨h4, ?_⟩
      cases long <;> simp_all
  · obtain ⟨hk, hs, ht⟩ := hF.castle_shape m hm hc
    cases hck : castleKind m.f with
    | some long => rfl
    | none =>
      exfalso
      refine castleKind_none hck hk ⟨?_, ?_⟩
      · rw [hs]; split <;> rfl
      · rw [hs] at ht; split at ht <;> omega

/-! ## 4. Round trip -/

/-- `uci_to_pgn` accepts the UCI text of every legal move -/
theorem uciToSan_legal_ok {b : Board} (hnd : UciNodup b) {m : Move} (hm : m ∈ genLegal b) :
    ∃ s, (uciToSan b m.uci).1 = .ok s :=
  SanProofs.uciToSan_legal_ok hnd hm

/-- **round trip**: in a legal position the SAN text written for a legal move — castling, pawn pushes, pawn
captures, en passant, promotions, piece moves with every disambiguation — is parsed back to EXACTLY that move -/
theorem san_roundtrip {b : Board} (hwf : WF.wf b = true) (hnd : UciNodup b) {m : Move} (hm : m ∈ genLegal b)
    {s : String} (h : (uciToSan b m.uci).1 = .ok s) : sanToMove b s = some m :=
  SanProofs.san_roundtrip hwf hnd hm h

/-- both halves at once -/
theorem san_roundtrip_exists {b : Board} (hwf : WF.wf b = true) (hnd : UciNodup b) {m : Move} (hm : m ∈ genLegal b) :
    ∃ s, (uciToSan b m.uci).1 = .ok s ∧ sanToMove b s = some m := by
  obtain ⟨s, hs⟩ := uciToSan_legal_ok hnd hm
  exact ⟨s, hs, san_roundtrip hwf hnd hm hs⟩

/-- `UciNodup` is a theorem of property C01 (`C01.genPseudo_nodup`); with it the round trip needs `WF.wf b` only -/
theorem uciNodup_of_wf {b : Board} (hwf : WF.wf b = true) : UciNodup b := C01.genPseudo_nodup hwf

/-- **round trip, no hypothesis besides "legal position" and "legal move"** -/
theorem san_roundtrip_wf {b : Board} (hwf : WF.wf b = true) {m : Move} (hm : m ∈ genLegal b) :
    ∃ s, (uciToSan b m.uci).1 = .ok s ∧ sanToMove b s = some m :=
  san_roundtrip_exists hwf (uciNodup_of_wf hwf) hm

/-! ## 5. The parser is sound: the unique legal move the text denotes, or an error -/

/-- **soundness of `pgn_to_bb`**: an answer `m` is a legal move of the position; the text is the rendering of a
well-formed shape `sh`; `m` is consistent with the parts of `sh` (`consistent_piece` / `consistent_pawn` /
`consistent_castle` say what that means) and it is the ONLY legal move that is -/
theorem sanToMove_sound {b : Board} {s : String} {m : Move} (h : sanToMove b s = some m) :
    ∃ sh : SanShape, sh.wf = true ∧ renderSan sh = s.toList ∧
      m ∈ genLegal b ∧ consistent (capsOf sh) m = true ∧
      (∀ m' ∈ genLegal b, consistent (capsOf sh) m' = true → m' = m) ∧
      (genLegal b).filter (consistent (capsOf sh)) = [m] :=
  SanProofs.sanToMove_sound h

/-- exactly when -/
theorem sanToMove_some_iff (b : Board) (s : String) (m : Move) :
    sanToMove b s = some m ↔
      ∃ caps, sanCaptures s.toList = some caps ∧ (genLegal b).filter (consistent caps) = [m] :=
  SanProofs.sanToMove_some_iff b s m

/-- an error in every other case: the text is outside the grammar, or no / more than one legal move fits -/
theorem sanToMove_none_iff (b : Board) (s : String) :
    sanToMove b s = none ↔
      (sanCaptures s.toList = none ∨
        ∃ caps, sanCaptures s.toList = some caps ∧ ∀ m, (genLegal b).filter (consistent caps) ≠ [m]) :=
  SanProofs.sanToMove_none_iff b s

/-- piece move text: kind of piece, capture mark ⇒ the move captures, source file / rank when written, target -/
theorem consistent_piece (p : Char) (ff fr : Option Char) (takes : Bool) (tf tr : Char) (promo sfx : Option Char)
    (annot : List Char) (m : Move) :
    consistent (capsOf ⟨.move (some p) ff fr takes tf tr promo, sfx, annot⟩) m = true ↔
      (m.f.pieceMoved = pieceOfLetter p ∧ (takes = true → m.isAttack = true) ∧
        (∀ c, ff = some c → m.f.source % 8 = fileIdx c) ∧ (∀ c, fr = some c → m.f.source / 8 = rowIdx c) ∧
        m.f.target = fileIdx tf + 8 * rowIdx tr) :=
  SanProofs.consistent_piece p ff fr takes tf tr promo sfx annot m

/-- pawn move text: a pawn moves, capture mark ⇒ capture, promotion piece when written, source file when written,
target (a written source rank is ignored: quirk of the implementation, harmless for standard texts) -/
theorem consistent_pawn (ff fr : Option Char) (takes : Bool) (tf tr : Char) (promo sfx : Option Char)
    (annot : List Char) (m : Move) :
    consistent (capsOf ⟨.move none ff fr takes tf tr promo, sfx, annot⟩) m = true ↔
      (m.f.pieceMoved = PAWN ∧ (takes = true → m.isAttack = true) ∧
        (∀ q, promo = some q → m.isPromotion = true ∧ m.f.promotion = pieceOfLetter q) ∧
        (∀ c, ff = some c → m.f.source % 8 = fileIdx c) ∧
        m.f.target = fileIdx tf + 8 * rowIdx tr) :=
  SanProofs.consistent_pawn ff fr takes tf tr promo sfx annot m

theorem consistent_castle (long : Bool) (sfx : Option Char) (annot : List Char) (m : Move) :
    consistent (capsOf ⟨.castle long, sfx, annot⟩) m = true ↔
      (m.f.castle = true ∧ m.f.target % 8 = if long then 2 else 6) :=
  SanProofs.consistent_castle long sfx annot m

/-
TARGET (not yet proved): the literal equation with the executable reference of `Spec/Chess.lean`

  theorem san_eq_spec {b : Board} (hwf : WF.wf b = true) {m : Move} (hm : m ∈ genLegal b) {s : String}
      (h : (uciToSan b m.uci).1 = .ok s) : s = Spec.san (Abs.abs b) (Abs.absMove m.f)

Proved instead (above): the text is `renderSan (shapeOfMove b m)` with `shape_piece` / `shape_pawn` / `shape_castle`
giving every part (piece letter, `standardDisamb` over the sources of the LEGAL moves of the same kind to the same
target — `mem_candSources` —, capture mark, target, promotion, castling), and `check_mark_rules` relating the suffix
to `Spec.isCheckmate` / `Spec.inCheck`.  Missing for the literal equation: `genLegal b` ↔ `Spec.legalMoves (abs b)`
(property C01), `abs (make b m) = Spec.apply (abs b) (absMove m)` (property C02) and "`pieceAttacked ≠ 0` ⇔
`Spec.isCapture`".  The two functions were compared by evaluation on every legal move of thousands of positions.
-/

#print axioms sanCaptures_render
#print axioms sanCaptures_complete
#print axioms sanCaptures_none
#print axioms sanCaptures_illegal_char
#print axioms sanCaptures_short
#print axioms check_mark
#print axioms check_mark_rules
#print axioms never_hash_for_stalemate
#print axioms disamb_standard
#print axioms disamb_unique
#print axioms text_standard
#print axioms shape_piece
#print axioms castleKind_iff
#print axioms uciToSan_legal_ok
#print axioms san_roundtrip
#print axioms san_roundtrip_exists
#print axioms san_roundtrip_wf
#print axioms sanToMove_sound
#print axioms sanToMove_some_iff
#print axioms sanToMove_none_iff
#print axioms SanProofs.sanGenFacts_of_wf

/-! ## Non-vacuity and sanity: concrete texts and positions, evaluated by the kernel -/

section Examples
set_option maxRecDepth 100000

def bd (s : String) : Board :=
  match FenBoard.fromFenString s with
  | .ok b => b
  | .error _ => default

/-- SAN of the move with UCI text `u` in position `fen` -/
def sanOf (fen u : String) : Option String :=
  match (uciToSan (bd fen) u).1 with
  | .ok s => some s
  | .error _ => none

/-- UCI text of the move the parser returns for `san` -/
def parseOf (fen san : String) : Option String := (sanToMove (bd fen) san).map Move.uci

/-- the legal move with UCI text `u` -/
def mv (fen u : String) : Move := ((genLegal (bd fen)).find? (fun m => m.uci == u)).getD default

/-- every legal move is written and read back as itself -/
def roundtripAll (b : Board) : Bool :=
  (genLegal b).all fun m =>
    match (uciToSan b m.uci).1 with
    | .ok s => sanToMove b s == some m
    | .error _ => false

/-- the legal moves with the listed UCI texts are written and read back as themselves -/
def roundtripOn (b : Board) (ucis : List String) : Bool :=
  ucis.all fun u =>
    match (genLegal b).find? (fun m => m.uci == u) with
    | some m =>
      (match (uciToSan b m.uci).1 with
       | .ok s => sanToMove b s == some m
       | .error _ => false)
    | none => false

instance (b : Board) : Decidable (UciNodup b) := by unfold UciNodup; exact inferInstance

-- 1. the regex translation: one text per decomposition, with check marks and annotations; and rejections
example : sanCaptures "e4".toList = some { target := some ('e', '4') } := by decide +kernel
example : sanCaptures "bxc3".toList = some { fromFile := some 'b', takes := true, target := some ('c', '3') } := by
  decide +kernel
example : sanCaptures "Nbd2".toList = some { piece := some 'N', fromFile := some 'b', target := some ('d', '2') } := by
  decide +kernel
example : sanCaptures "R1a3".toList = some { piece := some 'R', fromRank := some '1', target := some ('a', '3') } := by
  decide +kernel
example : sanCaptures "Qh4e1".toList =
    some { piece := some 'Q', fromFile := some 'h', fromRank := some '4', target := some ('e', '1') } := by
  decide +kernel
example : sanCaptures "exd8=Q+".toList =
    some { fromFile := some 'e', takes := true, target := some ('d', '8'), promotion := some 'Q' } := by decide +kernel
example : sanCaptures "O-O-O#".toList = some { castle := true, longCastle := true } := by decide +kernel
example : sanCaptures "O-O!?".toList = some { castle := true } := by decide +kernel
example : sanCaptures "Nf3+!?".toList = some { piece := some 'N', target := some ('f', '3') } := by decide +kernel
example : sanCaptures "".toList = none ∧ sanCaptures "e".toList = none ∧ sanCaptures "Nz3".toList = none ∧
    sanCaptures "e9".toList = none ∧ sanCaptures "O-O-".toList = none ∧ sanCaptures "e4#+".toList = none ∧
    sanCaptures "e8=K".toList = none := by decide +kernel
-- the hypotheses of `sanCaptures_render` hold for a shape with every optional part present
example : (⟨.move (some 'Q') (some 'h') (some '4') true 'e' '1' none, some '#', ['!', '?']⟩ : SanShape).wf = true ∧
    renderSan ⟨.move (some 'Q') (some 'h') (some '4') true 'e' '1' none, some '#', ['!', '?']⟩ = "Qh4xe1#!?".toList := by
  decide +kernel

-- 3. two knights that can both reach d2: file letters; the bare text is ambiguous and rejected
example : let fen := "4k3/8/8/8/8/5N2/8/1N2K3 w - - 0 1"
    WF.wf (bd fen) = true ∧ UciNodup (bd fen) ∧ sanOf fen "b1d2" = some "Nbd2" ∧ sanOf fen "f3d2" = some "Nfd2" ∧
      parseOf fen "Nbd2" = some "b1d2" ∧ parseOf fen "Nfd2" = some "f3d2" ∧ parseOf fen "Nd2" = none ∧
      candSources (bd fen) (genPseudo (bd fen)) (mv fen "b1d2").f = [45, 57] := by decide +kernel
-- two rooks on one file: rank digit
example : let fen := "4k3/8/8/R7/8/8/8/R3K3 w - - 0 1"
    WF.wf (bd fen) = true ∧ sanOf fen "a1a3" = some "R1a3" ∧ sanOf fen "a5a3" = some "R5a3" ∧
      parseOf fen "R1a3" = some "a1a3" := by decide +kernel
-- three queens (e4, h4, h1) that all reach e1: the h4 queen needs file AND rank
example : let fen := "1k6/8/8/8/4Q2Q/8/8/K6Q w - - 0 1"
    WF.wf (bd fen) = true ∧ sanOf fen "h4e1" = some "Qh4e1" ∧ sanOf fen "e4e1" = some "Qee1" ∧
      sanOf fen "h1e1" = some "Q1e1" ∧ parseOf fen "Qh4e1" = some "h4e1" ∧ parseOf fen "Qhe1" = none := by
  decide +kernel

-- 2. the stalemating move Qg6 carries no `#`; the mating move Qg7 does; hypotheses of `check_mark_rules` hold
example : let fen := "7k/8/5K2/8/8/8/6Q1/8 w - - 0 1"
    let b1 := make (bd fen) (mv fen "g2g6")
    WF.wf (bd fen) = true ∧ sanOf fen "g2g6" = some "Qg6" ∧ sanOf fen "g2g7" = some "Qg7#" ∧
      WF.wf b1 = true ∧ (genLegal b1).isEmpty = (Spec.legalMoves (Abs.abs b1)).isEmpty ∧
      genLegal b1 = [] ∧ isCurrentInCheck b1 = false ∧ Spec.isStalemate (Abs.abs b1) = true ∧
      Spec.isCheckmate (Abs.abs b1) = false := by decide +kernel
example : let fen := "7k/8/5K2/8/8/8/6Q1/8 w - - 0 1"
    let b1 := make (bd fen) (mv fen "g2g7")
    WF.wf b1 = true ∧ (genLegal b1).isEmpty = (Spec.legalMoves (Abs.abs b1)).isEmpty ∧
      Spec.isCheckmate (Abs.abs b1) = true := by decide +kernel

-- promotion with capture and check; en passant; castling with check, both sides
example : let fen := "3rk3/4P3/8/8/8/8/8/4K3 w - - 0 1"
    WF.wf (bd fen) = true ∧ sanOf fen "e7d8q" = some "exd8=Q+" ∧ sanOf fen "e7d8n" = some "exd8=N" ∧
      parseOf fen "exd8=Q+" = some "e7d8q" ∧ parseOf fen "exd8=N" = some "e7d8n" ∧ parseOf fen "exd8" = none := by
  decide +kernel
example : let fen := "4k3/8/8/3pP3/8/8/8/4K3 w - d6 0 2"
    WF.wf (bd fen) = true ∧ sanOf fen "e5d6" = some "exd6" ∧ sanOf fen "e5e6" = some "e6" ∧
      parseOf fen "exd6" = some "e5d6" ∧ parseOf fen "e6" = some "e5e6" := by decide +kernel
example : sanOf "5k2/8/8/8/8/8/8/4K2R w K - 0 1" "e1g1" = some "O-O+" ∧
    sanOf "3k4/8/8/8/8/8/8/R3K3 w Q - 0 1" "e1c1" = some "O-O-O+" ∧
    parseOf "5k2/8/8/8/8/8/8/4K2R w K - 0 1" "O-O+" = some "e1g1" ∧
    parseOf "3k4/8/8/8/8/8/8/R3K3 w Q - 0 1" "O-O-O" = some "e1c1" ∧
    parseOf "3k4/8/8/8/8/8/8/R3K3 w Q - 0 1" "O-O" = none := by decide +kernel

-- 4. hypotheses of `san_roundtrip` hold in a middlegame with 43 legal moves; its conclusion is confirmed for
-- both castlings, a capture, a pawn push and piece moves …
example : let b := bd "r3k2r/pp1n1ppp/2p1pn2/q2p1b2/1b1P1B2/2N1PN2/PPPQBPPP/R3K2R w KQkq - 0 1"
    WF.wf b = true ∧ UciNodup b ∧ (genLegal b).length = 43 ∧
      roundtripOn b ["e1g1", "e1c1", "c3d5", "a2a3", "f3e5", "a1d1"] = true := by decide +kernel
-- … and for ALL legal moves of a position with black to move, en passant, promotions (with and without capture)
-- and castling available
example : let b := bd "4k2r/8/8/8/3pP3/8/6p1/4K2R b Kk e3 0 1"
    WF.wf b = true ∧ UciNodup b ∧ (genLegal b).length = 25 ∧ roundtripAll b = true := by decide +kernel

end Examples

end Inkayaku.C14
