import Inkayaku.Spec.UciGrammar

/-!
# C15 — the UCI command parser

"Every well-formed GUI-to-engine command line … is parsed into exactly the command and parameter values it spells,
and move text round-trips.  A line whose first word is not a UCI command, or whose required parameters are missing or
ill-typed, is answered with a parse error value rather than being misread as some other command, and no input line
whatsoever makes the parser panic."

Model: `Inkayaku.Uci` (Model/Uci.lean), grammar: `Inkayaku.UciGrammar` (Spec/UciGrammar.lean).

* **Totality / no panic** is by construction: `parseLine : String → Except ParserError UciCommand` is a total Lean
  function and the model uses no partial operation (`get!`, `head!`, `panic!`, …); the Rust parse path itself contains
  no `unwrap`, indexing or arithmetic that could panic (its only arithmetic, `8_u32.wrapping_sub`, is modelled as
  wrapping).  Nothing has to be proved here.
* Helper lemmas live in this file as well (the task allowed only the three files Model/Spec/Props); the property
  theorems are the ones followed by `#print axioms`.
-/
namespace Inkayaku.C15
open Inkayaku.Uci Inkayaku.UciGrammar
open Inkayaku.FenSyntax (splitOnChar isAsciiDigit digitVal decimalValue startposString)

/-! ### tokenizer lemmas -/

theorem splitOnChar_ne_nil (sep : Char) (l : List Char) : splitOnChar sep l ≠ [] := by
  induction l with
  | nil => simp [splitOnChar]
  | cons c cs ih =>
    unfold splitOnChar
    split
    · simp
    · split <;> simp

theorem splitOnChar_cons_ne {sep c : Char} (h : c ≠ sep) (cs : List Char) :
    splitOnChar sep (c :: cs) = (c :: (splitOnChar sep cs).headD []) :: (splitOnChar sep cs).tail := by
  have hne := splitOnChar_ne_nil sep cs
  rw [splitOnChar]
  simp only [h, if_false]
  cases hs : splitOnChar sep cs with
  | nil => exact absurd hs hne
  | cons p ps => simp

theorem splitOnChar_nosep {sep : Char} {t : List Char} (h : sep ∉ t) : splitOnChar sep t = [t] := by
  induction t with
  | nil => simp [splitOnChar]
  | cons c cs ih =>
    have hc : c ≠ sep := by intro e; apply h; simp [e]
    have hcs : sep ∉ cs := by intro e; apply h; simp [e]
    rw [splitOnChar_cons_ne hc, ih hcs]; simp

theorem splitOnChar_append_sep {sep : Char} {t : List Char} (h : sep ∉ t) (rest : List Char) :
    splitOnChar sep (t ++ sep :: rest) = t :: splitOnChar sep rest := by
  induction t with
  | nil => simp [splitOnChar]
  | cons c cs ih =>
    have hc : c ≠ sep := by intro e; apply h; simp [e]
    have hcs : sep ∉ cs := by intro e; apply h; simp [e]
    rw [List.cons_append, splitOnChar_cons_ne hc, ih hcs]; simp

def ne (t : Tok) : Bool := !t.isEmpty

theorem words_spaces_append (n : Nat) (rest : List Char) :
    (splitOnChar ' ' (spaces n ++ rest)).filter (fun t => !t.isEmpty) =
    (splitOnChar ' ' rest).filter (fun t => !t.isEmpty) := by
  induction n with
  | zero => simp [spaces]
  | succ n ih =>
    have : spaces (n + 1) ++ rest = [] ++ ' ' :: (spaces n ++ rest) := by simp [spaces, List.replicate_succ]
    rw [this, splitOnChar_append_sep (by simp)]
    simpa using ih

theorem words_padBody (toks : List Tok) (gaps : List Nat)
    (hne : ∀ t ∈ toks, t ≠ []) (hsp : ∀ t ∈ toks, ' ' ∉ t) :
    (splitOnChar ' ' (padBody toks gaps)).filter (fun t => !t.isEmpty) = toks := by
  induction toks generalizing gaps with
  | nil => simp [padBody, splitOnChar]
  | cons t ts ih =>
    cases ts with
    | nil =>
      have h1 : ' ' ∉ t := hsp t (by simp)
      have h2 : t ≠ [] := hne t (by simp)
      simp [padBody, splitOnChar_nosep h1, h2]
    | cons t' ts =>
      have h1 : ' ' ∉ t := hsp t (by simp)
      have h2 : t ≠ [] := hne t (by simp)
      have e : padBody (t :: t' :: ts) gaps
          = t ++ ' ' :: (spaces (gaps.headD 0) ++ padBody (t' :: ts) gaps.tail) := by
        simp [padBody, spaces, List.replicate_succ]
      rw [e, splitOnChar_append_sep h1]
      have h3 : (!t.isEmpty) = true := by simp [h2]
      rw [List.filter_cons, if_pos h3, words_spaces_append]
      rw [ih gaps.tail (fun x hx => hne x (by simp [hx])) (fun x hx => hsp x (by simp [hx]))]

theorem trimStart_ws_append (lead x : List Char) (h : ∀ c ∈ lead, isWhiteSpace c = true) :
    trimStart (lead ++ x) = trimStart x := by
  induction lead with
  | nil => rfl
  | cons c cs ih =>
    have hc : isWhiteSpace c = true := h c (by simp)
    simp only [List.cons_append, trimStart, hc, if_true]
    exact ih (fun d hd => h d (by simp [hd]))

theorem trimStart_ws (l : List Char) (h : ∀ c ∈ l, isWhiteSpace c = true) : trimStart l = [] := by
  have := trimStart_ws_append l [] h
  simpa [trimStart] using this

theorem trimStart_cons_nonws {c : Char} (cs : List Char) (h : isWhiteSpace c = false) :
    trimStart (c :: cs) = c :: cs := by
  simp [trimStart, h]

theorem trimEnd_append_ws (x trail : List Char) (h : ∀ c ∈ trail, isWhiteSpace c = true) :
    trimEnd (x ++ trail) = trimEnd x := by
  unfold trimEnd
  rw [List.reverse_append, trimStart_ws_append _ _ (by simpa using h)]

theorem trimEnd_snoc_nonws {c : Char} (pre : List Char) (h : isWhiteSpace c = false) :
    trimEnd (pre ++ [c]) = pre ++ [c] := by
  unfold trimEnd
  rw [List.reverse_append]
  simp only [List.reverse_cons, List.reverse_nil, List.nil_append, List.cons_append]
  rw [trimStart_cons_nonws _ h]; simp

theorem padBody_head {t : Tok} {ts : List Tok} {c : Char} {t0 : List Char} (gaps : List Nat) (h : t = c :: t0) :
    ∃ r, padBody (t :: ts) gaps = c :: r := by
  subst h
  cases ts with
  | nil => exact ⟨t0, rfl⟩
  | cons t' ts => exact ⟨t0 ++ (spaces (gaps.headD 0 + 1) ++ padBody (t' :: ts) gaps.tail), by simp [padBody]⟩

theorem padBody_last (toks : List Tok) (gaps : List Nat) {t : Tok} {c : Char}
    (h1 : toks.getLast? = some t) (h2 : t.getLast? = some c) : ∃ pre, padBody toks gaps = pre ++ [c] := by
  induction toks generalizing gaps with
  | nil => simp at h1
  | cons a ts ih =>
    cases ts with
    | nil =>
      simp at h1; subst h1
      obtain ⟨pre, hp⟩ : ∃ pre, a = pre ++ [c] := by
        have := List.getLast?_eq_some_iff.mp h2
        exact this
      exact ⟨pre, by simp [padBody, hp]⟩
    | cons b ts =>
      have h1' : (b :: ts).getLast? = some t := by simpa [List.getLast?_cons_cons] using h1
      obtain ⟨pre, hp⟩ := ih gaps.tail h1'
      exact ⟨a ++ (spaces (gaps.headD 0 + 1) ++ pre), by simp [padBody, hp]⟩

theorem trim_pad {lead trail : List Char} {toks : List Tok} (gaps : List Nat) (h : PadOk lead trail toks) :
    trim (pad lead trail gaps toks) = padBody toks gaps := by
  unfold trim pad
  rw [trimStart_ws_append _ _ h.lead_ws]
  cases toks with
  | nil =>
    simp only [padBody, List.nil_append]
    rw [trimStart_ws _ h.trail_ws]; rfl
  | cons t ts =>
    have htne : t ≠ [] := h.tok_ne t (by simp)
    obtain ⟨c, t0, ht⟩ : ∃ c t0, t = c :: t0 := by
      cases t with
      | nil => exact absurd rfl htne
      | cons c t0 => exact ⟨c, t0, rfl⟩
    obtain ⟨r, hr⟩ := padBody_head (ts := ts) gaps ht
    have hc : isWhiteSpace c = false := h.first t c (by simp) (by simp [ht])
    rw [hr, List.cons_append, trimStart_cons_nonws _ hc, ← List.cons_append, ← hr, trimEnd_append_ws _ _ h.trail_ws]
    -- last char
    obtain ⟨tl, htl⟩ : ∃ tl, (t :: ts).getLast? = some tl := ⟨_, List.getLast?_eq_some_getLast (by simp)⟩
    have htlne : tl ≠ [] := h.tok_ne tl (List.mem_of_getLast? htl)
    obtain ⟨d, hd⟩ : ∃ d, tl.getLast? = some d := ⟨_, List.getLast?_eq_some_getLast htlne⟩
    obtain ⟨pre, hp⟩ := padBody_last (t :: ts) gaps htl hd
    rw [hp, trimEnd_snoc_nonws _ (h.last tl d htl hd)]

/-- **C15, spacing.** Tokenizing any padding of a token list gives back the token list. -/
theorem tokenize_pad {lead trail : List Char} {toks : List Tok} (gaps : List Nat) (h : PadOk lead trail toks) :
    tokenize (pad lead trail gaps toks) = toks := by
  unfold tokenize
  rw [trim_pad gaps h]
  exact words_padBody toks gaps h.tok_ne h.tok_nosp
#print axioms tokenize_pad
example : PadOk "\t ".toList " \r\n".toList ["go".toList, "wtime".toList, "5".toList] :=
  ⟨by decide, by decide, by decide, by decide,
   by intro t c h1 h2; simp at h1; subst h1; simp at h2; subst h2; decide,
   by intro t c h1 h2; simp at h1; subst h1; simp at h2; subst h2; decide⟩
example : "\t go   wtime 5 \r\n".toList
    = pad "\t ".toList " \r\n".toList [2, 0] ["go".toList, "wtime".toList, "5".toList] := by decide


theorem square_roundtrip :
    ∀ i, i < 64 → squareFromChars (Char.ofNat (97 + i % 8)) (Char.ofNat (56 - i / 8)) = some i := by
  decide

theorem piece_roundtrip (p : Piece) : Piece.fromChar p.fen = some p := by
  cases p <;> decide

/-- **C15, move text round-trips** (all 64 × 64 × {none, 6 pieces} moves). -/
theorem ucimove_roundtrip (m : UciMove) (h : MoveWf m) : UciMove.parse (UciMove.render m) = .ok m := by
  obtain ⟨s, t, p⟩ := m
  obtain ⟨hs, ht⟩ := h
  simp only at hs ht
  cases p with
  | none =>
    simp [UciMove.render, squareFen, UciMove.parse, square_roundtrip s hs, square_roundtrip t ht]
  | some pc =>
    simp [UciMove.render, squareFen, UciMove.parse, square_roundtrip s hs, square_roundtrip t ht,
      piece_roundtrip pc]
#print axioms ucimove_roundtrip
example : MoveWf ⟨52, 36, some .queen⟩ ∧ UciMove.render ⟨52, 36, some .queen⟩ = "e2e4q".toList := by decide

/-- the second char of a rendered move is a digit, so no rendered move is a keyword -/
theorem render_second_digit (m : UciMove) (h : MoveWf m) :
    ∃ a b r, UciMove.render m = a :: b :: r ∧ isAsciiDigit b = true := by
  refine ⟨_, _, _, by simp [UciMove.render, squareFen]; exact ⟨rfl, rfl, rfl⟩, ?_⟩
  have : ∀ i, i < 64 → isAsciiDigit (Char.ofNat (56 - i / 8)) = true := by decide
  exact this _ h.1

def secondDigit : Tok → Bool
  | _ :: b :: _ => isAsciiDigit b
  | _ => false

theorem render_secondDigit (m : UciMove) (h : MoveWf m) : secondDigit (UciMove.render m) = true := by
  obtain ⟨a, b, r, e, hb⟩ := render_second_digit m h
  rw [e]; exact hb

theorem not_mem_of_secondDigit {l : List Tok} (hl : ∀ t ∈ l, secondDigit t = false) {x : Tok}
    (hx : secondDigit x = true) : l.contains x = false := by
  cases hc : l.contains x with
  | false => rfl
  | true =>
    have := hl x (by simpa using hc)
    rw [this] at hx; cases hx

theorem goTokens_secondDigit : ∀ t ∈ goTokens, secondDigit t = false := by decide

theorem render_not_goToken (m : UciMove) (h : MoveWf m) : goTokens.contains (UciMove.render m) = false :=
  not_mem_of_secondDigit goTokens_secondDigit (render_secondDigit m h)

/-! ### numbers -/

theorem digitChar_props : ∀ d, d < 10 → isAsciiDigit (digitChar d) = true ∧ digitVal (digitChar d) = d := by
  decide

theorem decimalValue_snoc (ds : List Char) (c : Char) :
    decimalValue (ds ++ [c]) = 10 * decimalValue ds + digitVal c := by
  simp [decimalValue, List.foldl_append]

theorem decimal_props (n : Nat) :
    decimal n ≠ [] ∧ (decimal n).all isAsciiDigit = true ∧ decimalValue (decimal n) = n := by
  induction n using Nat.strongRecOn with
  | _ n ih =>
    rw [decimal]
    split
    · rename_i h
      have := digitChar_props n h
      simp [decimalValue, this.1, this.2]
    · rename_i h
      have h1 := ih (n / 10) (by omega)
      have h2 := digitChar_props (n % 10) (by omega)
      refine ⟨by simp, ?_, ?_⟩
      · simp [h1.2.1, h2.1]
      · rw [decimalValue_snoc, h1.2.2, h2.2]; omega

theorem digitsValue_decimal (n : Nat) : digitsValue? (decimal n) = some n := by
  have := decimal_props n
  simp [digitsValue?, this.1, this.2.1, this.2.2]

theorem decimal_head (n : Nat) : ∃ c r, decimal n = c :: r ∧ isAsciiDigit c = true := by
  have := decimal_props n
  cases h : decimal n with
  | nil => exact absurd h this.1
  | cons c r =>
    refine ⟨c, r, rfl, ?_⟩
    have h2 := this.2.1
    rw [h] at h2
    simp at h2
    exact h2.1

theorem parseU64_decimal (n : Nat) (h : U64Range n) : parseU64 (decimal n) = some n := by
  obtain ⟨c, r, e, hc⟩ := decimal_head n
  have hd := digitsValue_decimal n
  rw [e] at hd
  have hplus : c ≠ '+' := by intro e; subst e; simp [isAsciiDigit] at hc
  rw [e]
  simp only [parseU64, hplus, if_false, hd]
  simp [show n < 18446744073709551616 from h]

theorem parseI64_intText (v : Int) (h : I64Range v) : parseI64 (intText v) = some v := by
  unfold intText
  split
  · rename_i hneg
    have hd := digitsValue_decimal v.natAbs
    simp only [parseI64, hd]
    have : v.natAbs ≤ 9223372036854775808 := by have := h.1; omega
    simp [this]
    omega
  · rename_i hpos
    obtain ⟨c, r, e, hc⟩ := decimal_head v.toNat
    have hd := digitsValue_decimal v.toNat
    rw [e] at hd
    have hplus : c ≠ '+' := by intro e; subst e; simp [isAsciiDigit] at hc
    have hminus : c ≠ '-' := by intro e; subst e; simp [isAsciiDigit] at hc
    rw [e]
    simp only [parseI64, hplus, hminus, if_false, hd]
    have : v.toNat < 9223372036854775808 := by have := h.2; omega
    simp [this]
    omega


/-! ### free text -/

def tailText (ts : List Tok) : List Char := ts.flatMap (fun t => ' ' :: t)

theorem joinSp_cons (t : Tok) (ts : List Tok) : joinSp (t :: ts) = t ++ tailText ts := by
  induction ts generalizing t with
  | nil => simp [joinSp, tailText]
  | cons t' ts ih => simp [joinSp, ih t', tailText]

/-- the queue from here on is empty or starts with a stop token -/
def StopsAt (stops : List Tok) (rest : List Tok) : Prop :=
  rest = [] ∨ ∃ t r, rest = t :: r ∧ stops.contains t = true

theorem untilLoop_words (stops : List Tok) (ts rest : List Tok)
    (hts : ∀ t ∈ ts, stops.contains t = false) (hrest : StopsAt stops rest) :
    untilLoop stops (ts ++ rest) = (tailText ts, rest) := by
  induction ts with
  | nil =>
    rcases hrest with h | ⟨t, r, h, hc⟩
    · subst h; simp [untilLoop, tailText]
    · subst h
      simp only [List.nil_append, untilLoop, hc, if_true, tailText, List.flatMap_nil]
  | cons t ts ih =>
    have h1 : stops.contains t = false := hts t (by simp)
    have h2 := ih (fun x hx => hts x (by simp [hx]))
    simp only [List.cons_append, untilLoop, h1, h2]
    simp [tailText]

theorem untilOneOfOrEnd_words (stops : List Tok) (t : Tok) (ts rest : List Tok)
    (hts : ∀ t ∈ ts, stops.contains t = false) (hrest : StopsAt stops rest) :
    untilOneOfOrEnd stops (t :: ts ++ rest) = .ok (joinSp (t :: ts), rest) := by
  simp only [List.cons_append, untilOneOfOrEnd, untilLoop_words stops ts rest hts hrest, joinSp_cons]

theorem until_text {stop : Option Tok} {s : List Char} (h : TextOk stop s) (stops : List Tok)
    (hstops : ∀ w ∈ stops, stop = some w) (rest : List Tok) (hrest : StopsAt stops rest) :
    untilOneOfOrEnd stops (words s ++ rest) = .ok (s, rest) := by
  cases hw : words s with
  | nil => exact absurd hw h.nonempty
  | cons t ts =>
    have hts : ∀ x ∈ ts, stops.contains x = false := by
      intro x hx
      cases hc : stops.contains x with
      | false => rfl
      | true =>
        have hmem : x ∈ stops := by simpa using hc
        have := h.nostop x (hstops x hmem)
        rw [hw] at this
        exact absurd hx this
    rw [untilOneOfOrEnd_words stops t ts rest hts hrest, ← hw, h.normal]

theorem stopsAt_nil (stops : List Tok) : StopsAt stops [] := Or.inl rfl
theorem stopsAt_cons {stops : List Tok} {t : Tok} (r : List Tok) (h : stops.contains t = true) :
    StopsAt stops (t :: r) := Or.inr ⟨t, r, rfl, h⟩

/-! ### simple commands -/

theorem parse_render_simple :
    parseTokens (render .uci) = .ok .uci ∧ parseTokens (render .isReady) = .ok .isReady ∧
    parseTokens (render .uciNewGame) = .ok .uciNewGame ∧ parseTokens (render .stop) = .ok .stop ∧
    parseTokens (render .ponderHit) = .ok .ponderHit ∧ parseTokens (render .quit) = .ok .quit ∧
    (∀ b, parseTokens (render (.setDebug b)) = .ok (.setDebug b)) ∧
    parseTokens (render .registerLater) = .ok .registerLater := by
  refine ⟨rfl, rfl, rfl, rfl, rfl, rfl, ?_, rfl⟩
  intro b; cases b <;> rfl
#print axioms parse_render_simple

/-- trailing tokens after a parameterless command are ignored -/
theorem simple_ignores_rest (extra : List Tok) :
    parseTokens (render .uci ++ extra) = .ok .uci ∧ parseTokens (render .isReady ++ extra) = .ok .isReady ∧
    parseTokens (render .uciNewGame ++ extra) = .ok .uciNewGame ∧ parseTokens (render .stop ++ extra) = .ok .stop ∧
    parseTokens (render .ponderHit ++ extra) = .ok .ponderHit ∧ parseTokens (render .quit ++ extra) = .ok .quit ∧
    (∀ b, parseTokens (render (.setDebug b) ++ extra) = .ok (.setDebug b)) ∧
    parseTokens (render .registerLater ++ extra) = .ok .registerLater := by
  refine ⟨rfl, rfl, rfl, rfl, rfl, rfl, ?_, rfl⟩
  intro b; cases b <;> rfl

/-! ### setoption / register -/

theorem parseRoot_setoption (q : List Tok) : parseTokens ("setoption".toList :: q) = parseSetOption q := rfl
theorem parseRoot_register (q : List Tok) : parseTokens ("register".toList :: q) = parseRegister q := rfl
theorem parseRoot_position (q : List Tok) : parseTokens ("position".toList :: q) = parsePosition q := rfl
theorem parseRoot_go (q : List Tok) : parseTokens ("go".toList :: q) = parseGo q := rfl
theorem parseRoot_debug (q : List Tok) : parseTokens ("debug".toList :: q) = parseDebug q := rfl

theorem consume_same (t : Tok) (q : List Tok) : consume t (t :: q) = (.ok (), q) := by simp [consume]
theorem untilOneOfOrEnd_nil (stops : List Tok) : untilOneOfOrEnd stops [] = .error .eoc := rfl
theorem consume_nil (t : Tok) : consume t [] = (.error .eoc, []) := rfl

theorem parse_render_setoption (name : List Char) (h : TextOk (some "value".toList) name) :
    parseTokens (render (.setOption name)) = .ok (.setOption name) := by
  have hu := until_text h ["value".toList] (by simp) [] (stopsAt_nil _)
  simp only [List.append_nil] at hu
  show parseSetOption ("name".toList :: words name) = _
  simp only [parseSetOption, consume_same, hu, consume_nil, untilOneOfOrEnd_nil]
#print axioms parse_render_setoption
example : TextOk (some "value".toList) "Clear Hash".toList :=
  ⟨by decide, by decide, by intro w hw; cases hw; decide⟩

theorem parse_render_setoptionvalue (name value : List Char) (h : TextOk (some "value".toList) name)
    (hv : TextOk none value) :
    parseTokens (render (.setOptionValue name value)) = .ok (.setOptionValue name value) := by
  have hu := until_text h ["value".toList] (by simp) ("value".toList :: words value)
    (stopsAt_cons _ (by decide))
  have hv' := until_text hv [] (by simp) [] (stopsAt_nil _)
  simp only [List.append_nil] at hv'
  show parseSetOption ("name".toList :: (words name ++ "value".toList :: words value)) = _
  simp only [parseSetOption, consume_same, hu, hv']
#print axioms parse_render_setoptionvalue
example : TextOk (some "value".toList) "value of x".toList ∧ TextOk none "a value 3".toList :=
  ⟨⟨by decide, by decide, by intro w hw; cases hw; decide⟩, ⟨by decide, by decide, by intro w hw; cases hw⟩⟩

theorem parse_render_register (name code : List Char) (h : TextOk (some "code".toList) name)
    (hc : TextOk none code) :
    parseTokens (render (.register name code)) = .ok (.register name code) := by
  have hu := until_text h ["code".toList] (by simp) ("code".toList :: words code)
    (stopsAt_cons _ (by decide))
  have hc' := until_text hc [] (by simp) [] (stopsAt_nil _)
  simp only [List.append_nil] at hc'
  have hn : ¬ ("name".toList = "later".toList) := by decide
  show parseRegister ("name".toList :: (words name ++ "code".toList :: words code)) = _
  simp only [parseRegister, hn, if_false, consume_same, hu, hc']
#print axioms parse_render_register
example : TextOk (some "code".toList) "Stefan MK".toList ∧ TextOk none "43598 74324".toList :=
  ⟨⟨by decide, by decide, by intro w hw; cases hw; decide⟩, ⟨by decide, by decide, by intro w hw; cases hw⟩⟩


/-! ### move lists -/

theorem parseMovesUntil_render (stops : List Tok) (ms : List UciMove) (rest : List Tok)
    (hms : ∀ m ∈ ms, MoveWf m ∧ stops.contains (UciMove.render m) = false) (hrest : StopsAt stops rest) :
    parseMovesUntil stops (ms.map UciMove.render ++ rest) = .ok (ms, rest) := by
  induction ms with
  | nil =>
    rcases hrest with h | ⟨t, r, h, hc⟩
    · subst h; rfl
    · subst h; simp only [List.map_nil, List.nil_append, parseMovesUntil, hc, if_true]
  | cons m ms ih =>
    have h1 := hms m (by simp)
    have h2 := ih (fun x hx => hms x (by simp [hx]))
    simp only [List.map_cons, List.cons_append, parseMovesUntil, h1.2, ucimove_roundtrip m h1.1, h2]
    simp

theorem parseMovesUntil_all (ms : List UciMove) (hms : ∀ m ∈ ms, MoveWf m) :
    parseMovesUntil [] (ms.map UciMove.render) = .ok (ms, []) := by
  have := parseMovesUntil_render [] ms [] (fun m hm => ⟨hms m hm, by simp⟩) (stopsAt_nil _)
  simpa using this

/-! ### position -/

theorem fenOfText_ok (text : List Char) (h : ∃ f, Inkayaku.FenSyntax.parse (String.ofList text) = .ok f) :
    fenOfText text = .ok (PosSource.fenString (.fen text)) := by
  obtain ⟨f, hf⟩ := h
  simp only [fenOfText, hf, PosSource.fenString]

theorem fenOfText_err (text : List Char) (h : ∀ f, Inkayaku.FenSyntax.parse (String.ofList text) ≠ .ok f) :
    fenOfText text = .error .fen := by
  unfold fenOfText
  split
  · rfl
  · rename_i f hf; exact absurd hf (h f)

theorem parsePosition_tail (fen : List Char) (kw : Bool) (ms : List UciMove) (hms : ∀ m ∈ ms, MoveWf m) :
    (match consume "moves".toList (renderMoves kw ms) with
      | (.ok (), q2) =>
        match parseMovesUntil [] q2 with
        | .error e => .error e
        | .ok (ms, _) => .ok (.positionFrom fen ms)
      | (.error .eoc, _) => .ok (.positionFrom fen [])
      | (.error e, _) => .error e : Except ParserError UciCommand) = .ok (.positionFrom fen ms) := by
  unfold renderMoves
  by_cases h : ms = [] ∧ kw = false
  · rw [if_pos h]
    simp only [consume_nil, h.1]
  · rw [if_neg h]
    simp only [consume_same, parseMovesUntil_all ms hms]

theorem renderMoves_stopsAt (kw : Bool) (ms : List UciMove) : StopsAt ["moves".toList] (renderMoves kw ms) := by
  unfold renderMoves
  by_cases h : ms = [] ∧ kw = false
  · rw [if_pos h]; exact stopsAt_nil _
  · rw [if_neg h]; exact stopsAt_cons _ (by decide)

theorem parse_render_position_of_textOk (src : PosSource) (kw : Bool) (ms : List UciMove)
    (hsrc : src.Wf) (htext : ∀ text, src = .fen text → TextOk (some "moves".toList) text)
    (hms : ∀ m ∈ ms, MoveWf m) :
    parseTokens ("position".toList :: (src.render ++ renderMoves kw ms))
      = .ok (.positionFrom src.fenString ms) := by
  show parsePosition (src.render ++ renderMoves kw ms) = _
  cases src with
  | startpos =>
    have h1 : ¬ ("startpos".toList = "fen".toList) := by decide
    simp only [PosSource.render, List.cons_append, List.nil_append, parsePosition, h1, if_false, if_true,
      PosSource.fenString]
    exact parsePosition_tail _ kw ms hms
  | fen text =>
    have hu := until_text (htext text rfl) ["moves".toList] (by simp) (renderMoves kw ms)
      (renderMoves_stopsAt kw ms)
    simp only [PosSource.render, List.cons_append, parsePosition, if_true, hu, fenOfText_ok text hsrc]
    exact parsePosition_tail _ kw ms hms


/-! ### FEN text is well-spaced text -/

theorem isAsciiDigit_not_ws (c : Char) (h : isAsciiDigit c = true) : isWhiteSpace c = false := by
  simp only [isAsciiDigit, Bool.and_eq_true, decide_eq_true_eq, Char.le_def, UInt32.le_iff_toNat_le] at h
  have h1 : 48 ≤ c.toNat := h.1
  have h2 : c.toNat ≤ 57 := h.2
  simp only [isWhiteSpace]
  simp
  omega

theorem joinSp_cons_cons (c : Char) (t : Tok) (ts : List Tok) :
    joinSp ((c :: t) :: ts) = c :: joinSp (t :: ts) := by
  cases ts <;> simp [joinSp]

theorem joinSp_splitOnChar (s : List Char) : joinSp (splitOnChar ' ' s) = s := by
  induction s with
  | nil => simp [splitOnChar, joinSp]
  | cons c cs ih =>
    by_cases hc : c = ' '
    · subst hc
      have hne := splitOnChar_ne_nil ' ' cs
      cases hs : splitOnChar ' ' cs with
      | nil => exact absurd hs hne
      | cons p ps =>
        rw [hs] at ih
        simp [splitOnChar, hs, joinSp, ih]
    · rw [splitOnChar_cons_ne hc]
      have hne := splitOnChar_ne_nil ' ' cs
      cases hs : splitOnChar ' ' cs with
      | nil => exact absurd hs hne
      | cons p ps =>
        rw [hs] at ih
        simp [joinSp_cons_cons, ih]

/-- a text all of whose space-separated fields are non-empty is normal -/
theorem textOk_of_fields (s : List Char) (fs : List Tok) (hs : splitOnChar ' ' s = fs)
    (hne : ∀ f ∈ fs, f ≠ []) (stop : Option Tok) (hstop : ∀ w, stop = some w → w ∉ fs.tail) :
    TextOk stop s := by
  have hw : words s = fs := by
    unfold words; rw [hs]
    apply List.filter_eq_self.mpr
    intro f hf
    simp [hne f hf]
  refine ⟨?_, ?_, ?_⟩
  · rw [hw, ← hs]; exact splitOnChar_ne_nil _ _
  · rw [hw, ← hs]; exact joinSp_splitOnChar s
  · rw [hw]; exact hstop

theorem parse_ofList (text : List Char) :
    Inkayaku.FenSyntax.parse (String.ofList text) =
      if text = "startpos".toList then Inkayaku.FenSyntax.parseChars startposString.toList
      else Inkayaku.FenSyntax.parseChars text := by
  unfold Inkayaku.FenSyntax.parse
  have : (String.ofList text = "startpos") ↔ text = "startpos".toList := by
    constructor
    · intro h; rw [← h, String.toList_ofList]
    · intro h; rw [h, String.ofList_toList]
  by_cases h : text = "startpos".toList
  · rw [if_pos h, if_pos (this.mpr h)]
  · rw [if_neg h, if_neg (fun e => h (this.mp e)), String.toList_ofList]

/-- last character of the last field -/
def LastCharOk (fs : List Tok) : Prop :=
  ∀ t c, fs.getLast? = some t → t.getLast? = some c → isWhiteSpace c = false

theorem ep_props (e : List Char) (h : Inkayaku.FenSyntax.epShapeOk e = true) :
    e ≠ [] ∧ e ≠ "moves".toList ∧ ∀ c, e.getLast? = some c → isWhiteSpace c = false := by
  unfold Inkayaku.FenSyntax.epShapeOk at h
  split at h
  · exact ⟨by simp, by decide, by intro c hc; simp at hc; subst hc; decide⟩
  · rename_i f r
    refine ⟨by simp, by simp, ?_⟩
    intro c hc
    simp at hc; subst hc
    apply isAsciiDigit_not_ws
    simp only [Bool.and_eq_true, decide_eq_true_eq] at h
    simp only [isAsciiDigit, Bool.and_eq_true, decide_eq_true_eq]
    obtain ⟨⟨⟨_, _⟩, h3⟩, h4⟩ := h
    constructor
    · exact Char.le_trans (by decide) h3
    · exact Char.le_trans h4 (by decide)
  · cases h

theorem digits_props (d : List Char) (h1 : (!d.isEmpty) = true) (h2 : d.all isAsciiDigit = true) :
    d ≠ [] ∧ d ≠ "moves".toList ∧ ∀ c, d.getLast? = some c → isWhiteSpace c = false := by
  refine ⟨by intro e; subst e; simp at h1, ?_, ?_⟩
  · intro e; subst e; revert h2; decide
  · intro c hc
    apply isAsciiDigit_not_ws
    have := List.mem_of_getLast? hc
    exact (List.all_eq_true.mp h2) c this

theorem castling_props (k : List Char) (h : Inkayaku.FenSyntax.castlingShapeOk k = true) :
    k ≠ [] ∧ k ≠ "moves".toList := by
  constructor
  · intro e; subst e; revert h; decide
  · intro e; subst e; revert h; decide

theorem placement_props (p : List Char) (h : Inkayaku.FenSyntax.placementShapeOk p = true) : p ≠ [] := by
  intro e; subst e; revert h; decide

theorem regex_fields (text : List Char) {x} (h : Inkayaku.FenSyntax.regexGroups text = some x) :
    ∃ fs, splitOnChar ' ' text = fs ∧ (∀ f ∈ fs, f ≠ []) ∧ "moves".toList ∉ fs.tail ∧ LastCharOk fs := by
  unfold Inkayaku.FenSyntax.regexGroups at h
  split at h
  · rename_i p c k e hs
    split at h
    · rename_i hc
      simp only [Bool.and_eq_true] at hc
      obtain ⟨⟨⟨hp, _⟩, hk⟩, he⟩ := hc
      have hp' := placement_props p hp
      have hk' := castling_props k hk
      have he' := ep_props e he
      refine ⟨_, hs, ?_, ?_, ?_⟩
      · intro f hf
        simp at hf
        rcases hf with rfl | rfl | rfl | rfl
        · exact hp'
        · simp
        · exact hk'.1
        · exact he'.1
      · simp only [List.tail_cons, List.mem_cons, List.not_mem_nil, or_false, not_or]
        exact ⟨by simp, fun e => hk'.2 e.symm, fun e => he'.2.1 e.symm⟩
      · intro t ch ht hch
        simp at ht; subst ht
        exact he'.2.2 ch hch
    · cases h
  · rename_i p c k e hh ff hs
    split at h
    · rename_i hc
      simp only [Bool.and_eq_true] at hc
      obtain ⟨⟨⟨⟨⟨⟨⟨hp, _⟩, hk⟩, he⟩, hh1⟩, hh2⟩, hf1⟩, hf2⟩ := hc
      have hp' := placement_props p hp
      have hk' := castling_props k hk
      have he' := ep_props e he
      have hh' := digits_props hh hh1 hh2
      have hf' := digits_props ff hf1 hf2
      refine ⟨_, hs, ?_, ?_, ?_⟩
      · intro f hf
        simp at hf
        rcases hf with rfl | rfl | rfl | rfl | rfl | rfl
        · exact hp'
        · simp
        · exact hk'.1
        · exact he'.1
        · exact hh'.1
        · exact hf'.1
      · simp only [List.tail_cons, List.mem_cons, List.not_mem_nil, or_false, not_or]
        exact ⟨by simp, fun e => hk'.2 e.symm, fun e => he'.2.1 e.symm, fun e => hh'.2.1 e.symm,
          fun e => hf'.2.1 e.symm⟩
      · intro t ch ht hch
        simp at ht; subst ht
        exact hf'.2.2 ch hch
    · cases h
  · cases h

theorem parseChars_fields (text : List Char) {f} (h : Inkayaku.FenSyntax.parseChars text = .ok f) :
    ∃ fs, splitOnChar ' ' text = fs ∧ (∀ f ∈ fs, f ≠ []) ∧ "moves".toList ∉ fs.tail ∧ LastCharOk fs := by
  unfold Inkayaku.FenSyntax.parseChars at h
  split at h
  · cases h
  · rename_i hr
    exact regex_fields text hr

/-- every text that `Fen::from_str` accepts consists of non-empty fields separated by single spaces, none of which
(after the first) is the word `moves`, and does not end in a trimmed character -/
theorem fen_fields (text : List Char) (h : ∃ f, Inkayaku.FenSyntax.parse (String.ofList text) = .ok f) :
    TextOk (some "moves".toList) text ∧ LastCharOk (words text) := by
  obtain ⟨f, hf⟩ := h
  rw [parse_ofList] at hf
  by_cases hsp : text = "startpos".toList
  · subst hsp
    have e : words "startpos".toList = ["startpos".toList] := by decide
    refine ⟨⟨by decide, by decide, ?_⟩, ?_⟩
    · intro w _; rw [e]; simp
    · intro t c ht hc
      rw [e] at ht; simp at ht; subst ht
      simp at hc; subst hc; decide
  · rw [if_neg hsp] at hf
    obtain ⟨fs, hs, hne, hmv, hlast⟩ := parseChars_fields text hf
    have hok := textOk_of_fields text fs hs hne (some "moves".toList)
      (by intro w hw; cases hw; exact hmv)
    refine ⟨hok, ?_⟩
    have hw : words text = fs := by
      unfold words; rw [hs]
      apply List.filter_eq_self.mpr
      intro f hf
      simp [hne f hf]
    rw [hw]; exact hlast


/-! ### go -/

theorem goLoop_nil (vis : List Tok) (g : Go) : goLoop vis g [] = .ok g := by
  rw [goLoop]

theorem goLoop_cons (vis : List Tok) (g : Go) (t : Tok) (q : List Tok) :
    goLoop vis g (t :: q) =
      if vis.contains t then .error .dup
      else match goKey? t with
        | none => .error .token
        | some k =>
          match goStep g k q with
          | .error e => .error e
          | .ok (g', r) => goLoop (t :: vis) g' r := by
  rw [goLoop]
  split
  · rfl
  · split
    · simp_all
    · split <;> simp_all

theorem goKey?_word (k : GoKey) : goKey? k.word = some k := by cases k <;> rfl

theorem word_inj {k k' : GoKey} (h : k.word = k'.word) : k = k' := by
  have := goKey?_word k
  rw [h, goKey?_word] at this
  exact (Option.some.inj this).symm

theorem word_goToken (k : GoKey) : goTokens.contains k.word = true := by cases k <;> decide

def applyItem (g : Go) : GoItem → Go
  | .searchmoves ms => { g with searchMoves := ms }
  | .ponder => { g with ponder := true }
  | .wtime v => { g with wtime := some (clampMillis v) }
  | .btime v => { g with btime := some (clampMillis v) }
  | .winc v => { g with winc := some (clampMillis v) }
  | .binc v => { g with binc := some (clampMillis v) }
  | .movestogo n => { g with movesToGo := some n }
  | .depth n => { g with depth := some n }
  | .nodes n => { g with nodes := some n }
  | .mate n => { g with mate := some n }
  | .movetime v => { g with moveTime := some (clampMillis v) }
  | .infinite => { g with infinite := true }

def applyItems (g : Go) (items : List GoItem) : Go := items.foldl applyItem g

theorem goStep_item (g : Go) (it : GoItem) (hwf : it.Wf) (rest : List Tok) (hrest : StopsAt goTokens rest) :
    goStep g it.key (it.args ++ rest) = .ok (applyItem g it, rest) := by
  cases it with
  | searchmoves ms =>
    have := parseMovesUntil_render goTokens ms rest
      (fun m hm => ⟨hwf m hm, render_not_goToken m (hwf m hm)⟩) hrest
    simp only [GoItem.key, GoItem.args, goStep, this, applyItem]
  | ponder => rfl
  | infinite => rfl
  | wtime v => simp only [GoItem.key, GoItem.args, goStep, List.cons_append, List.nil_append, parseDuration,
      parseI64_intText v hwf, applyItem, clampMillis]
  | btime v => simp only [GoItem.key, GoItem.args, goStep, List.cons_append, List.nil_append, parseDuration,
      parseI64_intText v hwf, applyItem, clampMillis]
  | winc v => simp only [GoItem.key, GoItem.args, goStep, List.cons_append, List.nil_append, parseDuration,
      parseI64_intText v hwf, applyItem, clampMillis]
  | binc v => simp only [GoItem.key, GoItem.args, goStep, List.cons_append, List.nil_append, parseDuration,
      parseI64_intText v hwf, applyItem, clampMillis]
  | movetime v => simp only [GoItem.key, GoItem.args, goStep, List.cons_append, List.nil_append, parseDuration,
      parseI64_intText v hwf, applyItem, clampMillis]
  | movestogo n => simp only [GoItem.key, GoItem.args, goStep, List.cons_append, List.nil_append, parseU64Tok,
      parseU64_decimal n hwf, applyItem]
  | depth n => simp only [GoItem.key, GoItem.args, goStep, List.cons_append, List.nil_append, parseU64Tok,
      parseU64_decimal n hwf, applyItem]
  | nodes n => simp only [GoItem.key, GoItem.args, goStep, List.cons_append, List.nil_append, parseU64Tok,
      parseU64_decimal n hwf, applyItem]
  | mate n => simp only [GoItem.key, GoItem.args, goStep, List.cons_append, List.nil_append, parseU64Tok,
      parseU64_decimal n hwf, applyItem]

theorem renderGoItems_stopsAt (items : List GoItem) (rest : List Tok) (hrest : StopsAt goTokens rest) :
    StopsAt goTokens (renderGoItems items ++ rest) := by
  cases items with
  | nil => simpa [renderGoItems] using hrest
  | cons it its =>
    simp only [renderGoItems, List.flatMap_cons, GoItem.render, List.cons_append]
    exact stopsAt_cons _ (word_goToken _)

/-- the visited set after a parameter list -/
def visAfter (vis : List Tok) (items : List GoItem) : List Tok :=
  (items.map (fun it => it.key.word)).reverse ++ vis

theorem goLoop_items (items : List GoItem) (rest : List Tok) (hok : GoItemsOk items)
    (hrest : StopsAt goTokens rest) (vis : List Tok) (g : Go)
    (hvis : ∀ it ∈ items, vis.contains it.key.word = false) :
    goLoop vis g (renderGoItems items ++ rest) = goLoop (visAfter vis items) (applyItems g items) rest := by
  induction items generalizing vis g with
  | nil => simp [renderGoItems, visAfter, applyItems]
  | cons it its ih =>
    have hnd : (it.key :: its.map GoItem.key).Nodup := by simpa using hok.distinct
    have hokits : GoItemsOk its := ⟨(List.nodup_cons.mp hnd).2, fun x hx => hok.wf x (by simp [hx])⟩
    have e : renderGoItems (it :: its) ++ rest = it.key.word :: (it.args ++ (renderGoItems its ++ rest)) := by
      simp [renderGoItems, GoItem.render]
    rw [e, goLoop_cons, hvis it (by simp), goKey?_word]
    simp only [Bool.false_eq_true, if_false]
    rw [goStep_item g it (hok.wf it (by simp)) _ (renderGoItems_stopsAt its rest hrest)]
    simp only []
    rw [ih hokits (it.key.word :: vis) (applyItem g it)]
    · simp [visAfter, applyItems]
    · intro x hx
      have h1 := hvis x (by simp [hx])
      have h2 : x.key ≠ it.key := by
        intro e
        have := (List.nodup_cons.mp hnd).1
        apply this
        rw [← e]; exact List.mem_map_of_mem hx
      have h3 : x.key.word ≠ it.key.word := fun e => h2 (word_inj e)
      simp only [List.contains_cons, h1, Bool.or_false]
      simpa using h3

/-! fold = lookup -/

theorem findSome_none_of_key {β : Type} (f : GoItem → Option β) (k : GoKey)
    (hf : ∀ x : GoItem, x.key ≠ k → f x = none) (its : List GoItem) (h : k ∉ its.map GoItem.key) :
    its.findSome? f = none := by
  rw [List.findSome?_eq_none_iff]
  intro x hx
  apply hf
  intro e
  apply h
  rw [← e]; exact List.mem_map_of_mem hx

theorem goFrom_nil (g : Go) : goFrom g [] = g := by
  cases g; simp [goFrom]

theorem applyItems_eq_goFrom (items : List GoItem) (hnd : (items.map GoItem.key).Nodup) (g : Go) :
    applyItems g items = goFrom g items := by
  induction items generalizing g with
  | nil => simp [applyItems, goFrom_nil]
  | cons it its ih =>
    have hnd' : (it.key :: its.map GoItem.key).Nodup := by simpa using hnd
    have hk := (List.nodup_cons.mp hnd').1
    have ih' := ih (List.nodup_cons.mp hnd').2 (applyItem g it)
    simp only [applyItems, List.foldl_cons] at ih' ⊢
    rw [ih']
    cases it with
    | searchmoves ms =>
      have := findSome_none_of_key GoItem.sm? .searchmoves
        (by intro x hx; cases x <;> simp_all [GoItem.key, GoItem.sm?]) its hk
      simp [goFrom, applyItem, List.findSome?_cons, this, GoItem.sm?, GoItem.ponder?, GoItem.wtime?, GoItem.btime?, GoItem.winc?, GoItem.binc?, GoItem.movestogo?, GoItem.depth?, GoItem.nodes?, GoItem.mate?,
        GoItem.movetime?, GoItem.infinite?]
    | ponder =>
      have := findSome_none_of_key GoItem.ponder? .ponder
        (by intro x hx; cases x <;> simp_all [GoItem.key, GoItem.ponder?]) its hk
      simp [goFrom, applyItem, List.findSome?_cons, this, GoItem.sm?, GoItem.ponder?, GoItem.wtime?, GoItem.btime?, GoItem.winc?, GoItem.binc?, GoItem.movestogo?, GoItem.depth?, GoItem.nodes?, GoItem.mate?,
        GoItem.movetime?, GoItem.infinite?]
    | wtime v =>
      have := findSome_none_of_key GoItem.wtime? .wtime
        (by intro x hx; cases x <;> simp_all [GoItem.key, GoItem.wtime?]) its hk
      simp [goFrom, applyItem, List.findSome?_cons, this, GoItem.sm?, GoItem.ponder?, GoItem.wtime?, GoItem.btime?, GoItem.winc?, GoItem.binc?, GoItem.movestogo?, GoItem.depth?, GoItem.nodes?, GoItem.mate?,
        GoItem.movetime?, GoItem.infinite?]
    | btime v =>
      have := findSome_none_of_key GoItem.btime? .btime
        (by intro x hx; cases x <;> simp_all [GoItem.key, GoItem.btime?]) its hk
      simp [goFrom, applyItem, List.findSome?_cons, this, GoItem.sm?, GoItem.ponder?, GoItem.wtime?, GoItem.btime?, GoItem.winc?, GoItem.binc?, GoItem.movestogo?, GoItem.depth?, GoItem.nodes?, GoItem.mate?,
        GoItem.movetime?, GoItem.infinite?]
    | winc v =>
      have := findSome_none_of_key GoItem.winc? .winc
        (by intro x hx; cases x <;> simp_all [GoItem.key, GoItem.winc?]) its hk
      simp [goFrom, applyItem, List.findSome?_cons, this, GoItem.sm?, GoItem.ponder?, GoItem.wtime?, GoItem.btime?, GoItem.winc?, GoItem.binc?, GoItem.movestogo?, GoItem.depth?, GoItem.nodes?, GoItem.mate?,
        GoItem.movetime?, GoItem.infinite?]
    | binc v =>
      have := findSome_none_of_key GoItem.binc? .binc
        (by intro x hx; cases x <;> simp_all [GoItem.key, GoItem.binc?]) its hk
      simp [goFrom, applyItem, List.findSome?_cons, this, GoItem.sm?, GoItem.ponder?, GoItem.wtime?, GoItem.btime?, GoItem.winc?, GoItem.binc?, GoItem.movestogo?, GoItem.depth?, GoItem.nodes?, GoItem.mate?,
        GoItem.movetime?, GoItem.infinite?]
    | movestogo n =>
      have := findSome_none_of_key GoItem.movestogo? .movestogo
        (by intro x hx; cases x <;> simp_all [GoItem.key, GoItem.movestogo?]) its hk
      simp [goFrom, applyItem, List.findSome?_cons, this, GoItem.sm?, GoItem.ponder?, GoItem.wtime?, GoItem.btime?, GoItem.winc?, GoItem.binc?, GoItem.movestogo?, GoItem.depth?, GoItem.nodes?, GoItem.mate?,
        GoItem.movetime?, GoItem.infinite?]
    | depth n =>
      have := findSome_none_of_key GoItem.depth? .depth
        (by intro x hx; cases x <;> simp_all [GoItem.key, GoItem.depth?]) its hk
      simp [goFrom, applyItem, List.findSome?_cons, this, GoItem.sm?, GoItem.ponder?, GoItem.wtime?, GoItem.btime?, GoItem.winc?, GoItem.binc?, GoItem.movestogo?, GoItem.depth?, GoItem.nodes?, GoItem.mate?,
        GoItem.movetime?, GoItem.infinite?]
    | nodes n =>
      have := findSome_none_of_key GoItem.nodes? .nodes
        (by intro x hx; cases x <;> simp_all [GoItem.key, GoItem.nodes?]) its hk
      simp [goFrom, applyItem, List.findSome?_cons, this, GoItem.sm?, GoItem.ponder?, GoItem.wtime?, GoItem.btime?, GoItem.winc?, GoItem.binc?, GoItem.movestogo?, GoItem.depth?, GoItem.nodes?, GoItem.mate?,
        GoItem.movetime?, GoItem.infinite?]
    | mate n =>
      have := findSome_none_of_key GoItem.mate? .mate
        (by intro x hx; cases x <;> simp_all [GoItem.key, GoItem.mate?]) its hk
      simp [goFrom, applyItem, List.findSome?_cons, this, GoItem.sm?, GoItem.ponder?, GoItem.wtime?, GoItem.btime?, GoItem.winc?, GoItem.binc?, GoItem.movestogo?, GoItem.depth?, GoItem.nodes?, GoItem.mate?,
        GoItem.movetime?, GoItem.infinite?]
    | movetime v =>
      have := findSome_none_of_key GoItem.movetime? .movetime
        (by intro x hx; cases x <;> simp_all [GoItem.key, GoItem.movetime?]) its hk
      simp [goFrom, applyItem, List.findSome?_cons, this, GoItem.sm?, GoItem.ponder?, GoItem.wtime?, GoItem.btime?, GoItem.winc?, GoItem.binc?, GoItem.movestogo?, GoItem.depth?, GoItem.nodes?, GoItem.mate?,
        GoItem.movetime?, GoItem.infinite?]
    | infinite =>
      have := findSome_none_of_key GoItem.infinite? .infinite
        (by intro x hx; cases x <;> simp_all [GoItem.key, GoItem.infinite?]) its hk
      simp [goFrom, applyItem, List.findSome?_cons, this, GoItem.sm?, GoItem.ponder?, GoItem.wtime?, GoItem.btime?, GoItem.winc?, GoItem.binc?, GoItem.movestogo?, GoItem.depth?, GoItem.nodes?, GoItem.mate?,
        GoItem.movetime?, GoItem.infinite?]


theorem parseMovesUntil_bad (stops : List Tok) (ms : List UciMove) (bad : Tok) (rest : List Tok)
    (hms : ∀ m ∈ ms, MoveWf m ∧ stops.contains (UciMove.render m) = false)
    (hbad : stops.contains bad = false) (hparse : ∀ m, UciMove.parse bad ≠ .ok m) :
    parseMovesUntil stops (ms.map UciMove.render ++ bad :: rest) = .error .move := by
  induction ms with
  | nil =>
    simp only [List.map_nil, List.nil_append, parseMovesUntil, hbad]
    cases hp : UciMove.parse bad with
    | error e => simp
    | ok m => exact absurd hp (hparse m)
  | cons m ms ih =>
    have h1 := hms m (by simp)
    have h2 := ih (fun x hx => hms x (by simp [hx]))
    simp only [List.map_cons, List.cons_append, parseMovesUntil, h1.2, ucimove_roundtrip m h1.1, h2]
    simp

/-- **C15, go.** Every list of distinct, in-range go parameters, in any order, is parsed into the `Go` value whose
fields are the values spelled by the respective items (durations clamped at 0, see `goFrom`/`clampMillis`). -/
theorem parse_render_go (items : List GoItem) (hok : GoItemsOk items) :
    parseTokens ("go".toList :: renderGoItems items) = .ok (.go (goOfItems items)) := by
  show parseGo (renderGoItems items) = _
  have h := goLoop_items items [] hok (stopsAt_nil _) [] Go.empty (by simp)
  rw [List.append_nil] at h
  unfold parseGo
  rw [h, goLoop_nil, applyItems_eq_goFrom items hok.distinct]
  rfl
#print axioms parse_render_go
example : GoItemsOk [.movetime (-5), .searchmoves [⟨52, 36, none⟩, ⟨12, 28, none⟩], .depth 3, .ponder, .wtime 60000] :=
  ⟨by decide, by decide⟩
/-- the value spelled by that list: fields by keyword, negative `movetime` clamped to 0 -/
example : goOfItems [.movetime (-5), .searchmoves [⟨52, 36, none⟩, ⟨12, 28, none⟩], .depth 3, .ponder, .wtime 60000]
    = { searchMoves := [⟨52, 36, none⟩, ⟨12, 28, none⟩], ponder := true, wtime := some 60000, depth := some 3,
        moveTime := some 0 } := by decide

/-- durations ≥ 0 round-trip as milliseconds, negative durations are clamped to 0 (`max(d, 0) as u64`) -/
theorem go_duration_clamp (v : Int) (h : I64Range v) :
    parseTokens ("go".toList :: renderGoItems [.wtime v])
      = .ok (.go { Go.empty with wtime := some (if v < 0 then 0 else v.toNat) }) := by
  rw [parse_render_go [.wtime v] ⟨by simp, by intro it hit; simp at hit; subst hit; exact h⟩]
  simp only [goOfItems, goFrom, List.findSome?_cons, List.findSome?_nil, GoItem.sm?, GoItem.ponder?, GoItem.wtime?,
    GoItem.btime?, GoItem.winc?, GoItem.binc?, GoItem.movestogo?, GoItem.depth?, GoItem.nodes?, GoItem.mate?,
    GoItem.movetime?, GoItem.infinite?, Go.empty]
  have : v.toNat = if v < 0 then 0 else v.toNat := by split <;> omega
  rw [← this]; rfl
#print axioms go_duration_clamp

theorem visAfter_contains (items : List GoItem) (k : GoKey) :
    (visAfter [] items).contains k.word = true ↔ k ∈ items.map GoItem.key := by
  simp only [visAfter, List.append_nil, List.contains_iff_mem, List.mem_reverse, List.mem_map]
  constructor
  · rintro ⟨it, hit, e⟩; exact ⟨it, hit, word_inj e⟩
  · rintro ⟨it, hit, e⟩; exact ⟨it, hit, by rw [e]⟩

/-- the state of `parse_go` after a well-formed parameter prefix, when the next token is a keyword -/
theorem parseGo_prefix (items : List GoItem) (hok : GoItemsOk items) (k : GoKey) (rest : List Tok) :
    parseTokens ("go".toList :: (renderGoItems items ++ k.word :: rest)) =
      match goLoop (visAfter [] items) (goOfItems items) (k.word :: rest) with
      | .error e => .error e
      | .ok g => .ok (.go g) := by
  show parseGo _ = _
  have h := goLoop_items items (k.word :: rest) hok (stopsAt_cons _ (word_goToken k)) [] Go.empty (by simp)
  unfold parseGo
  rw [h, applyItems_eq_goFrom items hok.distinct]
  rfl


/-! ### rejection -/

/-- **C15, unknown command.** A line whose first word is none of the eleven command words is an `unknown` error,
whatever follows. -/
theorem unknown_first_word (t : Tok) (q : List Tok) (h : t ∉ rootWords) :
    parseTokens (t :: q) = .error .unknown := by
  simp only [rootWords, List.mem_cons, List.not_mem_nil, or_false, not_or] at h
  obtain ⟨h1, h2, h3, h4, h5, h6, h7, h8, h9, h10, h11⟩ := h
  simp only [parseTokens, parseRoot, h1, h2, h3, h4, h5, h6, h7, h8, h9, h10, h11, if_false]
#print axioms unknown_first_word
example : "UCI".toList ∉ rootWords ∧ "go\twtime".toList ∉ rootWords := by decide

/-- **C15, duplicated go parameter.** After any well-formed parameter prefix, a keyword that already occurred in
the prefix is a `dup` error, whatever follows. -/
theorem go_duplicate (items : List GoItem) (hok : GoItemsOk items) (k : GoKey)
    (hk : k ∈ items.map GoItem.key) (rest : List Tok) :
    parseTokens ("go".toList :: (renderGoItems items ++ k.word :: rest)) = .error .dup := by
  rw [parseGo_prefix items hok k rest, goLoop_cons, (visAfter_contains items k).mpr hk]
  rfl
#print axioms go_duplicate
example : GoItemsOk [.wtime 1, .ponder] ∧ GoKey.wtime ∈ [GoItem.wtime 1, .ponder].map GoItem.key :=
  ⟨⟨by decide, by decide⟩, by decide⟩

theorem goStep_badNumber (g : Go) (k : GoKey) (v : Tok) (rest : List Tok) (h : BadNumber k v) :
    goStep g k (v :: rest) = .error .int := by
  rcases h with ⟨hk, hv⟩ | ⟨hk, hv⟩
  · cases k <;> simp [argKind] at hk <;> simp [goStep, parseDuration, hv]
  · cases k <;> simp [argKind] at hk <;> simp [goStep, parseU64Tok, hv]

/-- **C15, bad number.** After any well-formed parameter prefix, a fresh numeric keyword followed by a token that
is not a numeral of the required type is an `int` error. -/
theorem bad_int (items : List GoItem) (hok : GoItemsOk items) (k : GoKey)
    (hk : k ∉ items.map GoItem.key) (v : Tok) (rest : List Tok) (hv : BadNumber k v) :
    parseTokens ("go".toList :: (renderGoItems items ++ k.word :: v :: rest)) = .error .int := by
  have hc : (visAfter [] items).contains k.word = false := by
    cases h : (visAfter [] items).contains k.word with
    | false => rfl
    | true => exact absurd ((visAfter_contains items k).mp h) hk
  rw [parseGo_prefix items hok k, goLoop_cons, hc, goKey?_word]
  simp only [Bool.false_eq_true, if_false, goStep_badNumber _ k v rest hv]
#print axioms bad_int
example : BadNumber .depth "-1".toList ∧ BadNumber .wtime "9223372036854775808".toList ∧
    BadNumber .nodes "18446744073709551616".toList ∧ BadNumber .movetime "1e3".toList :=
  ⟨Or.inr ⟨rfl, by decide⟩, Or.inl ⟨rfl, by decide⟩, Or.inr ⟨rfl, by decide⟩, Or.inl ⟨rfl, by decide⟩⟩

theorem goStep_missing (g : Go) (k : GoKey) (h : argKind k = .duration ∨ argKind k = .count) :
    goStep g k [] = .error .eoc := by
  cases k <;> simp [argKind] at h <;> rfl

/-- a numeric go keyword at the very end of the line -/
theorem go_missing_value (items : List GoItem) (hok : GoItemsOk items) (k : GoKey)
    (hk : k ∉ items.map GoItem.key) (hkind : argKind k = .duration ∨ argKind k = .count) :
    parseTokens ("go".toList :: (renderGoItems items ++ [k.word])) = .error .eoc := by
  have hc : (visAfter [] items).contains k.word = false := by
    cases h : (visAfter [] items).contains k.word with
    | false => rfl
    | true => exact absurd ((visAfter_contains items k).mp h) hk
  rw [parseGo_prefix items hok k, goLoop_cons, hc, goKey?_word]
  simp only [Bool.false_eq_true, if_false, goStep_missing _ k hkind]
#print axioms go_missing_value

/-- a first parameter that is no go keyword is a `token` error -/
theorem go_unknown_param (t : Tok) (rest : List Tok) (ht : goKey? t = none) :
    parseTokens ("go".toList :: t :: rest) = .error .token := by
  rw [parseRoot_go]
  unfold parseGo
  rw [goLoop_cons, ht]
  rfl

/-- bad move in `go searchmoves` -/
theorem bad_move_go (items : List GoItem) (hok : GoItemsOk items) (hk : GoKey.searchmoves ∉ items.map GoItem.key)
    (ms : List UciMove) (hms : ∀ m ∈ ms, MoveWf m) (bad : Tok) (rest : List Tok)
    (hkw : goTokens.contains bad = false) (hbad : ∀ m, UciMove.parse bad ≠ .ok m) :
    parseTokens ("go".toList :: (renderGoItems items ++ GoKey.searchmoves.word ::
      (ms.map UciMove.render ++ bad :: rest))) = .error .move := by
  have hc : (visAfter [] items).contains GoKey.searchmoves.word = false := by
    cases h : (visAfter [] items).contains GoKey.searchmoves.word with
    | false => rfl
    | true => exact absurd ((visAfter_contains items _).mp h) hk
  rw [parseGo_prefix items hok, goLoop_cons, hc, goKey?_word]
  have := parseMovesUntil_bad goTokens ms bad rest
    (fun m hm => ⟨hms m hm, render_not_goToken m (hms m hm)⟩) hkw hbad
  simp only [Bool.false_eq_true, if_false, goStep, this]
#print axioms bad_move_go

/-- bad move in `position … moves` -/
theorem bad_move_position (src : PosSource) (hsrc : src.Wf)
    (htext : ∀ text, src = .fen text → TextOk (some "moves".toList) text)
    (ms : List UciMove) (hms : ∀ m ∈ ms, MoveWf m) (bad : Tok) (rest : List Tok)
    (hbad : ∀ m, UciMove.parse bad ≠ .ok m) :
    parseTokens ("position".toList :: (src.render ++ "moves".toList :: (ms.map UciMove.render ++ bad :: rest)))
      = .error .move := by
  rw [parseRoot_position]
  have hm := parseMovesUntil_bad [] ms bad rest (fun m hm => ⟨hms m hm, by simp⟩) (by simp) hbad
  cases src with
  | startpos =>
    have h1 : ¬ ("startpos".toList = "fen".toList) := by decide
    simp only [PosSource.render, List.cons_append, List.nil_append, parsePosition, h1, if_false, if_true,
      consume_same, hm]
  | fen text =>
    have hu := until_text (htext text rfl) ["moves".toList] (by simp)
      ("moves".toList :: (ms.map UciMove.render ++ bad :: rest)) (stopsAt_cons _ (by decide))
    simp only [PosSource.render, List.cons_append, parsePosition, if_true, hu, fenOfText_ok text hsrc,
      consume_same, hm]

/-- **C15, bad FEN.** `position fen <words>` (up to the keyword `moves` or the end of the line) whose text
`Fen::from_str` rejects is a `fen` error. -/
theorem bad_fen (t : Tok) (ts rest : List Tok) (hts : ∀ x ∈ ts, x ≠ "moves".toList)
    (hrest : rest = [] ∨ ∃ r, rest = "moves".toList :: r)
    (hbad : ∀ f, Inkayaku.FenSyntax.parse (String.ofList (joinSp (t :: ts))) ≠ .ok f) :
    parseTokens ("position".toList :: "fen".toList :: (t :: ts ++ rest)) = .error .fen := by
  rw [parseRoot_position]
  have hst : StopsAt ["moves".toList] rest := by
    rcases hrest with h | ⟨r, h⟩
    · exact Or.inl h
    · exact Or.inr ⟨_, r, h, by decide⟩
  have hu := untilOneOfOrEnd_words ["moves".toList] t ts rest
    (fun x hx => by simpa using hts x hx) hst
  simp only [parsePosition, if_true, hu, fenOfText_err _ hbad]
#print axioms bad_fen
example : ∀ f, Inkayaku.FenSyntax.parse
    (String.ofList (joinSp ["8/8/8/8/8/8/8/44".toList, "w".toList, "-".toList, "-".toList])) ≠ .ok f := by
  intro f
  have h : Inkayaku.FenSyntax.parseChars (joinSp ["8/8/8/8/8/8/8/44".toList, "w".toList, "-".toList, "-".toList])
      = .error .concurrent := rfl
  rw [parse_ofList, if_neg (by decide), h]
  intro e; cases e

/-- **C15, missing parameters** are `eoc` errors (go keywords without value: `go_missing_value`). -/
theorem missing_param :
    parseTokens [] = .error .eoc ∧
    parseTokens ["debug".toList] = .error .eoc ∧
    parseTokens ["setoption".toList] = .error .eoc ∧
    parseTokens ["setoption".toList, "name".toList] = .error .eoc ∧
    parseTokens ["register".toList] = .error .eoc ∧
    parseTokens ["register".toList, "name".toList] = .error .eoc ∧
    parseTokens ["position".toList] = .error .eoc ∧
    parseTokens ["position".toList, "fen".toList] = .error .eoc ∧
    (∀ name, TextOk (some "value".toList) name →
      parseTokens ("setoption".toList :: "name".toList :: (words name ++ ["value".toList])) = .error .eoc) ∧
    (∀ name, TextOk (some "code".toList) name →
      parseTokens ("register".toList :: "name".toList :: words name) = .error .eoc) ∧
    (∀ name, TextOk (some "code".toList) name →
      parseTokens ("register".toList :: "name".toList :: (words name ++ ["code".toList])) = .error .eoc) := by
  refine ⟨rfl, rfl, rfl, rfl, rfl, rfl, rfl, rfl, ?_, ?_, ?_⟩
  · intro name h
    have hu := until_text h ["value".toList] (by simp) ["value".toList] (stopsAt_cons _ (by decide))
    rw [parseRoot_setoption]
    simp only [parseSetOption, consume_same, hu, untilOneOfOrEnd_nil]
  · intro name h
    have hu := until_text h ["code".toList] (by simp) [] (stopsAt_nil _)
    simp only [List.append_nil] at hu
    have hn : ¬ ("name".toList = "later".toList) := by decide
    rw [parseRoot_register]
    simp only [parseRegister, hn, if_false, consume_same, hu, consume_nil]
  · intro name h
    have hu := until_text h ["code".toList] (by simp) ["code".toList] (stopsAt_cons _ (by decide))
    have hn : ¬ ("name".toList = "later".toList) := by decide
    rw [parseRoot_register]
    simp only [parseRegister, hn, if_false, consume_same, hu, untilOneOfOrEnd_nil]
#print axioms missing_param

/-- wrong keyword where a fixed one is required: `token` errors, never another command -/
theorem wrong_keyword :
    (∀ t q, t ≠ "on".toList → t ≠ "off".toList → parseTokens ("debug".toList :: t :: q) = .error .token) ∧
    (∀ t q, t ≠ "name".toList → parseTokens ("setoption".toList :: t :: q) = .error .token) ∧
    (∀ t q, t ≠ "later".toList → t ≠ "name".toList → parseTokens ("register".toList :: t :: q) = .error .token) ∧
    (∀ t q, t ≠ "fen".toList → t ≠ "startpos".toList → parseTokens ("position".toList :: t :: q) = .error .token) ∧
    (∀ t q, t ≠ "moves".toList →
      parseTokens ("position".toList :: "startpos".toList :: t :: q) = .error .token) := by
  refine ⟨?_, ?_, ?_, ?_, ?_⟩
  · intro t q h1 h2
    rw [parseRoot_debug]
    simp only [parseDebug, h1, h2, if_false]
  · intro t q h1
    rw [parseRoot_setoption]
    simp only [parseSetOption, consume, h1, if_false]
  · intro t q h1 h2
    rw [parseRoot_register]
    simp only [parseRegister, consume, h1, h2, if_false]
  · intro t q h1 h2
    rw [parseRoot_position]
    simp only [parsePosition, h1, h2, if_false]
  · intro t q h1
    rw [parseRoot_position]
    have h0 : ¬ ("startpos".toList = "fen".toList) := by decide
    simp only [parsePosition, h0, if_false, if_true, consume, h1]
#print axioms wrong_keyword

/-! ### whole lines -/

theorem parseChars_pad {lead trail : List Char} {toks : List Tok} (gaps : List Nat) (h : PadOk lead trail toks) :
    parseChars (pad lead trail gaps toks) = parseTokens toks := by
  unfold parseChars; rw [tokenize_pad gaps h]

theorem parseLine_pad (s : String) {lead trail : List Char} {toks : List Tok} (gaps : List Nat)
    (h : PadOk lead trail toks) (hs : s.toList = pad lead trail gaps toks) :
    parseLine s = parseTokens toks := by
  unfold parseLine; rw [hs, parseChars_pad gaps h]
#print axioms parseLine_pad


/-! ### position, final form -/

/-- **C15, position.** `position startpos|fen <any text Fen::from_str accepts> [moves m1 m2 …]` is parsed into
exactly that FEN and move list (with or without the keyword `moves` when the list is empty). -/
theorem parse_render_position (src : PosSource) (kw : Bool) (ms : List UciMove)
    (hsrc : src.Wf) (hms : ∀ m ∈ ms, MoveWf m) :
    parseTokens ("position".toList :: (src.render ++ renderMoves kw ms))
      = .ok (.positionFrom src.fenString ms) :=
  parse_render_position_of_textOk src kw ms hsrc
    (fun text e => by subst e; exact (fen_fields text hsrc).1) hms
#print axioms parse_render_position
example : (PosSource.fen "8/8/8/8/8/8/8/8 w - -".toList).Wf ∧ MoveWf ⟨52, 36, none⟩ := by
  refine ⟨?_, by decide⟩
  show ∃ f, Inkayaku.FenSyntax.parse (String.ofList "8/8/8/8/8/8/8/8 w - -".toList) = .ok f
  rw [parse_ofList]; exact ⟨_, rfl⟩

/-- **C15, bad move.** -/
theorem bad_move (src : PosSource) (hsrc : src.Wf) (ms : List UciMove) (hms : ∀ m ∈ ms, MoveWf m)
    (bad : Tok) (rest : List Tok) (hbad : ∀ m, UciMove.parse bad ≠ .ok m) :
    parseTokens ("position".toList :: (src.render ++ "moves".toList :: (ms.map UciMove.render ++ bad :: rest)))
      = .error .move :=
  bad_move_position src hsrc (fun text e => by subst e; exact (fen_fields text hsrc).1) ms hms bad rest hbad
#print axioms bad_move
example : ∀ m, UciMove.parse "a1a9".toList ≠ .ok m := by
  have h : UciMove.parse "a1a9".toList = .error () := rfl
  intro m; rw [h]; intro e; cases e

/-! ### whole commands -/

def allKeys : List GoKey :=
  [.searchmoves] ++ [.ponder] ++ [.wtime] ++ [.btime] ++ [.winc] ++ [.binc] ++ [.movestogo] ++ [.depth] ++
  [.nodes] ++ [.mate] ++ [.movetime] ++ [.infinite]

theorem optItem_keys (mk : Nat → GoItem) (k : GoKey) (hk : ∀ n, (mk n).key = k) (o : Option Nat) :
    ((optItem mk o).map GoItem.key).Sublist [k] := by
  cases o <;> simp [optItem, hk]

theorem goItemsOf_keys (g : Go) : ((goItemsOf g).map GoItem.key).Sublist allKeys := by
  unfold goItemsOf allKeys
  simp only [List.map_append]
  repeat' apply List.Sublist.append
  · split <;> simp [GoItem.key]
  · split <;> simp [GoItem.key]
  · apply optItem_keys; intro _; rfl
  · apply optItem_keys; intro _; rfl
  · apply optItem_keys; intro _; rfl
  · apply optItem_keys; intro _; rfl
  · apply optItem_keys; intro _; rfl
  · apply optItem_keys; intro _; rfl
  · apply optItem_keys; intro _; rfl
  · apply optItem_keys; intro _; rfl
  · apply optItem_keys; intro _; rfl
  · split <;> simp [GoItem.key]

theorem mem_optItem {mk : Nat → GoItem} {o : Option Nat} {it : GoItem} (h : it ∈ optItem mk o) :
    ∃ n, o = some n ∧ it = mk n := by
  cases o with
  | none => simp [optItem] at h
  | some n => exact ⟨n, rfl, by simpa [optItem] using h⟩

theorem goItemsOf_ok (g : Go) (h : Wf (.go g)) : GoItemsOk (goItemsOf g) := by
  obtain ⟨hsm, hdur, hcnt⟩ := h
  refine ⟨(goItemsOf_keys g).nodup (by decide), ?_⟩
  intro it hit
  simp only [goItemsOf, List.mem_append] at hit
  have hd : ∀ n : Nat, n < 9223372036854775808 → I64Range (n : Int) := by
    intro n hn; unfold I64Range; omega
  rcases hit with (((((((((((h|h)|h)|h)|h)|h)|h)|h)|h)|h)|h)|h)
  · split at h
    · simp at h
    · simp at h; subst h; exact hsm
  · split at h
    · simp at h; subst h; trivial
    · simp at h
  · obtain ⟨n, ho, rfl⟩ := mem_optItem h; exact hd n (hdur n (by simp [ho]))
  · obtain ⟨n, ho, rfl⟩ := mem_optItem h; exact hd n (hdur n (by simp [ho]))
  · obtain ⟨n, ho, rfl⟩ := mem_optItem h; exact hd n (hdur n (by simp [ho]))
  · obtain ⟨n, ho, rfl⟩ := mem_optItem h; exact hd n (hdur n (by simp [ho]))
  · obtain ⟨n, ho, rfl⟩ := mem_optItem h; exact hcnt n (by simp [ho])
  · obtain ⟨n, ho, rfl⟩ := mem_optItem h; exact hcnt n (by simp [ho])
  · obtain ⟨n, ho, rfl⟩ := mem_optItem h; exact hcnt n (by simp [ho])
  · obtain ⟨n, ho, rfl⟩ := mem_optItem h; exact hcnt n (by simp [ho])
  · obtain ⟨n, ho, rfl⟩ := mem_optItem h; exact hd n (hdur n (by simp [ho]))
  · split at h
    · simp at h; subst h; trivial
    · simp at h

theorem findSome?_ite_singleton {β : Type} (f : GoItem → Option β) (c : Prop) [Decidable c] (x : GoItem) :
    List.findSome? f (if c then [x] else []) = if c then f x else none := by
  split <;> simp

theorem findSome?_ite_singleton' {β : Type} (f : GoItem → Option β) (c : Prop) [Decidable c] (x : GoItem) :
    List.findSome? f (if c then [] else [x]) = if c then none else f x := by
  split <;> simp

theorem findSome?_optItem {β : Type} (f : GoItem → Option β) (mk : Nat → GoItem) (o : Option Nat) :
    List.findSome? f (optItem mk o) = o.bind (fun n => f (mk n)) := by
  cases o <;> simp [optItem]

theorem goOfItems_goItemsOf (g : Go) : goOfItems (goItemsOf g) = g := by
  obtain ⟨sm, po, wt, bt, wi, bi, mtg, d, nd, mt, mvt, inf⟩ := g
  simp only [goOfItems, goFrom, goItemsOf, List.findSome?_append, findSome?_ite_singleton,
    findSome?_ite_singleton', findSome?_optItem, GoItem.sm?, GoItem.ponder?, GoItem.wtime?, GoItem.btime?,
    GoItem.winc?, GoItem.binc?, GoItem.movestogo?, GoItem.depth?, GoItem.nodes?, GoItem.mate?, GoItem.movetime?,
    GoItem.infinite?, Go.empty]
  simp only [Go.mk.injEq]
  refine ⟨?_, ?_, ?_, ?_, ?_, ?_, ?_, ?_, ?_, ?_, ?_, ?_⟩
  · by_cases h : sm = [] <;> simp [h]
  · cases po <;> simp
  · cases wt <;> simp [clampMillis]
  · cases bt <;> simp [clampMillis]
  · cases wi <;> simp [clampMillis]
  · cases bi <;> simp [clampMillis]
  · cases mtg <;> simp
  · cases d <;> simp
  · cases nd <;> simp
  · cases mt <;> simp
  · cases mvt <;> simp [clampMillis]
  · cases inf <;> simp

/-- **C15, headline.** Every well-formed command value is recovered from its canonical token list. -/
theorem parse_render (c : UciCommand) (h : Wf c) : parseTokens (render c) = .ok c := by
  cases c with
  | uci => rfl
  | isReady => rfl
  | uciNewGame => rfl
  | stop => rfl
  | ponderHit => rfl
  | quit => rfl
  | registerLater => rfl
  | setDebug b => cases b <;> rfl
  | setOption name => exact parse_render_setoption name h
  | setOptionValue name value => exact parse_render_setoptionvalue name value h.1 h.2
  | register name code => exact parse_render_register name code h.1 h.2
  | go g =>
    have := parse_render_go (goItemsOf g) (goItemsOf_ok g h)
    rw [goOfItems_goItemsOf] at this
    exact this
  | positionFrom fen ms =>
    obtain ⟨hf, hne, hms⟩ := h
    simp only [render]
    by_cases hs : fen = startposString.toList
    · rw [if_pos hs]
      have := parse_render_position .startpos false ms trivial hms
      rw [hs]; exact this
    · rw [if_neg hs]
      have := parse_render_position (.fen fen) false ms hf hms
      have e : (PosSource.fen fen).fenString = fen := by simp only [PosSource.fenString, if_neg hne]
      rw [e] at this; exact this
#print axioms parse_render

/-! ### rendered commands can be padded -/

/-- non-empty and free of trimmed characters (in particular of U+0020) -/
def Solid (t : Tok) : Prop := t ≠ [] ∧ ∀ c ∈ t, isWhiteSpace c = false

instance (t : Tok) : Decidable (Solid t) := by unfold Solid; infer_instance

theorem getLast?_append_ne {α : Type} (a b : List α) (hb : b ≠ []) : (a ++ b).getLast? = b.getLast? := by
  rw [List.getLast?_append, List.getLast?_eq_some_getLast hb]; rfl

theorem Solid.nosp {t : Tok} (h : Solid t) : ' ' ∉ t := by
  intro hm
  have := h.2 ' ' hm
  revert this; decide

theorem Solid.last {t : Tok} (h : Solid t) : LastNotTrimmed t :=
  fun c hc => h.2 c (List.mem_of_getLast? hc)

theorem lastCharOk_of_last_solid {fs : List Tok} (h : ∀ t, fs.getLast? = some t → Solid t) : LastCharOk fs :=
  fun t c ht hc => (h t ht).last c hc

theorem lastCharOk_append {a b : List Tok} (hb : b ≠ []) (h : LastCharOk b) : LastCharOk (a ++ b) := by
  intro t c ht hc
  rw [getLast?_append_ne _ _ hb] at ht
  exact h t c ht hc

theorem lastCharOk_cons {a : Tok} {b : List Tok} (hb : b ≠ []) (h : LastCharOk b) : LastCharOk (a :: b) :=
  lastCharOk_append (a := [a]) hb h

theorem splitOnChar_mem_nosep (sep : Char) (s : List Char) : ∀ t ∈ splitOnChar sep s, sep ∉ t := by
  induction s with
  | nil => intro t ht; simp [splitOnChar] at ht; subst ht; simp
  | cons c cs ih =>
    by_cases hc : c = sep
    · subst hc
      intro t ht
      simp [splitOnChar] at ht
      rcases ht with rfl | ht
      · simp
      · exact ih t ht
    · rw [splitOnChar_cons_ne hc]
      have hne := splitOnChar_ne_nil sep cs
      cases hs : splitOnChar sep cs with
      | nil => exact absurd hs hne
      | cons p ps =>
        rw [hs] at ih
        intro t ht
        simp at ht
        rcases ht with rfl | ht
        · have := ih p (by simp)
          intro hm
          simp at hm
          rcases hm with rfl | hm
          · exact hc rfl
          · exact this hm
        · exact ih t (by simp [ht])

theorem words_fine (s : List Char) : ∀ t ∈ words s, t ≠ [] ∧ ' ' ∉ t := by
  intro t ht
  simp only [words, List.mem_filter] at ht
  exact ⟨by intro e; subst e; simp at ht, splitOnChar_mem_nosep ' ' s t ht.1⟩

theorem joinSp_getLast (ws : List Tok) (hne : ∀ t ∈ ws, t ≠ []) {t : Tok} (ht : ws.getLast? = some t) :
    (joinSp ws).getLast? = t.getLast? := by
  induction ws with
  | nil => simp at ht
  | cons a ws ih =>
    cases ws with
    | nil => simp at ht; subst ht; simp [joinSp]
    | cons b ws =>
      have ht' : (b :: ws).getLast? = some t := by simpa [List.getLast?_cons_cons] using ht
      have hi := ih (fun x hx => hne x (by simp [hx])) ht'
      have hne' : joinSp (b :: ws) ≠ [] := by
        have hb : b ≠ [] := hne b (by simp)
        cases b with
        | nil => exact absurd rfl hb
        | cons c b' => rw [joinSp_cons_cons]; simp
      have : joinSp (a :: b :: ws) = (a ++ [' ']) ++ joinSp (b :: ws) := by simp [joinSp]
      rw [this, getLast?_append_ne _ _ hne', hi]

theorem text_lastCharOk {stop : Option Tok} {s : List Char} (h : TextOk stop s) (hl : LastNotTrimmed s) :
    LastCharOk (words s) := by
  intro t c ht hc
  have := joinSp_getLast (words s) (fun x hx => (words_fine s x hx).1) ht
  rw [h.normal, hc] at this
  exact hl c this

theorem solid_decimal (n : Nat) : Solid (decimal n) := by
  have := decimal_props n
  refine ⟨this.1, fun c hc => isAsciiDigit_not_ws c ((List.all_eq_true.mp this.2.1) c hc)⟩

theorem solid_intText (v : Int) : Solid (intText v) := by
  unfold intText
  split
  · refine ⟨by simp, ?_⟩
    intro c hc
    simp at hc
    rcases hc with rfl | hc
    · decide
    · exact (solid_decimal _).2 c hc
  · exact solid_decimal _

theorem squareFen_solid : ∀ i, i < 64 → ∀ c ∈ squareFen i, isWhiteSpace c = false := by decide

theorem solid_move (m : UciMove) (h : MoveWf m) : Solid (UciMove.render m) := by
  refine ⟨by simp [UciMove.render, squareFen], ?_⟩
  intro c hc
  simp only [UciMove.render, List.mem_append] at hc
  rcases hc with (hc | hc) | hc
  · exact squareFen_solid _ h.1 c hc
  · exact squareFen_solid _ h.2 c hc
  · cases hp : m.promotion with
    | none => rw [hp] at hc; simp at hc
    | some p =>
      rw [hp] at hc
      simp at hc; subst hc
      cases p <;> decide

theorem solid_word (k : GoKey) : Solid k.word := by
  cases k <;> exact ⟨by decide, by decide⟩

theorem solid_goItem (it : GoItem) (h : it.Wf) : ∀ t ∈ it.render, Solid t := by
  intro t ht
  simp only [GoItem.render, List.mem_cons] at ht
  rcases ht with rfl | ht
  · exact solid_word _
  · cases it with
    | searchmoves ms =>
      simp only [GoItem.args, List.mem_map] at ht
      obtain ⟨m, hm, rfl⟩ := ht
      exact solid_move m (h m hm)
    | ponder => simp [GoItem.args] at ht
    | infinite => simp [GoItem.args] at ht
    | wtime v => simp [GoItem.args] at ht; subst ht; exact solid_intText v
    | btime v => simp [GoItem.args] at ht; subst ht; exact solid_intText v
    | winc v => simp [GoItem.args] at ht; subst ht; exact solid_intText v
    | binc v => simp [GoItem.args] at ht; subst ht; exact solid_intText v
    | movetime v => simp [GoItem.args] at ht; subst ht; exact solid_intText v
    | movestogo n => simp [GoItem.args] at ht; subst ht; exact solid_decimal n
    | depth n => simp [GoItem.args] at ht; subst ht; exact solid_decimal n
    | nodes n => simp [GoItem.args] at ht; subst ht; exact solid_decimal n
    | mate n => simp [GoItem.args] at ht; subst ht; exact solid_decimal n

theorem solid_goItems (items : List GoItem) (h : ∀ it ∈ items, it.Wf) : ∀ t ∈ renderGoItems items, Solid t := by
  intro t ht
  simp only [renderGoItems, List.mem_flatMap] at ht
  obtain ⟨it, hit, ht⟩ := ht
  exact solid_goItem it (h it hit) t ht

theorem solid_moves (kw : Bool) (ms : List UciMove) (h : ∀ m ∈ ms, MoveWf m) :
    ∀ t ∈ renderMoves kw ms, Solid t := by
  intro t ht
  unfold renderMoves at ht
  split at ht
  · simp at ht
  · simp only [List.mem_cons, List.mem_map] at ht
    rcases ht with rfl | ⟨m, hm, rfl⟩
    · exact ⟨by decide, by decide⟩
    · exact solid_move m (h m hm)

/-- the tokens of a rendered command are non-empty and space-free, and the last one does not end in a trimmed char -/
theorem render_tokens (c : UciCommand) (hwf : Wf c) (hend : EndsClean c) :
    (∀ t ∈ render c, t ≠ [] ∧ ' ' ∉ t) ∧ LastCharOk (render c) := by
  have kw : ∀ t : Tok, Solid t → t ≠ [] ∧ ' ' ∉ t := fun t h => ⟨h.1, h.nosp⟩
  have allSolid : ∀ l : List Tok, (∀ t ∈ l, Solid t) → (∀ t ∈ l, t ≠ [] ∧ ' ' ∉ t) ∧ LastCharOk l :=
    fun l h => ⟨fun t ht => kw t (h t ht), lastCharOk_of_last_solid (fun t ht => h t (List.mem_of_getLast? ht))⟩
  cases c with
  | uci => exact allSolid _ (by decide)
  | isReady => exact allSolid _ (by decide)
  | uciNewGame => exact allSolid _ (by decide)
  | stop => exact allSolid _ (by decide)
  | ponderHit => exact allSolid _ (by decide)
  | quit => exact allSolid _ (by decide)
  | registerLater => exact allSolid _ (by decide)
  | setDebug b => cases b <;> exact allSolid _ (by decide)
  | setOption name =>
    have hw : words name ≠ [] := hwf.nonempty
    refine ⟨?_, lastCharOk_cons (by simp) (lastCharOk_cons hw (text_lastCharOk hwf hend))⟩
    intro t ht
    simp only [render, List.mem_cons] at ht
    rcases ht with rfl | rfl | ht
    · exact kw _ ⟨by decide, by decide⟩
    · exact kw _ ⟨by decide, by decide⟩
    · exact words_fine name t ht
  | setOptionValue name value =>
    have hw : words value ≠ [] := hwf.2.nonempty
    refine ⟨?_, ?_⟩
    · intro t ht
      simp only [render, List.mem_cons, List.mem_append] at ht
      rcases ht with (rfl | rfl | ht) | rfl | ht
      · exact kw _ ⟨by decide, by decide⟩
      · exact kw _ ⟨by decide, by decide⟩
      · exact words_fine name t ht
      · exact kw _ ⟨by decide, by decide⟩
      · exact words_fine value t ht
    · have : render (.setOptionValue name value)
          = ("setoption".toList :: "name".toList :: words name ++ ["value".toList]) ++ words value := by
        simp [render]
      rw [this]
      exact lastCharOk_append hw (text_lastCharOk hwf.2 hend)
  | register name code =>
    have hw : words code ≠ [] := hwf.2.nonempty
    refine ⟨?_, ?_⟩
    · intro t ht
      simp only [render, List.mem_cons, List.mem_append] at ht
      rcases ht with (rfl | rfl | ht) | rfl | ht
      · exact kw _ ⟨by decide, by decide⟩
      · exact kw _ ⟨by decide, by decide⟩
      · exact words_fine name t ht
      · exact kw _ ⟨by decide, by decide⟩
      · exact words_fine code t ht
    · have : render (.register name code)
          = ("register".toList :: "name".toList :: words name ++ ["code".toList]) ++ words code := by
        simp [render]
      rw [this]
      exact lastCharOk_append hw (text_lastCharOk hwf.2 hend)
  | go g =>
    have hok := goItemsOf_ok g hwf
    apply allSolid
    intro t ht
    simp only [render, List.mem_cons] at ht
    rcases ht with rfl | ht
    · exact ⟨by decide, by decide⟩
    · exact solid_goItems _ hok.wf t ht
  | positionFrom fen ms =>
    obtain ⟨hf, hne, hms⟩ := hwf
    have hff := fen_fields fen hf
    have hmv := solid_moves false ms hms
    simp only [render]
    by_cases hs : fen = startposString.toList
    · rw [if_pos hs]
      apply allSolid
      intro t ht
      simp only [PosSource.render, List.mem_cons, List.mem_append, List.not_mem_nil, or_false] at ht
      rcases ht with (rfl | rfl) | ht
      · exact ⟨by decide, by decide⟩
      · exact ⟨by decide, by decide⟩
      · exact hmv t ht
    · rw [if_neg hs]
      refine ⟨?_, ?_⟩
      · intro t ht
        simp only [PosSource.render, List.mem_cons, List.mem_append] at ht
        rcases ht with (rfl | rfl | ht) | ht
        · exact kw _ ⟨by decide, by decide⟩
        · exact kw _ ⟨by decide, by decide⟩
        · exact words_fine fen t ht
        · exact kw t (hmv t ht)
      · by_cases hm : renderMoves false ms = []
        · rw [hm, List.append_nil]
          exact lastCharOk_cons (by simp [PosSource.render]) (lastCharOk_cons hff.1.nonempty hff.2)
        · exact lastCharOk_append hm
            (lastCharOk_of_last_solid (fun t ht => hmv t (List.mem_of_getLast? ht)))

theorem render_head (c : UciCommand) : ∃ k r, render c = k :: r ∧ k ∈ rootWords := by
  cases c <;> exact ⟨_, _, rfl, by decide⟩

theorem rootWords_head : ∀ k ∈ rootWords, ∀ c, k.head? = some c → isWhiteSpace c = false := by
  decide

/-- every well-formed command can be padded: `PadOk` holds for its canonical token list -/
theorem render_padOk (c : UciCommand) (hwf : Wf c) (hend : EndsClean c) (lead trail : List Char)
    (hlead : ∀ ch ∈ lead, isWhiteSpace ch = true) (htrail : ∀ ch ∈ trail, isWhiteSpace ch = true) :
    PadOk lead trail (render c) := by
  have ht := render_tokens c hwf hend
  obtain ⟨k, r, e, hk⟩ := render_head c
  refine ⟨hlead, htrail, fun t h => (ht.1 t h).1, fun t h => (ht.1 t h).2, ?_, ht.2⟩
  intro t ch h1 h2
  rw [e] at h1; simp at h1; subst h1
  exact rootWords_head _ hk ch h2

/-- **C15, whole lines.** Every well-formed command, written with its canonical tokens, any number (≥ 1) of spaces
between them and any trimmed characters around them, is parsed into exactly that command. -/
theorem parse_line (c : UciCommand) (hwf : Wf c) (hend : EndsClean c) (lead trail : List Char) (gaps : List Nat)
    (hlead : ∀ ch ∈ lead, isWhiteSpace ch = true) (htrail : ∀ ch ∈ trail, isWhiteSpace ch = true) :
    parseChars (pad lead trail gaps (render c)) = .ok c := by
  rw [parseChars_pad gaps (render_padOk c hwf hend lead trail hlead htrail), parse_render c hwf]
#print axioms parse_line
example : Wf (.go { wtime := some 5, infinite := true }) ∧ EndsClean (.go { wtime := some 5, infinite := true }) := by
  refine ⟨⟨by simp, ?_, ?_⟩, trivial⟩ <;> simp
example : Wf (.setOptionValue "Clear Hash".toList "a b".toList) ∧
    EndsClean (.setOptionValue "Clear Hash".toList "a b".toList) :=
  ⟨⟨⟨by decide, by decide, by intro w hw; cases hw; decide⟩, ⟨by decide, by decide, by intro w hw; cases hw⟩⟩,
   by intro c hc; simp at hc; subst hc; decide⟩


/-! ### all accepted spellings of numbers

`render` prints canonical numerals only; the parser also accepts a leading `+` and leading zeros (and `-` for
durations, `-0` included), but never a `-` for a count. -/
theorem numeral_spellings (ds : List Char) (hne : ds ≠ []) (hd : ds.all isAsciiDigit = true) :
    (decimalValue ds < 18446744073709551616 →
      parseU64 ds = some (decimalValue ds) ∧ parseU64 ('+' :: ds) = some (decimalValue ds)) ∧
    parseU64 ('-' :: ds) = none ∧
    (decimalValue ds < 9223372036854775808 →
      parseI64 ds = some (Int.ofNat (decimalValue ds)) ∧ parseI64 ('+' :: ds) = some (Int.ofNat (decimalValue ds))) ∧
    (decimalValue ds ≤ 9223372036854775808 → parseI64 ('-' :: ds) = some (- Int.ofNat (decimalValue ds))) := by
  have hdv : digitsValue? ds = some (decimalValue ds) := by
    simp [digitsValue?, hne, hd]
  cases ds with
  | nil => exact absurd rfl hne
  | cons c r =>
    have hc : isAsciiDigit c = true := by simp at hd; exact hd.1
    have hplus : c ≠ '+' := by intro e; subst e; simp [isAsciiDigit] at hc
    have hminus : c ≠ '-' := by intro e; subst e; simp [isAsciiDigit] at hc
    have hm : digitsValue? ('-' :: c :: r) = none := by
      simp [digitsValue?, isAsciiDigit]
    refine ⟨?_, ?_, ?_, ?_⟩
    · intro h
      simp [parseU64, hplus, hdv, h]
    · simp [parseU64, hm]
    · intro h
      simp [parseI64, hplus, hminus, hdv, h]
    · intro h
      simp [parseI64, hdv, h]

#print axioms numeral_spellings

/-- one complete line, end to end -/
example : parseLine "\t go   wtime 5 \r\n" = .ok (.go { wtime := some 5 }) := by
  have hpad : PadOk "\t ".toList " \r\n".toList ["go".toList, "wtime".toList, "5".toList] :=
    ⟨by decide, by decide, by decide, by decide,
     by intro t c h1 h2; simp at h1; subst h1; simp at h2; subst h2; decide,
     by intro t c h1 h2; simp at h1; subst h1; simp at h2; subst h2; decide⟩
  rw [parseLine_pad _ [2, 0] hpad (by decide)]
  have d5 : decimal 5 = ['5'] := by rw [decimal]; rfl
  have i5 : intText 5 = ['5'] := by unfold intText; rw [if_neg (by decide)]; exact d5
  have e : ["go".toList, "wtime".toList, "5".toList] = "go".toList :: renderGoItems [.wtime 5] := by
    show _ = "go".toList :: ["wtime".toList, intText 5]
    rw [i5]; rfl
  rw [e, parse_render_go [.wtime 5] ⟨by decide, by decide⟩]
  rfl


/-!
### Scope notes

* Proved in full: `tokenize_pad`, `ucimove_roundtrip`, `parse_render_simple`, `parse_render_setoption(value)`,
  `parse_render_register`, `parse_render_position`, `parse_render_go`, the headline `parse_render` / `parse_line`, and the
  rejection lemmas `unknown_first_word`, `go_duplicate`, `bad_int`, `bad_move`(`_go`), `bad_fen`, `missing_param`,
  `go_missing_value`, `wrong_keyword`.  Nothing is left as a `_partial`.
* Not stated at line level (only at numeral level, `numeral_spellings`): `go` lines whose numbers are spelled
  non-canonically (`+5`, `007`).  `go_unknown_param` covers a non-keyword only as the *first* parameter.
* Characters other than U+0020 between tokens (tab, NBSP, …) are **not** separators in the Rust code; `pad` therefore
  only inserts U+0020 between tokens, and `EndsClean` is a necessary side condition for free text at the end of a line.
-/

end Inkayaku.C15
