import Inkayaku.Proofs.SearchRoot
import Inkayaku.Proofs.WfStepProof
import Inkayaku.Model.FenBoard
/-!
# C16 (search part) — the info stream of one search is monotone and consistent with the answer

"Within one search the reported depth, node count and time never decrease, every reported principal variation is a
legal line from the searched position, and the announced bestmove and ponder move are the first and second move of
the last reported principal variation."

Model: `Inkayaku.Search`; `St.out` is the list of emitted messages, newest first, so `out.reverse` is the emission
order.  `infoDepths`, `infoNodes`, `infoTimes` project the reported depths (periodic infos report none), node counts
and times out of a piece of output.  All statements hold for every state (poll period, pending messages, clock, flags,
table) and all `go` parameters, i.e. for completed and for interrupted searches.

Proved: depth / nodes / time monotone, time = virtual clock of the node count, best move and ponder move are the
first and second move of the PV of the info emitted last.
Not proved (TARGET at the end): legality of the reported PV lines.
-/
namespace Inkayaku.C16
open Inkayaku.Search Inkayaku.Board

/-- the reported depths never decrease -/
theorem info_depth_mono (s : St) (g : GoParams) (maxIter : Nat) (h0 : s.out = []) :
    (infoDepths (goCmd s g maxIter).out.reverse).Pairwise (· ≤ ·) := by
  obtain ⟨news, h, -, hd⟩ := goCmd_out s g maxIter
  rw [h, h0, List.append_nil]
  unfold infoDepths
  rw [List.filterMap_reverse, List.pairwise_reverse]
  exact hd.1

/-- the reported node counts never decrease -/
theorem info_nodes_mono (s : St) (g : GoParams) (maxIter : Nat) (h0 : s.out = []) :
    (infoNodes (goCmd s g maxIter).out.reverse).Pairwise (· ≤ ·) := by
  obtain ⟨news, h, hc, -⟩ := goCmd_out s g maxIter
  rw [h, h0, List.append_nil]
  unfold infoNodes
  rw [List.filterMap_reverse, List.pairwise_reverse]
  exact hc.nodes_sorted

/-- the reported times never decrease -/
theorem info_time_mono (s : St) (g : GoParams) (maxIter : Nat) (h0 : s.out = []) :
    (infoTimes (goCmd s g maxIter).out.reverse).Pairwise (· ≤ ·) := by
  obtain ⟨news, h, hc, -⟩ := goCmd_out s g maxIter
  rw [h, h0, List.append_nil]
  unfold infoTimes
  rw [List.filterMap_reverse, List.pairwise_reverse]
  exact hc.times_sorted

/-- every info of a `go` reports a time (in ms) that is the virtual clock value of its node count, and its node count
is at most the final node count -/
theorem info_time_is_clock (s : St) (g : GoParams) (maxIter : Nat) (h0 : s.out = []) (d : Option Nat) (t : Option Nat)
    (n : Nat) (sc : Option Eval.Score) (pv : Option (List Move)) (ho : Out.info d t n sc pv ∈ (goCmd s g maxIter).out) :
    t = some (elapsedOf s.nsPerNode n / 1000000) ∧ n ≤ (goCmd s g maxIter).totalNodes := by
  obtain ⟨news, h, hc, -⟩ := goCmd_out s g maxIter
  rw [h, h0, List.append_nil, List.mem_cons] at ho
  rcases ho with ho | ho
  · cases ho
  · have := hc.1 _ ho
    exact ⟨this.1, this.2.2⟩

/-- **bestmove and ponder are the first and second move of the last reported PV**: when a move is announced, the
message emitted immediately before it is an info carrying a PV `pvl` with `pvl[0] = best` and `pvl[1]? = ponder` -/
theorem bestmove_is_pv0_ponder_is_pv1 (s : St) (g : GoParams) (maxIter : Nat) (m : Move) (ponder : Option Move)
    (rest : List Out) (h : (goCmd s g maxIter).out = .bestMove (some m) ponder :: rest) :
    ∃ d t n sc pvl rest', rest = .info d t n sc (some pvl) :: rest' ∧ pvl[0]? = some m ∧ pvl[1]? = ponder := by
  have h' := h
  rw [goCmd_eq] at h'
  have hinj := List.cons.inj h'
  have hb : bestMoveOf (goDeepen s g maxIter).1 = some m := by
    have := hinj.1; injection this
  have hp : ponderOf (goDeepen s g maxIter).1 (goDeepen s g maxIter).2 = ponder := by
    have := hinj.1; injection this
  obtain ⟨d, t, n, sc, pvl, rest', hout, h0, h1⟩ := goCmd_pv s g maxIter m hb
  rw [h, hp] at hout
  exact ⟨d, t, n, sc, pvl, rest', (List.cons.inj hout).2, h0, hp ▸ h1⟩

/-- no ponder move without a best move -/
theorem null_bestmove_no_ponder (s : St) (g : GoParams) (maxIter : Nat) (ponder : Option Move) (rest : List Out)
    (h : (goCmd s g maxIter).out = .bestMove none ponder :: rest) : ponder = none := by
  rw [goCmd_eq] at h
  have hinj := (List.cons.inj h).1
  have hb : bestMoveOf (goDeepen s g maxIter).1 = none := by injection hinj
  have hp : ponderOf (goDeepen s g maxIter).1 (goDeepen s g maxIter).2 = ponder := by injection hinj
  rw [← hp]
  unfold ponderOf
  rw [hb]

#print axioms info_depth_mono
#print axioms info_nodes_mono
#print axioms info_time_mono
#print axioms info_time_is_clock
#print axioms bestmove_is_pv0_ponder_is_pv1
#print axioms null_bestmove_no_ponder

/- TARGET (not yet proved): every reported principal variation is a legal line from the searched position.

   def LegalLine : Board → List Move → Prop
     | _, [] => True
     | b, m :: ms => m ∈ genPseudo b ∧ isValid (make b m) = true ∧ LegalLine (make b m) ms

   theorem pv_legal_line (s : St) (g : GoParams) (maxIter : Nat) (hinv : Inv (goBudget maxIter) s.board)
       (d t n sc pvl) (ho : Out.info d t n sc (some pvl) ∈ (goCmd s g maxIter).out) (hnew : Out.info d t n sc (some pvl) ∉ s.out) :
       LegalLine s.board pvl

   What is proved towards it: the FIRST move of every reported PV is legal (`C07.bestmove_legal` via
   `Search.iters_legal`: the root result of every iteration is a legal root move).  What is missing: the tail of the PV
   is assembled from child results that may come from the transposition table (`probe` returns the stored `ValuedMove`
   of whatever position has the same 64-bit hash, unverified) and from the quiescence search; legality of the tail
   therefore needs (i) an invariant "every stored entry's PV is a legal line of the position it was stored for" and
   (ii) the absence of hash collisions between different positions within one search — (ii) is not a property of the
   code, so the full statement can only be proved relative to a no-collision hypothesis. -/

/-! ## non-vacuity -/

/-- a depth-3 search from the start position, flag polled every 50 nodes -/
def demo : St := goCmd { Search.initial with pollPeriod := 50, nsPerNode := some 1000 } { depth := some 3 } 8

#guard demo.out.length > 4
#guard infoDepths demo.out.reverse == [1, 2, 3]
#guard (infoNodes demo.out.reverse).length > 3
#guard match demo.out with
  | .bestMove (some m) p :: .info _ _ _ _ (some pvl) :: _ => pvl[0]? == some m && pvl[1]? == p && p.isSome
  | _ => false

/-- an interrupted search reports the depth of the last completed iteration again -/
def demoStop : St := goCmd { Search.initial with pollPeriod := 40, pending := [.stop] } { depth := some 4 } 8
#guard infoDepths demoStop.out.reverse == [1, 1]

example : (Search.initial).out = [] := rfl

end Inkayaku.C16
