import Inkayaku.Proofs.Successor
import Inkayaku.Model.FenBoard
/-!
# C02 — `make` computes the successor position of the rules

Fixed text: "For every legal position and every legal move, the position after the move — piece placement, side to
move, castling rights, en-passant target, half-move clock and full-move number, as rendered in FEN — equals the
successor defined by the rules of chess.  This includes castling rook relocation, en-passant pawn removal, promotion,
loss of castling rights when a king or rook moves or a rook is captured on its home square, and clock reset on pawn
moves and captures."

* code: `Board.make` (model of `Bitboard::make`, all side effects precomputed by `make_move` at generation time);
* rules: `Spec.apply` on the mailbox position (`Spec/Chess.lean`), rendered by `Spec.fen`;
* link: `Abs.abs : Board → Spec.Pos`, `Abs.absMove : MoveF → Spec.SMove`;
* "legal position" = `WF.wf`; the theorems hold for every GENERATED move (`genPseudo`, a superset of the legal moves
  `genLegal`), for every half-move clock `wf` admits (≤ 4095, the 12-bit undo field) and every full-move number.

Proofs: `Proofs/GenFacts.lean` (what the generator guarantees) and `Proofs/Successor.lean` (field-by-field comparison).
-/
namespace Inkayaku.C02
open Inkayaku.Board Inkayaku.Abs

/-! ## 1. The successor position -/

/-- **C02.**  Well-formed position, generated move: the abstracted position after `make` IS the Spec's successor –
all 64 squares, side to move, the four castling rights, the e.p. target, both clocks. -/
theorem make_eq_apply {b : Board} (hwf : WF.wf b = true) {m : Move} (hm : m ∈ genPseudo b) :
    abs (make b m) = Spec.apply (abs b) (absMove m.f) :=
  Successor.make_eq_apply hwf hm

/-- … hence the same FEN text -/
theorem fen_make {b : Board} (hwf : WF.wf b = true) {m : Move} (hm : m ∈ genPseudo b) :
    Spec.fen (abs (make b m)) = Spec.fen (Spec.apply (abs b) (absMove m.f)) :=
  congrArg Spec.fen (make_eq_apply hwf hm)

/-- the statement of the property: legal position, legal move -/
theorem make_eq_apply_legal {b : Board} (hwf : WF.wf b = true) {m : Move} (hm : m ∈ genLegal b) :
    abs (make b m) = Spec.apply (abs b) (absMove m.f) :=
  make_eq_apply hwf (List.mem_filter.mp hm).1

theorem fen_make_legal {b : Board} (hwf : WF.wf b = true) {m : Move} (hm : m ∈ genLegal b) :
    Spec.fen (abs (make b m)) = Spec.fen (Spec.apply (abs b) (absMove m.f)) :=
  congrArg Spec.fen (make_eq_apply_legal hwf hm)

/-- the fields other than the piece placement, separately (all move kinds) -/
theorem make_eq_apply_meta {b : Board} (hwf : WF.wf b = true) {m : Move} (hm : m ∈ genPseudo b) :
    Successor.MetaEq (abs (make b m)) (Spec.apply (abs b) (absMove m.f)) :=
  Successor.make_eq_apply_meta hwf hm

#print axioms make_eq_apply
#print axioms fen_make
#print axioms make_eq_apply_legal
#print axioms fen_make_legal
#print axioms make_eq_apply_meta

/-! ## 2. The special cases the property names -/

/-- **castling relocates the rook**: the four squares are those of the rules (`Spec.castleSquares`); before the move
king and rook stand on their home squares, afterwards both are empty, the king stands on its target and the rook on
the square the king crossed -/
theorem castle_relocates_rook {b : Board} (hwf : WF.wf b = true) {m : Move} (hm : m ∈ genPseudo b)
    (hc : m.f.castle = true) :
    ∃ rs rt, Spec.castleSquares b.whiteTurn (Spec.fileOf m.f.target == 6) = (m.f.source, m.f.target, rs, rt) ∧
      castleRook m.f.target = some (rs, rt) ∧
      (abs b).at m.f.source = some ⟨b.whiteTurn, .king⟩ ∧ (abs b).at rs = some ⟨b.whiteTurn, .rook⟩ ∧
      (abs (make b m)).at m.f.source = none ∧ (abs (make b m)).at rs = none ∧
      (abs (make b m)).at m.f.target = some ⟨b.whiteTurn, .king⟩ ∧
      (abs (make b m)).at rt = some ⟨b.whiteTurn, .rook⟩ :=
  Successor.castle_relocates_rook' (GenFacts.env_of_wf hwf) (GenFacts.genPseudo_facts hwf m hm) hc

/-- **en passant removes the pawn**: the target is the position's e.p. square and is empty; the victim `v`, an enemy
pawn, stands on the mover's rank and the target's file (`target ± 8`); afterwards `v` is empty, the capturing pawn
stands on the target, the source is empty -/
theorem en_passant_removes_pawn {b : Board} (hwf : WF.wf b = true) {m : Move} (hm : m ∈ genPseudo b)
    (he : m.f.enPassant = true) :
    ∃ v, v = (if b.whiteTurn then m.f.target + 8 else m.f.target - 8) ∧ v < 64 ∧ v / 8 = m.f.source / 8 ∧
      v % 8 = m.f.target % 8 ∧ v ≠ m.f.target ∧ (abs b).ep = some m.f.target ∧
      (abs b).at m.f.source = some ⟨b.whiteTurn, .pawn⟩ ∧ (abs b).at v = some ⟨!b.whiteTurn, .pawn⟩ ∧
      (abs b).at m.f.target = none ∧
      (abs (make b m)).at v = none ∧ (abs (make b m)).at m.f.target = some ⟨b.whiteTurn, .pawn⟩ ∧
      (abs (make b m)).at m.f.source = none :=
  Successor.en_passant_removes_pawn' (GenFacts.env_of_wf hwf) (GenFacts.genPseudo_facts hwf m hm) he

/-- **promotion replaces the pawn** (with or without capture): a pawn of the mover stands on the source, the target is
on the last rank, the promotion piece is knight..queen; afterwards the source is empty and the chosen piece, in the
mover's colour, stands on the target -/
theorem promotion_replaces_pawn {b : Board} (hwf : WF.wf b = true) {m : Move} (hm : m ∈ genPseudo b)
    (hp : m.f.promotion ≠ 0) :
    2 ≤ m.f.promotion ∧ m.f.promotion ≤ 5 ∧ (if b.whiteTurn then m.f.target < 8 else 56 ≤ m.f.target) ∧
    (abs b).at m.f.source = some ⟨b.whiteTurn, .pawn⟩ ∧
    (abs (make b m)).at m.f.source = none ∧
    (abs (make b m)).at m.f.target = some ⟨b.whiteTurn, kindOf m.f.promotion⟩ :=
  Successor.promotion_replaces_pawn' (GenFacts.env_of_wf hwf) (GenFacts.genPseudo_facts hwf m hm) hp

theorem lost_iff_aux {r r' : Bool} {s t kh rh : Nat}
    (h : r' = (r && !(s == kh || t == kh) && !(s == rh || t == rh))) :
    ((r = true ∧ r' = false) ↔ (r = true ∧ (s = kh ∨ t = kh ∨ s = rh ∨ t = rh))) ∧ (r' = true → r = true) := by
  subst h
  cases r
  · simp
  · by_cases a : s = kh <;> by_cases c : t = kh <;> by_cases d : s = rh <;> by_cases e : t = rh <;> simp [a, c, d, e]

/-- **castling rights**: a right that is held is lost exactly when the home square of its king or of its rook is the
source or the target of the move (king move, rook move, rook captured at home); no right is ever gained.
Squares: e1 = 60, h1 = 63, a1 = 56, e8 = 4, h8 = 7, a8 = 0. -/
theorem rights_lost_iff {b : Board} (hwf : WF.wf b = true) {m : Move} (hm : m ∈ genPseudo b) :
    (((abs b).wk = true ∧ (abs (make b m)).wk = false) ↔
      ((abs b).wk = true ∧ (m.f.source = 60 ∨ m.f.target = 60 ∨ m.f.source = 63 ∨ m.f.target = 63))) ∧
    (((abs b).wq = true ∧ (abs (make b m)).wq = false) ↔
      ((abs b).wq = true ∧ (m.f.source = 60 ∨ m.f.target = 60 ∨ m.f.source = 56 ∨ m.f.target = 56))) ∧
    (((abs b).bk = true ∧ (abs (make b m)).bk = false) ↔
      ((abs b).bk = true ∧ (m.f.source = 4 ∨ m.f.target = 4 ∨ m.f.source = 7 ∨ m.f.target = 7))) ∧
    (((abs b).bq = true ∧ (abs (make b m)).bq = false) ↔
      ((abs b).bq = true ∧ (m.f.source = 4 ∨ m.f.target = 4 ∨ m.f.source = 0 ∨ m.f.target = 0))) ∧
    ((abs (make b m)).wk = true → (abs b).wk = true) ∧ ((abs (make b m)).wq = true → (abs b).wq = true) ∧
    ((abs (make b m)).bk = true → (abs b).bk = true) ∧ ((abs (make b m)).bq = true → (abs b).bq = true) := by
  obtain ⟨r1, r2, r3, r4⟩ := Successor.rights_eq (GenFacts.env_of_wf hwf) (GenFacts.genPseudo_facts hwf m hm)
  exact ⟨(lost_iff_aux r1).1, (lost_iff_aux r2).1, (lost_iff_aux r3).1, (lost_iff_aux r4).1,
    (lost_iff_aux r1).2, (lost_iff_aux r2).2, (lost_iff_aux r3).2, (lost_iff_aux r4).2⟩

/-- **half-move clock**, for every clock value `wf` admits (up to 4095, far above 100): reset to 0 exactly when the
piece on the source is a pawn or the move captures (e.p. included), otherwise incremented by one -/
theorem clock_reset_iff {b : Board} (hwf : WF.wf b = true) {m : Move} (hm : m ∈ genPseudo b) :
    (abs b).at m.f.source = some ⟨b.whiteTurn, kindOf m.f.pieceMoved⟩ ∧
    (make b m).halfmove =
      (if m.f.pieceMoved = PAWN ∨ Spec.isCapture (abs b) (absMove m.f) = true then 0 else b.halfmove + 1) ∧
    ((make b m).halfmove = 0 ↔ (m.f.pieceMoved = PAWN ∨ Spec.isCapture (abs b) (absMove m.f) = true)) := by
  have he := GenFacts.env_of_wf hwf
  have hf := GenFacts.genPseudo_facts hwf m hm
  have h := Successor.clock_reset' he hf
  refine ⟨Successor.at_src he hf, h, ?_⟩
  show (makeF b m.f).halfmove = 0 ↔ _
  rw [h]
  split
  · next hc => exact ⟨fun _ => hc, fun _ => rfl⟩
  · next hc => exact ⟨fun h0 => by omega, fun h1 => absurd h1 hc⟩

/-- **full-move number**: incremented after Black's move, unchanged after White's -/
theorem fullmove_increments_after_black {b : Board} (hwf : WF.wf b = true) {m : Move} (_hm : m ∈ genPseudo b) :
    (make b m).fullmove = (if b.turn = 1 then b.fullmove + 1 else b.fullmove) ∧
    (make b m).turn = 1 - b.turn ∧ b.turn ≤ 1 := by
  have hturn := (GenFacts.env_of_wf hwf).w.basic.turn
  refine ⟨?_, rfl, hturn⟩
  show b.fullmove + b.turn = _
  have : b.turn = 0 ∨ b.turn = 1 := by omega
  rcases this with h | h <;> rw [h] <;> rfl

#print axioms castle_relocates_rook
#print axioms en_passant_removes_pawn
#print axioms promotion_replaces_pawn
#print axioms rights_lost_iff
#print axioms clock_reset_iff
#print axioms fullmove_increments_after_black

/-! ## 3. Non-vacuity and sanity on concrete positions (kernel-evaluated, through `FenBoard.fromFenString`) -/

def bd (s : String) : Board :=
  match FenBoard.fromFenString s with
  | .ok b => b
  | .error _ => default

/-- the LEGAL move with UCI text `u` exists, has the flag `flag`, the FEN after `make` is `after`, and – evaluated
independently of the theorems – the abstracted successor equals `Spec.apply` -/
def check (fen u after : String) (flag : MoveF → Bool) : Bool :=
  match (genLegal (bd fen)).find? (fun m => m.uci == u) with
  | some m =>
    flag m.f && Spec.fen (abs (make (bd fen) m)) == after
      && decide (abs (make (bd fen) m) = Spec.apply (abs (bd fen)) (absMove m.f))
  | none => false

/-- one position with: a castling move, an e.p. capture, a capture-promotion that takes the a8 rook on its home square
while Black still holds the queen-side right, king/rook moves that lose White's right -/
def mixed := "r3k3/1P6/8/3pP3/8/8/8/4K2R w Kq d6 0 2"
/-- all four rights, half-move clock far above 100, large full-move number -/
def lateW := "r3k2r/8/8/8/8/8/8/R3K2R w KQkq - 150 200"
def lateB := "r3k2r/8/8/8/8/8/8/R3K2R b KQkq - 4000 200"
/-- Black: e.p. capture and promotion towards rank 1 -/
def blackEp := "4k3/8/8/8/3pP3/8/1p6/R3K3 b Q e3 0 7"

theorem mixed_wf : WF.wf (bd mixed) = true := by decide +kernel
theorem lateW_wf : WF.wf (bd lateW) = true := by decide +kernel
theorem lateB_wf : WF.wf (bd lateB) = true := by decide +kernel
theorem blackEp_wf : WF.wf (bd blackEp) = true := by decide +kernel
example : (genLegal (bd mixed)).length = 25 ∧ (genLegal (bd blackEp)).length = 15 := by decide +kernel

-- a castling move: the rook goes h1 → f1, White's right is gone
example : check mixed "e1g1" "r3k3/1P6/8/3pP3/8/8/8/5RK1 b q - 1 2" (fun f => f.castle) = true := by decide +kernel
-- an en-passant capture: the d5 pawn disappears, clock reset
example : check mixed "e5d6" "r3k3/1P6/3P4/8/8/8/8/4K2R b Kq - 0 2" (fun f => f.enPassant) = true := by decide +kernel
-- a capture-promotion; the rook is captured on its home square a8 with the right `q` still held: the right is lost
example : check mixed "b7a8q" "Q3k3/8/8/3pP3/8/8/8/4K2R b K - 0 2"
    (fun f => f.promotion == QUEEN && f.pieceAttacked == ROOK && f.oppLostQueen) = true := by decide +kernel
-- a quiet promotion keeps Black's right
example : check mixed "b7b8r" "rR2k3/8/8/3pP3/8/8/8/4K2R b Kq - 0 2" (fun f => f.promotion == ROOK) = true := by
  decide +kernel
-- rook and king moves lose rights; the half-move clock just counts on beyond 100; the full-move number is unchanged
-- after White's move and incremented after Black's
example : check lateW "h1g1" "r3k2r/8/8/8/8/8/8/R3K1R1 b Qkq - 151 200" (fun f => f.selfLostKing) = true := by
  decide +kernel
example : check lateW "e1d1" "r3k2r/8/8/8/8/8/8/R2K3R b kq - 151 200" (fun f => f.selfLostKing && f.selfLostQueen) = true := by
  decide +kernel
example : check lateW "a1a8" "R3k2r/8/8/8/8/8/8/4K2R b Kk - 0 200"
    (fun f => f.selfLostQueen && f.oppLostQueen && f.halfmoveReset) = true := by decide +kernel
example : check lateB "e8c8" "2kr3r/8/8/8/8/8/8/R3K2R w KQ - 4001 201" (fun f => f.castle) = true := by decide +kernel
example : check lateB "h8h1" "r3k3/8/8/8/8/8/8/R3K2r w Qq - 0 201" (fun f => f.oppLostKing && f.selfLostKing) = true := by
  decide +kernel
-- Black: e.p. capture d4xe3 removes the e4 pawn; capture-promotion b2xa1 takes the rook at home, White loses `Q`
example : check blackEp "d4e3" "4k3/8/8/8/8/4p3/1p6/R3K3 w Q - 0 8" (fun f => f.enPassant) = true := by decide +kernel
example : check blackEp "b2a1q" "4k3/8/8/8/3pP3/8/8/q3K3 w - - 0 8"
    (fun f => f.promotion == QUEEN && f.oppLostQueen) = true := by decide +kernel

-- the hypotheses of the theorems are satisfiable, for each special case
example : ∃ m ∈ genLegal (bd mixed), m.f.castle = true := by decide +kernel
example : ∃ m ∈ genLegal (bd mixed), m.f.enPassant = true := by decide +kernel
example : ∃ m ∈ genLegal (bd mixed), m.f.promotion ≠ 0 ∧ m.f.pieceAttacked ≠ 0 := by decide +kernel

-- the theorems instantiated
example (m : Move) (hm : m ∈ genLegal (bd mixed)) :
    Spec.fen (abs (make (bd mixed) m)) = Spec.fen (Spec.apply (abs (bd mixed)) (absMove m.f)) :=
  fen_make_legal mixed_wf hm
example (m : Move) (hm : m ∈ genLegal (bd lateB)) :
    abs (make (bd lateB) m) = Spec.apply (abs (bd lateB)) (absMove m.f) ∧ (make (bd lateB) m).fullmove = 201 := by
  refine ⟨make_eq_apply_legal lateB_wf hm, ?_⟩
  rw [(fullmove_increments_after_black lateB_wf (List.mem_filter.mp hm).1).1]
  decide +kernel

-- (`check` above already evaluates `abs (make b m) = Spec.apply (abs b) (absMove m.f)` in the kernel for each of the
-- listed moves, independently of the theorems; doing it for ALL pseudo-legal moves of `mixed` also succeeds but takes
-- ~55 s of kernel time, so it is not part of the build)

end Inkayaku.C02
