import Inkayaku.Model.Console
import Inkayaku.Spec.UciOut
/-!
# C16 (output syntax) — every line the engine writes in response to a command is a valid UCI engine-to-GUI message

"Every line the engine process writes in response to a command is a syntactically valid UCI engine-to-GUI message
(only the start-up banner is free text)."

Model of the printer: `Inkayaku.Console` (`ConsoleUciTx`, all `UciTx` methods that write to stdout), grammar:
`Inkayaku.UciOut.accepts` (hand written from the protocol text, independent of the printer).

* `render_accepts : WFMsg m → accepts (render m).toList = true` for **every** message value: all 2^17 subsets of the
  optional `info` fields, all integers, all move lists, all free texts — under the side conditions `WFMsg`:
  squares are squares (`< 64`, guaranteed by the Rust type `Square`), free text has no line break, the texts of `id`
  are not empty (the Rust `assert!`s that), **the move lists of `pv`, `refutation`, `currline` are not empty**, and for
  `option` lines the name does not start with a space and a string/combo default is non-empty and does not end in a
  character that `trim` removes.
* `render_single_line`: no U+000A in the output when the free-text fields contain none (no other side condition but
  valid squares) — one `tx` call is one line of stdout.
* `empty_pv_rejected` (and `_refutation`, `_currline`): the side condition about empty lists is necessary — the
  printer turns `principal_variation: Some(vec![])` into `… pv  …` / a trailing space, which is not a UCI line.

FINDING.  `ConsoleUciTx::info` can print an ill-formed line: `append_maybe(.., "pv", Some(""))` for an empty move list
(same for `refutation`, `currline`).  The engine never passes such a value: in `Search::best_move`
(`engine_core/src/engine/search.rs`) `uci_pv` is `None` until an iteration completes with `!aborted`, where
`aborted = stop || current_best_move.mv.is_none()`, so `calculate_principal_variation()` starts with that `mv` and the
list is non-empty; `refutation` and `current_line` are never set (`generate_info` uses `..Info::EMPTY`), and no
`option_*` method is ever called by the engine.  On the model of the search this is `Search.goCmd_pv` /
`C16.bestmove_is_pv0_ponder_is_pv1` (`pvl[0]? = some m`) for the last info; it is not proved here for all infos.
-/
namespace Inkayaku.C16Console
open Inkayaku.Console Inkayaku.UciOut
open Inkayaku.Uci (UciMove Piece squareFen)
open Inkayaku.FenSyntax (splitOnChar)

/-! ## 1. splitting at spaces -/

theorem split_ne_nil (sep : Char) (l : List Char) : splitOnChar sep l ≠ [] := by
  induction l with
  | nil => simp [splitOnChar]
  | cons c cs ih =>
    unfold splitOnChar
    split
    · simp
    · split <;> simp

theorem split_cons_ne {sep c : Char} (h : c ≠ sep) (cs : List Char) :
    splitOnChar sep (c :: cs) = (c :: (splitOnChar sep cs).headD []) :: (splitOnChar sep cs).tail := by
  have hne := split_ne_nil sep cs
  rw [splitOnChar]
  simp only [h, if_false]
  cases hs : splitOnChar sep cs with
  | nil => exact absurd hs hne
  | cons p ps => simp

/-- `n` separators give `n + 1` pieces: splitting distributes over a separator -/
theorem split_append (sep : Char) (a b : List Char) :
    splitOnChar sep (a ++ sep :: b) = splitOnChar sep a ++ splitOnChar sep b := by
  induction a with
  | nil => simp [splitOnChar]
  | cons c cs ih =>
    by_cases hc : c = sep
    · subst hc; simp [splitOnChar, ih]
    · rw [List.cons_append, split_cons_ne hc, split_cons_ne hc, ih]
      cases h : splitOnChar sep cs with
      | nil => exact absurd h (split_ne_nil sep cs)
      | cons p ps => simp

theorem split_nosep {sep : Char} {t : List Char} (h : sep ∉ t) : splitOnChar sep t = [t] := by
  induction t with
  | nil => simp [splitOnChar]
  | cons c cs ih =>
    have hc : c ≠ sep := by intro e; apply h; simp [e]
    have hcs : sep ∉ cs := by intro e; apply h; simp [e]
    rw [split_cons_ne hc, ih hcs]; simp

/-- non-empty text has a non-empty field list that is not a single empty field -/
theorem isText_split {s : List Char} (h : s ≠ []) : isText (splitOnChar ' ' s) = true := by
  cases s with
  | nil => exact absurd rfl h
  | cons c cs =>
    have hne := split_ne_nil ' ' cs
    by_cases hc : c = ' '
    · subst hc
      cases hs : splitOnChar ' ' cs with
      | nil => exact absurd hs hne
      | cons p ps => simp [splitOnChar, hs, isText]
    · rw [split_cons_ne hc]; simp [isText]

/-- tokens, each preceded by one space -/
def sp : List Tok → List Char
  | [] => []
  | t :: ts => ' ' :: (t ++ sp ts)

theorem sp_append (a b : List Tok) : sp (a ++ b) = sp a ++ sp b := by
  induction a with
  | nil => rfl
  | cons t ts ih => simp [sp, ih]

theorem split_sp {t0 : Tok} (h0 : ' ' ∉ t0) (toks : List Tok) (h : ∀ t ∈ toks, ' ' ∉ t) :
    splitOnChar ' ' (t0 ++ sp toks) = t0 :: toks := by
  induction toks generalizing t0 with
  | nil => simp [sp, split_nosep h0]
  | cons t ts ih =>
    rw [sp, split_append, split_nosep h0, ih (h t (by simp)) (fun x hx => h x (by simp [hx]))]
    rfl

theorem joinSp_sp : ∀ {ts : List Tok}, ts ≠ [] → ' ' :: joinSp ts = sp ts
  | [], h => absurd rfl h
  | [t], _ => by simp [joinSp, sp]
  | t :: t' :: ts, _ => by
    have := joinSp_sp (ts := t' :: ts) (by simp)
    simp only [joinSp, sp] at this ⊢
    rw [this]

/-! ## 2. lexical classes -/

/-- all characters are `-`, digits or letters (code 45..122): no space, no control character, no white space -/
def Hi (t : List Char) : Prop := ∀ c ∈ t, 45 ≤ c.toNat ∧ c.toNat ≤ 122

instance (t : List Char) : Decidable (Hi t) := by unfold Hi; infer_instance

theorem Hi.nosp {t : List Char} (h : Hi t) : ' ' ∉ t := fun hm => absurd (h ' ' hm) (by decide)

theorem hi_of_digits {t : List Char} (h : t.all isDigit = true) : Hi t := by
  intro c hc
  have := List.all_eq_true.mp h c hc
  simp only [isDigit, Bool.and_eq_true, decide_eq_true_eq] at this
  omega

theorem hi_of_isNat {t : Tok} (h : isNat t = true) : Hi t := by
  simp only [isNat, Bool.and_eq_true] at h
  exact hi_of_digits h.2

theorem hi_of_isInt {t : Tok} (h : isInt t = true) : Hi t := by
  cases t with
  | nil => intro c hc; simp at hc
  | cons c cs =>
    by_cases hc : c = '-'
    · subst hc
      simp only [isInt] at h
      intro x hx
      rcases List.mem_cons.mp hx with rfl | hx
      · decide
      · exact hi_of_isNat h x hx
    · have : isInt (c :: cs) = isNat (c :: cs) := by simp [isInt, hc]
      rw [this] at h
      exact hi_of_isNat h

theorem hi_of_isMove {t : Tok} (h : isMove t = true) : Hi t := by
  have file : ∀ c, isFile c = true → 45 ≤ c.toNat ∧ c.toNat ≤ 122 := by
    intro c hc; simp only [isFile, Bool.and_eq_true, decide_eq_true_eq] at hc; omega
  have rank : ∀ c, isRank c = true → 45 ≤ c.toNat ∧ c.toNat ≤ 122 := by
    intro c hc; simp only [isRank, Bool.and_eq_true, decide_eq_true_eq] at hc; omega
  have promo : ∀ c, isPromo c = true → 45 ≤ c.toNat ∧ c.toNat ≤ 122 := by
    intro c hc
    simp only [isPromo, List.contains_eq_mem, decide_eq_true_eq] at hc
    have : c ∈ ['q', 'r', 'b', 'n', 'k', 'p'] := hc
    simp only [List.mem_cons, List.not_mem_nil, or_false] at this
    rcases this with rfl | rfl | rfl | rfl | rfl | rfl <;> decide
  unfold isMove at h
  split at h
  · simp only [Bool.and_eq_true] at h
    intro x hx
    simp only [List.mem_cons, List.not_mem_nil, or_false] at hx
    rcases hx with rfl | rfl | rfl | rfl
    · exact file _ h.1.1.1
    · exact rank _ h.1.1.2
    · exact file _ h.1.2
    · exact rank _ h.2
  · simp only [Bool.and_eq_true] at h
    intro x hx
    simp only [List.mem_cons, List.not_mem_nil, or_false] at hx
    rcases hx with rfl | rfl | rfl | rfl | rfl
    · exact file _ h.1.1.1.1
    · exact rank _ h.1.1.1.2
    · exact file _ h.1.1.2
    · exact rank _ h.1.2
    · exact promo _ h.2
  · simp at h

theorem isInt_of_isNat {t : Tok} (h : isNat t = true) : isInt t = true := by
  cases t with
  | nil => simp [isNat] at h
  | cons c cs =>
    by_cases hc : c = '-'
    · subst hc; simp [isNat, isDigit] at h
    · simp [isInt, hc, h]

theorem digit_ok : ∀ d : Fin 10, isDigit (digitChar d.val) = true := by decide

theorem natText_digits (n : Nat) : natText n ≠ [] ∧ (natText n).all isDigit = true := by
  induction n using Nat.strongRecOn with
  | _ n ih =>
    rw [natText]
    split
    · rename_i h
      have := digit_ok ⟨n, h⟩
      simp only at this
      simp [this]
    · have h1 := ih (n / 10) (by omega)
      have h2 := digit_ok ⟨n % 10, by omega⟩
      simp only at h2
      simp [h1.2, h2]

theorem isNat_natText (n : Nat) : isNat (natText n) = true := by
  have := natText_digits n
  cases h : natText n with
  | nil => exact absurd h this.1
  | cons c cs => rw [h] at this; simpa [isNat] using this.2

theorem isInt_intText (v : Int) : isInt (intText v) = true := by
  unfold intText
  split
  · simpa [isInt] using isNat_natText _
  · exact isInt_of_isNat (isNat_natText _)

/-- squares are squares -/
def MoveOk (m : UciMove) : Prop := m.source < 64 ∧ m.target < 64

instance (m : UciMove) : Decidable (MoveOk m) := by unfold MoveOk; infer_instance

theorem sq_ok : ∀ i : Fin 64,
    isFile (Char.ofNat (97 + i.val % 8)) = true ∧ isRank (Char.ofNat (56 - i.val / 8)) = true := by decide

theorem promo_ok (p : Piece) : isPromo p.fen = true := by cases p <;> decide

theorem isMove_render {m : UciMove} (h : MoveOk m) : isMove m.render = true := by
  obtain ⟨s, t, p⟩ := m
  obtain ⟨hs, ht⟩ := h
  simp only at hs ht
  have h1 := sq_ok ⟨s, hs⟩
  have h2 := sq_ok ⟨t, ht⟩
  simp only at h1 h2
  cases p with
  | none => simp [UciMove.render, squareFen, isMove, h1, h2]
  | some pc => simp [UciMove.render, squareFen, isMove, h1, h2, promo_ok pc]

/-! ## 3. the items of `info`, field by field -/

/-! ### unfolding `items` by kind of item -/

theorem items_more {m : Tok} (hm : isMove m = true) (rest : List Tok) : items true (m :: rest) = items true rest := by
  rw [items.eq_def]; simp [hm]

theorem items_nat {t : Tok} (hk : itemOf t = some .nat) (hm : isMove t = false) (more : Bool) (v : Tok)
    (rest : List Tok) : items more (t :: v :: rest) = (isNat v && items false rest) := by
  rw [items.eq_def]; simp [hk, hm]

theorem items_moves {t : Tok} (hk : itemOf t = some .moves) (hm : isMove t = false) (more : Bool) (m : Tok)
    (rest : List Tok) : items more (t :: m :: rest) = (isMove m && items true rest) := by
  rw [items.eq_def]; simp [hk, hm]

theorem items_currmove {t : Tok} (hk : itemOf t = some .currmove) (hm : isMove t = false) (more : Bool) (m : Tok)
    (rest : List Tok) : items more (t :: m :: rest) = (isMove m && items false rest) := by
  rw [items.eq_def]; simp [hk, hm]

theorem items_currline {t : Tok} (hk : itemOf t = some .currline) (hm : isMove t = false) (more : Bool) (n m : Tok)
    (rest : List Tok) : items more (t :: n :: m :: rest) = (isNat n && isMove m && items true rest) := by
  rw [items.eq_def]; simp [hk, hm]

theorem items_string {t : Tok} (hk : itemOf t = some .string) (hm : isMove t = false) (more : Bool)
    (rest : List Tok) : items more (t :: rest) = true := by
  rw [items.eq_def]; simp [hk, hm]

theorem items_mate {t k : Tok} (hk : itemOf t = some .score) (hm : isMove t = false) (hk' : k = "mate".toList)
    (more : Bool) (v : Tok) (rest : List Tok) :
    items more (t :: k :: v :: rest) = (isInt v && items false rest) := by
  rw [items.eq_def]; simp only [hk, hm]; simp [hk']

theorem items_cp_bound {t k b : Tok} (hk : itemOf t = some .score) (hm : isMove t = false) (hc : k = "cp".toList)
    (hb : isBound b = true) (more : Bool) (v : Tok) (rest : List Tok) :
    items more (t :: k :: v :: b :: rest) = (isInt v && items false rest) := by
  rw [items.eq_def]; simp only [hk, hm]; simp [hc, hb]

theorem items_cp {t k : Tok} (hk : itemOf t = some .score) (hm : isMove t = false) (hc : k = "cp".toList)
    (more : Bool) (v : Tok) (rest : List Tok) (hb : ∀ b r, rest = b :: r → isBound b = false) :
    items more (t :: k :: v :: rest) = (isInt v && items false rest) := by
  rw [items.eq_def]; simp only [hk, hm]
  cases rest with
  | nil => simp [hc, items]
  | cons b r => simp [hc, hb b r rfl]

/-- a bound keyword cannot start an item -/
theorem items_bound_head {b : Tok} (hb : isBound b = true) (more : Bool) (r : List Tok) :
    items more (b :: r) = false := by
  have h1 : isMove b = false := by
    simp only [isBound, Bool.or_eq_true, decide_eq_true_eq] at hb
    rcases hb with rfl | rfl <;> decide
  have h2 : itemOf b = none := by
    simp only [isBound, Bool.or_eq_true, decide_eq_true_eq] at hb
    rcases hb with rfl | rfl <;> decide
  rw [items.eq_def]; simp [h1, h2]

/-! ### the fields -/

/-- the remaining fields are accepted whether or not a move list may continue -/
def Good (rest : List Tok) : Prop := ∀ more, items more rest = true

theorem good_nil : Good [] := by intro more; rw [items.eq_def]

theorem good_string (rest : List Tok) : Good ("string".toList :: rest) :=
  fun more => items_string (by decide) (by decide) more rest

theorem natKeys_kind : ∀ k ∈ natKeys, itemOf k = some .nat ∧ isMove k = false := by decide
theorem natKeys_hi : ∀ k ∈ natKeys, Hi k := by decide

/-- what a group of fields contributes: space-free tokens that the item recogniser consumes -/
structure FieldOk (F : List Tok) : Prop where
  hi : ∀ t ∈ F, Hi t
  good : ∀ rest, Good rest → Good (F ++ rest)

theorem FieldOk.nil : FieldOk [] := ⟨by simp, fun _ h => h⟩

theorem FieldOk.append {A B : List Tok} (ha : FieldOk A) (hb : FieldOk B) : FieldOk (A ++ B) :=
  ⟨fun t ht => (List.mem_append.mp ht).elim (ha.hi t) (hb.hi t),
   fun rest h => by rw [List.append_assoc]; exact ha.good _ (hb.good _ h)⟩

def natField (key : Tok) : Option Nat → List Tok
  | none => []
  | some n => [key, natText n]

theorem natField_ok {key : Tok} (hk : key ∈ natKeys) (o : Option Nat) : FieldOk (natField key o) := by
  cases o with
  | none => exact FieldOk.nil
  | some n =>
    refine ⟨?_, ?_⟩
    · intro t ht
      simp only [natField, List.mem_cons, List.not_mem_nil, or_false] at ht
      rcases ht with rfl | rfl
      · exact natKeys_hi _ hk
      · exact hi_of_isNat (isNat_natText n)
    · intro rest h more
      simp only [natField, List.cons_append, List.nil_append]
      rw [items_nat (natKeys_kind key hk).1 (natKeys_kind key hk).2, isNat_natText, h false]; rfl

def movesField (key : Tok) : Option (List UciMove) → List Tok
  | none => []
  | some ms => key :: ms.map UciMove.render

theorem good_moves (ms : List UciMove) (hms : ∀ m ∈ ms, MoveOk m) (rest : List Tok) (h : Good rest) :
    items true (ms.map UciMove.render ++ rest) = true := by
  induction ms with
  | nil => exact h true
  | cons m ms ih =>
    simp only [List.map_cons, List.cons_append]
    rw [items_more (isMove_render (hms m (by simp)))]
    exact ih (fun x hx => hms x (by simp [hx]))

/-- an optional move list: absent, or non-empty with valid squares -/
def MovesOk : Option (List UciMove) → Prop
  | none => True
  | some ms => ms ≠ [] ∧ ∀ m ∈ ms, MoveOk m

instance (o : Option (List UciMove)) : Decidable (MovesOk o) := by
  cases o <;> unfold MovesOk <;> infer_instance

theorem movesField_ok {key : Tok} (hk : key = "pv".toList ∨ key = "refutation".toList) (o : Option (List UciMove))
    (ho : MovesOk o) : FieldOk (movesField key o) := by
  have hkind : itemOf key = some .moves ∧ isMove key = false ∧ Hi key := by
    rcases hk with rfl | rfl <;> decide
  cases o with
  | none => exact FieldOk.nil
  | some ms =>
    obtain ⟨hne, hms⟩ := ho
    refine ⟨?_, ?_⟩
    · intro t ht
      simp only [movesField, List.mem_cons, List.mem_map] at ht
      rcases ht with rfl | ⟨m, hm, rfl⟩
      · exact hkind.2.2
      · exact hi_of_isMove (isMove_render (hms m hm))
    · intro rest h more
      cases ms with
      | nil => exact absurd rfl hne
      | cons m ms =>
        simp only [movesField, List.map_cons, List.cons_append]
        rw [items_moves hkind.1 hkind.2.1, isMove_render (hms m (by simp)),
          good_moves ms (fun x hx => hms x (by simp [hx])) rest h]
        rfl

def scoreToks : Score → List Tok
  | .cp v => ["cp".toList, intText v]
  | .cpBounded v b => ["cp".toList, intText v, b.text]
  | .mate v => ["mate".toList, intText v]

def scoreField : Option Score → List Tok
  | none => []
  | some s => "score".toList :: scoreToks s

theorem scoreField_ok (o : Option Score) : FieldOk (scoreField o) := by
  cases o with
  | none => exact FieldOk.nil
  | some s =>
    have hs : itemOf "score".toList = some .score := by decide
    have hm : isMove "score".toList = false := by decide
    refine ⟨?_, ?_⟩
    · intro t ht
      cases s with
      | cp v =>
        simp only [scoreField, scoreToks, List.mem_cons, List.not_mem_nil, or_false] at ht
        rcases ht with rfl | rfl | rfl
        · decide
        · decide
        · exact hi_of_isInt (isInt_intText v)
      | cpBounded v b =>
        simp only [scoreField, scoreToks, List.mem_cons, List.not_mem_nil, or_false] at ht
        rcases ht with rfl | rfl | rfl | rfl
        · decide
        · decide
        · exact hi_of_isInt (isInt_intText v)
        · cases b <;> decide
      | mate v =>
        simp only [scoreField, scoreToks, List.mem_cons, List.not_mem_nil, or_false] at ht
        rcases ht with rfl | rfl | rfl
        · decide
        · decide
        · exact hi_of_isInt (isInt_intText v)
    · intro rest h more
      cases s with
      | cp v =>
        simp only [scoreField, scoreToks, List.cons_append, List.nil_append]
        rw [items_cp hs hm rfl, isInt_intText, h false]; · rfl
        -- the next field is not a bound keyword: otherwise `Good rest` would be false
        intro b r hr
        cases hb : isBound b with
        | false => rfl
        | true => have := h false; rw [hr, items_bound_head hb] at this; exact absurd this (by simp)
      | cpBounded v b =>
        simp only [scoreField, scoreToks, List.cons_append, List.nil_append]
        rw [items_cp_bound hs hm rfl (by cases b <;> decide), isInt_intText, h false]; rfl
      | mate v =>
        simp only [scoreField, scoreToks, List.cons_append, List.nil_append]
        rw [items_mate hs hm rfl, isInt_intText, h false]; rfl

def currmoveField : Option UciMove → List Tok
  | none => []
  | some m => ["currmove".toList, m.render]

def MoveOptOk : Option UciMove → Prop
  | none => True
  | some m => MoveOk m

instance (o : Option UciMove) : Decidable (MoveOptOk o) := by
  cases o <;> unfold MoveOptOk <;> infer_instance

theorem currmoveField_ok (o : Option UciMove) (ho : MoveOptOk o) : FieldOk (currmoveField o) := by
  cases o with
  | none => exact FieldOk.nil
  | some m =>
    have hm := isMove_render (show MoveOk m from ho)
    refine ⟨?_, ?_⟩
    · intro t ht
      simp only [currmoveField, List.mem_cons, List.not_mem_nil, or_false] at ht
      rcases ht with rfl | rfl
      · decide
      · exact hi_of_isMove hm
    · intro rest h more
      simp only [currmoveField, List.cons_append, List.nil_append]
      rw [items_currmove (by decide) (by decide), hm, h false]; rfl

def currlineField : Option CurrentLine → List Tok
  | none => []
  | some c => "currline".toList :: natText c.cpu :: c.line.map UciMove.render

def CurrlineOk : Option CurrentLine → Prop
  | none => True
  | some c => c.line ≠ [] ∧ ∀ m ∈ c.line, MoveOk m

instance (o : Option CurrentLine) : Decidable (CurrlineOk o) := by
  cases o <;> unfold CurrlineOk <;> infer_instance

theorem currlineField_ok (o : Option CurrentLine) (ho : CurrlineOk o) : FieldOk (currlineField o) := by
  cases o with
  | none => exact FieldOk.nil
  | some c =>
    obtain ⟨cpu, line⟩ := c
    obtain ⟨hne, hms⟩ := ho
    simp only at hne hms
    refine ⟨?_, ?_⟩
    · intro t ht
      simp only [currlineField, List.mem_cons, List.mem_map] at ht
      rcases ht with rfl | rfl | ⟨m, hm, rfl⟩
      · decide
      · exact hi_of_isNat (isNat_natText cpu)
      · exact hi_of_isMove (isMove_render (hms m hm))
    · intro rest h more
      cases line with
      | nil => exact absurd rfl hne
      | cons m ms =>
        simp only [currlineField, List.map_cons, List.cons_append]
        rw [items_currline (by decide) (by decide), isNat_natText, isMove_render (hms m (by simp)),
          good_moves ms (fun x hx => hms x (by simp [hx])) rest h]
        rfl

/-! ## 4. the printed `info` line is `info` followed by its tokens, each preceded by one space -/

theorem seg_joinSp (key : Tok) {vs : List Tok} (h : vs ≠ []) :
    appendMaybe key (some (joinSp vs)) = sp (key :: vs) := by
  simp only [appendMaybe, sp]; rw [joinSp_sp h]

theorem seg_nat (key : Tok) (o : Option Nat) : appendMaybe key (o.map natText) = sp (natField key o) := by
  cases o with
  | none => rfl
  | some n => exact seg_joinSp key (vs := [natText n]) (by simp)

theorem seg_moves (key : Tok) (o : Option (List UciMove)) (h : MovesOk o) :
    appendMaybe key (o.map movesText) = sp (movesField key o) := by
  cases o with
  | none => rfl
  | some ms => exact seg_joinSp key (vs := ms.map UciMove.render) (by simpa using h.1)

theorem scoreText_eq (s : Score) : scoreText s = joinSp (scoreToks s) := by
  cases s <;> simp [scoreText, scoreToks, joinSp]

theorem seg_score (o : Option Score) : appendMaybe "score".toList (o.map scoreText) = sp (scoreField o) := by
  cases o with
  | none => rfl
  | some s =>
    simp only [Option.map_some, scoreText_eq]
    exact seg_joinSp _ (by cases s <;> simp [scoreToks])

theorem seg_currmove (o : Option UciMove) :
    appendMaybe "currmove".toList (o.map UciMove.render) = sp (currmoveField o) := by
  cases o with
  | none => rfl
  | some m => exact seg_joinSp _ (vs := [m.render]) (by simp)

theorem seg_currline (o : Option CurrentLine) (h : CurrlineOk o) :
    appendMaybe "currline".toList (o.map currentLineText) = sp (currlineField o) := by
  cases o with
  | none => rfl
  | some c =>
    have hne : c.line.map UciMove.render ≠ [] := by simpa using h.1
    have : currentLineText c = joinSp (natText c.cpu :: c.line.map UciMove.render) := by
      cases hl : c.line.map UciMove.render with
      | nil => exact absurd hl hne
      | cons x xs => simp [currentLineText, movesText, hl, joinSp]
    simp only [Option.map_some, this]
    exact seg_joinSp _ (by simp)

/-- all tokens of an `info` line before the text of `string` -/
def infoToks (i : Info) : List Tok :=
  natField "depth".toList i.depth ++ (natField "seldepth".toList i.seldepth ++ (natField "time".toList i.time ++
  (natField "nodes".toList i.nodes ++ (movesField "pv".toList i.pv ++ (natField "multipv".toList i.multipv ++
  (scoreField i.score ++ (currmoveField i.currmove ++ (natField "currmovenumber".toList i.currmovenumber ++
  (natField "hashfull".toList i.hashfull ++ (natField "nps".toList i.nps ++ (natField "tbhits".toList i.tbhits ++
  (natField "sbhits".toList i.sbhits ++ (natField "cpuload".toList i.cpuload ++
  (movesField "refutation".toList i.refutation ++ currlineField i.currline))))))))))))))

/-- side conditions on an `Info`: squares are squares, the move lists that are present are not empty, the free text
has no line break -/
structure WFInfo (i : Info) : Prop where
  pv : MovesOk i.pv
  currmove : MoveOptOk i.currmove
  refutation : MovesOk i.refutation
  currline : CurrlineOk i.currline
  string : ∀ s, i.string = some s → ∀ c ∈ s, isLineBreak c = false

theorem infoToks_ok (i : Info) (h : WFInfo i) : FieldOk (infoToks i) := by
  unfold infoToks
  repeat' apply FieldOk.append
  all_goals first
    | exact natField_ok (by decide) _
    | exact movesField_ok (by decide) _ h.pv
    | exact movesField_ok (by decide) _ h.refutation
    | exact scoreField_ok _
    | exact currmoveField_ok _ h.currmove
    | exact currlineField_ok _ h.currline

theorem infoText_eq (i : Info) (h : WFInfo i) :
    infoText i = "info".toList ++ sp (infoToks i) ++ appendMaybe "string".toList i.string := by
  simp only [infoText, infoSegments, List.flatten_cons, List.flatten_nil, seg_nat, seg_moves _ _ h.pv,
    seg_moves _ _ h.refutation, seg_score, seg_currmove, seg_currline _ h.currline, infoToks, sp_append,
    List.append_assoc, List.append_nil]

theorem acceptsFields_info (i : Info) (h : WFInfo i) : acceptsFields (splitOnChar ' ' (infoText i)) = true := by
  have hok := infoToks_ok i h
  have hnosp : ∀ t ∈ infoToks i, ' ' ∉ t := fun t ht => (hok.hi t ht).nosp
  have hinfo : ∀ rest, acceptsFields ("info".toList :: rest) = items false rest := by
    intro rest; simp [acceptsFields]
  rw [infoText_eq i h]
  cases hs : i.string with
  | none =>
    simp only [appendMaybe, List.append_nil]
    rw [split_sp (by decide) _ hnosp, hinfo]
    have := hok.good [] good_nil false
    simpa using this
  | some s =>
    have e : "info".toList ++ sp (infoToks i) ++ appendMaybe "string".toList (some s)
        = ("info".toList ++ sp (infoToks i ++ ["string".toList])) ++ ' ' :: s := by
      simp [appendMaybe, sp_append, sp]
    rw [e, split_append, split_sp (by decide) _ (by
      intro t ht
      rcases List.mem_append.mp ht with ht | ht
      · exact hnosp t ht
      · simp only [List.mem_cons, List.not_mem_nil, or_false] at ht; subst ht; decide)]
    rw [List.cons_append, hinfo, List.append_assoc]
    exact hok.good _ (good_string _) false

/-! ## 5. which characters a printed line can contain -/

/-- a set of characters that contains the space and everything from `-` upwards (digits, letters) -/
structure Tame (P : Char → Prop) : Prop where
  space : P ' '
  hi : ∀ c, 45 ≤ c.toNat → P c

def All (P : Char → Prop) (l : List Char) : Prop := ∀ c ∈ l, P c

theorem All.nil {P : Char → Prop} : All P [] := by intro c hc; simp at hc
theorem All.cons {P : Char → Prop} {c : Char} {l : List Char} (hc : P c) (hl : All P l) : All P (c :: l) := by
  intro x hx; rcases List.mem_cons.mp hx with rfl | hx
  · exact hc
  · exact hl x hx
theorem All.append {P : Char → Prop} {a b : List Char} (ha : All P a) (hb : All P b) : All P (a ++ b) :=
  fun x hx => (List.mem_append.mp hx).elim (ha x) (hb x)

/-- spaces, `-`, digits, letters -/
def Plain (l : List Char) : Prop := ∀ c ∈ l, c = ' ' ∨ 45 ≤ c.toNat

instance (l : List Char) : Decidable (Plain l) := by unfold Plain; infer_instance

theorem Plain.all {P : Char → Prop} (hP : Tame P) {l : List Char} (h : Plain l) : All P l := by
  intro c hc
  rcases h c hc with rfl | h
  · exact hP.space
  · exact hP.hi c h

theorem Hi.all {P : Char → Prop} (hP : Tame P) {l : List Char} (h : Hi l) : All P l :=
  fun c hc => hP.hi c (h c hc).1

theorem all_natText {P : Char → Prop} (hP : Tame P) (n : Nat) : All P (natText n) :=
  (hi_of_isNat (isNat_natText n)).all hP

theorem all_intText {P : Char → Prop} (hP : Tame P) (v : Int) : All P (intText v) :=
  (hi_of_isInt (isInt_intText v)).all hP

theorem all_render {P : Char → Prop} (hP : Tame P) {m : UciMove} (h : MoveOk m) : All P m.render :=
  (hi_of_isMove (isMove_render h)).all hP

theorem all_joinSp {P : Char → Prop} (hP : Tame P) : ∀ (ts : List Tok), (∀ t ∈ ts, All P t) → All P (joinSp ts)
  | [], _ => All.nil
  | [t], h => h t (by simp)
  | t :: t' :: ts, h => by
    rw [joinSp]
    exact (h t (by simp)).append (All.cons hP.space (all_joinSp hP (t' :: ts) (fun x hx => h x (by simp [hx]))))

theorem all_movesText {P : Char → Prop} (hP : Tame P) (ms : List UciMove) (h : ∀ m ∈ ms, MoveOk m) :
    All P (movesText ms) := by
  apply all_joinSp hP
  intro t ht
  obtain ⟨m, hm, rfl⟩ := List.mem_map.mp ht
  exact all_render hP (h m hm)

theorem all_scoreText {P : Char → Prop} (hP : Tame P) (s : Score) : All P (scoreText s) := by
  rw [scoreText_eq]
  apply all_joinSp hP
  intro t ht
  cases s with
  | cp v =>
    simp only [scoreToks, List.mem_cons, List.not_mem_nil, or_false] at ht
    rcases ht with rfl | rfl
    · exact Plain.all hP (by decide)
    · exact all_intText hP v
  | cpBounded v b =>
    simp only [scoreToks, List.mem_cons, List.not_mem_nil, or_false] at ht
    rcases ht with rfl | rfl | rfl
    · exact Plain.all hP (by decide)
    · exact all_intText hP v
    · exact Plain.all hP (by cases b <;> decide)
  | mate v =>
    simp only [scoreToks, List.mem_cons, List.not_mem_nil, or_false] at ht
    rcases ht with rfl | rfl
    · exact Plain.all hP (by decide)
    · exact all_intText hP v

theorem all_seg {P : Char → Prop} (hP : Tame P) {key : List Char} (hk : Plain key) {α : Type} (f : α → List Char)
    (o : Option α) (h : ∀ x, o = some x → All P (f x)) : All P (appendMaybe key (o.map f)) := by
  cases o with
  | none => exact All.nil
  | some x => exact All.cons hP.space ((hk.all hP).append (All.cons hP.space (h x rfl)))

/-- the moves of an optional move list -/
def optMoves : Option (List UciMove) → List UciMove
  | none => []
  | some ms => ms

/-- all moves a message carries -/
def movesOf : TxMsg → List UciMove
  | .bestMove b p => b.toList ++ p.toList
  | .info i => optMoves i.pv ++ (i.currmove.toList ++ (optMoves i.refutation ++ optMoves (i.currline.map (·.line))))
  | _ => []

/-- all free texts a message carries -/
def textsOf : TxMsg → List (List Char)
  | .idName n => [n]
  | .idAuthor a => [a]
  | .info i => i.string.toList
  | .optionCheck n _ => [n]
  | .optionSpin n _ _ _ => [n]
  | .optionCombo n d vars => n :: d :: vars
  | .optionButton n => [n]
  | .optionString n d => [n, d]
  | _ => []

theorem all_infoText {P : Char → Prop} (hP : Tame P) (i : Info) (hm : ∀ m ∈ movesOf (.info i), MoveOk m)
    (ht : ∀ t ∈ textsOf (.info i), All P t) : All P (infoText i) := by
  have hpv : ∀ ms, i.pv = some ms → ∀ m ∈ ms, MoveOk m := by
    intro ms e m hmm; apply hm; simp [movesOf, e, optMoves, hmm]
  have hcm : ∀ m, i.currmove = some m → MoveOk m := by
    intro m e; apply hm; simp [movesOf, e]
  have hrf : ∀ ms, i.refutation = some ms → ∀ m ∈ ms, MoveOk m := by
    intro ms e m hmm; apply hm; simp [movesOf, e, optMoves, hmm]
  have hcl : ∀ c, i.currline = some c → ∀ m ∈ c.line, MoveOk m := by
    intro c e m hmm; apply hm; simp [movesOf, e, optMoves, hmm]
  have hstr : All P (appendMaybe "string".toList i.string) := by
    have := all_seg hP (key := "string".toList) (by decide) id i.string
      (fun x e => ht x (by simp [textsOf, e]))
    simpa using this
  simp only [infoText, infoSegments, List.flatten_cons, List.flatten_nil, List.append_nil]
  refine (Plain.all hP (by decide)).append ?_
  repeat' apply All.append
  all_goals first
    | exact hstr
    | exact all_seg hP (by decide) natText _ (fun x _ => all_natText hP x)
    | exact all_seg hP (by decide) movesText _ (fun x e => all_movesText hP x (hpv x e))
    | exact all_seg hP (by decide) movesText _ (fun x e => all_movesText hP x (hrf x e))
    | exact all_seg hP (by decide) scoreText _ (fun x _ => all_scoreText hP x)
    | exact all_seg hP (by decide) UciMove.render _ (fun x e => all_render hP (hcm x e))
    | exact all_seg hP (by decide) currentLineText _ (fun x e =>
        (all_natText hP x.cpu).append (All.cons hP.space (all_movesText hP x.line (hcl x e))))

/-! ### `str::trim` -/

theorem mem_trimStart {c : Char} : ∀ {l : List Char}, c ∈ Uci.trimStart l → c ∈ l
  | [], h => by simp [Uci.trimStart] at h
  | x :: xs, h => by
    unfold Uci.trimStart at h
    split at h
    · exact List.mem_cons_of_mem _ (mem_trimStart h)
    · exact h

theorem mem_trim {c : Char} {l : List Char} (h : c ∈ Uci.trim l) : c ∈ l := by
  unfold Uci.trim Uci.trimEnd at h
  have := mem_trimStart (List.mem_reverse.mp h)
  exact mem_trimStart (List.mem_reverse.mp this)

theorem trimStart_id {l : List Char} (h : ∀ c, l.head? = some c → Uci.isWhiteSpace c = false) :
    Uci.trimStart l = l := by
  cases l with
  | nil => rfl
  | cons c cs => simp [Uci.trimStart, h c rfl]

/-- `trim` leaves a text alone whose first and last characters are not white space -/
theorem trim_id {l : List Char} (h0 : ∀ c, l.head? = some c → Uci.isWhiteSpace c = false)
    (h1 : ∀ c, l.getLast? = some c → Uci.isWhiteSpace c = false) : Uci.trim l = l := by
  unfold Uci.trim Uci.trimEnd
  rw [trimStart_id h0, trimStart_id (by simpa [List.head?_reverse] using h1), List.reverse_reverse]

/-- … and removes one trailing space after such a text -/
theorem trim_snoc_space {l : List Char} (h0 : ∀ c, l.head? = some c → Uci.isWhiteSpace c = false)
    (h1 : ∀ c, l.getLast? = some c → Uci.isWhiteSpace c = false) (hne : l ≠ []) : Uci.trim (l ++ [' ']) = l := by
  unfold Uci.trim Uci.trimEnd
  have hs : Uci.trimStart (l ++ [' ']) = l ++ [' '] := by
    apply trimStart_id
    cases l with
    | nil => exact absurd rfl hne
    | cons c cs => simpa using h0
  rw [hs, List.reverse_append]
  have hw : Uci.isWhiteSpace ' ' = true := by decide
  simp only [List.reverse_cons, List.reverse_nil, List.nil_append, List.cons_append, Uci.trimStart, hw, if_true]
  rw [trimStart_id (by simpa [List.head?_reverse] using h1), List.reverse_reverse]

/-! ## 6. the other messages -/

theorem acceptsFields_id {w : Tok} (hw : w = "name".toList ∨ w = "author".toList) {text : List Char}
    (h : text ≠ []) : acceptsFields (splitOnChar ' ' ("id".toList ++ ' ' :: (w ++ ' ' :: text))) = true := by
  have hw' : ' ' ∉ w := by rcases hw with rfl | rfl <;> decide
  rw [split_append, split_append, split_nosep (by decide), split_nosep hw']
  have := isText_split h
  rcases hw with rfl | rfl <;> simp [acceptsFields, this]

/-- `ponder_string` of `best_move` -/
def ponderText : Option UciMove → List Char
  | none => []
  | some p => " ponder ".toList ++ p.render

theorem acceptsFields_best {M : Tok} (hM : isMove M = true ∨ M = "0000".toList) (ponder : Option UciMove)
    (hp : ∀ p, ponder = some p → MoveOk p) :
    acceptsFields (splitOnChar ' ' ("bestmove".toList ++ ' ' :: (M ++ ponderText ponder))) = true := by
  have hM' : ' ' ∉ M := by
    rcases hM with h | rfl
    · exact (hi_of_isMove h).nosp
    · decide
  cases ponder with
  | none =>
    have e : "bestmove".toList ++ ' ' :: (M ++ []) = "bestmove".toList ++ sp [M] := by simp [sp]
    show acceptsFields (splitOnChar ' ' ("bestmove".toList ++ ' ' :: (M ++ []))) = true
    rw [e, split_sp (by decide) _ (by simpa using hM')]
    rcases hM with h | rfl
    · simp [acceptsFields, h]
    · decide
  | some p =>
    have hpm := isMove_render (hp p rfl)
    have e : "bestmove".toList ++ ' ' :: (M ++ (" ponder ".toList ++ p.render))
        = "bestmove".toList ++ sp [M, "ponder".toList, p.render] := by simp [sp]
    show acceptsFields (splitOnChar ' ' ("bestmove".toList ++ ' ' :: (M ++ (" ponder ".toList ++ p.render)))) = true
    rw [e, split_sp (by decide) _ (by
      intro t ht
      simp only [List.mem_cons, List.not_mem_nil, or_false] at ht
      rcases ht with rfl | rfl | rfl
      · exact hM'
      · decide
      · exact (hi_of_isMove hpm).nosp)]
    rcases hM with h | rfl
    · simp [acceptsFields, h, hpm]
    · simp [acceptsFields, hpm]

/-! ### `option` -/

/-- the option name: not empty, does not start with a space -/
def NameOk (n : List Char) : Prop := n ≠ [] ∧ n.head? ≠ some ' '

instance (n : List Char) : Decidable (NameOk n) := by unfold NameOk; infer_instance

/-- the text at the end of the line is not empty and `trim` does not shorten it -/
def EndOk (s : List Char) : Prop := s ≠ [] ∧ ∀ c, s.getLast? = some c → Uci.isWhiteSpace c = false

instance (s : List Char) : Decidable (EndOk s) := by
  unfold EndOk
  cases h : s.getLast? with
  | none => exact decidable_of_iff (s ≠ []) (by simp)
  | some c => exact decidable_of_iff (s ≠ [] ∧ Uci.isWhiteSpace c = false) (by simp)

theorem optScan_append (pre r : List Tok) (h : optType r = true) : optScan (pre ++ "type".toList :: r) = true := by
  induction pre with
  | nil => rw [List.nil_append, optScan, h]; rfl
  | cons t ts ih => rw [List.cons_append, optScan, ih, Bool.or_true]

/-- the untrimmed option line -/
def optionLine (name type remainder : List Char) : List Char :=
  "option name ".toList ++ (name ++ (" type ".toList ++ (type ++ ' ' :: remainder)))

theorem split5 {a b c d : Tok} (ha : ' ' ∉ a) (hb : ' ' ∉ b) (hc : ' ' ∉ c) (hd : ' ' ∉ d) (n r : List Char) :
    splitOnChar ' ' (a ++ ' ' :: (b ++ ' ' :: (n ++ ' ' :: (c ++ ' ' :: (d ++ ' ' :: r)))))
      = a :: b :: (splitOnChar ' ' n ++ c :: d :: splitOnChar ' ' r) := by
  rw [split_append, split_append, split_append, split_append, split_append, split_nosep ha, split_nosep hb,
    split_nosep hc, split_nosep hd]
  rfl

theorem split4 {a b c d : Tok} (ha : ' ' ∉ a) (hb : ' ' ∉ b) (hc : ' ' ∉ c) (hd : ' ' ∉ d) (n : List Char) :
    splitOnChar ' ' (a ++ ' ' :: (b ++ ' ' :: (n ++ ' ' :: (c ++ ' ' :: d))))
      = a :: b :: (splitOnChar ' ' n ++ [c, d]) := by
  rw [split_append, split_append, split_append, split_append, split_nosep ha, split_nosep hb,
    split_nosep hc, split_nosep hd]
  rfl

/-- `option name <n0 …> type <…>` -/
theorem acceptsFields_option {n0 : Tok} (h0 : n0 ≠ []) (pre r : List Tok) (h : optType r = true) :
    acceptsFields ("option".toList :: "name".toList :: n0 :: (pre ++ "type".toList :: r)) = true := by
  have := optScan_append pre r h
  simpa [acceptsFields, h0] using this

theorem name_fields {name : List Char} (hn : NameOk name) :
    ∃ n0 pre, n0 ≠ [] ∧ splitOnChar ' ' name = n0 :: pre := by
  obtain ⟨hne, hhd⟩ := hn
  cases name with
  | nil => exact absurd rfl hne
  | cons c cs =>
    have hc : c ≠ ' ' := by simpa using hhd
    exact ⟨_, _, by simp, split_cons_ne hc cs⟩

theorem optionLine_fields {name type rem : List Char} (hn : NameOk name) (hty : ' ' ∉ type)
    (h : optType (type :: splitOnChar ' ' rem) = true) :
    acceptsFields (splitOnChar ' ' (optionLine name type rem)) = true := by
  have e : optionLine name type rem = "option".toList ++ ' ' :: ("name".toList ++ ' ' :: (name ++ ' ' ::
      ("type".toList ++ ' ' :: (type ++ ' ' :: rem)))) := by
    unfold optionLine
    simp only [String.reduceToList, List.cons_append, List.nil_append]
  obtain ⟨n0, pre, h0, hs⟩ := name_fields hn
  rw [e, split5 (by decide) (by decide) (by decide) hty, hs]
  exact acceptsFields_option h0 pre _ h

/-- `button`: after `trim` the line ends in `type button` -/
theorem optionButton_fields {name : List Char} (hn : NameOk name) :
    acceptsFields (splitOnChar ' ' ("option name ".toList ++ (name ++ " type button".toList))) = true := by
  have e : "option name ".toList ++ (name ++ " type button".toList) = "option".toList ++ ' ' ::
      ("name".toList ++ ' ' :: (name ++ ' ' :: ("type".toList ++ ' ' :: "button".toList))) := by
    simp only [String.reduceToList, List.cons_append, List.nil_append]
  obtain ⟨n0, pre, h0, hs⟩ := name_fields hn
  rw [e, split4 (by decide) (by decide) (by decide) (by decide), hs]
  exact acceptsFields_option h0 pre _ (by decide)

theorem getLast?_append_ne {a b : List Char} (h : b ≠ []) : (a ++ b).getLast? = b.getLast? := by
  rw [List.getLast?_append]
  cases hb : b.getLast? with
  | none => exact absurd (List.getLast?_eq_none_iff.mp hb) h
  | some c => rfl

theorem optionLine_trim {name type rem : List Char} (hr : EndOk rem) :
    Uci.trim (optionLine name type rem) = optionLine name type rem := by
  apply trim_id
  · intro c hc; unfold optionLine at hc; simp at hc; subst hc; decide
  · intro c hc
    obtain ⟨hne, hl⟩ := hr
    apply hl
    unfold optionLine at hc
    rw [getLast?_append_ne (by simp), getLast?_append_ne (by simp), getLast?_append_ne (by simp),
      getLast?_append_ne (by simp), ← List.singleton_append, getLast?_append_ne hne] at hc
    exact hc

theorem optionButton_trim (name : List Char) :
    optionText name "button".toList [] = "option name ".toList ++ (name ++ " type button".toList) := by
  have e : "option name ".toList ++ (name ++ (" type ".toList ++ ("button".toList ++ [' '])))
      = ("option name ".toList ++ (name ++ " type button".toList)) ++ [' '] := by simp
  unfold optionText
  rw [e]
  apply trim_snoc_space
  · intro c hc; simp at hc; subst hc; decide
  · intro c hc
    have e2 : "option name ".toList ++ (name ++ " type button".toList)
        = ("option name ".toList ++ (name ++ " type butto".toList)) ++ ['n'] := by simp
    rw [e2, List.getLast?_concat] at hc
    cases hc; decide
  · simp

theorem isText_cons_split (d : Tok) (rest : List Char) (h : d ≠ []) : isText (d :: splitOnChar ' ' rest) = true := by
  cases hs : splitOnChar ' ' rest <;> simp [isText, h]

/-! ## 7. the theorems -/

/-- an optional free text without line break -/
def TextOptOk : Option (List Char) → Prop
  | none => True
  | some s => ∀ c ∈ s, isLineBreak c = false

instance (o : Option (List Char)) : Decidable (TextOptOk o) := by
  cases o <;> unfold TextOptOk <;> infer_instance

theorem wfInfo_iff (i : Info) : WFInfo i ↔
    MovesOk i.pv ∧ MoveOptOk i.currmove ∧ MovesOk i.refutation ∧ CurrlineOk i.currline ∧ TextOptOk i.string := by
  constructor
  · intro h
    refine ⟨h.pv, h.currmove, h.refutation, h.currline, ?_⟩
    cases hs : i.string with
    | none => trivial
    | some s => exact h.string s hs
  · rintro ⟨h1, h2, h3, h4, h5⟩
    refine ⟨h1, h2, h3, h4, ?_⟩
    intro s hs; rw [hs] at h5; exact h5

instance (i : Info) : Decidable (WFInfo i) := decidable_of_iff _ (wfInfo_iff i).symm

/-- side conditions under which a message value is printed as a UCI line: squares are squares, free text has no
line break, `id` texts are not empty (the Rust `assert!`s it), **present move lists are not empty** (`WFInfo`), an
option name is not empty and does not start with a space, a string/combo default is not empty and does not end in
white space (`trim` would eat it) -/
def WFMsg : TxMsg → Prop
  | .idName n => n ≠ [] ∧ ∀ c ∈ n, isLineBreak c = false
  | .idAuthor a => a ≠ [] ∧ ∀ c ∈ a, isLineBreak c = false
  | .uciOk => True
  | .readyOk => True
  | .bestMove b p => MoveOptOk b ∧ MoveOptOk p
  | .copyProtection _ => True
  | .registration _ => True
  | .info i => WFInfo i
  | .optionCheck n _ => NameOk n ∧ ∀ c ∈ n, isLineBreak c = false
  | .optionSpin n _ _ _ => NameOk n ∧ ∀ c ∈ n, isLineBreak c = false
  | .optionCombo n d vars =>
    NameOk n ∧ EndOk (d ++ varsText vars) ∧ ∀ t ∈ n :: d :: vars, ∀ c ∈ t, isLineBreak c = false
  | .optionButton n => NameOk n ∧ ∀ c ∈ n, isLineBreak c = false
  | .optionString n d => NameOk n ∧ EndOk d ∧ ∀ t ∈ [n, d], ∀ c ∈ t, isLineBreak c = false

instance (m : TxMsg) : Decidable (WFMsg m) := by
  cases m <;> unfold WFMsg <;> infer_instance

theorem wf_moves {m : TxMsg} (h : WFMsg m) : ∀ mv ∈ movesOf m, MoveOk mv := by
  cases m with
  | bestMove b p =>
    intro mv hmv
    obtain ⟨hb, hp⟩ := h
    simp only [movesOf, List.mem_append, Option.mem_toList] at hmv
    rcases hmv with e | e
    · rw [e] at hb; exact hb
    · rw [e] at hp; exact hp
  | info i =>
    intro mv hmv
    have h : WFInfo i := h
    simp only [movesOf, List.mem_append, Option.mem_toList] at hmv
    rcases hmv with hmv | e | hmv | hmv
    · cases hpv : i.pv with
      | none => simp [hpv, optMoves] at hmv
      | some ms => have := h.pv; rw [hpv] at this hmv; exact this.2 mv hmv
    · have := h.currmove; rw [e] at this; exact this
    · cases hpv : i.refutation with
      | none => simp [hpv, optMoves] at hmv
      | some ms => have := h.refutation; rw [hpv] at this hmv; exact this.2 mv hmv
    · cases hpv : i.currline with
      | none => simp [hpv, optMoves] at hmv
      | some c => have := h.currline; rw [hpv] at this hmv; exact this.2 mv hmv
  | _ => intro mv hmv; simp [movesOf] at hmv

theorem wf_texts {m : TxMsg} (h : WFMsg m) : ∀ t ∈ textsOf m, ∀ c ∈ t, isLineBreak c = false := by
  cases m with
  | idName n => intro t ht; simp only [textsOf, List.mem_singleton] at ht; subst ht; exact h.2
  | idAuthor n => intro t ht; simp only [textsOf, List.mem_singleton] at ht; subst ht; exact h.2
  | info i =>
    intro t ht
    simp only [textsOf, Option.mem_toList] at ht
    exact (show WFInfo i from h).string t ht
  | optionCheck n _ => intro t ht; simp only [textsOf, List.mem_singleton] at ht; subst ht; exact h.2
  | optionSpin n _ _ _ => intro t ht; simp only [textsOf, List.mem_singleton] at ht; subst ht; exact h.2
  | optionButton n => intro t ht; simp only [textsOf, List.mem_singleton] at ht; subst ht; exact h.2
  | optionCombo n d vars => exact h.2.2
  | optionString n d => exact h.2.2
  | _ => intro t ht; simp [textsOf] at ht

theorem all_varsText {P : Char → Prop} (hP : Tame P) : ∀ (vars : List (List Char)), (∀ v ∈ vars, All P v) →
    All P (varsText vars)
  | [], _ => All.nil
  | v :: vs, h => by
    rw [varsText]
    exact (Plain.all hP (by decide)).append ((h v (by simp)).append
      (all_varsText hP vs (fun x hx => h x (by simp [hx]))))

theorem all_optionText {P : Char → Prop} (hP : Tame P) {name type rem : List Char} (hn : All P name)
    (ht : Plain type) (hr : All P rem) : All P (optionText name type rem) := by
  intro c hc
  have hL : All P ("option name ".toList ++ (name ++ (" type ".toList ++ (type ++ ' ' :: rem)))) :=
    (Plain.all hP (by decide)).append (hn.append ((Plain.all hP (by decide)).append
      ((ht.all hP).append (All.cons hP.space hr))))
  exact hL c (mem_trim hc)

/-- every character of a printed line is a space, `-`, a digit, a letter (`P` contains these), or comes from a free text -/
theorem all_renderChars {P : Char → Prop} (hP : Tame P) (m : TxMsg) (hm : ∀ mv ∈ movesOf m, MoveOk mv)
    (ht : ∀ t ∈ textsOf m, All P t) : All P (renderChars m) := by
  cases m with
  | idName n => exact (Plain.all hP (by decide)).append (ht n (by simp [textsOf]))
  | idAuthor n => exact (Plain.all hP (by decide)).append (ht n (by simp [textsOf]))
  | uciOk => exact Plain.all hP (by decide)
  | readyOk => exact Plain.all hP (by decide)
  | copyProtection p => exact Plain.all hP (by cases p <;> decide)
  | registration p => exact Plain.all hP (by cases p <;> decide)
  | info i => exact all_infoText hP i hm ht
  | bestMove b p =>
    refine (Plain.all hP (by decide)).append (All.append ?_ ?_)
    · cases b with
      | none => exact Plain.all hP (by decide)
      | some m => exact all_render hP (hm m (by simp [movesOf]))
    · cases p with
      | none => exact All.nil
      | some m => exact (Plain.all hP (by decide)).append (all_render hP (hm m (by simp [movesOf])))
  | optionCheck n d =>
    exact all_optionText hP (ht n (by simp [textsOf])) (by decide)
      ((Plain.all hP (by decide)).append (Plain.all hP (by cases d <;> decide)))
  | optionSpin n d lo hi =>
    exact all_optionText hP (ht n (by simp [textsOf])) (by decide)
      ((Plain.all hP (by decide)).append ((all_intText hP d).append ((Plain.all hP (by decide)).append
        ((all_intText hP lo).append ((Plain.all hP (by decide)).append (all_intText hP hi))))))
  | optionCombo n d vars =>
    exact all_optionText hP (ht n (by simp [textsOf])) (by decide)
      ((Plain.all hP (by decide)).append ((ht d (by simp [textsOf])).append
        (all_varsText hP vars (fun v hv => ht v (by simp [textsOf, hv])))))
  | optionButton n => exact all_optionText hP (ht n (by simp [textsOf])) (by decide) All.nil
  | optionString n d =>
    exact all_optionText hP (ht n (by simp [textsOf])) (by decide)
      ((Plain.all hP (by decide)).append (ht d (by simp [textsOf])))

theorem tame_noBreak : Tame (fun c => isLineBreak c = false) :=
  ⟨by decide, fun c h => by
    simp only [isLineBreak, Bool.or_eq_false_iff, decide_eq_false_iff_not]
    constructor <;> (intro e; subst e; revert h; decide)⟩

theorem tame_noLF : Tame (fun c => c ≠ '\n') :=
  ⟨by decide, fun c h e => by subst e; revert h; decide⟩

theorem hi_not_ws {t : List Char} (h : Hi t) : ∀ c ∈ t, Uci.isWhiteSpace c = false := by
  intro c hc
  have := h c hc
  simp only [Uci.isWhiteSpace, Bool.or_eq_false_iff, Bool.and_eq_false_iff, beq_eq_false_iff_ne,
    decide_eq_false_iff_not, ne_eq]
  omega

theorem endOk_hi {t : List Char} (hne : t ≠ []) (h : Hi t) : EndOk t :=
  ⟨hne, fun c hc => hi_not_ws h c (List.mem_of_getLast? hc)⟩

theorem endOk_append (a : List Char) {b : List Char} (h : EndOk b) : EndOk (a ++ b) :=
  ⟨by simp [h.1], fun c hc => h.2 c (by rwa [getLast?_append_ne h.1] at hc)⟩

theorem intText_ne (v : Int) : intText v ≠ [] := by
  have := isInt_intText v
  intro e; rw [e] at this; simp [isInt, isNat] at this

theorem spin_ok {d lo hi : Tok} (hd : isInt d = true) (hlo : isInt lo = true) (hhi : isInt hi = true) :
    optType ["spin".toList, "default".toList, d, "min".toList, lo, "max".toList, hi] = true := by
  simp [optType, spinParams, hd, hlo, hhi]

theorem text_ok {ty : Tok} (hty : ty = "combo".toList ∨ ty = "string".toList) (text : List Tok)
    (h : isText text = true) : optType (ty :: "default".toList :: text) = true := by
  rcases hty with rfl | rfl <;> simp [optType, h]

theorem acceptsFields_render (m : TxMsg) (h : WFMsg m) : acceptsFields (splitOnChar ' ' (renderChars m)) = true := by
  cases m with
  | idName n => exact acceptsFields_id (w := "name".toList) (Or.inl rfl) h.1
  | idAuthor n => exact acceptsFields_id (w := "author".toList) (Or.inr rfl) h.1
  | uciOk => decide
  | readyOk => decide
  | copyProtection p => cases p <;> decide
  | registration p => cases p <;> decide
  | info i => exact acceptsFields_info i h
  | bestMove b p =>
    obtain ⟨hb, hp⟩ := h
    have hp' : ∀ q, p = some q → MoveOk q := by intro q e; rw [e] at hp; exact hp
    cases b with
    | none =>
      have := acceptsFields_best (M := "0000".toList) (Or.inr rfl) p hp'
      cases p <;> exact this
    | some m =>
      have := acceptsFields_best (Or.inl (isMove_render hb)) p hp'
      cases p <;> exact this
  | optionCheck n d =>
    have hend : EndOk ("default ".toList ++ boolText d) :=
      endOk_append _ (endOk_hi (by cases d <;> decide) (by cases d <;> decide))
    show acceptsFields (splitOnChar ' ' (Uci.trim (optionLine n _ _))) = true
    rw [optionLine_trim hend]
    exact optionLine_fields h.1 (by decide) (by cases d <;> decide)
  | optionSpin n d lo hi =>
    have hend : EndOk ("default ".toList ++ (intText d ++ (" min ".toList ++ (intText lo ++ (" max ".toList ++
        intText hi))))) :=
      endOk_append _ (endOk_append _ (endOk_append _ (endOk_append _ (endOk_append _
        (endOk_hi (intText_ne hi) (hi_of_isInt (isInt_intText hi)))))))
    show acceptsFields (splitOnChar ' ' (Uci.trim (optionLine n _ _))) = true
    rw [optionLine_trim hend]
    apply optionLine_fields h.1 (by decide)
    have e : "default ".toList ++ (intText d ++ (" min ".toList ++ (intText lo ++ (" max ".toList ++ intText hi))))
        = "default".toList ++ sp [intText d, "min".toList, intText lo, "max".toList, intText hi] := by
      simp only [String.reduceToList, List.cons_append, List.nil_append, sp, List.append_nil]
    rw [e, split_sp (by decide)]
    · exact spin_ok (isInt_intText d) (isInt_intText lo) (isInt_intText hi)
    · intro t ht
      simp only [List.mem_cons, List.not_mem_nil, or_false] at ht
      rcases ht with rfl | rfl | rfl | rfl | rfl
      · exact (hi_of_isInt (isInt_intText d)).nosp
      · decide
      · exact (hi_of_isInt (isInt_intText lo)).nosp
      · decide
      · exact (hi_of_isInt (isInt_intText hi)).nosp
  | optionCombo n d vars =>
    obtain ⟨hn, hend, -⟩ := h
    show acceptsFields (splitOnChar ' ' (Uci.trim (optionLine n _ _))) = true
    rw [optionLine_trim (endOk_append _ hend)]
    apply optionLine_fields hn (by decide)
    have e : "default ".toList ++ (d ++ varsText vars) = "default".toList ++ ' ' :: (d ++ varsText vars) := by
      simp only [String.reduceToList, List.cons_append, List.nil_append]
    rw [e, split_append, split_nosep (t := "default".toList) (by decide)]
    exact text_ok (Or.inl rfl) _ (isText_split hend.1)
  | optionButton n =>
    show acceptsFields (splitOnChar ' ' (optionText n "button".toList [])) = true
    rw [optionButton_trim]
    exact optionButton_fields h.1
  | optionString n d =>
    obtain ⟨hn, hend, -⟩ := h
    show acceptsFields (splitOnChar ' ' (Uci.trim (optionLine n _ _))) = true
    rw [optionLine_trim (endOk_append _ hend)]
    apply optionLine_fields hn (by decide)
    have e : "default ".toList ++ d = "default".toList ++ ' ' :: d := by
      simp only [String.reduceToList, List.cons_append, List.nil_append]
    rw [e, split_append, split_nosep (t := "default".toList) (by decide)]
    exact text_ok (Or.inr rfl) _ (isText_split hend.1)

theorem renderChars_accepts (m : TxMsg) (h : WFMsg m) : accepts (renderChars m) = true := by
  unfold accepts
  have h1 : (renderChars m).any isLineBreak = false := by
    rw [List.any_eq_false]
    intro c hc
    have := all_renderChars tame_noBreak m (wf_moves h) (wf_texts h) c hc
    simp [this]
  rw [h1, acceptsFields_render m h]; rfl

/-- **C16, output syntax.**  Every message value (all subsets of the 17 optional `info` fields, all integers, all move
lists, all free texts) that satisfies the side conditions `WFMsg` is printed as a line of the engine-to-GUI grammar. -/
theorem render_accepts (m : TxMsg) (h : WFMsg m) : accepts (render m).toList = true := by
  rw [render, String.toList_ofList]; exact renderChars_accepts m h

/-- **one call, one line**: if the free texts of the message contain no U+000A (and squares are squares), the printed
line contains none — `println!` then writes exactly one line.  No non-emptiness condition is needed here. -/
theorem render_single_line (m : TxMsg) (hm : ∀ mv ∈ movesOf m, MoveOk mv) (ht : ∀ t ∈ textsOf m, '\n' ∉ t) :
    '\n' ∉ (render m).toList := by
  rw [render, String.toList_ofList]
  intro hc
  exact all_renderChars tame_noLF m hm (fun t htt c hcc e => ht t htt (e ▸ hcc)) '\n' hc rfl

#print axioms render_accepts
#print axioms render_single_line

/-! ## 8. the side condition on `pv` is necessary -/

def Bad (rest : List Tok) : Prop := ∀ more, items more rest = false

theorem bad_natField {key : Tok} (hk : key ∈ natKeys) (o : Option Nat) {rest : List Tok} (h : Bad rest) :
    Bad (natField key o ++ rest) := by
  cases o with
  | none => exact h
  | some n =>
    intro more
    simp only [natField, List.cons_append, List.nil_append]
    rw [items_nat (natKeys_kind key hk).1 (natKeys_kind key hk).2, h false, Bool.and_false]

theorem bad_empty_pv (X : List Tok) : Bad ("pv".toList :: [] :: X) := by
  intro more
  rw [items_moves (by decide) (by decide)]; rfl

theorem seg_head (key : List Char) (o : Option (List Char)) :
    appendMaybe key o = [] ∨ ∃ r, appendMaybe key o = ' ' :: r := by
  cases o with
  | none => exact Or.inl rfl
  | some v => exact Or.inr ⟨_, rfl⟩

theorem flatten_head : ∀ (segs : List (List Char)), (∀ s ∈ segs, s = [] ∨ ∃ r, s = ' ' :: r) →
    segs.flatten = [] ∨ ∃ r, segs.flatten = ' ' :: r
  | [], _ => Or.inl rfl
  | s :: segs, h => by
    rcases h s (by simp) with rfl | ⟨r, rfl⟩
    · simpa using flatten_head segs (fun x hx => h x (by simp [hx]))
    · exact Or.inr ⟨r ++ segs.flatten, by simp⟩

/-- **the printer can produce a line that is not UCI**: an `Info` whose principal variation is the empty list is
printed with nothing after `pv ` (a double space or a trailing space), which the grammar rejects — whatever the
other 16 fields are -/
theorem empty_pv_rejected (i : Info) (h : i.pv = some []) : accepts (render (.info i)).toList = false := by
  rw [render, String.toList_ofList]
  show accepts (infoText i) = false
  unfold accepts
  suffices hs : acceptsFields (splitOnChar ' ' (infoText i)) = false by rw [hs, Bool.and_false]
  let pre : List Tok := natField "depth".toList i.depth ++ (natField "seldepth".toList i.seldepth ++
    (natField "time".toList i.time ++ natField "nodes".toList i.nodes))
  obtain ⟨tail, htail, e⟩ : ∃ tail, (tail = [] ∨ ∃ r, tail = ' ' :: r) ∧
      infoText i = ("info".toList ++ sp pre) ++ ' ' :: ("pv".toList ++ ' ' :: tail) := by
    refine ⟨(((infoSegments i).drop 5).flatten), ?_, ?_⟩
    · apply flatten_head
      intro s hs
      simp only [infoSegments, List.drop_succ_cons, List.drop_zero, List.mem_cons, List.not_mem_nil, or_false] at hs
      rcases hs with rfl | rfl | rfl | rfl | rfl | rfl | rfl | rfl | rfl | rfl | rfl | rfl <;> exact seg_head _ _
    · have hpv : appendMaybe "pv".toList (i.pv.map movesText) = ' ' :: ("pv".toList ++ ' ' :: []) := by
        rw [h]; rfl
      simp only [infoText, infoSegments, List.flatten_cons, List.flatten_nil, List.drop_succ_cons, List.drop_zero,
        seg_nat, hpv, pre, sp_append, List.append_assoc, List.append_nil, List.cons_append, List.nil_append]
  have hpre : ∀ t ∈ pre, ' ' ∉ t := by
    have : FieldOk pre := by
      repeat' apply FieldOk.append
      all_goals exact natField_ok (by decide) _
    exact fun t ht => (this.hi t ht).nosp
  obtain ⟨X, hX⟩ : ∃ X, splitOnChar ' ' tail = [] :: X := by
    rcases htail with rfl | ⟨r, rfl⟩
    · exact ⟨[], rfl⟩
    · exact ⟨splitOnChar ' ' r, by simp [splitOnChar]⟩
  rw [e, split_append, split_append, split_sp (by decide) _ hpre, split_nosep (t := "pv".toList) (by decide), hX]
  have hinfo : ∀ rest, acceptsFields ("info".toList :: rest) = items false rest := by
    intro rest; simp [acceptsFields]
  rw [List.cons_append, hinfo]
  have hb : Bad (pre ++ ("pv".toList :: [] :: X)) := by
    simp only [pre, List.append_assoc]
    exact bad_natField (by decide) _ (bad_natField (by decide) _ (bad_natField (by decide) _
      (bad_natField (by decide) _ (bad_empty_pv X))))
  exact hb false

#print axioms empty_pv_rejected

/-! ## 9. non-vacuity -/

/-- the fully populated line of the (commented-out) Rust test `info_all` -/
example : renderChars (.info infoAll) = "info depth 20 seldepth 10 time 21234 nodes 45000000 pv a1a2 a3a4 multipv 1 score cp 200 lowerbound currmove h8h7q currmovenumber 24 hashfull 80 nps 200000000 tbhits 213333 sbhits 2040 cpuload 99 refutation d1d2 c3c4 currline 1 h1h2 b3b4 string hi it's info".toList := by
  decide +kernel
example : WFMsg (.info infoAll) := by decide
example : accepts (render (.info infoAll)).toList = true := render_accepts _ (by decide)
example : '\n' ∉ (render (.info infoAll)).toList := render_single_line _ (by decide) (by decide)

/-- what the engine sends: `id`, `uciok`, `readyok`, `registration`, iteration infos, periodic infos, `bestmove` -/
example : WFMsg (.idName "Inkayaku".toList) ∧
    WFMsg (.idAuthor "Marvin Kuhnke (see https://github.com/marvk/rust-chess)".toList) ∧
    WFMsg .uciOk ∧ WFMsg .readyOk ∧ WFMsg (.registration .checking) ∧ WFMsg (.registration .ok) ∧
    WFMsg (.info { depth := some 3, time := some 12, nodes := some 4711, pv := some [⟨52, 36, none⟩, ⟨12, 28, none⟩],
                   score := some (.cp (-17)), hashfull := some 1, nps := some 392583 }) ∧
    WFMsg (.info { time := some 7, nodes := some 1000, hashfull := some 0, nps := some 142857 }) ∧
    WFMsg (.info { depth := some 0, time := some 0, nodes := some 1, hashfull := some 0, nps := some 0,
                   string := some "tphitrate NaN nrate 1 qrate 0 avgqdepth NaN qstartedrate 0 qtphitrate NaN".toList }) ∧
    WFMsg (.bestMove (some ⟨52, 36, none⟩) (some ⟨12, 28, none⟩)) ∧ WFMsg (.bestMove none none) ∧
    WFMsg (.bestMove (some ⟨8, 0, some .queen⟩) none) := by decide

/-- `option` lines (never sent by the engine) -/
example : WFMsg (.optionButton "Clear Hash".toList) ∧ WFMsg (.optionCheck "Nullmove".toList true) ∧
    WFMsg (.optionSpin "Selectivity".toList 2 0 4) ∧
    WFMsg (.optionCombo "Style".toList "Normal".toList ["Solid".toList, "Normal".toList, "Risky".toList]) ∧
    WFMsg (.optionString "NalimovPath".toList "c:\\".toList) := by decide

/-- the side conditions are not decoration: each of these values is printed as a line the grammar rejects -/
example : ¬ WFMsg (.info { depth := some 1, pv := some [], score := some (.cp 3) }) := by decide
example : accepts (render (.info { depth := some 1, pv := some [], score := some (.cp 3) })).toList = false :=
  empty_pv_rejected _ rfl
#guard render (.info { depth := some 1, pv := some [], score := some (.cp 3) }) == "info depth 1 pv  score cp 3"
#guard !accepts (render (.info { refutation := some [] })).toList               -- "info refutation "
#guard !accepts (render (.info { currline := some ⟨1, []⟩ })).toList             -- "info currline 1 "
#guard !accepts (render (.info { string := some "a\nquit".toList })).toList      -- two lines
#guard !accepts (render (.idName [])).toList                                     -- "id name " (Rust: assert! panics)
#guard !accepts (render (.bestMove (some ⟨64, 0, none⟩) none)).toList            -- not a square: "bestmove a0a8"
#guard !accepts (render (.optionString "X".toList [])).toList                    -- "option name X type string default"
#guard !accepts (render (.optionCheck " X".toList true)).toList                  -- two spaces after `name`
#guard accepts (render (.info infoAll)).toList

/- TARGET (not proved here; outside the three deliverables, recorded so that the gap is visible): the values the
   engine hands to the printer satisfy `WFMsg`, i.e. the bridge from the search model to this file.

     def ofOut : Search.Out → TxMsg      -- `.info d t n sc pv` ↦ `.info { depth := d, time := t, nodes := some n, score := …,
                                         --    pv := pv.map (·.map uciOf), hashfull := some _, nps := some _ }`, `.bestMove b p` ↦ `.bestMove …`
     theorem engine_out_wf (s : Search.St) (g) (maxIter) : ∀ o ∈ (Search.goCmd s g maxIter).out, o ∉ s.out → WFMsg (ofOut o)

   Every conjunct of `WFMsg (ofOut o)` is immediate (squares of generated moves are < 64, the debug string is a
   `format!` of numbers) except `pv ≠ some []`.  For the info emitted last before `bestmove` it follows from
   `C16.bestmove_is_pv0_ponder_is_pv1` (`pvl[0]? = some m`).  For all infos: in `Search.deepen` the PV variable is `none`
   until an iteration is not aborted, `aborted = stop || cur.mv.isNone`, and `cur.mv = some m` gives `cur.pv = m :: _`
   (`SearchTrace.VM.pv_of_mv`); polling infos carry `none`.  That is an induction over `deepen` of the shape of
   `SearchTrace.deepen_head` (or `SearchPv.goCmd_pv_ok` instantiated with `P b l := l ≠ []`). -/

end Inkayaku.C16Console
