import Inkayaku.Proofs.EvalFlip
import Inkayaku.Model.FenBoard
/-!
# C11 – colour-flip symmetry of the static evaluation, terminal scores, mate ordering

Models: `Inkayaku.Eval` (`Heuristic::evaluate`, `score_from_value`, `is_checkmate`, `SimpleHeuristic`), tables and
thresholds of the CURRENT build (`Gen.Eval`), `Generate.flipBoard` (mirror vertically, swap colours, side to move and
castling rights, mirror the e.p. square; the clocks are kept).  Helper lemmas: `Proofs/EvalFlip.lean`.

Proved here (all complete, no hypothesis left open):

* `black_tables_mirror`, `tables_shape`: `blackTables[stage][piece][mirror sq] = - whiteTables[stage][piece][sq]`
  for all 3 × 6 × 64 entries (kernel computation on the generated tables);
* `eval_flip`: `evaluateOngoing (flipBoard b) = - evaluateOngoing b` for EVERY board (no well-formedness);
* `evaluate_flip`: `evaluate (flipBoard b) lm = - evaluate b lm` for ongoing AND terminal positions, for every board
  with `turn ≤ 1` and exactly one king of the side to move (in particular every `WF.wf` board); the terminal case
  uses `isCurrentInCheck (flipBoard b) = isCurrentInCheck b`, proved through C04 (magic lookup = ray attack);
  `evaluate_flip_mover`: the same from the mover's point of view (`factor turn * evaluate` is unchanged);
* `terminal_sign`, `checkmate_sign`, `stalemate_draw`: a checkmated side to move gets `-(winScore - fullmove) < 0`
  (the mating side the opposite), inside `is_checkmate`'s range; stalemate is `drawScore = 0`;
* `nearer_mate_better`: an earlier mate is strictly better for the mating side, a later one for the mated side;
* `score_mate_white/black`, `score_mated_white/black`, `score_cp`, `mate_score_flip`: `score_from_value` reports the
  value of "mate in N" / "mated in N" as `mate N` / `mate (-N)` for both root colours, centipawn values unchanged.

NOT proved here: the search half of C11 – see `TARGET (search_flip)` below.
-/
namespace Inkayaku.C11
open Inkayaku.Board Inkayaku.Gen Inkayaku.Eval Inkayaku.Generate Inkayaku.EvalFlip

/-! ## the tables of the current build -/

/-- `mirror sq = 8 * (7 - sq / 8) + sq % 8`; `bEntry`/`wEntry stage piece sq` are
`((blackTables/whiteTables.getD stage []).getD piece []).getD sq 0`, the reads of `pieceSquareValue` -/
theorem black_tables_mirror {stage piece sq : Nat} (hs : stage < 3) (hp : piece < 6) (hq : sq < 64) :
    ((blackTables.getD stage []).getD piece []).getD (8 * (7 - sq / 8) + sq % 8) 0
      = - ((whiteTables.getD stage []).getD piece []).getD sq 0 :=
  EvalFlip.black_tables_mirror hs hp hq

/-- 3 stages × 6 pieces × 64 squares: none of the `getD` above falls back to its default -/
theorem tables_shape :
    (whiteTables.length = 3 ∧ ∀ st ∈ whiteTables, st.length = 6 ∧ ∀ row ∈ st, row.length = 64) ∧
    (blackTables.length = 3 ∧ ∀ st ∈ blackTables, st.length = 6 ∧ ∀ row ∈ st, row.length = 64) := by
  have h := EvalFlip.tables_shape
  unfold shapeOk at h
  simp only [Bool.and_eq_true, beq_iff_eq, List.all_eq_true] at h
  exact h

/-! ## static evaluation -/

/-- the static evaluation of an ongoing game is negated by the colour flip, for every board -/
theorem eval_flip (b : Board) : evaluateOngoing (flipBoard b) = - evaluateOngoing b := EvalFlip.eval_flip b

theorem gameStage_flip (b : Board) : gameStage (flipBoard b) = gameStage b := EvalFlip.gameStage_flip b

/-- the flipped side to move is in check exactly when the original one is -/
theorem isCurrentInCheck_flip (b : Board) (ht : b.turn ≤ 1) (hk : popcount b.active.kings = 1) :
    isCurrentInCheck (flipBoard b) = isCurrentInCheck b := EvalFlip.isCurrentInCheck_flip b ht hk

/-- `Heuristic::evaluate` (fifty-move draw, checkmate, stalemate, ongoing) is negated by the colour flip -/
theorem evaluate_flip (b : Board) (lm : Bool) (ht : b.turn ≤ 1) (hk : popcount b.active.kings = 1) :
    evaluate (flipBoard b) lm = - evaluate b lm := EvalFlip.evaluate_flip b lm ht hk

theorem evaluate_flip_wf (b : Board) (lm : Bool) (h : WF.wf b = true) :
    evaluate (flipBoard b) lm = - evaluate b lm := EvalFlip.evaluate_flip_wf b lm h

/-- from the mover's point of view (`Search::evaluate` = `calculate_heuristic_factor(color) * evaluate`) the
leaf value is unchanged -/
theorem evaluate_flip_mover (b : Board) (lm : Bool) (ht : b.turn ≤ 1) (hk : popcount b.active.kings = 1) :
    factor (flipBoard b).turn * evaluate (flipBoard b) lm = factor b.turn * evaluate b lm := by
  rw [evaluate_flip b lm ht hk]
  have e : (flipBoard b).turn = 1 - b.turn := rfl
  rw [e]
  have : b.turn = 0 ∨ b.turn = 1 := by omega
  rcases this with h | h <;> rw [h] <;> simp [factor]

/-! ## terminal positions -/

/-- a side to move that is in check and has no legal move (`legal_moves_remaining = false`): its own score is
`-(winScore - fullmove)`, negative, the mating side's score is positive, and the value is a mate value in the sense of
`is_checkmate` as long as `fullmove < MAX_FULL_MOVES` -/
theorem terminal_sign (b : Board) (ht : b.turn ≤ 1) (hc : isCurrentInCheck b = true)
    (hf : (b.fullmove : Int) < maxFullMoves) :
    factor b.turn * evaluate b false = - (winScore - (b.fullmove : Int))
    ∧ factor b.turn * evaluate b false < 0
    ∧ 0 < - (factor b.turn * evaluate b false)
    ∧ isCheckmateValue (evaluate b false) = true
    ∧ isCheckmateValue (factor b.turn * evaluate b false) = true := by
  have hv := terminal_value b ht hc
  rw [maxFullMoves_val] at hf
  have hw := winScore_val
  have hm := maxFullMoves_val
  refine ⟨hv, by omega, by omega, ?_, ?_⟩
  · rw [isCheckmateValue_iff]
    have : b.turn = 0 ∨ b.turn = 1 := by omega
    rcases this with h | h <;> rw [h] at hv <;> simp only [factor] at hv <;> omega
  · rw [isCheckmateValue_iff]; omega

/-- `legal_moves_remaining` as the search computes it at a leaf is `false` exactly when there is no legal move -/
theorem noLegal_iff (b : Board) : isAnyMoveLegal b (genPseudo b) = false ↔ genLegal b = [] := by
  unfold isAnyMoveLegal genLegal
  rw [List.filter_eq_nil_iff, List.any_eq_false]

/-- checkmate in the chess sense (no legal move, in check), through the value the search passes -/
theorem checkmate_sign (b : Board) (ht : b.turn ≤ 1) (hmate : genLegal b = []) (hc : isCurrentInCheck b = true)
    (hf : (b.fullmove : Int) < maxFullMoves) :
    factor b.turn * evaluate b (isAnyMoveLegal b (genPseudo b)) = - (winScore - (b.fullmove : Int))
    ∧ factor b.turn * evaluate b (isAnyMoveLegal b (genPseudo b)) < 0 := by
  rw [(noLegal_iff b).mpr hmate]
  exact ⟨(terminal_sign b ht hc hf).1, (terminal_sign b ht hc hf).2.1⟩

/-- stalemate (no legal move, not in check) scores as a draw, and the draw score of this build is 0 for both sides -/
theorem stalemate_draw (b : Board) (hstale : genLegal b = []) (hc : isCurrentInCheck b = false) :
    evaluate b (isAnyMoveLegal b (genPseudo b)) = drawScore ∧ drawScore = 0
    ∧ factor b.turn * evaluate b (isAnyMoveLegal b (genPseudo b)) = 0 := by
  rw [(noLegal_iff b).mpr hstale]
  have h := stalemate_value b hc
  refine ⟨h.1, h.2, ?_⟩
  rw [h.1, h.2]; omega

/-- two checkmated positions, the first at an earlier full move: for the mating side (minus the mated mover's
score) the earlier mate is strictly better, for the mated side the later one -/
theorem nearer_mate_better (b₁ b₂ : Board) (ht₁ : b₁.turn ≤ 1) (ht₂ : b₂.turn ≤ 1)
    (hc₁ : isCurrentInCheck b₁ = true) (hc₂ : isCurrentInCheck b₂ = true) (hlt : b₁.fullmove < b₂.fullmove) :
    - (factor b₁.turn * evaluate b₁ false) > - (factor b₂.turn * evaluate b₂ false)
    ∧ factor b₁.turn * evaluate b₁ false < factor b₂.turn * evaluate b₂ false := by
  rw [terminal_value b₁ ht₁ hc₁, terminal_value b₂ ht₂ hc₂]
  omega

/-- the bare arithmetic: `winScore - f₁ > winScore - f₂` for `f₁ < f₂` -/
theorem nearer_mate_better_arith (f₁ f₂ : Nat) (h : f₁ < f₂) :
    winScore - (f₁ : Int) > winScore - (f₂ : Int) ∧ - (winScore - (f₁ : Int)) < - (winScore - (f₂ : Int)) := by
  omega

/-! ## `score_from_value`

The root value is mover-centric (negamax).  `make` increments the full-move number after a black move, so

* root white to move at full move `f`: white's N-th move is made at full move `f + N - 1` and leaves black to move at
  the SAME number; black's N-th move leaves white to move at `f + N`;
* root black to move at full move `f`: black's N-th move leaves white to move at `f + N`; white's N-th move leaves
  black to move at `f + N`. -/

/-- white to move mates in N: leaf = black to move, checkmated, at full move `f + N - 1`; root value
`winScore - (f + N - 1)`; the `offset` of `score_from_value` is 1 -/
theorem score_mate_white (r : Board) (N : Nat) (ht : r.turn = 0)
    (hb : (r.fullmove : Int) + N < maxFullMoves) :
    scoreFromValue (winScore - ((r.fullmove : Int) + N - 1)) r = .mate N := by
  rw [maxFullMoves_val] at hb
  have hw := winScore_val
  rw [scoreFromValue_pos _ _ (by omega)]
  simp only [ht, beq_self_eq_true, if_true]
  congr 1; omega

/-- black to move mates in N: leaf = white to move, checkmated, at full move `f + N`; white-centric value
`-(winScore - (f + N))`, root (black's) value `winScore - (f + N)`; offset 0 -/
theorem score_mate_black (r : Board) (N : Nat) (ht : r.turn = 1)
    (hb : (r.fullmove : Int) + N < maxFullMoves) :
    scoreFromValue (winScore - ((r.fullmove : Int) + N)) r = .mate N := by
  rw [maxFullMoves_val] at hb
  have hw := winScore_val
  rw [scoreFromValue_pos _ _ (by omega)]
  simp only [ht, Nat.reduceBEq, Bool.false_eq_true, if_false]
  congr 1; omega

/-- white to move gets mated in N (black's N-th move): leaf = white to move at full move `f + N`, value
`-(winScore - (f + N))` -/
theorem score_mated_white (r : Board) (N : Nat) (_ht : r.turn = 0)
    (hb : (r.fullmove : Int) + N < maxFullMoves) :
    scoreFromValue (- (winScore - ((r.fullmove : Int) + N))) r = .mate (- (N : Int)) := by
  rw [maxFullMoves_val] at hb
  have hw := winScore_val
  rw [scoreFromValue_neg _ _ (by omega)]
  congr 1; omega

/-- black to move gets mated in N (white's N-th move): leaf = black to move at full move `f + N`, white-centric value
`winScore - (f + N)`, root (black's) value `-(winScore - (f + N))` -/
theorem score_mated_black (r : Board) (N : Nat) (_ht : r.turn = 1)
    (hb : (r.fullmove : Int) + N < maxFullMoves) :
    scoreFromValue (- (winScore - ((r.fullmove : Int) + N))) r = .mate (- (N : Int)) := by
  rw [maxFullMoves_val] at hb
  have hw := winScore_val
  rw [scoreFromValue_neg _ _ (by omega)]
  congr 1; omega

/-- centipawn values (everything up to `winScore / 2` in absolute value) are reported unchanged -/
theorem score_cp (v : Int) (b : Board) (hv : (v.natAbs : Int) ≤ winScore / 2) : scoreFromValue v b = .cp v :=
  EvalFlip.score_cp v b hv

/-- the same four cases with the leaf value computed by `evaluate` on a checkmated leaf `m` and carried to the root
by negamax (odd ply: negated, even ply: as is) -/
theorem score_mate_leaf (r m : Board) (N : Nat) (hr : r.turn ≤ 1) (hm : m.turn = 1 - r.turn)
    (hc : isCurrentInCheck m = true)
    (hfull : m.fullmove + (1 - r.turn) = r.fullmove + N)    -- f + N - 1 for a white root, f + N for a black root
    (hb : (r.fullmove : Int) + N < maxFullMoves) :
    scoreFromValue (- (factor m.turn * evaluate m false)) r = .mate N := by
  rw [terminal_value m (by omega) hc]
  have : r.turn = 0 ∨ r.turn = 1 := by omega
  rcases this with h | h
  · have e : (m.fullmove : Int) = (r.fullmove : Int) + N - 1 := by omega
    rw [e, Int.neg_neg]
    exact score_mate_white r N h hb
  · have e : (m.fullmove : Int) = (r.fullmove : Int) + N := by omega
    rw [e, Int.neg_neg]
    exact score_mate_black r N h hb

theorem score_mated_leaf (r m : Board) (N : Nat) (hr : r.turn ≤ 1) (hm : m.turn = r.turn)
    (hc : isCurrentInCheck m = true) (hfull : m.fullmove = r.fullmove + N)
    (hb : (r.fullmove : Int) + N < maxFullMoves) :
    scoreFromValue (factor m.turn * evaluate m false) r = .mate (- (N : Int)) := by
  rw [terminal_value m (by omega) hc]
  have e : (m.fullmove : Int) = (r.fullmove : Int) + N := by omega
  rw [e]
  have : r.turn = 0 ∨ r.turn = 1 := by omega
  rcases this with h | h
  · exact score_mated_white r N h hb
  · exact score_mated_black r N h hb

/-- "mate in N" is reported identically for a root and its colour flip, although the RAW root values differ by one
(`winScore - (f + N - 1)` with white to move, `winScore - (f + N)` with black to move, because `flipBoard` keeps the
full-move number while `make` advances it only after black's move); "mated in N" has the same raw value. -/
theorem mate_score_flip (r : Board) (N : Nat) (ht : r.turn = 0) (hb : (r.fullmove : Int) + N < maxFullMoves) :
    scoreFromValue (winScore - ((r.fullmove : Int) + N - 1)) r
      = scoreFromValue (winScore - (((flipBoard r).fullmove : Int) + N)) (flipBoard r)
    ∧ scoreFromValue (- (winScore - ((r.fullmove : Int) + N))) r
      = scoreFromValue (- (winScore - (((flipBoard r).fullmove : Int) + N))) (flipBoard r) := by
  have e : (flipBoard r).fullmove = r.fullmove := rfl
  have t : (flipBoard r).turn = 1 := by show 1 - r.turn = 1; omega
  rw [score_mate_white r N ht hb, score_mate_black (flipBoard r) N t (by rw [e]; exact hb),
    score_mated_white r N ht hb, score_mated_black (flipBoard r) N t (by rw [e]; exact hb)]
  exact ⟨rfl, rfl⟩

/-
TARGET (search_flip) – not proved here, depends on the search model (written separately):

  for every well-formed root `b` and depth `d ≤ 3`, with `v = searchValue b d` and `v' = searchValue (flipBoard b) d`
  (mover-centric negamax values of `search_negamax`):
      scoreFromValue v' (flipBoard b) = scoreFromValue v b.

Note for that proof (established above): `make` does not commute with `flipBoard` on the full-move counter, so the RAW
values agree only for centipawn scores and "mated in N" scores; for "mate in N" they differ by exactly one
(`mate_score_flip`) and only the reported `Score` (centipawns / mate distance) is flip-invariant.  Ingredients available
here: `evaluate_flip_mover` (leaf values), `isCurrentInCheck_flip`, `EvalFlip.isValid_flip`,
`EvalFlip.rookAttacks_flip`, `EvalFlip.bishopAttacks_flip`, `EvalFlip.leapers_flip`, `EvalFlip.testU_flipU`.
-/

/-! ## non-vacuity: concrete positions through the FEN reader, evaluated by the kernel -/

/-- evaluate a Boolean test on the board of a FEN (false when the FEN is rejected) -/
def onFen (fen : String) (p : Board → Bool) : Bool :=
  match FenBoard.fromFenString fen with
  | .ok b => p b
  | .error _ => false

-- "Kiwipete": well-formed, mid game, value 105 for white; the flip is well-formed too and has value -105
example : onFen "r3k2r/p1ppqpb1/bn2pnp1/3PN3/1p2P3/2N2Q1p/PPPBBPPP/R3K2R w KQkq - 0 1" (fun b =>
    WF.wf b && WF.wf (flipBoard b) && gameStage b == 1 && evaluateOngoing b == 105
    && evaluateOngoing (flipBoard b) == -105 && evaluate b true == 105 && evaluate (flipBoard b) true == -105
    && b.turn ≤ 1 && popcount b.active.kings == 1) = true := by decide +kernel

-- an endgame position (stage LATE = 2) with black to move and an e.p. square
example : onFen "8/8/8/2k5/2pP4/8/B7/4K3 b - d3 0 3" (fun b =>
    WF.wf b && gameStage b == 2 && gameStage (flipBoard b) == 2
    && evaluateOngoing (flipBoard b) == - evaluateOngoing b && evaluateOngoing b != 0) = true := by decide +kernel

-- fifty-move branch: halfmove 130 ≥ 100, both the position and its flip are draws
example : onFen "4k3/8/8/8/8/8/8/4K2R w K - 130 70" (fun b =>
    evaluate b true == 0 && evaluate (flipBoard b) true == 0 && evaluateOngoing b != 0) = true := by decide +kernel

-- fool's mate: white to move is checkmated at full move 3 (hypotheses of `checkmate_sign`), and so is black in the flip
example : onFen "rnb1kbnr/pppp1ppp/8/4p3/6Pq/5P2/PPPPP2P/RNBQKBNR w KQkq - 1 3" (fun b =>
    WF.wf b && (genLegal b).isEmpty && isCurrentInCheck b && b.turn == 0
    && evaluate b false == -(16777216 - 3) && isCheckmateValue (evaluate b false)
    && (genLegal (flipBoard b)).isEmpty && isCurrentInCheck (flipBoard b)
    && evaluate (flipBoard b) false == 16777216 - 3) = true := by decide +kernel

-- stalemate: black to move, no legal move, not in check (hypotheses of `stalemate_draw`)
example : onFen "7k/5Q2/6K1/8/8/8/8/8 b - - 0 1" (fun b =>
    WF.wf b && (genLegal b).isEmpty && !isCurrentInCheck b && evaluate b (isAnyMoveLegal b (genPseudo b)) == 0)
    = true := by decide +kernel

-- mate in 1 for white (Ra8#) at full move 1: the leaf after Ra8 is a checkmated black at full move 1 = 1 + 1 - 1;
-- hypotheses of `score_mate_leaf`/`score_mate_white` with N = 1, and the reported score is `mate 1`
example : onFen "6k1/5ppp/8/8/8/8/8/R3K3 w Q - 0 1" (fun r =>
    onFen "R5k1/5ppp/8/8/8/8/8/4K3 b - - 1 1" (fun m =>
      r.turn == 0 && m.turn == 1 && isCurrentInCheck m && (genLegal m).isEmpty
      && m.fullmove + (1 - r.turn) == r.fullmove + 1
      && (genLegal r).any (fun mv => WF.vis (make r mv) == WF.vis m)
      && - (factor m.turn * evaluate m false) == winScore - 1
      && scoreFromValue (- (factor m.turn * evaluate m false)) r == .mate 1)) = true := by decide +kernel

-- the same mate with colours flipped (black to move at full move 1 mates by its first move, leaf at full move 2):
-- the raw root value is one less, the reported score is the same
example : onFen "6k1/5ppp/8/8/8/8/8/R3K3 w Q - 0 1" (fun r0 =>
    onFen "R5k1/5ppp/8/8/8/8/8/4K3 b - - 1 2" (fun m0 =>
      let r := flipBoard r0
      let m := flipBoard m0
      r.turn == 1 && m.turn == 0 && isCurrentInCheck m && (genLegal m).isEmpty
      && m.fullmove + (1 - r.turn) == r.fullmove + 1
      && (genLegal r).any (fun mv => WF.vis (make r mv) == WF.vis m)
      && - (factor m.turn * evaluate m false) == winScore - 2
      && scoreFromValue (- (factor m.turn * evaluate m false)) r == .mate 1)) = true := by decide +kernel

-- centipawn values and the mate thresholds
example : scoreFromValue 105 FenBoard.startBoard = .cp 105 ∧ scoreFromValue (-8388608) FenBoard.startBoard = .cp (-8388608)
    ∧ isCheckmateValue 8388609 = false ∧ isCheckmateValue (winScore - 1048575) = true := by decide +kernel

-- a table entry and its mirror: white pawn on e7 (sq 12, stage 1) = 50, black pawn on e2 (sq 52) = -50
example : wEntry 1 0 12 = 50 ∧ bEntry 1 0 52 = -50 ∧ mirror 12 = 52 := by decide +kernel

#print axioms black_tables_mirror
#print axioms tables_shape
#print axioms eval_flip
#print axioms gameStage_flip
#print axioms isCurrentInCheck_flip
#print axioms evaluate_flip
#print axioms evaluate_flip_wf
#print axioms evaluate_flip_mover
#print axioms terminal_sign
#print axioms checkmate_sign
#print axioms stalemate_draw
#print axioms nearer_mate_better
#print axioms nearer_mate_better_arith
#print axioms score_mate_white
#print axioms score_mate_black
#print axioms score_mated_white
#print axioms score_mated_black
#print axioms score_cp
#print axioms score_mate_leaf
#print axioms score_mated_leaf
#print axioms mate_score_flip

end Inkayaku.C11
