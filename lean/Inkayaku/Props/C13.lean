import Inkayaku.Proofs.MoveText
import Inkayaku.Model.FenBoard
/-!
# C13 — moves given as text are applied exactly when legal; a rejected text changes nothing

"Given a move in UCI notation, the board applies it exactly when it denotes a legal move of the current position
(promotion letter required exactly for promotions) and then reaches the successor position the rules define; any other
string is reported as an error and leaves the position exactly as it was.  Applying a list of moves is all-or-nothing:
if any move of the list is rejected the position is the one before the call.  The same no-side-effect guarantee holds
for SAN conversion of an illegal or unknown move."

Models (`Inkayaku.Model.San`, each returns the board it leaves behind): `findUci` = `Bitboard::find_uci`,
`makeUci` = `make_uci`, `makeAllUci` = `make_all_uci` (with its rollback list), `uciToSan` = `uci_to_pgn`,
`sanToMove` = `pgn_to_bb`.  "Legal position" = `WF.wf b = true`; "the position" = `WF.vis b` (everything except the
two scratch occupancy words; see `C03.vis_eq_iff`); "legal move" = member of `genLegal b`; "successor position" =
`make b m` (that `make` follows the rules of chess is property C02, not this one).

* `findUci_pure` — EVERY string (accepted, unknown, not valid) leaves the position as it was.
* `findUci_ok_iff` — accepted iff the FIRST pseudo-legal move with that (trimmed) text does not leave the own king
  attacked; `findUci_ok_iff_legal` — with pairwise different move texts (`UciNodup`, part of C01, a hypothesis here):
  accepted iff the text denotes a legal move, and that move is returned.  `findUci_err_kinds` — which error.
* `uci_text_length` — the text of a generated move has a fifth character exactly when it carries a promotion piece
  (so the four-character text never matches a promotion and the five-character text never matches a non-promotion).
* `makeUci_spec` — `make_uci`.
* `makeAllUci_all_or_nothing` — lists of any length, rejection at any index.  HYPOTHESIS `WfStep` (a legal move keeps
  a well-formed board well-formed while both clocks stay in range); side condition: the clocks have room for the list.
* `makeAllUci_after_rejection`, `findUci_idempotent` — repeated calls on the same board.
* `uciToSan_pure`, `uciToSan_err_iff` — SAN conversion.  `sanToMove_legal` — `pgn_to_bb` returns legal moves only.
-/
namespace Inkayaku.C13
open Inkayaku.Board Inkayaku.WF Inkayaku.San Inkayaku.Util Inkayaku.MoveText

/-! ## 1. no side effect of `find_uci` -/

/-- `find_uci` leaves the position exactly as it was, for every string and every outcome -/
theorem findUci_pure (b : Board) (hwf : wf b = true) (s : String) : vis (findUci b s).2 = vis b :=
  MoveText.findUci_pure hwf s

/-- … including both position hashes -/
theorem findUci_pure_hash (b : Board) (hwf : wf b = true) (s : String) :
    Zobrist.hash (findUci b s).2 = Zobrist.hash b ∧ Zobrist.pawnHash (findUci b s).2 = Zobrist.pawnHash b :=
  C03.hash_congr (MoveText.findUci_pure hwf s)

/-! ## 2. what `find_uci` accepts -/

/-- accepted with result `m` iff `m` is the first pseudo-legal move (generator order) whose text is the trimmed string,
and making it does not leave the own king attacked.  (Holds for every board; `FirstWithText` already contains the
membership and the text, they are repeated for readability.) -/
theorem findUci_ok_iff (b : Board) (s : String) (m : Move) :
    (findUci b s).1 = .ok m ↔
      m ∈ genPseudo b ∧ m.uci = rustTrim s ∧ isValid (make b m) = true ∧ FirstWithText b (rustTrim s) m := by
  rw [findUci_ok_iff_first]
  constructor
  · rintro ⟨hf, hv⟩; exact ⟨hf.mem, hf.text, hv, hf⟩
  · rintro ⟨-, -, hv, hf⟩; exact ⟨hf, hv⟩

/-- with pairwise different move texts: the string is accepted with result `m` iff `m` is a legal move with that text -/
theorem findUci_ok_iff_legal (b : Board) (hnd : UciNodup b) (s : String) (m : Move) :
    (findUci b s).1 = .ok m ↔ m ∈ genLegal b ∧ m.uci = rustTrim s :=
  MoveText.findUci_ok_iff_legal hnd s m

/-- with pairwise different move texts: accepted iff the string denotes a legal move -/
theorem findUci_accepts_iff (b : Board) (hnd : UciNodup b) (s : String) :
    (∃ m, (findUci b s).1 = .ok m) ↔ ∃ m ∈ genLegal b, m.uci = rustTrim s := by
  constructor
  · rintro ⟨m, h⟩; exact ⟨m, (MoveText.findUci_ok_iff_legal hnd s m).1 h⟩
  · rintro ⟨m, h⟩; exact ⟨m, (MoveText.findUci_ok_iff_legal hnd s m).2 h⟩

/-- without `UciNodup`: an accepted move is always a legal move with that text -/
theorem findUci_ok_legal (b : Board) (s : String) (m : Move) (h : (findUci b s).1 = .ok m) :
    m ∈ genLegal b ∧ m.uci = rustTrim s := MoveText.findUci_ok_legal h

/-- the two errors: "does not exist" iff no pseudo-legal move has that text; "not valid" iff the first pseudo-legal
move with that text leaves the own king attacked; and there is no fourth outcome -/
theorem findUci_err_kinds (b : Board) (s : String) :
    ((findUci b s).1 = .error .notExist ↔ ∀ m ∈ genPseudo b, m.uci ≠ rustTrim s) ∧
    ((findUci b s).1 = .error .notValid ↔ ∃ m, FirstWithText b (rustTrim s) m ∧ isValid (make b m) = false) ∧
    ((∃ m, (findUci b s).1 = .ok m) ∨ (findUci b s).1 = .error .notExist ∨ (findUci b s).1 = .error .notValid) :=
  ⟨findUci_notExist_iff b s, findUci_notValid_iff b s, findUci_cases b s⟩

/-- with pairwise different move texts "not valid" means: the text denotes a pseudo-legal move that is not legal -/
theorem findUci_notValid_iff_nodup (b : Board) (hnd : UciNodup b) (s : String) :
    (findUci b s).1 = .error .notValid ↔
      ∃ m ∈ genPseudo b, m.uci = rustTrim s ∧ isValid (make b m) = false := by
  rw [findUci_notValid_iff]
  constructor
  · rintro ⟨m, hf, hv⟩; exact ⟨m, hf.mem, hf.text, hv⟩
  · rintro ⟨m, hm, ht, hv⟩; exact ⟨m, (first_iff_of_nodup hnd _ m).2 ⟨hm, ht⟩, hv⟩

/-- promotion letter exactly for promotions: the text of a generated move is four characters, plus a fifth exactly
when the promotion field holds a piece -/
theorem uci_text_length (b : Board) (hwf : wf b = true) (m : Move) (hm : m ∈ genPseudo b) :
    m.uci.length = 4 + (if 1 ≤ m.f.promotion ∧ m.f.promotion ≤ 6 then 1 else 0) :=
  uci_length_generated hwf hm

/-! ## 3. `make_uci` -/

/-- success: the string was accepted by `find_uci` and the board holds the successor position;
error: it is the error of `find_uci` and the position is unchanged -/
theorem makeUci_spec (b : Board) (hwf : wf b = true) (s : String) (b' : Board) :
    (makeUci b s = (.ok (), b') → ∃ m, (findUci b s).1 = .ok m ∧ vis b' = vis (make b m)) ∧
    (∀ e, makeUci b s = (.error e, b') → (findUci b s).1 = .error e ∧ vis b' = vis b) :=
  ⟨makeUci_ok hwf, fun _ => makeUci_err hwf⟩

/-- `make_uci` succeeds exactly when `find_uci` does -/
theorem makeUci_fst (b : Board) (s : String) :
    (makeUci b s).1 = match (findUci b s).1 with | .ok _ => .ok () | .error e => .error e :=
  MoveText.makeUci_fst b s

/-! ## 4. `make_all_uci` is all-or-nothing

`Accepts b ss ms`: the strings `ss` are accepted one after the other starting from `b` and denote the moves `ms`
(each in the position reached by the previous ones).  `RejectedAt b ss e`: some prefix of `ss` is accepted and the next
string is rejected with `e` in the position reached.  `C03.makeLine b ms` makes the moves first to last. -/

/-- for every list (any length, rejection at any index): on error the position is the one before the call and the error
is that of the first rejected string; on success every string was accepted and the position is the one reached by
making the accepted moves in order -/
theorem makeAllUci_all_or_nothing (hstep : WfStep) (b : Board) (ss : List String) (hwf : wf b = true)
    (hclk : b.halfmove + ss.length ≤ 4095 ∧ b.fullmove + ss.length < 2147483648) :
    match (makeAllUci b ss).1 with
    | .error e => vis (makeAllUci b ss).2 = vis b ∧ RejectedAt b ss e
    | .ok _ => ∃ ms, Accepts b ss ms ∧ vis (makeAllUci b ss).2 = vis (C03.makeLine b ms) :=
  MoveText.makeAllUci_all_or_nothing hstep b ss hwf hclk

/-- the same started in the middle of the loop, with an arbitrary rollback list `made` that leads back to `b0` -/
theorem makeAllUciAux_all_or_nothing (hstep : WfStep) (ss : List String) (b : Board) (made : List Move) (b0 : Board)
    (hinv : MoveText.Inv ss.length b) (hu : Undoes made b b0) :
    match (makeAllUciAux b ss made).1 with
    | .error e => vis (makeAllUciAux b ss made).2 = vis b0 ∧ RejectedAt b ss e
    | .ok _ => ∃ ms, Accepts b ss ms ∧ vis (makeAllUciAux b ss made).2 = vis (C03.makeLine b ms) :=
  makeAllUciAux_spec hstep ss b made b0 hinv hu

/-- the two outcomes exclude each other and determine the moves -/
theorem accepts_facts {b : Board} {ss : List String} {ms : List Move} (h : Accepts b ss ms) :
    ms.length = ss.length ∧ (∀ ms', Accepts b ss ms' → ms' = ms) ∧ ∀ e, ¬ RejectedAt b ss e :=
  ⟨h.length, fun _ h' => h'.unique h, fun _ => h.not_rejected⟩

/-! ## 6. repeated calls on the same board -/

/-- an earlier `find_uci` (any string, any outcome) does not change what a later one answers, nor the position -/
theorem findUci_idempotent (b : Board) (hwf : wf b = true) (s s' : String) :
    (findUci (findUci b s).2 s').1 = (findUci b s').1 ∧ vis (findUci (findUci b s).2 s').2 = vis b :=
  MoveText.findUci_idempotent hwf s s'

/-- after a rejected list, a further list is treated exactly as on the board before the first call -/
theorem makeAllUci_after_rejection (hstep : WfStep) (b : Board) (ss ss' : List String) (hwf : wf b = true)
    (hclk : b.halfmove + ss.length ≤ 4095 ∧ b.fullmove + ss.length < 2147483648)
    (hclk' : b.halfmove + ss'.length ≤ 4095 ∧ b.fullmove + ss'.length < 2147483648)
    (e : UciErr) (hrej : (makeAllUci b ss).1 = .error e) :
    (makeAllUci (makeAllUci b ss).2 ss').1 = (makeAllUci b ss').1 ∧
    match (makeAllUci b ss').1 with
    | .error _ => vis (makeAllUci (makeAllUci b ss).2 ss').2 = vis b
    | .ok _ => ∃ ms, Accepts b ss' ms ∧ vis (makeAllUci (makeAllUci b ss).2 ss').2 = vis (C03.makeLine b ms) :=
  MoveText.makeAllUci_after_rejection hstep b ss ss' hwf hclk hclk' e hrej

/-! ## 5. SAN conversion -/

/-- `uci_to_pgn` leaves the position as it was for every string -/
theorem uciToSan_pure (b : Board) (hwf : wf b = true) (s : String) : vis (uciToSan b s).2 = vis b :=
  MoveText.uciToSan_pure hwf s

/-- `uci_to_pgn` reports an error exactly when `find_uci` does, and the same one; it leaves the very same board -/
theorem uciToSan_err_iff (b : Board) (s : String) :
    (∀ e, (uciToSan b s).1 = .error e ↔ (findUci b s).1 = .error e) ∧
    ((∃ t, (uciToSan b s).1 = .ok t) ↔ ∃ m, (findUci b s).1 = .ok m) ∧
    (uciToSan b s).2 = (findUci b s).2 :=
  ⟨(uciToSan_eq_findUci b s).2.1, (uciToSan_eq_findUci b s).2.2, (uciToSan_eq_findUci b s).1⟩

/-- `pgn_to_bb` (a pure function in the model: all its probes are `is_move_legal` on generated moves, restored by C03)
answers legal moves only -/
theorem sanToMove_legal (b : Board) (san : String) (m : Move) (h : sanToMove b san = some m) : m ∈ genLegal b :=
  sanToMove_mem_genLegal h

#print axioms findUci_pure
#print axioms findUci_pure_hash
#print axioms findUci_ok_iff
#print axioms findUci_ok_iff_legal
#print axioms findUci_accepts_iff
#print axioms findUci_ok_legal
#print axioms findUci_err_kinds
#print axioms findUci_notValid_iff_nodup
#print axioms uci_text_length
#print axioms makeUci_spec
#print axioms makeUci_fst
#print axioms makeAllUci_all_or_nothing
#print axioms makeAllUciAux_all_or_nothing
#print axioms accepts_facts
#print axioms findUci_idempotent
#print axioms makeAllUci_after_rejection
#print axioms uciToSan_pure
#print axioms uciToSan_err_iff
#print axioms sanToMove_legal

/-! ## Non-vacuity: concrete positions through the FEN reader, evaluated by the kernel -/

section Examples

/-- evaluate a Boolean test on the board of a FEN (false when the FEN is rejected) -/
def onFen (fen : String) (p : Board → Bool) : Bool :=
  match FenBoard.fromFenString fen with
  | .ok b => p b
  | .error _ => false

def isErr {α : Type} (r : Except UciErr α) (e : UciErr) : Bool :=
  match r with
  | .error e' => e' == e
  | .ok _ => false

def isOk {α : Type} (r : Except UciErr α) : Bool :=
  match r with
  | .error _ => false
  | .ok _ => true

def okMove (r : Except UciErr Move) (p : Move → Bool) : Bool :=
  match r with
  | .error _ => false
  | .ok m => p m

def sameVis (b c : Board) : Bool := decide (vis b = vis c)

def startFen : String := "rnbqkbnr/pppppppp/8/8/8/8/PPPPPPPP/RNBQKBNR w KQkq - 0 1"

-- pinned bishop (rook h1 pins g2 against the king f1): "g2f3" exists but is not valid; the board is unchanged;
-- "g2h1" (capturing the pinning rook) is accepted; the SAN conversion answers the same
set_option maxRecDepth 100000 in
example : onFen "4k3/8/8/8/8/8/6B1/5K1r w - - 0 1" (fun b =>
    wf b && isErr (findUci b "g2f3").1 .notValid && sameVis (findUci b "g2f3").2 b
    && isErr (makeUci b "g2f3").1 .notValid && sameVis (makeUci b "g2f3").2 b
    && isErr (uciToSan b "g2f3").1 .notValid && sameVis (uciToSan b "g2f3").2 b
    && isOk (findUci b "g2h1").1 && sameVis (findUci b "g2h1").2 b
    && decide ((uciToSan b "g2h1").1.toOption = some "Bxh1") && sameVis (uciToSan b "g2h1").2 b) = true := by
  decide +kernel

-- promotion: "e7e8" is refused (no such move), "e7e8q" accepted (and is a promotion to a queen), "e7e8k" refused;
-- surrounding white space is trimmed; other text is refused; the board is unchanged every time
set_option maxRecDepth 100000 in
example : onFen "7k/4P3/8/8/8/8/8/4K3 w - - 0 1" (fun b =>
    wf b && isErr (findUci b "e7e8").1 .notExist && sameVis (findUci b "e7e8").2 b
    && okMove (findUci b "e7e8q").1 (fun m => m.f.promotion == QUEEN && m.f.source == 12 && m.f.target == 4)
    && sameVis (findUci b "e7e8q").2 b
    && okMove (findUci b " \te7e8n\n").1 (fun m => m.f.promotion == KNIGHT)
    && isErr (findUci b "e7e8k").1 .notExist && isErr (findUci b "e7e8Q").1 .notExist
    && isErr (findUci b "").1 .notExist && isErr (findUci b "e1e2q").1 .notExist && isOk (findUci b "e1e2").1
    && isErr (findUci b "0000").1 .notExist && sameVis (findUci b "0000").2 b
    && decide ((uciToSan b "e7e8q").1.toOption = some "e8=Q+")
    && isErr (uciToSan b "e7e8").1 .notExist && sameVis (uciToSan b "e7e8").2 b) = true := by
  decide +kernel

-- `make_uci`: the successor position is reached on success, nothing changes on error
set_option maxRecDepth 100000 in
example : onFen startFen (fun b =>
    wf b && isOk (makeUci b "e2e4").1
    && okMove (findUci b "e2e4").1 (fun m => sameVis (makeUci b "e2e4").2 (make b m))
    && !sameVis (makeUci b "e2e4").2 b
    && isErr (makeUci b "e2e5").1 .notExist && sameVis (makeUci b "e2e5").2 b) = true := by
  decide +kernel

-- `make_all_uci`: rejected at index 0, 2 and 3 (unknown move / move that leaves the king in check) → position before
-- the call; accepted list → the moves are on the board
set_option maxRecDepth 100000 in
example : onFen startFen (fun b =>
    isErr (makeAllUci b ["e2e5", "e7e5"]).1 .notExist && sameVis (makeAllUci b ["e2e5", "e7e5"]).2 b
    && isErr (makeAllUci b ["e2e4", "e7e5", "e1e3"]).1 .notExist
    && sameVis (makeAllUci b ["e2e4", "e7e5", "e1e3"]).2 b
    && isErr (makeAllUci b ["e2e4", "d7d5", "f1b5", "e8d7", "g1f3"]).1 .notValid
    && sameVis (makeAllUci b ["e2e4", "d7d5", "f1b5", "e8d7", "g1f3"]).2 b
    && isOk (makeAllUci b ["e2e4", "d7d5", "f1b5", "c7c6"]).1
    && !sameVis (makeAllUci b ["e2e4", "d7d5", "f1b5", "c7c6"]).2 b
    -- a second call after the rejection behaves as on the fresh board
    && sameVis (makeAllUci (makeAllUci b ["e2e4", "e7e5", "e1e3"]).2 ["e2e4"]).2 (makeAllUci b ["e2e4"]).2) = true := by
  decide +kernel

-- hypotheses: `UciNodup` holds in the start position and in a position with promotions, castling and en passant
set_option maxRecDepth 100000 in
example : UciNodup C03.exStart ∧ UciNodup C03.exAllKinds := by
  unfold UciNodup; decide +kernel

-- hypotheses: `Inv` with room for a list, and the instance of `WfStep` for 1. e4
set_option maxRecDepth 100000 in
example : MoveText.Inv 1 C03.exStart ∧ MoveText.Inv 0 (make C03.exStart ⟨encode C03.exE2E4, 0⟩) := by
  unfold MoveText.Inv; decide +kernel

-- `Accepts` / `RejectedAt` are inhabited
theorem ok_of_okMove {r : Except UciErr Move} {m : Move} (h : okMove r (fun x => x == m) = true) : r = .ok m := by
  cases r with
  | error e => cases h
  | ok x => simp only [okMove, beq_iff_eq] at h; rw [h]

theorem err_of_isErr {α : Type} {r : Except UciErr α} {e : UciErr} (h : isErr r e = true) : r = .error e := by
  cases r with
  | error e' => simp only [isErr, beq_iff_eq] at h; rw [h]
  | ok x => cases h

set_option maxRecDepth 100000 in
example : Accepts C03.exStart ["e2e4", " e7e5 "] [⟨encode C03.exE2E4, 0⟩, ⟨encode C03.exE7E5, 0⟩] :=
  .cons (ok_of_okMove (by decide +kernel)) (.cons (ok_of_okMove (by decide +kernel)) (.nil _))

set_option maxRecDepth 100000 in
example : RejectedAt C03.exStart ["e2e4", "e7e4", "d2d4"] .notExist :=
  ⟨["e2e4"], "e7e4", ["d2d4"], [⟨encode C03.exE2E4, 0⟩], rfl,
    .cons (ok_of_okMove (by decide +kernel)) (.nil _), err_of_isErr (by decide +kernel)⟩

end Examples

end Inkayaku.C13
