import Inkayaku.Model.Json
import Inkayaku.Model.Lichess
import Inkayaku.Spec.LichessDoc
import Inkayaku.Gen.LichessSchema
/-!
# C19 -- Lichess payload decoding

Part 1: the wire names of the serde schema generated from the Rust source equal the documented names.
-/
namespace Inkayaku.Props.C19
open Inkayaku.Json Inkayaku.Lichess
open Inkayaku.Gen.Lichess (TypeDef TyRef Field Variant Prim Custom schema csvRuleTable)
namespace Doc
export Inkayaku.LichessDoc (stateTypes gameFull gameState chatLine opponentGone variantFull gameFullPerf gameFullPlayer
  gameFullClock eventTypes gameEvent challengeEvent challengeOtherEvent gameEventInfo gameEventStatus gameEventVariant
  gameEventOpponent compat challengeInfo challengeUser challengePerf timeControlTypes timeControlClock
  timeControlCorrespondence timeControlUnlimited statusKeys variantKeys speedKeys sourceKeys perfKeys colorKeys
  colorChoiceKeys roomKeys challengeStatusKeys directionKeys declineReasonKeys ruleKeys)
end Doc

/-! ## 1. Names -/

/-- wire names a field contributes to its object: its own, or (flatten) those of the struct it names -/
def fieldWires (σ : List TypeDef) (f : Field) : List String :=
  if f.flatten then
    match f.ty with
    | .named n =>
      match findType σ n with
      | some (.struct _ fs) => fs.map (·.wire)
      | _ => ["<flatten of a non-struct>"]
    | _ => ["<flatten of a non-struct>"]
  else [f.wire]

/-- member names of a struct on the wire -/
def structWires (σ : List TypeDef) (name : String) : Option (List String) :=
  match findType σ name with
  | some (.struct _ fs) => some (fs.flatMap (fieldWires σ))
  | _ => none

/-- member names of one variant of an internally tagged enum on the wire (tag first) -/
def variantWires (σ : List TypeDef) (name variant : String) : Option (List String) :=
  match findType σ name with
  | some (.tagged _ tag vs) =>
    match vs.find? (·.rust == variant) with
    | some v => some (tag :: v.fields.flatMap (fieldWires σ))
    | none => none
  | _ => none

/-- the strings that select the variants -/
def enumWires (σ : List TypeDef) (name : String) : Option (List String) :=
  match findType σ name with
  | some (.unitEnum _ vs) => some (vs.map (·.2))
  | some (.tagged _ _ vs) => some (vs.map (·.wire))
  | _ => none

/-- equal as sets, no repetitions -/
def sameNames (a b : List String) : Bool :=
  a.length == b.length && a.all (b.contains ·) && b.all (a.contains ·)

/-- (what, names in the generated schema, documented names) -/
def nameTable : List (String × Option (List String) × List String) := [
  ("state stream: type values", enumWires schema "BotGameState", Doc.stateTypes),
  ("gameFull", variantWires schema "BotGameState" "GameFull", Doc.gameFull),
  ("gameState", variantWires schema "BotGameState" "GameState", Doc.gameState),
  ("gameFull.state", (structWires schema "GameStateHolder").map ("type" :: ·), Doc.gameState),
  ("chatLine", variantWires schema "BotGameState" "ChatLine", Doc.chatLine),
  ("opponentGone", variantWires schema "BotGameState" "OpponentGone", Doc.opponentGone),
  ("gameFull.variant", structWires schema "VariantFull", Doc.variantFull),
  ("gameFull.perf", structWires schema "Perf", Doc.gameFullPerf),
  ("gameFull.white/black", structWires schema "Player", Doc.gameFullPlayer),
  ("gameFull.clock", structWires schema "Clock", Doc.gameFullClock),
  ("event stream: type values", enumWires schema "BotEvent", Doc.eventTypes),
  ("gameStart", variantWires schema "BotEvent" "GameStart", Doc.gameEvent),
  ("gameFinish", variantWires schema "BotEvent" "GameFinish", Doc.gameEvent),
  ("challenge", variantWires schema "BotEvent" "Challenge", Doc.challengeEvent),
  ("challengeCanceled", variantWires schema "BotEvent" "ChallengeCanceled", Doc.challengeOtherEvent),
  ("challengeDeclined", variantWires schema "BotEvent" "ChallengeDeclined", Doc.challengeOtherEvent),
  ("game", structWires schema "GameEventInfo", Doc.gameEventInfo),
  ("game.status", structWires schema "GameEventStatus", Doc.gameEventStatus),
  ("game.variant", structWires schema "GameEventVariant", Doc.gameEventVariant),
  ("game.opponent", structWires schema "GameEventOpponent", Doc.gameEventOpponent),
  ("compat", structWires schema "Compat", Doc.compat),
  ("challenge", structWires schema "ChallengeEventInfo", Doc.challengeInfo),
  ("challenge.challenger/destUser", structWires schema "Challenger", Doc.challengeUser),
  ("challenge.perf", structWires schema "ChallengeEventPerf", Doc.challengePerf),
  ("challenge.timeControl: type values", enumWires schema "ChallengeEventTimeControl", Doc.timeControlTypes),
  ("timeControl clock", variantWires schema "ChallengeEventTimeControl" "Clock", Doc.timeControlClock),
  ("timeControl correspondence", variantWires schema "ChallengeEventTimeControl" "Correspondence", Doc.timeControlCorrespondence),
  ("timeControl unlimited", variantWires schema "ChallengeEventTimeControl" "Unlimited", Doc.timeControlUnlimited),
  ("status keys", enumWires schema "GameStatusKey", Doc.statusKeys),
  ("variant keys", enumWires schema "VariantKey", Doc.variantKeys),
  ("speed keys", enumWires schema "SpeedKey", Doc.speedKeys),
  ("speed keys (game event)", enumWires schema "GameEventSpeedKey", Doc.speedKeys),
  ("source keys", enumWires schema "GameEventSource", Doc.sourceKeys),
  ("colour keys", enumWires schema "Color", Doc.colorKeys),
  ("colour choice keys", enumWires schema "ColorChoice", Doc.colorChoiceKeys),
  ("room keys", enumWires schema "Room", Doc.roomKeys),
  ("challenge status keys", enumWires schema "ChallengeEventStatusKey", Doc.challengeStatusKeys),
  ("direction keys", enumWires schema "ChallengeEventDirection", Doc.directionKeys),
  ("decline reason keys", enumWires schema "ChallengeEventDeclineReason", Doc.declineReasonKeys),
  ("rule keys", enumWires schema "ChallengeEventRule", Doc.ruleKeys) ]

/-- rows of the table where generated and documented names differ -/
def nameMismatches : List String :=
  (nameTable.filter fun row => match row.2.1 with
    | some names => !sameNames names row.2.2
    | none => true).map (·.1)

/-- every type of the schema is compared (PerfKey: see `perf_keys_documented_partial`) -/
def comparedTypes : List String :=
  ["BotGameState", "GameStateHolder", "VariantFull", "Perf", "Player", "Clock", "BotEvent", "GameEventInfo",
   "GameEventStatus", "GameEventVariant", "GameEventOpponent", "Compat", "ChallengeEventInfo", "Challenger",
   "ChallengeEventPerf", "ChallengeEventTimeControl", "GameStatusKey", "VariantKey", "SpeedKey", "GameEventSpeedKey",
   "GameEventSource", "Color", "ColorChoice", "Room", "ChallengeEventStatusKey", "ChallengeEventDirection",
   "ChallengeEventDeclineReason", "ChallengeEventRule", "PerfKey"]

/-- **C19 (names).**  For every struct, every variant of the two internally tagged message enums and every
enumeration of the generated schema, the set of wire names equals the documented one -- in particular
`claimWinInSeconds`, `createdAt`, `initialFen`, `daysPerTurn`, `tournamentId`, `fullId`, `lastMove`, `hasMoved`, ... -/
theorem schema_names_documented :
    nameMismatches = [] ∧ (schema.map (·.name)).all (comparedTypes.contains ·) = true := by
  decide +kernel

#print axioms schema_names_documented

example : variantWires schema "BotGameState" "OpponentGone" = some ["type", "gone", "claimWinInSeconds"] := by decide +kernel

/- TARGET (not provable, the Rust model deviates): `enumWires schema "PerfKey"` has the same names as `Doc.perfKeys`.
   The documented `game.perf` key `horde` has no counterpart in the Rust enum `PerfKey` (a `gameStart` of a Horde game is
   rejected: "unknown variant `horde`"); the Rust enum has `standard` and `puzzle` in addition, which never arrive. -/
theorem perf_keys_documented_partial :
    (∀ names, enumWires schema "PerfKey" = some names →
      (Doc.perfKeys.filter (!names.contains ·)) = ["horde"] ∧ (names.filter (!Doc.perfKeys.contains ·)) = ["standard", "puzzle"]) := by
  decide +kernel

#print axioms perf_keys_documented_partial

/-! ## 2. `moves_split` -/

theorem splitOn_noSep (sep : Char) : ∀ (t : List Char), sep ∉ t → splitOn sep t = [t]
  | [], _ => rfl
  | c :: cs, h => by
    have hc : ¬ c = sep := fun e => h (by simp [e])
    have ih := splitOn_noSep sep cs (fun m => h (List.mem_cons_of_mem _ m))
    simp [splitOn, hc, ih]

theorem splitOn_append (sep : Char) (rest : List Char) :
    ∀ (t : List Char), sep ∉ t → splitOn sep (t ++ sep :: rest) = t :: splitOn sep rest
  | [], _ => by simp [splitOn]
  | c :: cs, h => by
    have hc : ¬ c = sep := fun e => h (by simp [e])
    have ih := splitOn_append sep rest cs (fun m => h (List.mem_cons_of_mem _ m))
    simp [splitOn, hc, ih]

theorem splitOn_joinWith (sep : Char) :
    ∀ (l : List (List Char)), l ≠ [] → (∀ t ∈ l, sep ∉ t) → splitOn sep (joinWith sep l) = l
  | [], h, _ => absurd rfl h
  | [t], _, h => by simpa [joinWith] using splitOn_noSep sep t (h t (by simp))
  | t :: u :: rest, _, h => by
    have ih := splitOn_joinWith sep (u :: rest) (by simp) (fun x hx => h x (List.mem_cons_of_mem _ hx))
    have ht := splitOn_append sep (joinWith sep (u :: rest)) t (h t (by simp))
    simp only [joinWith]
    rw [ht, ih]

/-- a token as it occurs in a move list: not empty, no white space, nothing JSON would have to escape -/
def tokenOk (t : List Char) : Bool := !t.isEmpty && t.all (fun c => !isRustWs c && !needsEscape c)

/-- **C19 (moves), empty case**: the empty string (and any all-blank string) means "no moves" -/
theorem moves_split_empty : spaceSv [] = [] ∧ spaceSv [' '] = [] ∧ spaceSv [' ', ' ', ' '] = [] := by decide

/-- **C19 (moves)**: a non-empty list of tokens that contain no space, joined by single spaces, decodes to exactly that
list, in order -- provided the joined string is not all white space (Rust's `trim().is_empty()` test looks at Unicode
white space, so e.g. the one-token list `[" "]` decodes to `[]`). -/
theorem moves_split (ms : List (List Char)) (hne : ms ≠ []) (hsp : ∀ t ∈ ms, ' ' ∉ t)
    (hws : (joinWith ' ' ms).all isRustWs = false) : spaceSv (joinWith ' ' ms) = ms := by
  unfold spaceSv
  rw [hws]
  simpa using splitOn_joinWith ' ' ms hne hsp

#print axioms moves_split

theorem joinWith_head (sep : Char) (c : Char) (t : List Char) (rest : List (List Char)) :
    ∃ r, joinWith sep ((c :: t) :: rest) = c :: r := by
  cases rest with
  | nil => exact ⟨t, rfl⟩
  | cons u rest => exact ⟨t ++ sep :: joinWith sep (u :: rest), rfl⟩

theorem tokenOk_noSpace {t : List Char} (h : tokenOk t = true) : ' ' ∉ t := by
  intro hm
  simp only [tokenOk, Bool.and_eq_true, List.all_eq_true] at h
  have := h.2 ' ' hm
  simp [isRustWs] at this

/-- corollary for token lists as the API sends them (UCI moves: `[a-h][1-8][a-h][1-8][qrbn]?`) -/
theorem moves_split_tokens (ms : List (List Char)) (h : ms.all tokenOk = true) : spaceSv (joinWith ' ' ms) = ms := by
  cases ms with
  | nil => simp [joinWith, spaceSv]
  | cons t rest =>
    have hall : ∀ x ∈ t :: rest, tokenOk x = true := by simpa [List.all_eq_true] using h
    apply moves_split _ (by simp) (fun x hx => tokenOk_noSpace (hall x hx))
    have ht := hall t (by simp)
    cases t with
    | nil => simp [tokenOk] at ht
    | cons c t' =>
      obtain ⟨r, hr⟩ := joinWith_head ' ' c t' rest
      rw [hr]
      simp only [tokenOk, Bool.and_eq_true, List.all_eq_true] at ht
      have hc := ht.2 c (by simp)
      simp only [Bool.not_eq_true'] at hc
      simp [hc.1]

def isFile (c : Char) : Bool := 97 ≤ c.toNat && c.toNat ≤ 104     -- a..h
def isRank (c : Char) : Bool := 49 ≤ c.toNat && c.toNat ≤ 56      -- 1..8
def isPromo (c : Char) : Bool := c.toNat == 113 || c.toNat == 114 || c.toNat == 98 || c.toNat == 110   -- q r b n

/-- the shape of a UCI move as `inkayaku_uci::UciMove::from_str` reads it: two squares and an optional promotion piece -/
def isUciShape (t : List Char) : Bool :=
  match t with
  | [a, b, c, d] => isFile a && isRank b && isFile c && isRank d
  | [a, b, c, d, p] => isFile a && isRank b && isFile c && isRank d && isPromo p
  | _ => false

theorem charOk_of_range {c : Char} (h : 49 ≤ c.toNat ∧ c.toNat ≤ 122) (h2 : c.toNat ≠ 92) :
    (!isRustWs c && !needsEscape c) = true := by
  have h34 : ¬ c = '"' := fun e => by subst e; simp at h
  have h92 : ¬ c = '\\' := fun e => by subst e; simp at h2
  have hw : isRustWs c = false := by
    simp only [isRustWs, Bool.or_eq_false_iff, Bool.and_eq_false_iff, beq_eq_false_iff_ne, decide_eq_false_iff_not, ne_eq]
    omega
  have he : needsEscape c = false := by
    simp only [needsEscape, Bool.or_eq_false_iff, beq_eq_false_iff_ne, decide_eq_false_iff_not, ne_eq]
    exact ⟨⟨h34, h92⟩, by omega⟩
  simp [hw, he]

theorem charOk_file {c : Char} (h : isFile c = true) : (!isRustWs c && !needsEscape c) = true := by
  simp only [isFile, Bool.and_eq_true, decide_eq_true_eq] at h
  exact charOk_of_range (by omega) (by omega)
theorem charOk_rank {c : Char} (h : isRank c = true) : (!isRustWs c && !needsEscape c) = true := by
  simp only [isRank, Bool.and_eq_true, decide_eq_true_eq] at h
  exact charOk_of_range (by omega) (by omega)
theorem charOk_promo {c : Char} (h : isPromo c = true) : (!isRustWs c && !needsEscape c) = true := by
  simp only [isPromo, Bool.or_eq_true, beq_iff_eq] at h
  exact charOk_of_range (by omega) (by omega)

theorem uciShape_tokenOk (t : List Char) (h : isUciShape t = true) : tokenOk t = true := by
  unfold isUciShape at h
  split at h
  · simp only [Bool.and_eq_true] at h
    simp [tokenOk, charOk_file h.1.1.1, charOk_rank h.1.1.2, charOk_file h.1.2, charOk_rank h.2]
  · simp only [Bool.and_eq_true] at h
    simp [tokenOk, charOk_file h.1.1.1.1, charOk_rank h.1.1.1.2, charOk_file h.1.1.2, charOk_rank h.1.2, charOk_promo h.2]
  · simp at h

/-- every list of UCI-shaped moves (any length, promotions and castling included) survives the wire format -/
theorem moves_split_uci (ms : List (List Char)) (h : ms.all isUciShape = true) : spaceSv (joinWith ' ' ms) = ms := by
  apply moves_split_tokens
  simp only [List.all_eq_true] at h ⊢
  exact fun t ht => uciShape_tokenOk t (h t ht)

#print axioms moves_split_uci

example : spaceSv "e2e4 e7e5 e1g1 a7a8q".toList = ["e2e4".toList, "e7e5".toList, "e1g1".toList, "a7a8q".toList] := by decide
/-- the quirk the model keeps: two spaces give an empty token (which `UciMove::from_str(..).unwrap()` then rejects) -/
example : spaceSv "e2e4  e7e5".toList = ["e2e4".toList, [], "e7e5".toList] := by decide
example : spaceSv [Char.ofNat 0xA0] = [] := by decide

/-! ## 3. `decode_encode`: decoding a document of the documented shape gives back the value -/

/-! ### Well-formed schemas and well-typed values -/

def nodupKeys : List Key → Bool
  | [] => true
  | k :: ks => !ks.contains k && nodupKeys ks

/-- keys of the direct (non-flatten) fields -/
def directKeys : List (FieldInfo × Ty) → List Key
  | [] => []
  | (fi, _) :: rest => if fi.flatten then directKeys rest else fi.wire :: directKeys rest

def innerKeys : Ty → List Key
  | .struct inner => directKeys inner
  | _ => []

/-- keys that the flatten fields bring in -/
def flatKeys : List (FieldInfo × Ty) → List Key
  | [] => []
  | (fi, t) :: rest => if fi.flatten then innerKeys t ++ flatKeys rest else flatKeys rest

def flattenCount : List (FieldInfo × Ty) → Nat
  | [] => 0
  | (fi, _) :: rest => (if fi.flatten then 1 else 0) + flattenCount rest

/-- a flatten field names a struct without flatten fields of its own and is not `default`;
a `default` field has a type with a default value -/
def fieldOk (fi : FieldInfo) (t : Ty) : Bool :=
  (if fi.flatten then (match t with | .struct inner => !hasFlatten inner | _ => false) && !fi.default else true)
    && (if fi.default then (defaultOf t).isSome else true)

/-- all keys of one object are distinct; at most one flatten field -/
def shapeOk (fs : List (FieldInfo × Ty)) : Bool :=
  nodupKeys (directKeys fs ++ flatKeys fs) && decide (flattenCount fs ≤ 1)

/-- the documented (camelCase) spelling of a rule is understood by `from_str` and survives `split(',')` unescaped -/
def ruleOk (table : List (Key × String)) (p : String × Key) : Bool :=
  lookupKey (p.2.map lowerChar) table == some p.1 && !p.2.contains ',' && !p.2.any needsEscape

mutual
/-- decidable well-formedness of a type tree -/
def wfTy : Ty → Bool
  | .opt t => (match t with | .opt _ => false | _ => true) && wfTy t
  | .unitEnum vs => nodupKeys (vs.map (·.2))
  | .csvRules table wires => wires.all (ruleOk table)
  | .struct fs => shapeOk fs && wfFields fs
  | .tagged tag vs => nodupKeys (vs.map (·.1.wire)) && wfVariants tag vs
  | _ => true
def wfFields : List (FieldInfo × Ty) → Bool
  | [] => true
  | (fi, t) :: rest => fieldOk fi t && wfTy t && wfFields rest
/-- per variant: distinct keys, none of them equal to the tag, unit variants have no fields -/
def wfVariants (tag : Key) : List (VariantInfo × List (FieldInfo × Ty)) → Bool
  | [] => true
  | (vi, fs) :: rest =>
    shapeOk fs && !(directKeys fs ++ flatKeys fs).contains tag && (!vi.unit || fs.isEmpty) && wfFields fs
      && wfVariants tag rest
end

/-- an empty rule list is a value of a `default` field only (the wire format has no way to spell it) -/
def emptyRules : Ty → DVal → Bool
  | .csvRules _ _, .rules [] => true
  | _, _ => false

mutual
/-- well-typed values.  Move tokens are `tokenOk`; rule lists are non-empty lists of known variants. -/
def wt : Ty → DVal → Bool
  | .u32, .nat n => decide (n < 2 ^ 32)
  | .u64, .nat n => decide (n < 2 ^ 64)
  | .i32, .int i => decide (-(2 ^ 31 : Int) ≤ i ∧ i < 2 ^ 31)
  | .bool, .bool _ => true
  | .str, .str _ => true
  | .spaceSv, .strs l => l.all tokenOk
  | .csvRules _ wires, .rules l => !l.isEmpty && l.all (fun r => (findByRust r wires).isSome)
  | .opt _, .none => true
  | .opt t, .some v => wt t v
  | .unitEnum vs, .enumv r => (findByRust r vs).isSome
  | .struct fs, .struct vals => wtFields fs vals
  | .tagged _ vs, .variant r vals => wtVariant vs r vals
  | _, _ => false
def wtFields : List (FieldInfo × Ty) → List DVal → Bool
  | [], [] => true
  | (fi, t) :: rest, v :: vals => ((fi.default && emptyRules t v) || wt t v) && wtFields rest vals
  | _, _ => false
def wtVariant : List (VariantInfo × List (FieldInfo × Ty)) → String → List DVal → Bool
  | [], _, _ => false
  | (vi, fs) :: rest, r, vals => if vi.rust = r then wtFields fs vals else wtVariant rest r vals
end

/-- induction over type trees with membership hypotheses for the nested lists -/
theorem Ty.induct' {P : Ty → Prop} (u32 : P .u32) (u64 : P .u64) (i32 : P .i32) (bool : P .bool) (str : P .str)
    (spaceSv : P .spaceSv) (csv : ∀ a b, P (.csvRules a b)) (opt : ∀ t, P t → P (.opt t))
    (unitEnum : ∀ vs, P (.unitEnum vs))
    (struct : ∀ fs, (∀ p ∈ fs, P p.2) → P (.struct fs))
    (tagged : ∀ tag vs, (∀ q ∈ vs, ∀ p ∈ q.2, P p.2) → P (.tagged tag vs)) : ∀ t, P t := by
  intro t
  refine Ty.rec (motive_1 := P) (motive_2 := fun fs => ∀ p ∈ fs, P p.2)
    (motive_3 := fun vs => ∀ q ∈ vs, ∀ p ∈ q.2, P p.2) (motive_4 := fun p => P p.2)
    (motive_5 := fun q => ∀ p ∈ q.2, P p.2)
    u32 u64 i32 bool str spaceSv csv opt unitEnum struct tagged ?_ ?_ ?_ ?_ ?_ ?_ t
  · intro p hp; cases hp
  · intro head tail h1 h2 p hp
    cases hp with
    | head => exact h1
    | tail _ h => exact h2 p h
  · intro q hq; cases hq
  · intro head tail h1 h2 q hq
    cases hq with
    | head => exact h1
    | tail _ h => exact h2 q h
  · intro fst snd h; exact h
  · intro fst snd h; exact h

/-! ### Leaves -/

/-- the round-trip statement for one type tree -/
def RT (t : Ty) : Prop :=
  ∀ (v : DVal) (absent : List String → Bool) (path : List String),
    wfTy t = true → wt t v = true → decodeTy t (wireEncode absent path t v) = .ok v

theorem nodupKeys_cons {k : Key} {ks : List Key} : nodupKeys (k :: ks) = true ↔ k ∉ ks ∧ nodupKeys ks = true := by
  simp [nodupKeys]

theorem nodupKeys_append {a b : List Key} (h : nodupKeys (a ++ b) = true) :
    nodupKeys a = true ∧ nodupKeys b = true ∧ ∀ k, k ∈ a → k ∉ b := by
  induction a with
  | nil => simpa [nodupKeys] using h
  | cons x a ih =>
    rw [List.cons_append, nodupKeys_cons] at h
    obtain ⟨h1, h2, h3⟩ := ih h.2
    refine ⟨nodupKeys_cons.mpr ⟨fun m => h.1 (List.mem_append_left _ m), h1⟩, h2, ?_⟩
    intro k hk
    cases hk with
    | head => exact fun m => h.1 (List.mem_append_right _ m)
    | tail _ hk => exact h3 k hk

theorem any_joinWith (p : Char → Bool) (sep : Char) (hsep : p sep = false) :
    ∀ (l : List (List Char)), (∀ t ∈ l, t.any p = false) → (joinWith sep l).any p = false
  | [], _ => rfl
  | [t], h => by simpa [joinWith] using h t (by simp)
  | t :: u :: rest, h => by
    have ih := any_joinWith p sep hsep (u :: rest) (fun x hx => h x (List.mem_cons_of_mem _ hx))
    have ht := h t (by simp)
    simp only [joinWith, List.any_append, List.any_cons, ht, hsep, ih, Bool.or_self]

theorem tokenOk_noEscape {t : List Char} (h : tokenOk t = true) : t.any needsEscape = false := by
  simp only [tokenOk, Bool.and_eq_true, List.all_eq_true, Bool.not_eq_true'] at h
  rw [List.any_eq_false]
  intro c hc
  simpa using (h.2 c hc).2

theorem mapM?_map {α β : Type} (f : β → Option α) (g : α → β) :
    ∀ (l : List α), (∀ r ∈ l, f (g r) = some r) → mapM? f (l.map g) = some l
  | [], _ => rfl
  | r :: l, h => by
    have ih := mapM?_map f g l (fun x hx => h x (List.mem_cons_of_mem _ hx))
    simp [mapM?, h r (by simp), ih]

theorem findByRust_mem {r : String} {w : Key} : ∀ {vs : List (String × Key)}, findByRust r vs = some w → (r, w) ∈ vs
  | [], h => by simp [findByRust] at h
  | (r', w') :: rest, h => by
    simp only [findByRust] at h
    split at h
    · rename_i e
      simp only [Option.some.injEq] at h
      subst e; subst h
      exact List.mem_cons_self
    · exact List.mem_cons_of_mem _ (findByRust_mem h)

theorem findByWire_of_mem {r : String} {w : Key} :
    ∀ {vs : List (String × Key)}, nodupKeys (vs.map (·.2)) = true → (r, w) ∈ vs → findByWire w vs = some r
  | [], _, h => by cases h
  | (r', w') :: rest, hn, h => by
    simp only [List.map_cons, nodupKeys_cons] at hn
    simp only [findByWire]
    cases h with
    | head => simp
    | tail _ h =>
      have hne : ¬ w' = w := by
        intro e
        subst e
        exact hn.1 (List.mem_map.mpr ⟨(r, w'), h, rfl⟩)
      simp only [hne, if_false]
      exact findByWire_of_mem hn.2 h

theorem rt_u32 : RT .u32 := by
  intro v absent path _ hv
  cases v <;> simp [wt] at hv
  simp [wireEncode, decodeTy, decodeUnsigned, hv]

theorem rt_u64 : RT .u64 := by
  intro v absent path _ hv
  cases v <;> simp [wt] at hv
  simp [wireEncode, decodeTy, decodeUnsigned, hv]

theorem rt_i32 : RT .i32 := by
  intro v absent path _ hv
  cases v <;> simp [wt] at hv
  rename_i i
  simp only [wireEncode, decodeTy, encodeI32]
  by_cases h : i < 0
  · have h1 : 0 < i.natAbs ∧ i.natAbs ≤ 2 ^ 31 := by omega
    have h2 : - (i.natAbs : Int) = i := by omega
    simp [h, decodeI32, h1, h2]
  · have h1 : i.natAbs < 2 ^ 31 := by omega
    have h2 : (i.natAbs : Int) = i := by omega
    simp [h, decodeI32, h1, h2]

theorem rt_bool : RT .bool := by
  intro v absent path _ hv
  cases v <;> simp [wt] at hv
  simp [wireEncode, decodeTy, decodeBool]

theorem rt_str : RT .str := by
  intro v absent path _ hv
  cases v <;> simp [wt] at hv
  simp [wireEncode, decodeTy, decodeStr, jstr]

theorem rt_spaceSv : RT .spaceSv := by
  intro v absent path _ hv
  cases v <;> simp only [wt, Bool.false_eq_true] at hv
  rename_i l
  have hall : ∀ t ∈ l, tokenOk t = true := by simpa [List.all_eq_true] using hv
  have hflag : (joinWith ' ' l).any needsEscape = false :=
    any_joinWith needsEscape ' ' (by decide) l (fun t ht => tokenOk_noEscape (hall t ht))
  simp [wireEncode, decodeTy, jstr, hflag, decodeSpaceSv, moves_split_tokens l hv]

theorem rt_csvRules (table : List (Key × String)) (wires : List (String × Key)) : RT (.csvRules table wires) := by
  intro v absent path hwf hv
  cases v <;> simp only [wt, Bool.false_eq_true] at hv
  rename_i l
  simp only [wfTy, List.all_eq_true] at hwf
  simp only [Bool.and_eq_true, Bool.not_eq_true', List.isEmpty_eq_false_iff, List.all_eq_true] at hv
  let W : String → Key := fun r => (findByRust r wires).getD []
  have hW : ∀ r ∈ l, lookupKey ((W r).map lowerChar) table = some r ∧ ',' ∉ W r ∧ (W r).any needsEscape = false := by
    intro r hr
    have hs := hv.2 r hr
    obtain ⟨w, hw⟩ := Option.isSome_iff_exists.mp hs
    have hm := hwf (r, w) (findByRust_mem hw)
    simp only [ruleOk, Bool.and_eq_true, beq_iff_eq, Bool.not_eq_true', List.contains_eq_mem, decide_eq_false_iff_not] at hm
    simp only [W, hw, Option.getD_some]
    exact ⟨hm.1.1, hm.1.2, hm.2⟩
  have hflag : (joinWith ',' (l.map W)).any needsEscape = false :=
    any_joinWith needsEscape ',' (by decide) _ (by
      intro t ht
      obtain ⟨r, hr, rfl⟩ := List.mem_map.mp ht
      exact (hW r hr).2.2)
  have hsplit : splitOn ',' (joinWith ',' (l.map W)) = l.map W :=
    splitOn_joinWith ',' _ (by simpa using hv.1) (by
      intro t ht
      obtain ⟨r, hr, rfl⟩ := List.mem_map.mp ht
      exact (hW r hr).2.1)
  have hmap : mapM? (ruleFromStr table) (l.map W) = some l :=
    mapM?_map _ _ l (fun r hr => by simpa [ruleFromStr] using (hW r hr).1)
  simp only [wireEncode, decodeTy, jstr]
  show decodeCsvRules table (.str ((joinWith ',' (l.map W)).any needsEscape) (joinWith ',' (l.map W))) = _
  rw [hflag]
  simp [decodeCsvRules, csvRules, hsplit, hmap]

theorem rt_unitEnum (vs : List (String × Key)) : RT (.unitEnum vs) := by
  intro v absent path hwf hv
  cases v <;> simp only [wt, Bool.false_eq_true] at hv
  rename_i r
  simp only [wfTy] at hwf
  obtain ⟨w, hw⟩ := Option.isSome_iff_exists.mp hv
  have := findByWire_of_mem hwf (findByRust_mem hw)
  simp [wireEncode, decodeTy, jstr, hw, decodeUnitEnum, this]

theorem wireEncode_ne_null (absent : List String → Bool) (path : List String) (t : Ty) (v : DVal)
    (hopt : (match t with | .opt _ => false | _ => true) = true) (hv : wt t v = true) :
    wireEncode absent path t v ≠ .null := by
  cases t <;> cases v <;> simp [wt] at hv <;> simp [wireEncode, jstr, encodeI32] at hopt ⊢

theorem decodeTy_opt (t : Ty) (j : JVal) (h : j ≠ .null) : decodeTy (.opt t) j = mapOk .some (decodeTy t j) := by
  cases j <;> simp [decodeTy] at h ⊢

theorem rt_opt (t : Ty) (ih : RT t) : RT (.opt t) := by
  intro v absent path hwf hv
  simp only [wfTy, Bool.and_eq_true] at hwf
  cases v <;> simp only [wt, Bool.false_eq_true] at hv
  · simp [wireEncode, decodeTy]
  · rename_i v
    simp only [wireEncode]
    rw [decodeTy_opt _ _ (wireEncode_ne_null absent path t v hwf.1 hv), ih v absent path hwf.2 hv]
    rfl

/-! ### Structs -/

/-- what the scan is expected to have collected: the emitted direct fields, in order -/
def seenOf (absent : List String → Bool) (path : List String) : List (FieldInfo × Ty) → List DVal → List (Key × DVal)
  | (fi, t) :: rest, v :: vals =>
    (if fi.flatten || skipField fi t v (absent (fi.rust :: path)) then [] else [(fi.wire, v)]) ++ seenOf absent path rest vals
  | _, _ => []

/-- ... and the entries nobody claimed: those of the flatten fields -/
def othersOf (absent : List String → Bool) (path : List String) : List (FieldInfo × Ty) → List DVal → List (Key × JVal)
  | (fi, t) :: rest, v :: vals =>
    (if fi.flatten then
       match wireEncode absent (fi.rust :: path) t v with
       | .obj es => es
       | _ => []
     else []) ++ othersOf absent path rest vals
  | _, _ => []

def osOf : List (FieldInfo × Ty) → List DVal → List (Option DVal)
  | (fi, _) :: rest, v :: vals => (if fi.flatten then none else some v) :: osOf rest vals
  | _, _ => []

theorem wireFields_cons (absent : List String → Bool) (path : List String) (fi : FieldInfo) (t : Ty)
    (rest : List (FieldInfo × Ty)) (v : DVal) (vals : List DVal) :
    wireFields absent path ((fi, t) :: rest) (v :: vals) =
      (if fi.flatten then
         match wireEncode absent (fi.rust :: path) t v with
         | .obj es => es
         | _ => []
       else if skipField fi t v (absent (fi.rust :: path)) then []
       else [(fi.wire, wireEncode absent (fi.rust :: path) t v)]) ++ wireFields absent path rest vals := by
  simp only [wireFields]
  rfl

theorem scan_unknown (f : Key → JVal → Option (R DVal)) :
    ∀ (E1 E2 : List (Key × JVal)) (s : List (Key × DVal)) (o : List (Key × JVal)),
      (∀ p ∈ E1, f p.1 p.2 = none) → scan f (E1 ++ E2) s o = scan f E2 s (o ++ E1)
  | [], E2, s, o, _ => by simp
  | (k, v) :: E1, E2, s, o, h => by
    have hk : f k v = none := h (k, v) (by simp)
    have ih := scan_unknown f E1 E2 s (o ++ [(k, v)]) (fun p hp => h p (List.mem_cons_of_mem _ hp))
    simp only [List.cons_append, scan, hk]
    rw [ih]
    simp

theorem hasKey_false_iff {β : Type} {k : Key} : ∀ {s : List (Key × β)}, hasKey k s = false ↔ ∀ p ∈ s, ¬ p.1 = k
  | [] => by simp [hasKey]
  | (k', b) :: s => by
    simp only [hasKey, Bool.or_eq_false_iff, decide_eq_false_iff_not, List.mem_cons, forall_eq_or_imp]
    rw [hasKey_false_iff]

theorem lookupKey_append_of_not_hasKey {β : Type} {k : Key} :
    ∀ {s s' : List (Key × β)}, hasKey k s = false → lookupKey k (s ++ s') = lookupKey k s'
  | [], _, _ => rfl
  | (k', b) :: s, s', h => by
    simp only [hasKey, Bool.or_eq_false_iff, decide_eq_false_iff_not] at h
    simp only [List.cons_append, lookupKey, h.1, if_false]
    exact lookupKey_append_of_not_hasKey h.2

theorem lookupKey_none_of_not_hasKey {β : Type} {k : Key} {s : List (Key × β)} (h : hasKey k s = false) :
    lookupKey k s = none := by
  have := lookupKey_append_of_not_hasKey (s' := []) h
  simpa [lookupKey] using this

theorem decAt_none (k : Key) (j : JVal) : ∀ (fs : List (FieldInfo × Ty)), k ∉ directKeys fs → decAt fs k j = none
  | [], _ => by simp [decAt]
  | (fi, t) :: rest, h => by
    simp only [directKeys] at h
    by_cases hf : fi.flatten = true
    · simp only [hf, if_true] at h
      simp [decAt, hf, decAt_none k j rest h]
    · have hf' : fi.flatten = false := by simpa using hf
      simp only [hf', Bool.false_eq_true, if_false, List.mem_cons, not_or] at h
      have hne : ¬ fi.wire = k := fun e => h.1 e.symm
      simp [decAt, hne, decAt_none k j rest h.2]

theorem mem_directKeys {fi : FieldInfo} {t : Ty} :
    ∀ {fs : List (FieldInfo × Ty)}, (fi, t) ∈ fs → fi.flatten = false → fi.wire ∈ directKeys fs
  | [], h, _ => by cases h
  | (fi', t') :: rest, h, hf => by
    cases h with
    | head => simp [directKeys, hf]
    | tail _ h =>
      have := mem_directKeys h hf
      simp only [directKeys]
      split
      · exact this
      · exact List.mem_cons_of_mem _ this

theorem decAt_direct {fi : FieldInfo} {t : Ty} (j : JVal) :
    ∀ {fs : List (FieldInfo × Ty)}, nodupKeys (directKeys fs) = true → (fi, t) ∈ fs → fi.flatten = false →
      decAt fs fi.wire j = some (decodeTy t j)
  | [], _, h, _ => by cases h
  | (fi', t') :: rest, hn, h, hf => by
    cases h with
    | head => simp [decAt, hf]
    | tail _ h =>
      simp only [directKeys] at hn
      by_cases hf' : fi'.flatten = true
      · simp only [hf', if_true] at hn
        simp [decAt, hf', decAt_direct j hn h hf]
      · have hf'' : fi'.flatten = false := by simpa using hf'
        simp only [hf'', Bool.false_eq_true, if_false, nodupKeys_cons] at hn
        have hne : ¬ fi'.wire = fi.wire := fun e => hn.1 (e ▸ mem_directKeys h hf)
        simp [decAt, hne, decAt_direct j hn.2 h hf]

theorem hasFlatten_cons (fi : FieldInfo) (t : Ty) (rest : List (FieldInfo × Ty)) :
    hasFlatten ((fi, t) :: rest) = (fi.flatten || hasFlatten rest) := by
  simp [hasFlatten]

/-- a struct without flatten fields emits direct keys only -/
theorem wireFields_keys (absent : List String → Bool) (path : List String) :
    ∀ (inner : List (FieldInfo × Ty)) (ivals : List DVal), hasFlatten inner = false →
      ∀ e ∈ wireFields absent path inner ivals, e.1 ∈ directKeys inner
  | [], _, _, e, he => by simp [wireFields] at he
  | _ :: _, [], _, e, he => by simp [wireFields] at he
  | (fi, t) :: rest, v :: vals, h, e, he => by
    rw [hasFlatten_cons, Bool.or_eq_false_iff] at h
    rw [wireFields_cons] at he
    simp only [h.1, Bool.false_eq_true, if_false, List.mem_append] at he
    simp only [directKeys, h.1, Bool.false_eq_true, if_false]
    cases he with
    | inl he =>
      split at he
      · cases he
      · simp only [List.mem_singleton] at he
        subst he
        exact List.mem_cons_self
    | inr he => exact List.mem_cons_of_mem _ (wireFields_keys absent path rest vals h.2 e he)

theorem seenOf_keys (absent : List String → Bool) (path : List String) :
    ∀ (fs : List (FieldInfo × Ty)) (vals : List DVal), ∀ e ∈ seenOf absent path fs vals, e.1 ∈ directKeys fs
  | [], _, e, he => by simp [seenOf] at he
  | _ :: _, [], e, he => by simp [seenOf] at he
  | (fi, t) :: rest, v :: vals, e, he => by
    simp only [seenOf, List.mem_append] at he
    simp only [directKeys]
    cases he with
    | inl he =>
      split at he
      · cases he
      · rename_i hc
        simp only [Bool.or_eq_true, not_or, Bool.not_eq_true] at hc
        simp only [List.mem_singleton] at he
        subst he
        simp [hc.1]
    | inr he =>
      have := seenOf_keys absent path rest vals e he
      split
      · exact this
      · exact List.mem_cons_of_mem _ this

theorem innerKeys_sub_flatKeys {fi : FieldInfo} {t : Ty} :
    ∀ {fs : List (FieldInfo × Ty)}, (fi, t) ∈ fs → fi.flatten = true → ∀ k ∈ innerKeys t, k ∈ flatKeys fs
  | [], h, _, _, _ => by cases h
  | (fi', t') :: rest, h, hf, k, hk => by
    cases h with
    | head => simp [flatKeys, hf, hk]
    | tail _ h =>
      have := innerKeys_sub_flatKeys h hf k hk
      simp only [flatKeys]
      split
      · exact List.mem_append_right _ this
      · exact this

/-- shape of a flatten field and its value -/
theorem flatten_shape {fi : FieldInfo} {t : Ty} {v : DVal} (hok : fieldOk fi t = true) (hf : fi.flatten = true)
    (hv : ((fi.default && emptyRules t v) || wt t v) = true) :
    fi.default = false ∧ ∃ inner ivals, t = .struct inner ∧ v = .struct ivals ∧ hasFlatten inner = false := by
  simp only [fieldOk, hf, if_true, Bool.and_eq_true, Bool.not_eq_true'] at hok
  have hd := hok.1.2
  simp only [hd, Bool.false_and, Bool.false_or] at hv
  refine ⟨hd, ?_⟩
  cases t <;> simp at hok
  rename_i inner
  cases v <;> simp only [wt, Bool.false_eq_true] at hv
  rename_i ivals
  exact ⟨inner, ivals, rfl, rfl, hok.1.1⟩

/-- an emitted direct field is well-typed in the strict sense -/
theorem wt_of_emitted {fi : FieldInfo} {t : Ty} {v : DVal} {a : Bool}
    (hv : ((fi.default && emptyRules t v) || wt t v) = true) (hs : skipField fi t v a = false) : wt t v = true := by
  rcases Bool.or_eq_true_iff.mp hv with h | h
  · exfalso
    simp only [Bool.and_eq_true] at h
    cases t <;> cases v <;> simp [emptyRules] at h
    rename_i l
    cases l <;> simp at h
    simp [skipField, h, isEmptyList] at hs
  · exact h

/-- a skipped field decodes to the same value from its absence -/
theorem missing_of_skipped {fi : FieldInfo} {t : Ty} {v : DVal} {a : Bool} (hok : fieldOk fi t = true)
    (hv : ((fi.default && emptyRules t v) || wt t v) = true) (hs : skipField fi t v a = true) :
    missingValue fi t = some v := by
  cases v with
  | none =>
    have : wt t .none = true := by
      rcases Bool.or_eq_true_iff.mp hv with h | h
      · cases t <;> simp [emptyRules] at h
      · exact h
    cases t <;> simp [wt] at this
    simp [missingValue]
  | strs l =>
    simp only [skipField, Bool.and_eq_true] at hs
    cases l <;> simp [isEmptyList] at hs
    cases t <;> simp [emptyRules, wt] at hv
    simp [missingValue, hs.1, defaultOf]
  | rules l =>
    simp only [skipField, Bool.and_eq_true] at hs
    cases l <;> simp [isEmptyList] at hs
    cases t <;> simp [emptyRules, wt] at hv
    simp [missingValue, hs.1, defaultOf]
  | nat _ => simp [skipField, isEmptyList] at hs
  | int _ => simp [skipField, isEmptyList] at hs
  | bool _ => simp [skipField, isEmptyList] at hs
  | str _ => simp [skipField, isEmptyList] at hs
  | some _ => simp [skipField, isEmptyList] at hs
  | enumv _ => simp [skipField, isEmptyList] at hs
  | struct _ => simp [skipField, isEmptyList] at hs
  | variant _ _ => simp [skipField, isEmptyList] at hs

/-- **scan**: every entry of the encoding is either claimed by its own field (and decodes to its value) or belongs to a
flatten field and is passed on -/
theorem scan_fields (absent : List String → Bool) (path : List String) (fs : List (FieldInfo × Ty))
    (IH : ∀ p ∈ fs, RT p.2) (hnd : nodupKeys (directKeys fs ++ flatKeys fs) = true) :
    ∀ (fs' : List (FieldInfo × Ty)) (vals' : List DVal) (seen0 : List (Key × DVal)) (others0 : List (Key × JVal)),
      (∀ p ∈ fs', p ∈ fs) → wfFields fs' = true → wtFields fs' vals' = true → nodupKeys (directKeys fs') = true →
      (∀ k ∈ directKeys fs', hasKey k seen0 = false) →
      scan (decAt fs) (wireFields absent path fs' vals') seen0 others0
        = .ok (seen0 ++ seenOf absent path fs' vals', others0 ++ othersOf absent path fs' vals')
  | [], [], seen0, others0, _, _, _, _, _ => by simp [wireFields, scan, seenOf, othersOf]
  | [], _ :: _, _, _, _, _, hwt, _, _ => by simp [wtFields] at hwt
  | _ :: _, [], _, _, _, _, hwt, _, _ => by simp [wtFields] at hwt
  | (fi, t) :: rest, v :: vals, seen0, others0, hsub, hwf, hwt, hnd', hseen => by
    simp only [wfFields, Bool.and_eq_true] at hwf
    simp only [wtFields, Bool.and_eq_true] at hwt
    have hmem : (fi, t) ∈ fs := hsub _ List.mem_cons_self
    have hsub' : ∀ p ∈ rest, p ∈ fs := fun p hp => hsub p (List.mem_cons_of_mem _ hp)
    obtain ⟨hndD, _, hdisj⟩ := nodupKeys_append hnd
    rw [wireFields_cons]
    by_cases hf : fi.flatten = true
    · -- flatten field: its entries are unknown to `decAt fs`
      obtain ⟨_, inner, ivals, rfl, rfl, hnf⟩ := flatten_shape hwf.1.1 hf hwt.1
      simp only [directKeys, hf, if_true] at hnd' hseen
      have hunk : ∀ e ∈ wireFields absent (fi.rust :: path) inner ivals, decAt fs e.1 e.2 = none := by
        intro e he
        apply decAt_none
        intro hk
        have h1 := wireFields_keys absent (fi.rust :: path) inner ivals hnf e he
        exact hdisj _ hk (innerKeys_sub_flatKeys hmem hf _ (by simpa [innerKeys] using h1))
      simp only [hf, if_true, wireEncode]
      rw [scan_unknown _ _ _ _ _ hunk, scan_fields absent path fs IH hnd rest vals _ _ hsub' hwf.2 hwt.2 hnd' hseen]
      simp [seenOf, othersOf, hf, wireEncode, List.append_assoc]
    · have hf' : fi.flatten = false := by simpa using hf
      simp only [directKeys, hf', Bool.false_eq_true, if_false, nodupKeys_cons] at hnd'
      simp only [directKeys, hf', Bool.false_eq_true, if_false, List.mem_cons, forall_eq_or_imp] at hseen
      simp only [hf', Bool.false_eq_true, if_false]
      by_cases hs : skipField fi t v (absent (fi.rust :: path)) = true
      · simp only [hs, if_true, List.nil_append]
        rw [scan_fields absent path fs IH hnd rest vals _ _ hsub' hwf.2 hwt.2 hnd'.2 hseen.2]
        simp [seenOf, othersOf, hf', hs]
      · have hs' : skipField fi t v (absent (fi.rust :: path)) = false := by simpa using hs
        have hwtv := wt_of_emitted hwt.1 hs'
        have hdec := IH _ hmem v absent (fi.rust :: path) hwf.1.2 hwtv
        have hseen' : ∀ k ∈ directKeys rest, hasKey k (seen0 ++ [(fi.wire, v)]) = false := by
          intro k hk
          rw [hasKey_false_iff]
          intro p hp
          rcases List.mem_append.mp hp with hp | hp
          · exact hasKey_false_iff.mp (hseen.2 k hk) p hp
          · simp only [List.mem_singleton] at hp
            subst hp
            exact fun e => hnd'.1 (by simpa [← e] using hk)
        simp only [hs', Bool.false_eq_true, if_false, List.cons_append, List.nil_append, scan]
        rw [decAt_direct _ hndD hmem hf', hdec]
        simp only [hseen.1, Bool.false_eq_true, if_false]
        rw [scan_fields absent path fs IH hnd rest vals _ _ hsub' hwf.2 hwt.2 hnd'.2 hseen']
        simp [seenOf, othersOf, hf', hs', List.append_assoc]

/-- **missing fields**: what the scan collected gives every direct field its value -/
theorem directVals_fields (absent : List String → Bool) (path : List String) :
    ∀ (fs' : List (FieldInfo × Ty)) (vals' : List DVal) (pre : List (Key × DVal)),
      wfFields fs' = true → wtFields fs' vals' = true → nodupKeys (directKeys fs') = true →
      (∀ k ∈ directKeys fs', hasKey k pre = false) →
      directVals fs' (pre ++ seenOf absent path fs' vals') = .ok (osOf fs' vals')
  | [], [], _, _, _, _, _ => by simp [directVals, osOf]
  | [], _ :: _, _, _, hwt, _, _ => by simp [wtFields] at hwt
  | _ :: _, [], _, _, hwt, _, _ => by simp [wtFields] at hwt
  | (fi, t) :: rest, v :: vals, pre, hwf, hwt, hnd', hseen => by
    simp only [wfFields, Bool.and_eq_true] at hwf
    simp only [wtFields, Bool.and_eq_true] at hwt
    by_cases hf : fi.flatten = true
    · simp only [directKeys, hf, if_true] at hnd' hseen
      have ih := directVals_fields absent path rest vals pre hwf.2 hwt.2 hnd' hseen
      simp only [seenOf, hf, Bool.true_or, if_true, List.nil_append, directVals, osOf]
      rw [ih]
    · have hf' : fi.flatten = false := by simpa using hf
      simp only [directKeys, hf', Bool.false_eq_true, if_false, nodupKeys_cons] at hnd'
      simp only [directKeys, hf', Bool.false_eq_true, if_false, List.mem_cons, forall_eq_or_imp] at hseen
      by_cases hs : skipField fi t v (absent (fi.rust :: path)) = true
      · have ih := directVals_fields absent path rest vals pre hwf.2 hwt.2 hnd'.2 hseen.2
        have hnone : lookupKey fi.wire (pre ++ seenOf absent path rest vals) = none := by
          apply lookupKey_none_of_not_hasKey
          rw [hasKey_false_iff]
          intro p hp
          rcases List.mem_append.mp hp with hp | hp
          · exact hasKey_false_iff.mp hseen.1 p hp
          · exact fun e => hnd'.1 (e ▸ seenOf_keys absent path rest vals p hp)
        simp only [seenOf, hf', hs, Bool.or_true, if_true, List.nil_append, directVals, Bool.false_eq_true, if_false,
          osOf, hnone, missing_of_skipped hwf.1.1 hwt.1 hs]
        rw [ih]
      · have hs' : skipField fi t v (absent (fi.rust :: path)) = false := by simpa using hs
        have hpre' : ∀ k ∈ directKeys rest, hasKey k (pre ++ [(fi.wire, v)]) = false := by
          intro k hk
          rw [hasKey_false_iff]
          intro p hp
          rcases List.mem_append.mp hp with hp | hp
          · exact hasKey_false_iff.mp (hseen.2 k hk) p hp
          · simp only [List.mem_singleton] at hp
            subst hp
            exact fun e => hnd'.1 (by simpa [← e] using hk)
        have ih := directVals_fields absent path rest vals (pre ++ [(fi.wire, v)]) hwf.2 hwt.2 hnd'.2 hpre'
        have hsome : lookupKey fi.wire (pre ++ ((fi.wire, v) :: seenOf absent path rest vals)) = some v := by
          rw [lookupKey_append_of_not_hasKey hseen.1]
          simp [lookupKey]
        simp only [seenOf, hf', hs', Bool.or_self, Bool.false_eq_true, if_false, List.cons_append, List.nil_append,
          directVals, osOf, hsome]
        have e : pre ++ (fi.wire, v) :: seenOf absent path rest vals = (pre ++ [(fi.wire, v)]) ++ seenOf absent path rest vals := by
          simp
        rw [e, ih]

theorem othersOf_nil_of_noFlatten (absent : List String → Bool) (path : List String) :
    ∀ (fs : List (FieldInfo × Ty)) (vals : List DVal), flattenCount fs = 0 → othersOf absent path fs vals = []
  | [], _, _ => by simp [othersOf]
  | _ :: _, [], _ => by simp [othersOf]
  | (fi, t) :: rest, v :: vals, h => by
    simp only [flattenCount] at h
    have hf : fi.flatten = false := by
      cases hfl : fi.flatten
      · rfl
      · simp [hfl] at h
    simp only [hf, Bool.false_eq_true, if_false, Nat.zero_add] at h
    simp [othersOf, hf, othersOf_nil_of_noFlatten absent path rest vals h]

/-- **flatten**: the unclaimed entries are exactly the encoding of the (single) flatten field -/
theorem fill_fields (absent : List String → Bool) (path : List String) :
    ∀ (fs' : List (FieldInfo × Ty)) (vals' : List DVal) (O : List (Key × JVal)),
      (∀ p ∈ fs', RT p.2) → wfFields fs' = true → wtFields fs' vals' = true → flattenCount fs' ≤ 1 →
      (flattenCount fs' = 1 → O = othersOf absent path fs' vals') →
      fillFlatten fs' (osOf fs' vals') O = .ok vals'
  | [], [], _, _, _, _, _, _ => by simp [fillFlatten]
  | [], _ :: _, _, _, _, hwt, _, _ => by simp [wtFields] at hwt
  | _ :: _, [], _, _, _, hwt, _, _ => by simp [wtFields] at hwt
  | (fi, t) :: rest, v :: vals, O, IH, hwf, hwt, hc, hO => by
    simp only [wfFields, Bool.and_eq_true] at hwf
    simp only [wtFields, Bool.and_eq_true] at hwt
    have IH' : ∀ p ∈ rest, RT p.2 := fun p hp => IH p (List.mem_cons_of_mem _ hp)
    by_cases hf : fi.flatten = true
    · obtain ⟨hd, inner, ivals, rfl, rfl, _⟩ := flatten_shape hwf.1.1 hf hwt.1
      simp only [flattenCount, hf, if_true] at hc hO
      have hc0 : flattenCount rest = 0 := by omega
      have hOe : O = wireFields absent (fi.rust :: path) inner ivals := by
        have := hO (by omega)
        simpa [othersOf, hf, wireEncode, othersOf_nil_of_noFlatten absent path rest vals hc0] using this
      have hwtv : wt (.struct inner) (.struct ivals) = true := by simpa [hd] using hwt.1
      have hdec := IH _ List.mem_cons_self (.struct ivals) absent (fi.rust :: path) hwf.1.2 hwtv
      simp only [wireEncode] at hdec
      have ih := fill_fields absent path rest vals O IH' hwf.2 hwt.2 (by omega) (by omega)
      simp only [osOf, hf, if_true, fillFlatten]
      rw [hOe] at ih ⊢
      rw [hdec, ih]
      rfl
    · have hf' : fi.flatten = false := by simpa using hf
      simp only [flattenCount, hf', Bool.false_eq_true, if_false, Nat.zero_add] at hc hO
      have ih := fill_fields absent path rest vals O IH' hwf.2 hwt.2 hc (by
        intro h1
        simpa [othersOf, hf'] using hO h1)
      simp only [osOf, hf', Bool.false_eq_true, if_false, fillFlatten]
      rw [ih]
      rfl

/-- object form of a field list -/
theorem fields_roundtrip (absent : List String → Bool) (path : List String) (fs : List (FieldInfo × Ty))
    (vals : List DVal) (IH : ∀ p ∈ fs, RT p.2) (hshape : shapeOk fs = true) (hwf : wfFields fs = true)
    (hwt : wtFields fs vals = true) :
    decodeMapWith (decAt fs) (fillFlatten fs) fs (wireFields absent path fs vals) = .ok vals := by
  simp only [shapeOk, Bool.and_eq_true, decide_eq_true_eq] at hshape
  obtain ⟨hndD, _, _⟩ := nodupKeys_append hshape.1
  have h1 := scan_fields absent path fs IH hshape.1 fs vals [] [] (fun _ h => h) hwf hwt hndD (by simp [hasKey])
  have h2 := directVals_fields absent path fs vals [] hwf hwt hndD (by simp [hasKey])
  have h3 := fill_fields absent path fs vals (othersOf absent path fs vals) IH hwf hwt hshape.2 (fun _ => rfl)
  simp only [List.nil_append] at h1 h2
  simp only [decodeMapWith, h1, h2, h3]

theorem rt_struct (fs : List (FieldInfo × Ty)) (IH : ∀ p ∈ fs, RT p.2) : RT (.struct fs) := by
  intro v absent path hwf hv
  cases v <;> simp only [wt, Bool.false_eq_true] at hv
  rename_i vals
  simp only [wfTy, Bool.and_eq_true] at hwf
  simp only [wireEncode, decodeTy, fields_roundtrip absent path fs vals IH hwf.1 hwf.2 hv]
  rfl

/-! ### Internally tagged enums -/

def pickVariant : List (VariantInfo × List (FieldInfo × Ty)) → String → Option (VariantInfo × List (FieldInfo × Ty))
  | [], _ => none
  | (vi, fs) :: rest, r => if vi.rust = r then some (vi, fs) else pickVariant rest r

theorem pick_of_wt : ∀ {vs : List (VariantInfo × List (FieldInfo × Ty))} {r : String} {vals : List DVal},
    wtVariant vs r vals = true →
    ∃ vi fs, pickVariant vs r = some (vi, fs) ∧ (vi, fs) ∈ vs ∧ vi.rust = r ∧ wtFields fs vals = true
  | [], _, _, h => by simp [wtVariant] at h
  | (vi, fs) :: rest, r, vals, h => by
    simp only [wtVariant] at h
    by_cases e : vi.rust = r
    · simp only [e, if_true] at h
      exact ⟨vi, fs, by simp [pickVariant, e], List.mem_cons_self, e, h⟩
    · simp only [e, if_false] at h
      obtain ⟨vi', fs', h1, h2, h3, h4⟩ := pick_of_wt h
      exact ⟨vi', fs', by simp [pickVariant, e, h1], List.mem_cons_of_mem _ h2, h3, h4⟩

theorem wireVariant_of_pick (absent : List String → Bool) (tag : Key) (path : List String) :
    ∀ {vs : List (VariantInfo × List (FieldInfo × Ty))} {r : String} {vals : List DVal}
      {vi : VariantInfo} {fs : List (FieldInfo × Ty)}, pickVariant vs r = some (vi, fs) →
      wireVariant absent tag path vs r vals = (tag, jstr vi.wire) :: wireFields absent (vi.rust :: path) fs vals
  | [], _, _, _, _, h => by simp [pickVariant] at h
  | (vi', fs') :: rest, r, vals, vi, fs, h => by
    simp only [pickVariant] at h
    by_cases e : vi'.rust = r
    · simp only [e, if_true, Option.some.injEq, Prod.mk.injEq] at h
      obtain ⟨rfl, rfl⟩ := h
      simp [wireVariant, e]
    · simp only [e, if_false] at h
      simp [wireVariant, e, wireVariant_of_pick absent tag path h]

theorem wfVariants_mem {tag : Key} :
    ∀ {vs : List (VariantInfo × List (FieldInfo × Ty))} {vi : VariantInfo} {fs : List (FieldInfo × Ty)},
      wfVariants tag vs = true → (vi, fs) ∈ vs →
      shapeOk fs = true ∧ tag ∉ directKeys fs ++ flatKeys fs ∧ (vi.unit = true → fs = []) ∧ wfFields fs = true
  | [], _, _, _, h => by cases h
  | (vi', fs') :: rest, vi, fs, hwf, h => by
    simp only [wfVariants, Bool.and_eq_true, Bool.not_eq_true', List.contains_eq_mem, decide_eq_false_iff_not,
      Bool.or_eq_true, List.isEmpty_iff] at hwf
    cases h with
    | head =>
      refine ⟨hwf.1.1.1.1, hwf.1.1.1.2, ?_, hwf.1.2⟩
      intro hu
      rcases hwf.1.1.2 with h | h
      · simp [hu] at h
      · exact h
    | tail _ h => exact wfVariants_mem hwf.2 h

/-- what `decVariant` does once it has found the variant -/
def variantBody (vi : VariantInfo) (fs : List (FieldInfo × Ty)) (payload : JVal) : R DVal :=
  if vi.unit then
    match payload with
    | .obj _ => .ok (.variant vi.rust [])
    | .arr [] => .ok (.variant vi.rust [])
    | _ => .error .err
  else
    match payload with
    | .obj es => mapOk (.variant vi.rust) (decodeMapWith (decAt fs) (fillFlatten fs) fs es)
    | .arr xs => if hasFlatten fs then .error .err else mapOk (.variant vi.rust) (decodeSeq fs xs)
    | _ => .error .err

theorem decVariant_name (payload : JVal) :
    ∀ {vs : List (VariantInfo × List (FieldInfo × Ty))} {vi : VariantInfo} {fs : List (FieldInfo × Ty)},
      nodupKeys (vs.map (·.1.wire)) = true → (vi, fs) ∈ vs →
      decVariant vs (.name vi.wire) payload = variantBody vi fs payload
  | [], _, _, _, h => by cases h
  | (vi', fs') :: rest, vi, fs, hn, h => by
    simp only [List.map_cons, nodupKeys_cons] at hn
    cases h with
    | head =>
      simp only [decVariant, tagMatches, decide_true, if_true, variantBody]
      rfl
    | tail _ h =>
      have hne : ¬ vi'.wire = vi.wire := fun e => hn.1 (e ▸ List.mem_map.mpr ⟨(vi, fs), h, rfl⟩)
      simp only [decVariant, tagMatches, hne, decide_false, Bool.false_eq_true, if_false, tagNext]
      exact decVariant_name payload hn.2 h

/-- every key of the encoding of a field list is one of its (direct or flattened) keys -/
theorem wireFields_keys_all (absent : List String → Bool) (path : List String) :
    ∀ (fs : List (FieldInfo × Ty)) (vals : List DVal), wfFields fs = true → wtFields fs vals = true →
      ∀ e ∈ wireFields absent path fs vals, e.1 ∈ directKeys fs ++ flatKeys fs
  | [], _, _, _, e, he => by simp [wireFields] at he
  | _ :: _, [], _, _, e, he => by simp [wireFields] at he
  | (fi, t) :: rest, v :: vals, hwf, hwt, e, he => by
    simp only [wfFields, Bool.and_eq_true] at hwf
    simp only [wtFields, Bool.and_eq_true] at hwt
    rw [wireFields_cons, List.mem_append] at he
    have ih := wireFields_keys_all absent path rest vals hwf.2 hwt.2 e
    by_cases hf : fi.flatten = true
    · obtain ⟨_, inner, ivals, rfl, rfl, hnf⟩ := flatten_shape hwf.1.1 hf hwt.1
      simp only [hf, if_true, wireEncode] at he
      simp only [directKeys, flatKeys, hf, if_true, innerKeys, List.mem_append]
      rcases he with he | he
      · exact Or.inr (Or.inl (wireFields_keys absent (fi.rust :: path) inner ivals hnf e he))
      · rcases List.mem_append.mp (ih he) with h | h
        · exact Or.inl h
        · exact Or.inr (Or.inr h)
    · have hf' : fi.flatten = false := by simpa using hf
      simp only [hf', Bool.false_eq_true, if_false] at he
      simp only [directKeys, flatKeys, hf', Bool.false_eq_true, if_false, List.mem_append, List.mem_cons]
      rcases he with he | he
      · split at he
        · cases he
        · simp only [List.mem_singleton] at he
          subst he
          exact Or.inl (Or.inl rfl)
      · rcases List.mem_append.mp (ih he) with h | h
        · exact Or.inl (Or.inr h)
        · exact Or.inr h

theorem splitTag_cons (tag w : Key) (E : List (Key × JVal)) (h : ∀ e ∈ E, ¬ e.1 = tag) :
    splitTag tag ((tag, jstr w) :: E) = some (.name w, E) := by
  have h1 : E.filter (fun p => decide (p.1 = tag)) = [] := by
    rw [List.filter_eq_nil_iff]
    intro e he
    simpa using h e he
  have h2 : E.filter (fun p => decide (¬ p.1 = tag)) = E := by
    rw [List.filter_eq_self]
    intro e he
    simpa using h e he
  simp only [splitTag, List.filter_cons, decide_true, if_true, h1, not_true_eq_false, decide_false, Bool.false_eq_true,
    if_false, h2, jstr, tagOf]

theorem rt_tagged (tag : Key) (vs : List (VariantInfo × List (FieldInfo × Ty)))
    (IH : ∀ q ∈ vs, ∀ p ∈ q.2, RT p.2) : RT (.tagged tag vs) := by
  intro v absent path hwf hv
  cases v <;> simp only [wt, Bool.false_eq_true] at hv
  rename_i r vals
  simp only [wfTy, Bool.and_eq_true] at hwf
  obtain ⟨vi, fs, hpick, hmem, hr, hwtf⟩ := pick_of_wt hv
  subst hr
  obtain ⟨hshape, htag, hunit, hwff⟩ := wfVariants_mem hwf.2 hmem
  have hkeys : ∀ e ∈ wireFields absent (vi.rust :: path) fs vals, ¬ e.1 = tag := by
    intro e he heq
    exact htag (heq ▸ wireFields_keys_all absent (vi.rust :: path) fs vals hwff hwtf e he)
  simp only [wireEncode, decodeTy, wireVariant_of_pick absent tag path hpick, splitTag_cons tag vi.wire _ hkeys,
    decVariant_name _ hwf.1 hmem, variantBody]
  by_cases hu : vi.unit = true
  · have hfs := hunit hu
    subst hfs
    cases vals with
    | nil => simp [hu]
    | cons _ _ => simp [wtFields] at hwtf
  · simp only [hu, Bool.false_eq_true, if_false,
      fields_roundtrip absent (vi.rust :: path) fs vals (IH _ hmem) hshape hwff hwtf, mapOk]

/-! ### The theorem -/

/-- **round trip on type trees**: for every well-formed type tree and every well-typed value, decoding the document
`wireEncode absent path t v` (any choice `absent` of which `None` / empty-default fields are left out) gives `v` back. -/
theorem decodeTy_wireEncode : ∀ (t : Ty), RT t :=
  Ty.induct' rt_u32 rt_u64 rt_i32 rt_bool rt_str rt_spaceSv rt_csvRules rt_opt rt_unitEnum rt_struct rt_tagged

theorem numericTag_wireEncode (absent : List String → Bool) (path : List String) (t : Ty) (v : DVal)
    (hwf : wfTy t = true) (hv : wt t v = true) : numericTag t (wireEncode absent path t v) = false := by
  cases t <;> cases v <;> simp only [wt, Bool.false_eq_true] at hv <;>
    try (simp [numericTag, wireEncode]; done)
  all_goals try (simp only [wireEncode]; split <;> simp [numericTag])
  rename_i tag vs r vals
  simp only [wfTy, Bool.and_eq_true] at hwf
  obtain ⟨vi, fs, hpick, hmem, _, hwtf⟩ := pick_of_wt hv
  obtain ⟨_, htag, _, hwff⟩ := wfVariants_mem hwf.2 hmem
  simp only [wireEncode, wireVariant_of_pick absent tag path hpick, numericTag, List.any_cons, jstr, Bool.and_false,
    Bool.false_or, List.any_eq_false, Bool.and_eq_true, decide_eq_true_eq, not_and]
  intro e he heq
  exact absurd (heq ▸ wireFields_keys_all absent (vi.rust :: path) fs vals hwff hwtf e he) htag

/-- decidable well-formedness of a named schema: every named type unfolds (no cycles, nothing unsupported) into a
well-formed tree: distinct wire names per object (flattened members included), the tag name of an internally tagged
enum does not clash with a member, variant / enum keys are distinct, `Option` is not nested, flatten fields name plain
structs, `default` fields have a default, and every documented rule name is understood by `from_str`. -/
def wfSchema (σ : List TypeDef) (rules : List (String × String)) : Bool :=
  σ.all fun td =>
    match resolve σ rules td.name with
    | some t => wfTy t
    | none => false

def WFSchema (σ : List TypeDef) (rules : List (String × String)) : Prop := wfSchema σ rules = true

instance (σ : List TypeDef) (rules : List (String × String)) : Decidable (WFSchema σ rules) := by
  unfold WFSchema; infer_instance

/-- **C19 (round trip).**  For every well-formed schema, every named type `name` of it with type tree `t`, every value
`v` that is well-typed for `t` -- any strings, any integers in range, any list of tokens without white space for the
moves, any optional field `None` or `Some` -- and every choice `absent` of leaving out or writing `null` (`""` for an
empty move list) each `None` / empty field: the decoder maps the document back to `v`. -/
theorem decode_encode (σ : List TypeDef) (rules : List (String × String)) (hσ : WFSchema σ rules)
    (name : String) (hname : name ∈ σ.map (·.name)) (t : Ty) (ht : resolve σ rules name = some t)
    (v : DVal) (hv : wt t v = true) (absent : List String → Bool) :
    decode σ rules name (wireEncode absent [] t v) = .ok v := by
  obtain ⟨td, htd, rfl⟩ := List.mem_map.mp hname
  have h := List.all_eq_true.mp hσ td htd
  simp only [ht] at h
  simp only [decode, ht, decodeRoot, numericTag_wireEncode absent [] t v h hv, Bool.false_eq_true, if_false]
  exact decodeTy_wireEncode t v absent [] h hv

#print axioms decode_encode

/-- the schema generated from the Rust source is well-formed -/
theorem wf_generated : WFSchema schema csvRuleTable := by decide +kernel

#print axioms wf_generated

/-! ## 4. `parse_render_json`: the JSON reader inverts the JSON printer -/

/-! ### Numbers -/

theorem digitChar_toNat : ∀ d, d < 10 → (digitChar d).toNat = 48 + d := by decide

theorem natDigits_lt (n : Nat) (h : n < 10) : natDigits n = [digitChar n] := by
  rw [natDigits]; simp [h]

theorem natDigits_ge (n : Nat) (h : ¬ n < 10) : natDigits n = natDigits (n / 10) ++ [digitChar (n % 10)] := by
  rw [natDigits]; simp [h]

theorem isDigit_digitChar (d : Nat) (h : d < 10) : isDigit (digitChar d) = true := by
  simp only [isDigit, digitChar_toNat d h, Bool.and_eq_true, decide_eq_true_eq]
  omega

theorem natDigits_all_digit (n : Nat) : ∀ c ∈ natDigits n, isDigit c = true := by
  induction n using Nat.strongRecOn with
  | _ n ih =>
    by_cases h : n < 10
    · rw [natDigits_lt n h]
      intro c hc
      simp only [List.mem_singleton] at hc
      subst hc
      exact isDigit_digitChar n h
    · rw [natDigits_ge n h]
      intro c hc
      rcases List.mem_append.mp hc with hc | hc
      · exact ih (n / 10) (by omega) c hc
      · simp only [List.mem_singleton] at hc
        subst hc
        exact isDigit_digitChar _ (by omega)

theorem natDigits_ne_nil (n : Nat) : natDigits n ≠ [] := by
  by_cases h : n < 10
  · rw [natDigits_lt n h]; simp
  · rw [natDigits_ge n h]; simp

theorem digitsVal_append (a : List Char) (c : Char) : digitsVal (a ++ [c]) = 10 * digitsVal a + (c.toNat - 48) := by
  simp [digitsVal, List.foldl_append]

theorem digitsVal_natDigits (n : Nat) : digitsVal (natDigits n) = n := by
  induction n using Nat.strongRecOn with
  | _ n ih =>
    by_cases h : n < 10
    · rw [natDigits_lt n h]
      simp [digitsVal, digitChar_toNat n h]
    · rw [natDigits_ge n h, digitsVal_append, ih (n / 10) (by omega), digitChar_toNat _ (by omega : n % 10 < 10)]
      omega

theorem natDigits_head_zero (n : Nat) : (natDigits n).head? = some '0' → n = 0 := by
  induction n using Nat.strongRecOn with
  | _ n ih =>
    by_cases h : n < 10
    · rw [natDigits_lt n h]
      intro hh
      simp only [List.head?_cons, Option.some.injEq] at hh
      have := congrArg Char.toNat hh
      rw [digitChar_toNat n h] at this
      simp at this
      omega
    · rw [natDigits_ge n h]
      intro hh
      have hne := natDigits_ne_nil (n / 10)
      have hh' : (natDigits (n / 10)).head? = some '0' := by
        cases hnd : natDigits (n / 10) with
        | nil => exact absurd hnd hne
        | cons d ds => rw [hnd] at hh; simpa using hh
      have := ih (n / 10) (by omega) hh'
      omega

theorem spanDigits_append (rest : List Char) (hr : ∀ c r, rest = c :: r → isDigit c = false) :
    ∀ (ds : List Char), (∀ c ∈ ds, isDigit c = true) → spanDigits (ds ++ rest) = (ds, rest)
  | [], _ => by
    cases rest with
    | nil => rfl
    | cons c r => simp [spanDigits, hr c r rfl]
  | d :: ds, h => by
    have ih := spanDigits_append rest hr ds (fun c hc => h c (List.mem_cons_of_mem _ hc))
    simp [spanDigits, h d (by simp), ih]

/-- what may follow a value in printed JSON -/
def Delim (rest : List Char) : Prop := rest = [] ∨ ∃ r, rest = ',' :: r ∨ rest = ']' :: r ∨ rest = '}' :: r

theorem parseNumber_natDigits (neg : Bool) (n : Nat) (rest : List Char) (hn : n < f64Overflow) (hd : Delim rest) :
    parseNumber neg (natDigits n ++ rest) = some (.num neg n, rest) := by
  have hspan : spanDigits (natDigits n ++ rest) = (natDigits n, rest) := by
    apply spanDigits_append _ _ _ (natDigits_all_digit n)
    intro c r e
    rcases hd with hd | ⟨r', hd | hd | hd⟩ <;> rw [hd] at e <;> cases e <;> decide
  have hlead : ¬ ((natDigits n).head? = some '0' ∧ (natDigits n).length > 1) := by
    intro ⟨h1, h2⟩
    have := natDigits_head_zero n h1
    subst this
    rw [natDigits_lt 0 (by omega)] at h2
    simp at h2
  have hov : ¬ f64Overflow ≤ digitsVal (natDigits n) := by rw [digitsVal_natDigits]; omega
  unfold parseNumber
  simp only [hspan, natDigits_ne_nil n, if_false, hlead]
  rcases hd with hd | ⟨r', hd | hd | hd⟩ <;> subst hd <;>
    simp [digitsVal_natDigits, hn]

/-! ### Strings -/

theorem hex4_control : ∀ n, n < 32 → hex4 '0' '0' (hexDigit (n / 16)) (hexDigit (n % 16)) = some n := by decide

theorem escapeChars_length (s : List Char) : s.length ≤ (escapeChars s).length := by
  induction s with
  | nil => simp [escapeChars]
  | cons c s ih =>
    have : 1 ≤ (escapeChar c).length := by
      unfold escapeChar
      repeat' split
      all_goals simp
    simp only [escapeChars, List.length_append, List.length_cons]
    omega

theorem parseStrBody_step (c : Char) (fuel : Nat) (rest : List Char) :
    parseStrBody (fuel + 1) (escapeChar c ++ rest) =
      match parseStrBody fuel rest with
      | some (s, e, r) => some (c :: s, e || needsEscape c, r)
      | none => none := by
  have hofNat : Char.ofNat c.toNat = c := Char.ofNat_toNat c
  unfold escapeChar
  split
  · rename_i h; subst h
    simp only [List.cons_append, List.nil_append, parseStrBody]
    cases parseStrBody fuel rest <;> simp [needsEscape]
  split
  · rename_i h1 h; subst h
    simp only [List.cons_append, List.nil_append, parseStrBody]
    cases parseStrBody fuel rest <;> simp [needsEscape]
  split
  · rename_i h1 h2 h
    have hc : c = Char.ofNat 8 := by rw [← h, hofNat]
    subst hc
    simp only [List.cons_append, List.nil_append, parseStrBody]
    cases parseStrBody fuel rest <;> simp [needsEscape]
  split
  · rename_i h1 h2 h3 h
    have hc : c = Char.ofNat 12 := by rw [← h, hofNat]
    subst hc
    simp only [List.cons_append, List.nil_append, parseStrBody]
    cases parseStrBody fuel rest <;> simp [needsEscape]
  split
  · rename_i h1 h2 h3 h4 h
    have hc : c = Char.ofNat 10 := by rw [← h, hofNat]
    subst hc
    simp only [List.cons_append, List.nil_append, parseStrBody]
    cases parseStrBody fuel rest <;> simp [needsEscape]
  split
  · rename_i h1 h2 h3 h4 h5 h
    have hc : c = Char.ofNat 13 := by rw [← h, hofNat]
    subst hc
    simp only [List.cons_append, List.nil_append, parseStrBody]
    cases parseStrBody fuel rest <;> simp [needsEscape]
  split
  · rename_i h1 h2 h3 h4 h5 h6 h
    have hc : c = Char.ofNat 9 := by rw [← h, hofNat]
    subst hc
    simp only [List.cons_append, List.nil_append, parseStrBody]
    cases parseStrBody fuel rest <;> simp [needsEscape]
  split
  · rename_i h1 h2 h3 h4 h5 h6 h7 h
    have hhex := hex4_control c.toNat h
    have hne : needsEscape c = true := by simp [needsEscape, h]
    have hs1 : ¬ (0xDC00 ≤ c.toNat ∧ c.toNat ≤ 0xDFFF) := by omega
    have hs2 : ¬ (0xD800 ≤ c.toNat ∧ c.toNat ≤ 0xDBFF) := by omega
    simp only [List.cons_append, List.nil_append, parseStrBody, hhex, hs1, hs2, hofNat, hne]
    cases parseStrBody fuel rest <;> simp
  · rename_i h1 h2 h3 h4 h5 h6 h7 h8
    have hne : needsEscape c = false := by simp [needsEscape, h1, h2, h8]
    simp only [List.cons_append, List.nil_append, parseStrBody, h1, h2, h8, hne]
    cases parseStrBody fuel rest <;> simp

theorem parseStrBody_escapeChars (rest : List Char) :
    ∀ (s : List Char) (fuel : Nat), s.length + 1 ≤ fuel →
      parseStrBody fuel (escapeChars s ++ '"' :: rest) = some (s, s.any needsEscape, rest)
  | [], fuel, h => by
    obtain ⟨f, rfl⟩ : ∃ f, fuel = f + 1 := ⟨fuel - 1, by omega⟩
    simp [escapeChars, parseStrBody]
  | c :: s, fuel, h => by
    obtain ⟨f, rfl⟩ : ∃ f, fuel = f + 1 := ⟨fuel - 1, by omega⟩
    have ih := parseStrBody_escapeChars rest s f (by simp at h; omega)
    simp only [escapeChars, List.append_assoc]
    rw [parseStrBody_step, ih]
    simp [Bool.or_comm]

theorem parse_renderStr (s rest : List Char) :
    parseStrBody ((escapeChars s ++ '"' :: rest).length + 1) (escapeChars s ++ '"' :: rest)
      = some (s, s.any needsEscape, rest) := by
  apply parseStrBody_escapeChars
  have := escapeChars_length s
  simp only [List.length_append, List.length_cons]
  omega


end Inkayaku.Props.C19
