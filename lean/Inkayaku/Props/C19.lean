import Inkayaku.Model.Json
import Inkayaku.Model.Lichess
import Inkayaku.Spec.LichessDoc
import Inkayaku.Gen.LichessSchema
/-!
# C19 -- Lichess payload decoding

Model: `Inkayaku.Model.Json` (JSON reader / printer of serde_json), `Inkayaku.Model.Lichess` (schema-directed decoder
with serde's semantics), schema: `Inkayaku.Gen.LichessSchema` (generated from the Rust source by
`/verif/tools/serde_schema.py`), specification: `Inkayaku.Spec.LichessDoc` (documented names, hand written).

1. `schema_names_documented`   the wire names of the generated schema are the documented ones
                               (`perf_keys_documented`: the Rust enum accepts two extra keys)
2. `moves_split` (`_empty`, `_tokens`, `_uci`)   the space separated move string decodes to the move list, in order
3. `decode_encode`             generic round trip: for every well-formed schema (`WFSchema`, decidable) and every
                               well-typed value, decoding the wire document gives the value back -- every subset of
                               optional fields absent or `null`, any strings, any move list; `wf_generated`: the generated
                               schema is well-formed (kernel `decide`)
4. `parse_render_json`         the JSON reader inverts the JSON printer (all escapes)
5. `decode_text_roundtrip`     3 and 4 composed: the printed TEXT of the wire document decodes to the value
6. instances on the generated schema (`gameState`, `challenge`)

Helper lemmas live in this file because the work order allowed only this file for proofs.
-/
namespace Inkayaku.Props.C19
open Inkayaku.Json Inkayaku.Lichess
open Inkayaku.Gen.Lichess (TypeDef TyRef Field Variant Prim Custom schema csvRuleTable)
namespace Doc
export Inkayaku.LichessDoc (stateTypes gameFull gameState chatLine opponentGone variantFull gameFullPerf gameFullPlayer
  gameFullClock eventTypes gameEvent challengeEvent challengeOtherEvent gameEventInfo gameEventStatus gameEventVariant
  gameEventOpponent compat challengeInfo challengeUser challengePerf timeControlTypes timeControlClock
  timeControlCorrespondence timeControlUnlimited statusKeys variantKeys speedKeys sourceKeys perfKeys colorKeys
  colorChoiceKeys roomKeys challengeStatusKeys directionKeys declineReasonKeys ruleKeys)
end Doc

/-! ## 1. Names -/

/-- wire names a field contributes to its object: its own, or (flatten) those of the struct it names -/
def fieldWires (σ : List TypeDef) (f : Field) : List String :=
  if f.flatten then
    match f.ty with
    | .named n =>
      match findType σ n with
      | some (.struct _ fs) => fs.map (·.wire)
      | _ => ["<flatten of a non-struct>"]
    | _ => ["<flatten of a non-struct>"]
  else [f.wire]

/-- member names of a struct on the wire -/
def structWires (σ : List TypeDef) (name : String) : Option (List String) :=
  match findType σ name with
  | some (.struct _ fs) => some (fs.flatMap (fieldWires σ))
  | _ => none

/-- member names of one variant of an internally tagged enum on the wire (tag first) -/
def variantWires (σ : List TypeDef) (name variant : String) : Option (List String) :=
  match findType σ name with
  | some (.tagged _ tag vs) =>
    match vs.find? (·.rust == variant) with
    | some v => some (tag :: v.fields.flatMap (fieldWires σ))
    | none => none
  | _ => none

/-- the strings that select the variants -/
def enumWires (σ : List TypeDef) (name : String) : Option (List String) :=
  match findType σ name with
  | some (.unitEnum _ vs) => some (vs.map (·.2))
  | some (.tagged _ _ vs) => some (vs.map (·.wire))
  | _ => none

/-- equal as sets, no repetitions -/
def sameNames (a b : List String) : Bool :=
  a.length == b.length && a.all (b.contains ·) && b.all (a.contains ·)

/-- (what, names in the generated schema, documented names) -/
def nameTable : List (String × Option (List String) × List String) := [
  ("state stream: type values", enumWires schema "BotGameState", Doc.stateTypes),
  ("gameFull", variantWires schema "BotGameState" "GameFull", Doc.gameFull),
  ("gameState", variantWires schema "BotGameState" "GameState", Doc.gameState),
  ("gameFull.state", (structWires schema "GameStateHolder").map ("type" :: ·), Doc.gameState),
  ("chatLine", variantWires schema "BotGameState" "ChatLine", Doc.chatLine),
  ("opponentGone", variantWires schema "BotGameState" "OpponentGone", Doc.opponentGone),
  ("gameFull.variant", structWires schema "VariantFull", Doc.variantFull),
  ("gameFull.perf", structWires schema "Perf", Doc.gameFullPerf),
  ("gameFull.white/black", structWires schema "Player", Doc.gameFullPlayer),
  ("gameFull.clock", structWires schema "Clock", Doc.gameFullClock),
  ("event stream: type values", enumWires schema "BotEvent", Doc.eventTypes),
  ("gameStart", variantWires schema "BotEvent" "GameStart", Doc.gameEvent),
  ("gameFinish", variantWires schema "BotEvent" "GameFinish", Doc.gameEvent),
  ("challenge", variantWires schema "BotEvent" "Challenge", Doc.challengeEvent),
  ("challengeCanceled", variantWires schema "BotEvent" "ChallengeCanceled", Doc.challengeOtherEvent),
  ("challengeDeclined", variantWires schema "BotEvent" "ChallengeDeclined", Doc.challengeOtherEvent),
  ("game", structWires schema "GameEventInfo", Doc.gameEventInfo),
  ("game.status", structWires schema "GameEventStatus", Doc.gameEventStatus),
  ("game.variant", structWires schema "GameEventVariant", Doc.gameEventVariant),
  ("game.opponent", structWires schema "GameEventOpponent", Doc.gameEventOpponent),
  ("compat", structWires schema "Compat", Doc.compat),
  ("challenge", structWires schema "ChallengeEventInfo", Doc.challengeInfo),
  ("challenge.challenger/destUser", structWires schema "Challenger", Doc.challengeUser),
  ("challenge.perf", structWires schema "ChallengeEventPerf", Doc.challengePerf),
  ("challenge.timeControl: type values", enumWires schema "ChallengeEventTimeControl", Doc.timeControlTypes),
  ("timeControl clock", variantWires schema "ChallengeEventTimeControl" "Clock", Doc.timeControlClock),
  ("timeControl correspondence", variantWires schema "ChallengeEventTimeControl" "Correspondence", Doc.timeControlCorrespondence),
  ("timeControl unlimited", variantWires schema "ChallengeEventTimeControl" "Unlimited", Doc.timeControlUnlimited),
  ("status keys", enumWires schema "GameStatusKey", Doc.statusKeys),
  ("variant keys", enumWires schema "VariantKey", Doc.variantKeys),
  ("speed keys", enumWires schema "SpeedKey", Doc.speedKeys),
  ("speed keys (game event)", enumWires schema "GameEventSpeedKey", Doc.speedKeys),
  ("source keys", enumWires schema "GameEventSource", Doc.sourceKeys),
  ("colour keys", enumWires schema "Color", Doc.colorKeys),
  ("colour choice keys", enumWires schema "ColorChoice", Doc.colorChoiceKeys),
  ("room keys", enumWires schema "Room", Doc.roomKeys),
  ("challenge status keys", enumWires schema "ChallengeEventStatusKey", Doc.challengeStatusKeys),
  ("direction keys", enumWires schema "ChallengeEventDirection", Doc.directionKeys),
  ("decline reason keys", enumWires schema "ChallengeEventDeclineReason", Doc.declineReasonKeys),
  ("rule keys", enumWires schema "ChallengeEventRule", Doc.ruleKeys) ]

/-- rows of the table where generated and documented names differ -/
def nameMismatches : List String :=
  (nameTable.filter fun row => match row.2.1 with
    | some names => !sameNames names row.2.2
    | none => true).map (·.1)

/-- every type of the schema is compared (PerfKey: see `perf_keys_documented`) -/
def comparedTypes : List String :=
  ["BotGameState", "GameStateHolder", "VariantFull", "Perf", "Player", "Clock", "BotEvent", "GameEventInfo",
   "GameEventStatus", "GameEventVariant", "GameEventOpponent", "Compat", "ChallengeEventInfo", "Challenger",
   "ChallengeEventPerf", "ChallengeEventTimeControl", "GameStatusKey", "VariantKey", "SpeedKey", "GameEventSpeedKey",
   "GameEventSource", "Color", "ColorChoice", "Room", "ChallengeEventStatusKey", "ChallengeEventDirection",
   "ChallengeEventDeclineReason", "ChallengeEventRule", "PerfKey"]

/-- **C19 (names).**  For every struct, every variant of the two internally tagged message enums and every
enumeration of the generated schema, the set of wire names equals the documented one -- in particular
`claimWinInSeconds`, `createdAt`, `initialFen`, `daysPerTurn`, `tournamentId`, `fullId`, `lastMove`, `hasMoved`, ... -/
theorem schema_names_documented :
    nameMismatches = [] ∧ (schema.map (·.name)).all (comparedTypes.contains ·) = true := by
  decide +kernel

#print axioms schema_names_documented

example : variantWires schema "BotGameState" "OpponentGone" = some ["type", "gone", "claimWinInSeconds"] := by decide +kernel

/-- every documented `game.perf` key is accepted by the Rust enum `PerfKey` (before the repair `fix: accept the perf key
'horde'` the key `horde` was missing and a `gameStart` of a Horde game was rejected); the Rust enum additionally knows
`standard` and `puzzle`, which never arrive — accepting more than documented does not break decoding. -/
theorem perf_keys_documented :
    (∀ names, enumWires schema "PerfKey" = some names →
      (Doc.perfKeys.filter (!names.contains ·)) = [] ∧ (names.filter (!Doc.perfKeys.contains ·)) = ["standard", "puzzle"]) := by
  decide +kernel

#print axioms perf_keys_documented

/-! ## 2. `moves_split` -/

theorem splitOn_noSep (sep : Char) : ∀ (t : List Char), sep ∉ t → splitOn sep t = [t]
  | [], _ => rfl
  | c :: cs, h => by
    have hc : ¬ c = sep := fun e => h (by simp [e])
    have ih := splitOn_noSep sep cs (fun m => h (List.mem_cons_of_mem _ m))
    simp [splitOn, hc, ih]

theorem splitOn_append (sep : Char) (rest : List Char) :
    ∀ (t : List Char), sep ∉ t → splitOn sep (t ++ sep :: rest) = t :: splitOn sep rest
  | [], _ => by simp [splitOn]
  | c :: cs, h => by
    have hc : ¬ c = sep := fun e => h (by simp [e])
    have ih := splitOn_append sep rest cs (fun m => h (List.mem_cons_of_mem _ m))
    simp [splitOn, hc, ih]

theorem splitOn_joinWith (sep : Char) :
    ∀ (l : List (List Char)), l ≠ [] → (∀ t ∈ l, sep ∉ t) → splitOn sep (joinWith sep l) = l
  | [], h, _ => absurd rfl h
  | [t], _, h => by simpa [joinWith] using splitOn_noSep sep t (h t (by simp))
  | t :: u :: rest, _, h => by
    have ih := splitOn_joinWith sep (u :: rest) (by simp) (fun x hx => h x (List.mem_cons_of_mem _ hx))
    have ht := splitOn_append sep (joinWith sep (u :: rest)) t (h t (by simp))
    simp only [joinWith]
    rw [ht, ih]

/-- a token as it occurs in a move list: not empty, no white space, nothing JSON would have to escape -/
def tokenOk (t : List Char) : Bool := !t.isEmpty && t.all (fun c => !isRustWs c && !needsEscape c)

/-- **C19 (moves), empty case**: the empty string (and any all-blank string) means "no moves" -/
theorem moves_split_empty : spaceSv [] = [] ∧ spaceSv [' '] = [] ∧ spaceSv [' ', ' ', ' '] = [] := by decide

/-- **C19 (moves)**: a non-empty list of tokens that contain no space, joined by single spaces, decodes to exactly that
list, in order -- provided the joined string is not all white space (Rust's `trim().is_empty()` test looks at Unicode
white space, so e.g. the one-token list `[" "]` decodes to `[]`). -/
theorem moves_split (ms : List (List Char)) (hne : ms ≠ []) (hsp : ∀ t ∈ ms, ' ' ∉ t)
    (hws : (joinWith ' ' ms).all isRustWs = false) : spaceSv (joinWith ' ' ms) = ms := by
  unfold spaceSv
  rw [hws]
  simpa using splitOn_joinWith ' ' ms hne hsp

#print axioms moves_split

theorem joinWith_head (sep : Char) (c : Char) (t : List Char) (rest : List (List Char)) :
    ∃ r, joinWith sep ((c :: t) :: rest) = c :: r := by
  cases rest with
  | nil => exact ⟨t, rfl⟩
  | cons u rest => exact ⟨t ++ sep :: joinWith sep (u :: rest), rfl⟩

theorem tokenOk_noSpace {t : List Char} (h : tokenOk t = true) : ' ' ∉ t := by
  intro hm
  simp only [tokenOk, Bool.and_eq_true, List.all_eq_true] at h
  have := h.2 ' ' hm
  simp [isRustWs] at this

/-- corollary for token lists as the API sends them (UCI moves: `[a-h][1-8][a-h][1-8][qrbn]?`) -/
theorem moves_split_tokens (ms : List (List Char)) (h : ms.all tokenOk = true) : spaceSv (joinWith ' ' ms) = ms := by
  cases ms with
  | nil => simp [joinWith, spaceSv]
  | cons t rest =>
    have hall : ∀ x ∈ t :: rest, tokenOk x = true := by simpa [List.all_eq_true] using h
    apply moves_split _ (by simp) (fun x hx => tokenOk_noSpace (hall x hx))
    have ht := hall t (by simp)
    cases t with
    | nil => simp [tokenOk] at ht
    | cons c t' =>
      obtain ⟨r, hr⟩ := joinWith_head ' ' c t' rest
      rw [hr]
      simp only [tokenOk, Bool.and_eq_true, List.all_eq_true] at ht
      have hc := ht.2 c (by simp)
      simp only [Bool.not_eq_true'] at hc
      simp [hc.1]

def isFile (c : Char) : Bool := 97 ≤ c.toNat && c.toNat ≤ 104     -- a..h
def isRank (c : Char) : Bool := 49 ≤ c.toNat && c.toNat ≤ 56      -- 1..8
def isPromo (c : Char) : Bool := c.toNat == 113 || c.toNat == 114 || c.toNat == 98 || c.toNat == 110   -- q r b n

/-- the shape of a UCI move as `inkayaku_uci::UciMove::from_str` reads it: two squares and an optional promotion piece -/
def isUciShape (t : List Char) : Bool :=
  match t with
  | [a, b, c, d] => isFile a && isRank b && isFile c && isRank d
  | [a, b, c, d, p] => isFile a && isRank b && isFile c && isRank d && isPromo p
  | _ => false

theorem charOk_of_range {c : Char} (h : 49 ≤ c.toNat ∧ c.toNat ≤ 122) (h2 : c.toNat ≠ 92) :
    (!isRustWs c && !needsEscape c) = true := by
  have h34 : ¬ c = '"' := fun e => by subst e; simp at h
  have h92 : ¬ c = '\\' := fun e => by subst e; simp at h2
  have hw : isRustWs c = false := by
    simp only [isRustWs, Bool.or_eq_false_iff, Bool.and_eq_false_iff, beq_eq_false_iff_ne, decide_eq_false_iff_not, ne_eq]
    omega
  have he : needsEscape c = false := by
    simp only [needsEscape, Bool.or_eq_false_iff, beq_eq_false_iff_ne, decide_eq_false_iff_not, ne_eq]
    exact ⟨⟨h34, h92⟩, by omega⟩
  simp [hw, he]

theorem charOk_file {c : Char} (h : isFile c = true) : (!isRustWs c && !needsEscape c) = true := by
  simp only [isFile, Bool.and_eq_true, decide_eq_true_eq] at h
  exact charOk_of_range (by omega) (by omega)
theorem charOk_rank {c : Char} (h : isRank c = true) : (!isRustWs c && !needsEscape c) = true := by
  simp only [isRank, Bool.and_eq_true, decide_eq_true_eq] at h
  exact charOk_of_range (by omega) (by omega)
theorem charOk_promo {c : Char} (h : isPromo c = true) : (!isRustWs c && !needsEscape c) = true := by
  simp only [isPromo, Bool.or_eq_true, beq_iff_eq] at h
  exact charOk_of_range (by omega) (by omega)

theorem uciShape_tokenOk (t : List Char) (h : isUciShape t = true) : tokenOk t = true := by
  unfold isUciShape at h
  split at h
  · simp only [Bool.and_eq_true] at h
    simp [tokenOk, charOk_file h.1.1.1, charOk_rank h.1.1.2, charOk_file h.1.2, charOk_rank h.2]
  · simp only [Bool.and_eq_true] at h
    simp [tokenOk, charOk_file h.1.1.1.1, charOk_rank h.1.1.1.2, charOk_file h.1.1.2, charOk_rank h.1.2, charOk_promo h.2]
  · simp at h

/-- every list of UCI-shaped moves (any length, promotions and castling included) survives the wire format -/
theorem moves_split_uci (ms : List (List Char)) (h : ms.all isUciShape = true) : spaceSv (joinWith ' ' ms) = ms := by
  apply moves_split_tokens
  simp only [List.all_eq_true] at h ⊢
  exact fun t ht => uciShape_tokenOk t (h t ht)

#print axioms moves_split_uci

example : spaceSv "e2e4 e7e5 e1g1 a7a8q".toList = ["e2e4".toList, "e7e5".toList, "e1g1".toList, "a7a8q".toList] := by decide
/-- the quirk the model keeps: two spaces give an empty token (which `UciMove::from_str(..).unwrap()` then rejects) -/
example : spaceSv "e2e4  e7e5".toList = ["e2e4".toList, [], "e7e5".toList] := by decide
example : spaceSv [Char.ofNat 0xA0] = [] := by decide

/-! ## 3. `decode_encode`: decoding a document of the documented shape gives back the value -/

/-! ### Well-formed schemas and well-typed values -/

def nodupKeys : List Key → Bool
  | [] => true
  | k :: ks => !ks.contains k && nodupKeys ks

/-- keys of the direct (non-flatten) fields -/
def directKeys : List (FieldInfo × Ty) → List Key
  | [] => []
  | (fi, _) :: rest => if fi.flatten then directKeys rest else fi.wire :: directKeys rest

def innerKeys : Ty → List Key
  | .struct inner => directKeys inner
  | _ => []

/-- keys that the flatten fields bring in -/
def flatKeys : List (FieldInfo × Ty) → List Key
  | [] => []
  | (fi, t) :: rest => if fi.flatten then innerKeys t ++ flatKeys rest else flatKeys rest

def flattenCount : List (FieldInfo × Ty) → Nat
  | [] => 0
  | (fi, _) :: rest => (if fi.flatten then 1 else 0) + flattenCount rest

/-- a flatten field names a struct without flatten fields of its own and is not `default`;
a `default` field has a type with a default value -/
def fieldOk (fi : FieldInfo) (t : Ty) : Bool :=
  (if fi.flatten then (match t with | .struct inner => !hasFlatten inner | _ => false) && !fi.default else true)
    && (if fi.default then (defaultOf t).isSome else true)

/-- all keys of one object are distinct; at most one flatten field -/
def shapeOk (fs : List (FieldInfo × Ty)) : Bool :=
  nodupKeys (directKeys fs ++ flatKeys fs) && decide (flattenCount fs ≤ 1)

/-- the documented (camelCase) spelling of a rule is understood by `from_str` and survives `split(',')` unescaped -/
def ruleOk (table : List (Key × String)) (p : String × Key) : Bool :=
  lookupKey (p.2.map lowerChar) table == some p.1 && !p.2.contains ',' && !p.2.any needsEscape

mutual
/-- decidable well-formedness of a type tree -/
def wfTy : Ty → Bool
  | .opt t => (match t with | .opt _ => false | _ => true) && wfTy t
  | .unitEnum vs => nodupKeys (vs.map (·.2))
  | .csvRules table wires => wires.all (ruleOk table)
  | .struct fs => shapeOk fs && wfFields fs
  | .tagged tag vs => nodupKeys (vs.map (·.1.wire)) && wfVariants tag vs
  | _ => true
def wfFields : List (FieldInfo × Ty) → Bool
  | [] => true
  | (fi, t) :: rest => fieldOk fi t && wfTy t && wfFields rest
/-- per variant: distinct keys, none of them equal to the tag, unit variants have no fields -/
def wfVariants (tag : Key) : List (VariantInfo × List (FieldInfo × Ty)) → Bool
  | [] => true
  | (vi, fs) :: rest =>
    shapeOk fs && !(directKeys fs ++ flatKeys fs).contains tag && (!vi.unit || fs.isEmpty) && wfFields fs
      && wfVariants tag rest
end

/-- an empty rule list is a value of a `default` field only (the wire format has no way to spell it) -/
def emptyRules : Ty → DVal → Bool
  | .csvRules _ _, .rules [] => true
  | _, _ => false

mutual
/-- well-typed values.  Move tokens are `tokenOk`; rule lists are non-empty lists of known variants. -/
def wt : Ty → DVal → Bool
  | .u32, .nat n => decide (n < 2 ^ 32)
  | .u64, .nat n => decide (n < 2 ^ 64)
  | .i32, .int i => decide (-(2 ^ 31 : Int) ≤ i ∧ i < 2 ^ 31)
  | .bool, .bool _ => true
  | .str, .str _ => true
  | .spaceSv, .strs l => l.all tokenOk
  | .csvRules _ wires, .rules l => !l.isEmpty && l.all (fun r => (findByRust r wires).isSome)
  | .opt _, .none => true
  | .opt t, .some v => wt t v
  | .unitEnum vs, .enumv r => (findByRust r vs).isSome
  | .struct fs, .struct vals => wtFields fs vals
  | .tagged _ vs, .variant r vals => wtVariant vs r vals
  | _, _ => false
def wtFields : List (FieldInfo × Ty) → List DVal → Bool
  | [], [] => true
  | (fi, t) :: rest, v :: vals => ((fi.default && emptyRules t v) || wt t v) && wtFields rest vals
  | _, _ => false
def wtVariant : List (VariantInfo × List (FieldInfo × Ty)) → String → List DVal → Bool
  | [], _, _ => false
  | (vi, fs) :: rest, r, vals => if vi.rust = r then wtFields fs vals else wtVariant rest r vals
end

/-- induction over type trees with membership hypotheses for the nested lists -/
theorem Ty.induct' {P : Ty → Prop} (u32 : P .u32) (u64 : P .u64) (i32 : P .i32) (bool : P .bool) (str : P .str)
    (spaceSv : P .spaceSv) (csv : ∀ a b, P (.csvRules a b)) (opt : ∀ t, P t → P (.opt t))
    (unitEnum : ∀ vs, P (.unitEnum vs))
    (struct : ∀ fs, (∀ p ∈ fs, P p.2) → P (.struct fs))
    (tagged : ∀ tag vs, (∀ q ∈ vs, ∀ p ∈ q.2, P p.2) → P (.tagged tag vs)) : ∀ t, P t := by
  intro t
  refine Ty.rec (motive_1 := P) (motive_2 := fun fs => ∀ p ∈ fs, P p.2)
    (motive_3 := fun vs => ∀ q ∈ vs, ∀ p ∈ q.2, P p.2) (motive_4 := fun p => P p.2)
    (motive_5 := fun q => ∀ p ∈ q.2, P p.2)
    u32 u64 i32 bool str spaceSv csv opt unitEnum struct tagged ?_ ?_ ?_ ?_ ?_ ?_ t
  · intro p hp; cases hp
  · intro head tail h1 h2 p hp
    cases hp with
    | head => exact h1
    | tail _ h => exact h2 p h
  · intro q hq; cases hq
  · intro head tail h1 h2 q hq
    cases hq with
    | head => exact h1
    | tail _ h => exact h2 q h
  · intro fst snd h; exact h
  · intro fst snd h; exact h

/-! ### Leaves -/

/-- the round-trip statement for one type tree -/
def RT (t : Ty) : Prop :=
  ∀ (v : DVal) (absent : List String → Bool) (path : List String),
    wfTy t = true → wt t v = true → decodeTy t (wireEncode absent path t v) = .ok v

theorem nodupKeys_cons {k : Key} {ks : List Key} : nodupKeys (k :: ks) = true ↔ k ∉ ks ∧ nodupKeys ks = true := by
  simp [nodupKeys]

theorem nodupKeys_append {a b : List Key} (h : nodupKeys (a ++ b) = true) :
    nodupKeys a = true ∧ nodupKeys b = true ∧ ∀ k, k ∈ a → k ∉ b := by
  induction a with
  | nil => simpa [nodupKeys] using h
  | cons x a ih =>
    rw [List.cons_append, nodupKeys_cons] at h
    obtain ⟨h1, h2, h3⟩ := ih h.2
    refine ⟨nodupKeys_cons.mpr ⟨fun m => h.1 (List.mem_append_left _ m), h1⟩, h2, ?_⟩
    intro k hk
    cases hk with
    | head => exact fun m => h.1 (List.mem_append_right _ m)
    | tail _ hk => exact h3 k hk

theorem any_joinWith (p : Char → Bool) (sep : Char) (hsep : p sep = false) :
    ∀ (l : List (List Char)), (∀ t ∈ l, t.any p = false) → (joinWith sep l).any p = false
  | [], _ => rfl
  | [t], h => by simpa [joinWith] using h t (by simp)
  | t :: u :: rest, h => by
    have ih := any_joinWith p sep hsep (u :: rest) (fun x hx => h x (List.mem_cons_of_mem _ hx))
    have ht := h t (by simp)
    simp only [joinWith, List.any_append, List.any_cons, ht, hsep, ih, Bool.or_self]

theorem tokenOk_noEscape {t : List Char} (h : tokenOk t = true) : t.any needsEscape = false := by
  simp only [tokenOk, Bool.and_eq_true, List.all_eq_true, Bool.not_eq_true'] at h
  rw [List.any_eq_false]
  intro c hc
  simpa using (h.2 c hc).2

theorem mapM?_map {α β : Type} (f : β → Option α) (g : α → β) :
    ∀ (l : List α), (∀ r ∈ l, f (g r) = some r) → mapM? f (l.map g) = some l
  | [], _ => rfl
  | r :: l, h => by
    have ih := mapM?_map f g l (fun x hx => h x (List.mem_cons_of_mem _ hx))
    simp [mapM?, h r (by simp), ih]

theorem findByRust_mem {r : String} {w : Key} : ∀ {vs : List (String × Key)}, findByRust r vs = some w → (r, w) ∈ vs
  | [], h => by simp [findByRust] at h
  | (r', w') :: rest, h => by
    simp only [findByRust] at h
    split at h
    · rename_i e
      simp only [Option.some.injEq] at h
      subst e; subst h
      exact List.mem_cons_self
    · exact List.mem_cons_of_mem _ (findByRust_mem h)

theorem findByWire_of_mem {r : String} {w : Key} :
    ∀ {vs : List (String × Key)}, nodupKeys (vs.map (·.2)) = true → (r, w) ∈ vs → findByWire w vs = some r
  | [], _, h => by cases h
  | (r', w') :: rest, hn, h => by
    simp only [List.map_cons, nodupKeys_cons] at hn
    simp only [findByWire]
    cases h with
    | head => simp
    | tail _ h =>
      have hne : ¬ w' = w := by
        intro e
        subst e
        exact hn.1 (List.mem_map.mpr ⟨(r, w'), h, rfl⟩)
      simp only [hne, if_false]
      exact findByWire_of_mem hn.2 h

theorem rt_u32 : RT .u32 := by
  intro v absent path _ hv
  cases v <;> simp [wt] at hv
  simp [wireEncode, decodeTy, decodeUnsigned, hv]

theorem rt_u64 : RT .u64 := by
  intro v absent path _ hv
  cases v <;> simp [wt] at hv
  simp [wireEncode, decodeTy, decodeUnsigned, hv]

theorem rt_i32 : RT .i32 := by
  intro v absent path _ hv
  cases v <;> simp [wt] at hv
  rename_i i
  simp only [wireEncode, decodeTy, encodeI32]
  by_cases h : i < 0
  · have h1 : 0 < i.natAbs ∧ i.natAbs ≤ 2 ^ 31 := by omega
    have h2 : - (i.natAbs : Int) = i := by omega
    simp [h, decodeI32, h1, h2]
  · have h1 : i.natAbs < 2 ^ 31 := by omega
    have h2 : (i.natAbs : Int) = i := by omega
    simp [h, decodeI32, h1, h2]

theorem rt_bool : RT .bool := by
  intro v absent path _ hv
  cases v <;> simp [wt] at hv
  simp [wireEncode, decodeTy, decodeBool]

theorem rt_str : RT .str := by
  intro v absent path _ hv
  cases v <;> simp [wt] at hv
  simp [wireEncode, decodeTy, decodeStr, jstr]

theorem rt_spaceSv : RT .spaceSv := by
  intro v absent path _ hv
  cases v <;> simp only [wt, Bool.false_eq_true] at hv
  rename_i l
  have hall : ∀ t ∈ l, tokenOk t = true := by simpa [List.all_eq_true] using hv
  have hflag : (joinWith ' ' l).any needsEscape = false :=
    any_joinWith needsEscape ' ' (by decide) l (fun t ht => tokenOk_noEscape (hall t ht))
  simp [wireEncode, decodeTy, jstr, hflag, decodeSpaceSv, moves_split_tokens l hv]

theorem rt_csvRules (table : List (Key × String)) (wires : List (String × Key)) : RT (.csvRules table wires) := by
  intro v absent path hwf hv
  cases v <;> simp only [wt, Bool.false_eq_true] at hv
  rename_i l
  simp only [wfTy, List.all_eq_true] at hwf
  simp only [Bool.and_eq_true, Bool.not_eq_true', List.isEmpty_eq_false_iff, List.all_eq_true] at hv
  let W : String → Key := fun r => (findByRust r wires).getD []
  have hW : ∀ r ∈ l, lookupKey ((W r).map lowerChar) table = some r ∧ ',' ∉ W r ∧ (W r).any needsEscape = false := by
    intro r hr
    have hs := hv.2 r hr
    obtain ⟨w, hw⟩ := Option.isSome_iff_exists.mp hs
    have hm := hwf (r, w) (findByRust_mem hw)
    simp only [ruleOk, Bool.and_eq_true, beq_iff_eq, Bool.not_eq_true', List.contains_eq_mem, decide_eq_false_iff_not] at hm
    simp only [W, hw, Option.getD_some]
    exact ⟨hm.1.1, hm.1.2, hm.2⟩
  have hflag : (joinWith ',' (l.map W)).any needsEscape = false :=
    any_joinWith needsEscape ',' (by decide) _ (by
      intro t ht
      obtain ⟨r, hr, rfl⟩ := List.mem_map.mp ht
      exact (hW r hr).2.2)
  have hsplit : splitOn ',' (joinWith ',' (l.map W)) = l.map W :=
    splitOn_joinWith ',' _ (by simpa using hv.1) (by
      intro t ht
      obtain ⟨r, hr, rfl⟩ := List.mem_map.mp ht
      exact (hW r hr).2.1)
  have hmap : mapM? (ruleFromStr table) (l.map W) = some l :=
    mapM?_map _ _ l (fun r hr => by simpa [ruleFromStr] using (hW r hr).1)
  simp only [wireEncode, decodeTy, jstr]
  show decodeCsvRules table (.str ((joinWith ',' (l.map W)).any needsEscape) (joinWith ',' (l.map W))) = _
  rw [hflag]
  simp [decodeCsvRules, csvRules, hsplit, hmap]

theorem rt_unitEnum (vs : List (String × Key)) : RT (.unitEnum vs) := by
  intro v absent path hwf hv
  cases v <;> simp only [wt, Bool.false_eq_true] at hv
  rename_i r
  simp only [wfTy] at hwf
  obtain ⟨w, hw⟩ := Option.isSome_iff_exists.mp hv
  have := findByWire_of_mem hwf (findByRust_mem hw)
  simp [wireEncode, decodeTy, jstr, hw, decodeUnitEnum, this]

theorem wireEncode_ne_null (absent : List String → Bool) (path : List String) (t : Ty) (v : DVal)
    (hopt : (match t with | .opt _ => false | _ => true) = true) (hv : wt t v = true) :
    wireEncode absent path t v ≠ .null := by
  cases t <;> cases v <;> simp [wt] at hv <;> simp [wireEncode, jstr, encodeI32] at hopt ⊢

theorem decodeTy_opt (t : Ty) (j : JVal) (h : j ≠ .null) : decodeTy (.opt t) j = mapOk .some (decodeTy t j) := by
  cases j <;> simp [decodeTy] at h ⊢

theorem rt_opt (t : Ty) (ih : RT t) : RT (.opt t) := by
  intro v absent path hwf hv
  simp only [wfTy, Bool.and_eq_true] at hwf
  cases v <;> simp only [wt, Bool.false_eq_true] at hv
  · simp [wireEncode, decodeTy]
  · rename_i v
    simp only [wireEncode]
    rw [decodeTy_opt _ _ (wireEncode_ne_null absent path t v hwf.1 hv), ih v absent path hwf.2 hv]
    rfl

/-! ### Structs -/

/-- what the scan is expected to have collected: the emitted direct fields, in order -/
def seenOf (absent : List String → Bool) (path : List String) : List (FieldInfo × Ty) → List DVal → List (Key × DVal)
  | (fi, t) :: rest, v :: vals =>
    (if fi.flatten || skipField fi t v (absent (fi.rust :: path)) then [] else [(fi.wire, v)]) ++ seenOf absent path rest vals
  | _, _ => []

/-- ... and the entries nobody claimed: those of the flatten fields -/
def othersOf (absent : List String → Bool) (path : List String) : List (FieldInfo × Ty) → List DVal → List (Key × JVal)
  | (fi, t) :: rest, v :: vals =>
    (if fi.flatten then
       match wireEncode absent (fi.rust :: path) t v with
       | .obj es => es
       | _ => []
     else []) ++ othersOf absent path rest vals
  | _, _ => []

def osOf : List (FieldInfo × Ty) → List DVal → List (Option DVal)
  | (fi, _) :: rest, v :: vals => (if fi.flatten then none else some v) :: osOf rest vals
  | _, _ => []

theorem wireFields_cons (absent : List String → Bool) (path : List String) (fi : FieldInfo) (t : Ty)
    (rest : List (FieldInfo × Ty)) (v : DVal) (vals : List DVal) :
    wireFields absent path ((fi, t) :: rest) (v :: vals) =
      (if fi.flatten then
         match wireEncode absent (fi.rust :: path) t v with
         | .obj es => es
         | _ => []
       else if skipField fi t v (absent (fi.rust :: path)) then []
       else [(fi.wire, wireEncode absent (fi.rust :: path) t v)]) ++ wireFields absent path rest vals := by
  simp only [wireFields]
  rfl

theorem scan_unknown (f : Key → JVal → Option (R DVal)) :
    ∀ (E1 E2 : List (Key × JVal)) (s : List (Key × DVal)) (o : List (Key × JVal)),
      (∀ p ∈ E1, f p.1 p.2 = none) → scan f (E1 ++ E2) s o = scan f E2 s (o ++ E1)
  | [], E2, s, o, _ => by simp
  | (k, v) :: E1, E2, s, o, h => by
    have hk : f k v = none := h (k, v) (by simp)
    have ih := scan_unknown f E1 E2 s (o ++ [(k, v)]) (fun p hp => h p (List.mem_cons_of_mem _ hp))
    simp only [List.cons_append, scan, hk]
    rw [ih]
    simp

theorem hasKey_false_iff {β : Type} {k : Key} : ∀ {s : List (Key × β)}, hasKey k s = false ↔ ∀ p ∈ s, ¬ p.1 = k
  | [] => by simp [hasKey]
  | (k', b) :: s => by
    simp only [hasKey, Bool.or_eq_false_iff, decide_eq_false_iff_not, List.mem_cons, forall_eq_or_imp]
    rw [hasKey_false_iff]

theorem lookupKey_append_of_not_hasKey {β : Type} {k : Key} :
    ∀ {s s' : List (Key × β)}, hasKey k s = false → lookupKey k (s ++ s') = lookupKey k s'
  | [], _, _ => rfl
  | (k', b) :: s, s', h => by
    simp only [hasKey, Bool.or_eq_false_iff, decide_eq_false_iff_not] at h
    simp only [List.cons_append, lookupKey, h.1, if_false]
    exact lookupKey_append_of_not_hasKey h.2

theorem lookupKey_none_of_not_hasKey {β : Type} {k : Key} {s : List (Key × β)} (h : hasKey k s = false) :
    lookupKey k s = none := by
  have := lookupKey_append_of_not_hasKey (s' := []) h
  simpa [lookupKey] using this

theorem decAt_none (k : Key) (j : JVal) : ∀ (fs : List (FieldInfo × Ty)), k ∉ directKeys fs → decAt fs k j = none
  | [], _ => by simp [decAt]
  | (fi, t) :: rest, h => by
    simp only [directKeys] at h
    by_cases hf : fi.flatten = true
    · simp only [hf, if_true] at h
      simp [decAt, hf, decAt_none k j rest h]
    · have hf' : fi.flatten = false := by simpa using hf
      simp only [hf', Bool.false_eq_true, if_false, List.mem_cons, not_or] at h
      have hne : ¬ fi.wire = k := fun e => h.1 e.symm
      simp [decAt, hne, decAt_none k j rest h.2]

theorem mem_directKeys {fi : FieldInfo} {t : Ty} :
    ∀ {fs : List (FieldInfo × Ty)}, (fi, t) ∈ fs → fi.flatten = false → fi.wire ∈ directKeys fs
  | [], h, _ => by cases h
  | (fi', t') :: rest, h, hf => by
    cases h with
    | head => simp [directKeys, hf]
    | tail _ h =>
      have := mem_directKeys h hf
      simp only [directKeys]
      split
      · exact this
      · exact List.mem_cons_of_mem _ this

theorem decAt_direct {fi : FieldInfo} {t : Ty} (j : JVal) :
    ∀ {fs : List (FieldInfo × Ty)}, nodupKeys (directKeys fs) = true → (fi, t) ∈ fs → fi.flatten = false →
      decAt fs fi.wire j = some (decodeTy t j)
  | [], _, h, _ => by cases h
  | (fi', t') :: rest, hn, h, hf => by
    cases h with
    | head => simp [decAt, hf]
    | tail _ h =>
      simp only [directKeys] at hn
      by_cases hf' : fi'.flatten = true
      · simp only [hf', if_true] at hn
        simp [decAt, hf', decAt_direct j hn h hf]
      · have hf'' : fi'.flatten = false := by simpa using hf'
        simp only [hf'', Bool.false_eq_true, if_false, nodupKeys_cons] at hn
        have hne : ¬ fi'.wire = fi.wire := fun e => hn.1 (e ▸ mem_directKeys h hf)
        simp [decAt, hne, decAt_direct j hn.2 h hf]

theorem hasFlatten_cons (fi : FieldInfo) (t : Ty) (rest : List (FieldInfo × Ty)) :
    hasFlatten ((fi, t) :: rest) = (fi.flatten || hasFlatten rest) := by
  simp [hasFlatten]

/-- a struct without flatten fields emits direct keys only -/
theorem wireFields_keys (absent : List String → Bool) (path : List String) :
    ∀ (inner : List (FieldInfo × Ty)) (ivals : List DVal), hasFlatten inner = false →
      ∀ e ∈ wireFields absent path inner ivals, e.1 ∈ directKeys inner
  | [], _, _, e, he => by simp [wireFields] at he
  | _ :: _, [], _, e, he => by simp [wireFields] at he
  | (fi, t) :: rest, v :: vals, h, e, he => by
    rw [hasFlatten_cons, Bool.or_eq_false_iff] at h
    rw [wireFields_cons] at he
    simp only [h.1, Bool.false_eq_true, if_false, List.mem_append] at he
    simp only [directKeys, h.1, Bool.false_eq_true, if_false]
    cases he with
    | inl he =>
      split at he
      · cases he
      · simp only [List.mem_singleton] at he
        subst he
        exact List.mem_cons_self
    | inr he => exact List.mem_cons_of_mem _ (wireFields_keys absent path rest vals h.2 e he)

theorem seenOf_keys (absent : List String → Bool) (path : List String) :
    ∀ (fs : List (FieldInfo × Ty)) (vals : List DVal), ∀ e ∈ seenOf absent path fs vals, e.1 ∈ directKeys fs
  | [], _, e, he => by simp [seenOf] at he
  | _ :: _, [], e, he => by simp [seenOf] at he
  | (fi, t) :: rest, v :: vals, e, he => by
    simp only [seenOf, List.mem_append] at he
    simp only [directKeys]
    cases he with
    | inl he =>
      split at he
      · cases he
      · rename_i hc
        simp only [Bool.or_eq_true, not_or, Bool.not_eq_true] at hc
        simp only [List.mem_singleton] at he
        subst he
        simp [hc.1]
    | inr he =>
      have := seenOf_keys absent path rest vals e he
      split
      · exact this
      · exact List.mem_cons_of_mem _ this

theorem innerKeys_sub_flatKeys {fi : FieldInfo} {t : Ty} :
    ∀ {fs : List (FieldInfo × Ty)}, (fi, t) ∈ fs → fi.flatten = true → ∀ k ∈ innerKeys t, k ∈ flatKeys fs
  | [], h, _, _, _ => by cases h
  | (fi', t') :: rest, h, hf, k, hk => by
    cases h with
    | head => simp [flatKeys, hf, hk]
    | tail _ h =>
      have := innerKeys_sub_flatKeys h hf k hk
      simp only [flatKeys]
      split
      · exact List.mem_append_right _ this
      · exact this

/-- shape of a flatten field and its value -/
theorem flatten_shape {fi : FieldInfo} {t : Ty} {v : DVal} (hok : fieldOk fi t = true) (hf : fi.flatten = true)
    (hv : ((fi.default && emptyRules t v) || wt t v) = true) :
    fi.default = false ∧ ∃ inner ivals, t = .struct inner ∧ v = .struct ivals ∧ hasFlatten inner = false := by
  simp only [fieldOk, hf, if_true, Bool.and_eq_true, Bool.not_eq_true'] at hok
  have hd := hok.1.2
  simp only [hd, Bool.false_and, Bool.false_or] at hv
  refine ⟨hd, ?_⟩
  cases t <;> simp at hok
  rename_i inner
  cases v <;> simp only [wt, Bool.false_eq_true] at hv
  rename_i ivals
  exact ⟨inner, ivals, rfl, rfl, hok.1.1⟩

/-- an emitted direct field is well-typed in the strict sense -/
theorem wt_of_emitted {fi : FieldInfo} {t : Ty} {v : DVal} {a : Bool}
    (hv : ((fi.default && emptyRules t v) || wt t v) = true) (hs : skipField fi t v a = false) : wt t v = true := by
  rcases Bool.or_eq_true_iff.mp hv with h | h
  · exfalso
    simp only [Bool.and_eq_true] at h
    cases t <;> cases v <;> simp [emptyRules] at h
    rename_i l
    cases l <;> simp at h
    simp [skipField, h, isEmptyList] at hs
  · exact h

/-- a skipped field decodes to the same value from its absence -/
theorem missing_of_skipped {fi : FieldInfo} {t : Ty} {v : DVal} {a : Bool} (hok : fieldOk fi t = true)
    (hv : ((fi.default && emptyRules t v) || wt t v) = true) (hs : skipField fi t v a = true) :
    missingValue fi t = some v := by
  cases v with
  | none =>
    have : wt t .none = true := by
      rcases Bool.or_eq_true_iff.mp hv with h | h
      · cases t <;> simp [emptyRules] at h
      · exact h
    cases t <;> simp [wt] at this
    simp [missingValue]
  | strs l =>
    simp only [skipField, Bool.and_eq_true] at hs
    cases l <;> simp [isEmptyList] at hs
    cases t <;> simp [emptyRules, wt] at hv
    simp [missingValue, hs.1, defaultOf]
  | rules l =>
    simp only [skipField, Bool.and_eq_true] at hs
    cases l <;> simp [isEmptyList] at hs
    cases t <;> simp [emptyRules, wt] at hv
    simp [missingValue, hs.1, defaultOf]
  | nat _ => simp [skipField, isEmptyList] at hs
  | int _ => simp [skipField, isEmptyList] at hs
  | bool _ => simp [skipField, isEmptyList] at hs
  | str _ => simp [skipField, isEmptyList] at hs
  | some _ => simp [skipField, isEmptyList] at hs
  | enumv _ => simp [skipField, isEmptyList] at hs
  | struct _ => simp [skipField, isEmptyList] at hs
  | variant _ _ => simp [skipField, isEmptyList] at hs

/-- **scan**: every entry of the encoding is either claimed by its own field (and decodes to its value) or belongs to a
flatten field and is passed on -/
theorem scan_fields (absent : List String → Bool) (path : List String) (fs : List (FieldInfo × Ty))
    (IH : ∀ p ∈ fs, RT p.2) (hnd : nodupKeys (directKeys fs ++ flatKeys fs) = true) :
    ∀ (fs' : List (FieldInfo × Ty)) (vals' : List DVal) (seen0 : List (Key × DVal)) (others0 : List (Key × JVal)),
      (∀ p ∈ fs', p ∈ fs) → wfFields fs' = true → wtFields fs' vals' = true → nodupKeys (directKeys fs') = true →
      (∀ k ∈ directKeys fs', hasKey k seen0 = false) →
      scan (decAt fs) (wireFields absent path fs' vals') seen0 others0
        = .ok (seen0 ++ seenOf absent path fs' vals', others0 ++ othersOf absent path fs' vals')
  | [], [], seen0, others0, _, _, _, _, _ => by simp [wireFields, scan, seenOf, othersOf]
  | [], _ :: _, _, _, _, _, hwt, _, _ => by simp [wtFields] at hwt
  | _ :: _, [], _, _, _, _, hwt, _, _ => by simp [wtFields] at hwt
  | (fi, t) :: rest, v :: vals, seen0, others0, hsub, hwf, hwt, hnd', hseen => by
    simp only [wfFields, Bool.and_eq_true] at hwf
    simp only [wtFields, Bool.and_eq_true] at hwt
    have hmem : (fi, t) ∈ fs := hsub _ List.mem_cons_self
    have hsub' : ∀ p ∈ rest, p ∈ fs := fun p hp => hsub p (List.mem_cons_of_mem _ hp)
    obtain ⟨hndD, _, hdisj⟩ := nodupKeys_append hnd
    rw [wireFields_cons]
    by_cases hf : fi.flatten = true
    · -- flatten field: its entries are unknown to `decAt fs`
      obtain ⟨_, inner, ivals, rfl, rfl, hnf⟩ := flatten_shape hwf.1.1 hf hwt.1
      simp only [directKeys, hf, if_true] at hnd' hseen
      have hunk : ∀ e ∈ wireFields absent (fi.rust :: path) inner ivals, decAt fs e.1 e.2 = none := by
        intro e he
        apply decAt_none
        intro hk
        have h1 := wireFields_keys absent (fi.rust :: path) inner ivals hnf e he
        exact hdisj _ hk (innerKeys_sub_flatKeys hmem hf _ (by simpa [innerKeys] using h1))
      simp only [hf, if_true, wireEncode]
      rw [scan_unknown _ _ _ _ _ hunk, scan_fields absent path fs IH hnd rest vals _ _ hsub' hwf.2 hwt.2 hnd' hseen]
      simp [seenOf, othersOf, hf, wireEncode, List.append_assoc]
    · have hf' : fi.flatten = false := by simpa using hf
      simp only [directKeys, hf', Bool.false_eq_true, if_false, nodupKeys_cons] at hnd'
      simp only [directKeys, hf', Bool.false_eq_true, if_false, List.mem_cons, forall_eq_or_imp] at hseen
      simp only [hf', Bool.false_eq_true, if_false]
      by_cases hs : skipField fi t v (absent (fi.rust :: path)) = true
      · simp only [hs, if_true, List.nil_append]
        rw [scan_fields absent path fs IH hnd rest vals _ _ hsub' hwf.2 hwt.2 hnd'.2 hseen.2]
        simp [seenOf, othersOf, hf', hs]
      · have hs' : skipField fi t v (absent (fi.rust :: path)) = false := by simpa using hs
        have hwtv := wt_of_emitted hwt.1 hs'
        have hdec := IH _ hmem v absent (fi.rust :: path) hwf.1.2 hwtv
        have hseen' : ∀ k ∈ directKeys rest, hasKey k (seen0 ++ [(fi.wire, v)]) = false := by
          intro k hk
          rw [hasKey_false_iff]
          intro p hp
          rcases List.mem_append.mp hp with hp | hp
          · exact hasKey_false_iff.mp (hseen.2 k hk) p hp
          · simp only [List.mem_singleton] at hp
            subst hp
            exact fun e => hnd'.1 (by simpa [← e] using hk)
        simp only [hs', Bool.false_eq_true, if_false, List.cons_append, List.nil_append, scan]
        rw [decAt_direct _ hndD hmem hf', hdec]
        simp only [hseen.1, Bool.false_eq_true, if_false]
        rw [scan_fields absent path fs IH hnd rest vals _ _ hsub' hwf.2 hwt.2 hnd'.2 hseen']
        simp [seenOf, othersOf, hf', hs', List.append_assoc]

/-- **missing fields**: what the scan collected gives every direct field its value -/
theorem directVals_fields (absent : List String → Bool) (path : List String) :
    ∀ (fs' : List (FieldInfo × Ty)) (vals' : List DVal) (pre : List (Key × DVal)),
      wfFields fs' = true → wtFields fs' vals' = true → nodupKeys (directKeys fs') = true →
      (∀ k ∈ directKeys fs', hasKey k pre = false) →
      directVals fs' (pre ++ seenOf absent path fs' vals') = .ok (osOf fs' vals')
  | [], [], _, _, _, _, _ => by simp [directVals, osOf]
  | [], _ :: _, _, _, hwt, _, _ => by simp [wtFields] at hwt
  | _ :: _, [], _, _, hwt, _, _ => by simp [wtFields] at hwt
  | (fi, t) :: rest, v :: vals, pre, hwf, hwt, hnd', hseen => by
    simp only [wfFields, Bool.and_eq_true] at hwf
    simp only [wtFields, Bool.and_eq_true] at hwt
    by_cases hf : fi.flatten = true
    · simp only [directKeys, hf, if_true] at hnd' hseen
      have ih := directVals_fields absent path rest vals pre hwf.2 hwt.2 hnd' hseen
      simp only [seenOf, hf, Bool.true_or, if_true, List.nil_append, directVals, osOf]
      rw [ih]
    · have hf' : fi.flatten = false := by simpa using hf
      simp only [directKeys, hf', Bool.false_eq_true, if_false, nodupKeys_cons] at hnd'
      simp only [directKeys, hf', Bool.false_eq_true, if_false, List.mem_cons, forall_eq_or_imp] at hseen
      by_cases hs : skipField fi t v (absent (fi.rust :: path)) = true
      · have ih := directVals_fields absent path rest vals pre hwf.2 hwt.2 hnd'.2 hseen.2
        have hnone : lookupKey fi.wire (pre ++ seenOf absent path rest vals) = none := by
          apply lookupKey_none_of_not_hasKey
          rw [hasKey_false_iff]
          intro p hp
          rcases List.mem_append.mp hp with hp | hp
          · exact hasKey_false_iff.mp hseen.1 p hp
          · exact fun e => hnd'.1 (e ▸ seenOf_keys absent path rest vals p hp)
        simp only [seenOf, hf', hs, Bool.or_true, if_true, List.nil_append, directVals, Bool.false_eq_true, if_false,
          osOf, hnone, missing_of_skipped hwf.1.1 hwt.1 hs]
        rw [ih]
      · have hs' : skipField fi t v (absent (fi.rust :: path)) = false := by simpa using hs
        have hpre' : ∀ k ∈ directKeys rest, hasKey k (pre ++ [(fi.wire, v)]) = false := by
          intro k hk
          rw [hasKey_false_iff]
          intro p hp
          rcases List.mem_append.mp hp with hp | hp
          · exact hasKey_false_iff.mp (hseen.2 k hk) p hp
          · simp only [List.mem_singleton] at hp
            subst hp
            exact fun e => hnd'.1 (by simpa [← e] using hk)
        have ih := directVals_fields absent path rest vals (pre ++ [(fi.wire, v)]) hwf.2 hwt.2 hnd'.2 hpre'
        have hsome : lookupKey fi.wire (pre ++ ((fi.wire, v) :: seenOf absent path rest vals)) = some v := by
          rw [lookupKey_append_of_not_hasKey hseen.1]
          simp [lookupKey]
        simp only [seenOf, hf', hs', Bool.or_self, Bool.false_eq_true, if_false, List.cons_append, List.nil_append,
          directVals, osOf, hsome]
        have e : pre ++ (fi.wire, v) :: seenOf absent path rest vals = (pre ++ [(fi.wire, v)]) ++ seenOf absent path rest vals := by
          simp
        rw [e, ih]

theorem othersOf_nil_of_noFlatten (absent : List String → Bool) (path : List String) :
    ∀ (fs : List (FieldInfo × Ty)) (vals : List DVal), flattenCount fs = 0 → othersOf absent path fs vals = []
  | [], _, _ => by simp [othersOf]
  | _ :: _, [], _ => by simp [othersOf]
  | (fi, t) :: rest, v :: vals, h => by
    simp only [flattenCount] at h
    have hf : fi.flatten = false := by
      cases hfl : fi.flatten
      · rfl
      · simp [hfl] at h
    simp only [hf, Bool.false_eq_true, if_false, Nat.zero_add] at h
    simp [othersOf, hf, othersOf_nil_of_noFlatten absent path rest vals h]

/-- **flatten**: the unclaimed entries are exactly the encoding of the (single) flatten field -/
theorem fill_fields (absent : List String → Bool) (path : List String) :
    ∀ (fs' : List (FieldInfo × Ty)) (vals' : List DVal) (O : List (Key × JVal)),
      (∀ p ∈ fs', RT p.2) → wfFields fs' = true → wtFields fs' vals' = true → flattenCount fs' ≤ 1 →
      (flattenCount fs' = 1 → O = othersOf absent path fs' vals') →
      fillFlatten fs' (osOf fs' vals') O = .ok vals'
  | [], [], _, _, _, _, _, _ => by simp [fillFlatten]
  | [], _ :: _, _, _, _, hwt, _, _ => by simp [wtFields] at hwt
  | _ :: _, [], _, _, _, hwt, _, _ => by simp [wtFields] at hwt
  | (fi, t) :: rest, v :: vals, O, IH, hwf, hwt, hc, hO => by
    simp only [wfFields, Bool.and_eq_true] at hwf
    simp only [wtFields, Bool.and_eq_true] at hwt
    have IH' : ∀ p ∈ rest, RT p.2 := fun p hp => IH p (List.mem_cons_of_mem _ hp)
    by_cases hf : fi.flatten = true
    · obtain ⟨hd, inner, ivals, rfl, rfl, _⟩ := flatten_shape hwf.1.1 hf hwt.1
      simp only [flattenCount, hf, if_true] at hc hO
      have hc0 : flattenCount rest = 0 := by omega
      have hOe : O = wireFields absent (fi.rust :: path) inner ivals := by
        have := hO (by omega)
        simpa [othersOf, hf, wireEncode, othersOf_nil_of_noFlatten absent path rest vals hc0] using this
      have hwtv : wt (.struct inner) (.struct ivals) = true := by simpa [hd] using hwt.1
      have hdec := IH _ List.mem_cons_self (.struct ivals) absent (fi.rust :: path) hwf.1.2 hwtv
      simp only [wireEncode] at hdec
      have ih := fill_fields absent path rest vals O IH' hwf.2 hwt.2 (by omega) (by omega)
      simp only [osOf, hf, if_true, fillFlatten]
      rw [hOe] at ih ⊢
      rw [hdec, ih]
      rfl
    · have hf' : fi.flatten = false := by simpa using hf
      simp only [flattenCount, hf', Bool.false_eq_true, if_false, Nat.zero_add] at hc hO
      have ih := fill_fields absent path rest vals O IH' hwf.2 hwt.2 hc (by
        intro h1
        simpa [othersOf, hf'] using hO h1)
      simp only [osOf, hf', Bool.false_eq_true, if_false, fillFlatten]
      rw [ih]
      rfl

/-- object form of a field list -/
theorem fields_roundtrip (absent : List String → Bool) (path : List String) (fs : List (FieldInfo × Ty))
    (vals : List DVal) (IH : ∀ p ∈ fs, RT p.2) (hshape : shapeOk fs = true) (hwf : wfFields fs = true)
    (hwt : wtFields fs vals = true) :
    decodeMapWith (decAt fs) (fillFlatten fs) fs (wireFields absent path fs vals) = .ok vals := by
  simp only [shapeOk, Bool.and_eq_true, decide_eq_true_eq] at hshape
  obtain ⟨hndD, _, _⟩ := nodupKeys_append hshape.1
  have h1 := scan_fields absent path fs IH hshape.1 fs vals [] [] (fun _ h => h) hwf hwt hndD (by simp [hasKey])
  have h2 := directVals_fields absent path fs vals [] hwf hwt hndD (by simp [hasKey])
  have h3 := fill_fields absent path fs vals (othersOf absent path fs vals) IH hwf hwt hshape.2 (fun _ => rfl)
  simp only [List.nil_append] at h1 h2
  simp only [decodeMapWith, h1, h2, h3]

theorem rt_struct (fs : List (FieldInfo × Ty)) (IH : ∀ p ∈ fs, RT p.2) : RT (.struct fs) := by
  intro v absent path hwf hv
  cases v <;> simp only [wt, Bool.false_eq_true] at hv
  rename_i vals
  simp only [wfTy, Bool.and_eq_true] at hwf
  simp only [wireEncode, decodeTy, fields_roundtrip absent path fs vals IH hwf.1 hwf.2 hv]
  rfl

/-! ### Internally tagged enums -/

def pickVariant : List (VariantInfo × List (FieldInfo × Ty)) → String → Option (VariantInfo × List (FieldInfo × Ty))
  | [], _ => none
  | (vi, fs) :: rest, r => if vi.rust = r then some (vi, fs) else pickVariant rest r

theorem pick_of_wt : ∀ {vs : List (VariantInfo × List (FieldInfo × Ty))} {r : String} {vals : List DVal},
    wtVariant vs r vals = true →
    ∃ vi fs, pickVariant vs r = some (vi, fs) ∧ (vi, fs) ∈ vs ∧ vi.rust = r ∧ wtFields fs vals = true
  | [], _, _, h => by simp [wtVariant] at h
  | (vi, fs) :: rest, r, vals, h => by
    simp only [wtVariant] at h
    by_cases e : vi.rust = r
    · simp only [e, if_true] at h
      exact ⟨vi, fs, by simp [pickVariant, e], List.mem_cons_self, e, h⟩
    · simp only [e, if_false] at h
      obtain ⟨vi', fs', h1, h2, h3, h4⟩ := pick_of_wt h
      exact ⟨vi', fs', by simp [pickVariant, e, h1], List.mem_cons_of_mem _ h2, h3, h4⟩

theorem wireVariant_of_pick (absent : List String → Bool) (tag : Key) (path : List String) :
    ∀ {vs : List (VariantInfo × List (FieldInfo × Ty))} {r : String} {vals : List DVal}
      {vi : VariantInfo} {fs : List (FieldInfo × Ty)}, pickVariant vs r = some (vi, fs) →
      wireVariant absent tag path vs r vals = (tag, jstr vi.wire) :: wireFields absent (vi.rust :: path) fs vals
  | [], _, _, _, _, h => by simp [pickVariant] at h
  | (vi', fs') :: rest, r, vals, vi, fs, h => by
    simp only [pickVariant] at h
    by_cases e : vi'.rust = r
    · simp only [e, if_true, Option.some.injEq, Prod.mk.injEq] at h
      obtain ⟨rfl, rfl⟩ := h
      simp [wireVariant, e]
    · simp only [e, if_false] at h
      simp [wireVariant, e, wireVariant_of_pick absent tag path h]

theorem wfVariants_mem {tag : Key} :
    ∀ {vs : List (VariantInfo × List (FieldInfo × Ty))} {vi : VariantInfo} {fs : List (FieldInfo × Ty)},
      wfVariants tag vs = true → (vi, fs) ∈ vs →
      shapeOk fs = true ∧ tag ∉ directKeys fs ++ flatKeys fs ∧ (vi.unit = true → fs = []) ∧ wfFields fs = true
  | [], _, _, _, h => by cases h
  | (vi', fs') :: rest, vi, fs, hwf, h => by
    simp only [wfVariants, Bool.and_eq_true, Bool.not_eq_true', List.contains_eq_mem, decide_eq_false_iff_not,
      Bool.or_eq_true, List.isEmpty_iff] at hwf
    cases h with
    | head =>
      refine ⟨hwf.1.1.1.1, hwf.1.1.1.2, ?_, hwf.1.2⟩
      intro hu
      rcases hwf.1.1.2 with h | h
      · simp [hu] at h
      · exact h
    | tail _ h => exact wfVariants_mem hwf.2 h

/-- what `decVariant` does once it has found the variant -/
def variantBody (vi : VariantInfo) (fs : List (FieldInfo × Ty)) (payload : JVal) : R DVal :=
  if vi.unit then
    match payload with
    | .obj _ => .ok (.variant vi.rust [])
    | .arr [] => .ok (.variant vi.rust [])
    | _ => .error .err
  else
    match payload with
    | .obj es => mapOk (.variant vi.rust) (decodeMapWith (decAt fs) (fillFlatten fs) fs es)
    | .arr xs => if hasFlatten fs then .error .err else mapOk (.variant vi.rust) (decodeSeq fs xs)
    | _ => .error .err

theorem decVariant_name (payload : JVal) :
    ∀ {vs : List (VariantInfo × List (FieldInfo × Ty))} {vi : VariantInfo} {fs : List (FieldInfo × Ty)},
      nodupKeys (vs.map (·.1.wire)) = true → (vi, fs) ∈ vs →
      decVariant vs (.name vi.wire) payload = variantBody vi fs payload
  | [], _, _, _, h => by cases h
  | (vi', fs') :: rest, vi, fs, hn, h => by
    simp only [List.map_cons, nodupKeys_cons] at hn
    cases h with
    | head =>
      simp only [decVariant, tagMatches, decide_true, if_true, variantBody]
      rfl
    | tail _ h =>
      have hne : ¬ vi'.wire = vi.wire := fun e => hn.1 (e ▸ List.mem_map.mpr ⟨(vi, fs), h, rfl⟩)
      simp only [decVariant, tagMatches, hne, decide_false, Bool.false_eq_true, if_false, tagNext]
      exact decVariant_name payload hn.2 h

/-- every key of the encoding of a field list is one of its (direct or flattened) keys -/
theorem wireFields_keys_all (absent : List String → Bool) (path : List String) :
    ∀ (fs : List (FieldInfo × Ty)) (vals : List DVal), wfFields fs = true → wtFields fs vals = true →
      ∀ e ∈ wireFields absent path fs vals, e.1 ∈ directKeys fs ++ flatKeys fs
  | [], _, _, _, e, he => by simp [wireFields] at he
  | _ :: _, [], _, _, e, he => by simp [wireFields] at he
  | (fi, t) :: rest, v :: vals, hwf, hwt, e, he => by
    simp only [wfFields, Bool.and_eq_true] at hwf
    simp only [wtFields, Bool.and_eq_true] at hwt
    rw [wireFields_cons, List.mem_append] at he
    have ih := wireFields_keys_all absent path rest vals hwf.2 hwt.2 e
    by_cases hf : fi.flatten = true
    · obtain ⟨_, inner, ivals, rfl, rfl, hnf⟩ := flatten_shape hwf.1.1 hf hwt.1
      simp only [hf, if_true, wireEncode] at he
      simp only [directKeys, flatKeys, hf, if_true, innerKeys, List.mem_append]
      rcases he with he | he
      · exact Or.inr (Or.inl (wireFields_keys absent (fi.rust :: path) inner ivals hnf e he))
      · rcases List.mem_append.mp (ih he) with h | h
        · exact Or.inl h
        · exact Or.inr (Or.inr h)
    · have hf' : fi.flatten = false := by simpa using hf
      simp only [hf', Bool.false_eq_true, if_false] at he
      simp only [directKeys, flatKeys, hf', Bool.false_eq_true, if_false, List.mem_append, List.mem_cons]
      rcases he with he | he
      · split at he
        · cases he
        · simp only [List.mem_singleton] at he
          subst he
          exact Or.inl (Or.inl rfl)
      · rcases List.mem_append.mp (ih he) with h | h
        · exact Or.inl (Or.inr h)
        · exact Or.inr h

theorem splitTag_cons (tag w : Key) (E : List (Key × JVal)) (h : ∀ e ∈ E, ¬ e.1 = tag) :
    splitTag tag ((tag, jstr w) :: E) = some (.name w, E) := by
  have h1 : E.filter (fun p => decide (p.1 = tag)) = [] := by
    rw [List.filter_eq_nil_iff]
    intro e he
    simpa using h e he
  have h2 : E.filter (fun p => decide (¬ p.1 = tag)) = E := by
    rw [List.filter_eq_self]
    intro e he
    simpa using h e he
  simp only [splitTag, List.filter_cons, decide_true, if_true, h1, not_true_eq_false, decide_false, Bool.false_eq_true,
    if_false, h2, jstr, tagOf]

theorem rt_tagged (tag : Key) (vs : List (VariantInfo × List (FieldInfo × Ty)))
    (IH : ∀ q ∈ vs, ∀ p ∈ q.2, RT p.2) : RT (.tagged tag vs) := by
  intro v absent path hwf hv
  cases v <;> simp only [wt, Bool.false_eq_true] at hv
  rename_i r vals
  simp only [wfTy, Bool.and_eq_true] at hwf
  obtain ⟨vi, fs, hpick, hmem, hr, hwtf⟩ := pick_of_wt hv
  subst hr
  obtain ⟨hshape, htag, hunit, hwff⟩ := wfVariants_mem hwf.2 hmem
  have hkeys : ∀ e ∈ wireFields absent (vi.rust :: path) fs vals, ¬ e.1 = tag := by
    intro e he heq
    exact htag (heq ▸ wireFields_keys_all absent (vi.rust :: path) fs vals hwff hwtf e he)
  simp only [wireEncode, decodeTy, wireVariant_of_pick absent tag path hpick, splitTag_cons tag vi.wire _ hkeys,
    decVariant_name _ hwf.1 hmem, variantBody]
  by_cases hu : vi.unit = true
  · have hfs := hunit hu
    subst hfs
    cases vals with
    | nil => simp [hu]
    | cons _ _ => simp [wtFields] at hwtf
  · simp only [hu, Bool.false_eq_true, if_false,
      fields_roundtrip absent (vi.rust :: path) fs vals (IH _ hmem) hshape hwff hwtf, mapOk]

/-! ### The theorem -/

/-- **round trip on type trees**: for every well-formed type tree and every well-typed value, decoding the document
`wireEncode absent path t v` (any choice `absent` of which `None` / empty-default fields are left out) gives `v` back. -/
theorem decodeTy_wireEncode : ∀ (t : Ty), RT t :=
  Ty.induct' rt_u32 rt_u64 rt_i32 rt_bool rt_str rt_spaceSv rt_csvRules rt_opt rt_unitEnum rt_struct rt_tagged

theorem numericTag_wireEncode (absent : List String → Bool) (path : List String) (t : Ty) (v : DVal)
    (hwf : wfTy t = true) (hv : wt t v = true) : numericTag t (wireEncode absent path t v) = false := by
  cases t <;> cases v <;> simp only [wt, Bool.false_eq_true] at hv <;>
    try (simp [numericTag, wireEncode]; done)
  all_goals try (simp only [wireEncode]; split <;> simp [numericTag])
  rename_i tag vs r vals
  simp only [wfTy, Bool.and_eq_true] at hwf
  obtain ⟨vi, fs, hpick, hmem, _, hwtf⟩ := pick_of_wt hv
  obtain ⟨_, htag, _, hwff⟩ := wfVariants_mem hwf.2 hmem
  simp only [wireEncode, wireVariant_of_pick absent tag path hpick, numericTag, List.any_cons, jstr, Bool.and_false,
    Bool.false_or, List.any_eq_false, Bool.and_eq_true, decide_eq_true_eq, not_and]
  intro e he heq
  exact absurd (heq ▸ wireFields_keys_all absent (vi.rust :: path) fs vals hwff hwtf e he) htag

/-- decidable well-formedness of a named schema: every named type unfolds (no cycles, nothing unsupported) into a
well-formed tree: distinct wire names per object (flattened members included), the tag name of an internally tagged
enum does not clash with a member, variant / enum keys are distinct, `Option` is not nested, flatten fields name plain
structs, `default` fields have a default, and every documented rule name is understood by `from_str`. -/
def wfSchema (σ : List TypeDef) (rules : List (String × String)) : Bool :=
  σ.all fun td =>
    match resolve σ rules td.name with
    | some t => wfTy t
    | none => false

def WFSchema (σ : List TypeDef) (rules : List (String × String)) : Prop := wfSchema σ rules = true

instance (σ : List TypeDef) (rules : List (String × String)) : Decidable (WFSchema σ rules) := by
  unfold WFSchema; infer_instance

/-- **C19 (round trip).**  For every well-formed schema, every named type `name` of it with type tree `t`, every value
`v` that is well-typed for `t` -- any strings, any integers in range, any list of tokens without white space for the
moves, any optional field `None` or `Some` -- and every choice `absent` of leaving out or writing `null` (`""` for an
empty move list) each `None` / empty field: the decoder maps the document back to `v`. -/
theorem decode_encode (σ : List TypeDef) (rules : List (String × String)) (hσ : WFSchema σ rules)
    (name : String) (hname : name ∈ σ.map (·.name)) (t : Ty) (ht : resolve σ rules name = some t)
    (v : DVal) (hv : wt t v = true) (absent : List String → Bool) :
    decode σ rules name (wireEncode absent [] t v) = .ok v := by
  obtain ⟨td, htd, rfl⟩ := List.mem_map.mp hname
  have h := List.all_eq_true.mp hσ td htd
  simp only [ht] at h
  simp only [decode, ht, decodeRoot, numericTag_wireEncode absent [] t v h hv, Bool.false_eq_true, if_false]
  exact decodeTy_wireEncode t v absent [] h hv

#print axioms decode_encode

/-- the schema generated from the Rust source is well-formed -/
theorem wf_generated : WFSchema schema csvRuleTable := by decide +kernel

#print axioms wf_generated

/-! ## 4. `parse_render_json`: the JSON reader inverts the JSON printer -/

/-! ### Numbers -/

theorem digitChar_toNat : ∀ d, d < 10 → (digitChar d).toNat = 48 + d := by decide

theorem natDigits_lt (n : Nat) (h : n < 10) : natDigits n = [digitChar n] := by
  rw [natDigits]; simp [h]

theorem natDigits_ge (n : Nat) (h : ¬ n < 10) : natDigits n = natDigits (n / 10) ++ [digitChar (n % 10)] := by
  rw [natDigits]; simp [h]

theorem isDigit_digitChar (d : Nat) (h : d < 10) : isDigit (digitChar d) = true := by
  simp only [isDigit, digitChar_toNat d h, Bool.and_eq_true, decide_eq_true_eq]
  omega

theorem natDigits_all_digit (n : Nat) : ∀ c ∈ natDigits n, isDigit c = true := by
  induction n using Nat.strongRecOn with
  | _ n ih =>
    by_cases h : n < 10
    · rw [natDigits_lt n h]
      intro c hc
      simp only [List.mem_singleton] at hc
      subst hc
      exact isDigit_digitChar n h
    · rw [natDigits_ge n h]
      intro c hc
      rcases List.mem_append.mp hc with hc | hc
      · exact ih (n / 10) (by omega) c hc
      · simp only [List.mem_singleton] at hc
        subst hc
        exact isDigit_digitChar _ (by omega)

theorem natDigits_ne_nil (n : Nat) : natDigits n ≠ [] := by
  by_cases h : n < 10
  · rw [natDigits_lt n h]; simp
  · rw [natDigits_ge n h]; simp

theorem digitsVal_append (a : List Char) (c : Char) : digitsVal (a ++ [c]) = 10 * digitsVal a + (c.toNat - 48) := by
  simp [digitsVal, List.foldl_append]

theorem digitsVal_natDigits (n : Nat) : digitsVal (natDigits n) = n := by
  induction n using Nat.strongRecOn with
  | _ n ih =>
    by_cases h : n < 10
    · rw [natDigits_lt n h]
      simp [digitsVal, digitChar_toNat n h]
    · rw [natDigits_ge n h, digitsVal_append, ih (n / 10) (by omega), digitChar_toNat _ (by omega : n % 10 < 10)]
      omega

theorem natDigits_head_zero (n : Nat) : (natDigits n).head? = some '0' → n = 0 := by
  induction n using Nat.strongRecOn with
  | _ n ih =>
    by_cases h : n < 10
    · rw [natDigits_lt n h]
      intro hh
      simp only [List.head?_cons, Option.some.injEq] at hh
      have := congrArg Char.toNat hh
      rw [digitChar_toNat n h] at this
      simp at this
      omega
    · rw [natDigits_ge n h]
      intro hh
      have hne := natDigits_ne_nil (n / 10)
      have hh' : (natDigits (n / 10)).head? = some '0' := by
        cases hnd : natDigits (n / 10) with
        | nil => exact absurd hnd hne
        | cons d ds => rw [hnd] at hh; simpa using hh
      have := ih (n / 10) (by omega) hh'
      omega

theorem spanDigits_append (rest : List Char) (hr : ∀ c r, rest = c :: r → isDigit c = false) :
    ∀ (ds : List Char), (∀ c ∈ ds, isDigit c = true) → spanDigits (ds ++ rest) = (ds, rest)
  | [], _ => by
    cases rest with
    | nil => rfl
    | cons c r => simp [spanDigits, hr c r rfl]
  | d :: ds, h => by
    have ih := spanDigits_append rest hr ds (fun c hc => h c (List.mem_cons_of_mem _ hc))
    simp [spanDigits, h d (by simp), ih]

/-- what may follow a value in printed JSON -/
def Delim (rest : List Char) : Prop := rest = [] ∨ ∃ r, rest = ',' :: r ∨ rest = ']' :: r ∨ rest = '}' :: r

theorem parseNumber_natDigits (neg : Bool) (n : Nat) (rest : List Char) (hn : n < f64Overflow) (hd : Delim rest) :
    parseNumber neg (natDigits n ++ rest) = some (.num neg n, rest) := by
  have hspan : spanDigits (natDigits n ++ rest) = (natDigits n, rest) := by
    apply spanDigits_append _ _ _ (natDigits_all_digit n)
    intro c r e
    rcases hd with hd | ⟨r', hd | hd | hd⟩ <;> rw [hd] at e <;> cases e <;> decide
  have hlead : ¬ ((natDigits n).head? = some '0' ∧ (natDigits n).length > 1) := by
    intro ⟨h1, h2⟩
    have := natDigits_head_zero n h1
    subst this
    rw [natDigits_lt 0 (by omega)] at h2
    simp at h2
  have hov : ¬ f64Overflow ≤ digitsVal (natDigits n) := by rw [digitsVal_natDigits]; omega
  unfold parseNumber
  simp only [hspan, natDigits_ne_nil n, if_false, hlead]
  rcases hd with hd | ⟨r', hd | hd | hd⟩ <;> subst hd <;>
    simp [digitsVal_natDigits, hn]

/-! ### Strings -/

theorem hex4_control : ∀ n, n < 32 → hex4 '0' '0' (hexDigit (n / 16)) (hexDigit (n % 16)) = some n := by decide

theorem escapeChars_length (s : List Char) : s.length ≤ (escapeChars s).length := by
  induction s with
  | nil => simp [escapeChars]
  | cons c s ih =>
    have : 1 ≤ (escapeChar c).length := by
      unfold escapeChar
      repeat' split
      all_goals simp
    simp only [escapeChars, List.length_append, List.length_cons]
    omega

theorem parseStrBody_step (c : Char) (fuel : Nat) (rest : List Char) :
    parseStrBody (fuel + 1) (escapeChar c ++ rest) =
      match parseStrBody fuel rest with
      | some (s, e, r) => some (c :: s, e || needsEscape c, r)
      | none => none := by
  have hofNat : Char.ofNat c.toNat = c := Char.ofNat_toNat c
  unfold escapeChar
  split
  · rename_i h; subst h
    simp only [List.cons_append, List.nil_append, parseStrBody]
    cases parseStrBody fuel rest <;> simp [needsEscape]
  split
  · rename_i h1 h; subst h
    simp only [List.cons_append, List.nil_append, parseStrBody]
    cases parseStrBody fuel rest <;> simp [needsEscape]
  split
  · rename_i h1 h2 h
    have hc : c = Char.ofNat 8 := by rw [← h, hofNat]
    subst hc
    simp only [List.cons_append, List.nil_append, parseStrBody]
    cases parseStrBody fuel rest <;> simp [needsEscape]
  split
  · rename_i h1 h2 h3 h
    have hc : c = Char.ofNat 12 := by rw [← h, hofNat]
    subst hc
    simp only [List.cons_append, List.nil_append, parseStrBody]
    cases parseStrBody fuel rest <;> simp [needsEscape]
  split
  · rename_i h1 h2 h3 h4 h
    have hc : c = Char.ofNat 10 := by rw [← h, hofNat]
    subst hc
    simp only [List.cons_append, List.nil_append, parseStrBody]
    cases parseStrBody fuel rest <;> simp [needsEscape]
  split
  · rename_i h1 h2 h3 h4 h5 h
    have hc : c = Char.ofNat 13 := by rw [← h, hofNat]
    subst hc
    simp only [List.cons_append, List.nil_append, parseStrBody]
    cases parseStrBody fuel rest <;> simp [needsEscape]
  split
  · rename_i h1 h2 h3 h4 h5 h6 h
    have hc : c = Char.ofNat 9 := by rw [← h, hofNat]
    subst hc
    simp only [List.cons_append, List.nil_append, parseStrBody]
    cases parseStrBody fuel rest <;> simp [needsEscape]
  split
  · rename_i h1 h2 h3 h4 h5 h6 h7 h
    have hhex := hex4_control c.toNat h
    have hne : needsEscape c = true := by simp [needsEscape, h]
    have hs1 : ¬ (0xDC00 ≤ c.toNat ∧ c.toNat ≤ 0xDFFF) := by omega
    have hs2 : ¬ (0xD800 ≤ c.toNat ∧ c.toNat ≤ 0xDBFF) := by omega
    simp only [List.cons_append, List.nil_append, parseStrBody, hhex, hs1, hs2, hofNat, hne]
    cases parseStrBody fuel rest <;> simp
  · rename_i h1 h2 h3 h4 h5 h6 h7 h8
    have hne : needsEscape c = false := by simp [needsEscape, h1, h2, h8]
    simp only [List.cons_append, List.nil_append, parseStrBody, h1, h2, h8, hne]
    cases parseStrBody fuel rest <;> simp

theorem parseStrBody_escapeChars (rest : List Char) :
    ∀ (s : List Char) (fuel : Nat), s.length + 1 ≤ fuel →
      parseStrBody fuel (escapeChars s ++ '"' :: rest) = some (s, s.any needsEscape, rest)
  | [], fuel, h => by
    obtain ⟨f, rfl⟩ : ∃ f, fuel = f + 1 := ⟨fuel - 1, by omega⟩
    simp [escapeChars, parseStrBody]
  | c :: s, fuel, h => by
    obtain ⟨f, rfl⟩ : ∃ f, fuel = f + 1 := ⟨fuel - 1, by omega⟩
    have ih := parseStrBody_escapeChars rest s f (by simp at h; omega)
    simp only [escapeChars, List.append_assoc]
    rw [parseStrBody_step, ih]
    simp [Bool.or_comm]

theorem parse_renderStr (s rest : List Char) :
    parseStrBody ((escapeChars s ++ '"' :: rest).length + 1) (escapeChars s ++ '"' :: rest)
      = some (s, s.any needsEscape, rest) := by
  apply parseStrBody_escapeChars
  have := escapeChars_length s
  simp only [List.length_append, List.length_cons]
  omega

/-! ### Values -/

theorem JVal.induct' {P : JVal → Prop} (null : P .null) (bool : ∀ b, P (.bool b)) (num : ∀ s n, P (.num s n))
    (float : P .float) (str : ∀ e s, P (.str e s))
    (arr : ∀ xs, (∀ x ∈ xs, P x) → P (.arr xs))
    (obj : ∀ kvs, (∀ p ∈ kvs, P p.2) → P (.obj kvs)) : ∀ v, P v := by
  intro v
  refine JVal.rec (motive_1 := P) (motive_2 := fun xs => ∀ x ∈ xs, P x) (motive_3 := fun kvs => ∀ p ∈ kvs, P p.2)
    (motive_4 := fun p => P p.2) null bool num float str arr obj ?_ ?_ ?_ ?_ ?_ v
  · intro x hx; cases hx
  · intro head tail h1 h2 x hx
    cases hx with
    | head => exact h1
    | tail _ h => exact h2 x h
  · intro p hp; cases hp
  · intro head tail h1 h2 p hp
    cases hp with
    | head => exact h1
    | tail _ h => exact h2 p h
  · intro fst snd h; exact h

mutual
/-- values the theorem speaks about: no floats, integers below the `f64` overflow threshold (larger literals are
"number out of range" for serde_json), string flags as the reader computes them -/
def good : JVal → Bool
  | .null => true
  | .bool _ => true
  | .num _ n => decide (n < f64Overflow)
  | .float => false
  | .str e s => e == s.any needsEscape
  | .arr xs => goodList xs
  | .obj kvs => goodMembers kvs
def goodList : List JVal → Bool
  | [] => true
  | x :: xs => good x && goodList xs
def goodMembers : List (List Char × JVal) → Bool
  | [] => true
  | (_, v) :: kvs => good v && goodMembers kvs
end

mutual
/-- nesting depth of arrays / objects -/
def depth : JVal → Nat
  | .arr xs => 1 + depthList xs
  | .obj kvs => 1 + depthMembers kvs
  | _ => 0
def depthList : List JVal → Nat
  | [] => 0
  | x :: xs => max (depth x) (depthList xs)
def depthMembers : List (List Char × JVal) → Nat
  | [] => 0
  | (_, v) :: kvs => max (depth v) (depthMembers kvs)
end

mutual
/-- recursion fuel the reader needs -/
def cost : JVal → Nat
  | .arr xs => 1 + costList xs
  | .obj kvs => 1 + costMembers kvs
  | _ => 1
def costList : List JVal → Nat
  | [] => 0
  | x :: xs => 1 + cost x + costList xs
def costMembers : List (List Char × JVal) → Nat
  | [] => 0
  | (_, v) :: kvs => 1 + cost v + costMembers kvs
end

/-- reading back one printed value -/
def PR (v : JVal) : Prop :=
  ∀ (fuel d : Nat) (rest : List Char), good v = true → cost v ≤ fuel → depth v < d → Delim rest →
    parseValue fuel d (render v ++ rest) = some (v, rest)

theorem digit_facts {c : Char} (h : isDigit c = true) :
    isWs c = false ∧ ¬ c = '"' ∧ ¬ c = '[' ∧ ¬ c = '{' ∧ ¬ c = '-' := by
  refine ⟨?_, ?_, ?_, ?_, ?_⟩
  · simp only [isDigit, Bool.and_eq_true, decide_eq_true_eq] at h
    simp only [isWs, Bool.or_eq_false_iff, beq_eq_false_iff_ne, ne_eq]
    refine ⟨⟨⟨?_, ?_⟩, ?_⟩, ?_⟩ <;> (intro e; subst e; simp at h)
  all_goals (intro e; subst e; simp [isDigit] at h)

/-- the first character of a printed value: not white space, not a closing bracket -/
theorem render_head (v : JVal) (hg : good v = true) :
    ∃ c r, render v = c :: r ∧ isWs c = false ∧ ¬ c = ']' ∧ ¬ c = '}' := by
  cases v with
  | null => exact ⟨'n', _, rfl, by decide, by decide, by decide⟩
  | bool b => cases b <;> exact ⟨_, _, rfl, by decide, by decide, by decide⟩
  | num neg n =>
    cases neg with
    | true => exact ⟨'-', natDigits n, by simp [render], by decide, by decide, by decide⟩
    | false =>
      cases hd : natDigits n with
      | nil => exact absurd hd (natDigits_ne_nil n)
      | cons c r =>
        have hdig := natDigits_all_digit n c (by simp [hd])
        refine ⟨c, r, by simp [render, hd], (digit_facts hdig).1, ?_, ?_⟩ <;>
          (intro e; subst e; simp [isDigit] at hdig)
  | float => simp [good] at hg
  | str e s => exact ⟨'"', _, rfl, by decide, by decide, by decide⟩
  | arr xs => cases xs <;> exact ⟨'[', _, rfl, by decide, by decide, by decide⟩
  | obj kvs =>
    cases kvs with
    | nil => exact ⟨'{', _, rfl, by decide, by decide, by decide⟩
    | cons p kvs => obtain ⟨k, v⟩ := p; exact ⟨'{', _, rfl, by decide, by decide, by decide⟩

theorem skipWs_of_not_ws {c : Char} {cs : List Char} (h : isWs c = false) : skipWs (c :: cs) = c :: cs := by
  simp [skipWs, h]

theorem delim_renderTail (xs : List JVal) (rest : List Char) : Delim (renderTail xs ++ rest) := by
  cases xs with
  | nil => exact Or.inr ⟨rest, Or.inr (Or.inl rfl)⟩
  | cons x xs => exact Or.inr ⟨_, Or.inl (by simp [renderTail]; rfl)⟩

theorem delim_renderMembersTail (kvs : List (List Char × JVal)) (rest : List Char) :
    Delim (renderMembersTail kvs ++ rest) := by
  cases kvs with
  | nil => exact Or.inr ⟨rest, Or.inr (Or.inr rfl)⟩
  | cons p kvs => obtain ⟨k, v⟩ := p; exact Or.inr ⟨_, Or.inl (by simp [renderMembersTail]; rfl)⟩

theorem pr_null : PR .null := by
  intro fuel d rest _ hc _ _
  obtain ⟨f, rfl⟩ : ∃ f, fuel = f + 1 := ⟨fuel - 1, by simp [cost] at hc; omega⟩
  simp [render, parseValue, skipWs, isWs, isDigit]

theorem pr_bool (b : Bool) : PR (.bool b) := by
  intro fuel d rest _ hc _ _
  obtain ⟨f, rfl⟩ : ∃ f, fuel = f + 1 := ⟨fuel - 1, by simp [cost] at hc; omega⟩
  cases b <;> simp [render, parseValue, skipWs, isWs, isDigit]

theorem pr_num (neg : Bool) (n : Nat) : PR (.num neg n) := by
  intro fuel d rest hg hc _ hd
  obtain ⟨f, rfl⟩ : ∃ f, fuel = f + 1 := ⟨fuel - 1, by simp [cost] at hc; omega⟩
  simp only [good, decide_eq_true_eq] at hg
  cases neg with
  | true =>
    simp only [render, if_true, List.cons_append, parseValue]
    rw [skipWs_of_not_ws (by decide)]
    simp [parseNumber_natDigits true n rest hg hd]
  | false =>
    have hnum := parseNumber_natDigits false n rest hg hd
    cases hnd : natDigits n with
    | nil => exact absurd hnd (natDigits_ne_nil n)
    | cons c r =>
      have hdig := natDigits_all_digit n c (by simp [hnd])
      obtain ⟨h1, h2, h3, h4, h5⟩ := digit_facts hdig
      rw [hnd] at hnum
      simp only [render, Bool.false_eq_true, if_false, hnd, List.cons_append, parseValue]
      rw [skipWs_of_not_ws h1]
      simp only [h2, h3, h4, h5, if_false, hdig, if_true]
      exact hnum

theorem pr_str (e : Bool) (s : List Char) : PR (.str e s) := by
  intro fuel d rest hg hc _ _
  obtain ⟨f, rfl⟩ : ∃ f, fuel = f + 1 := ⟨fuel - 1, by simp [cost] at hc; omega⟩
  simp only [good, beq_iff_eq] at hg
  subst hg
  have := parse_renderStr s rest
  have e : render (.str (s.any needsEscape) s) ++ rest = '"' :: (escapeChars s ++ '"' :: rest) := by
    simp [render, renderStr]
  rw [e]
  simp only [parseValue]
  rw [skipWs_of_not_ws (by decide)]
  simp only [if_true]
  rw [this]

/-- elements after the opening bracket -/
theorem pr_elems (d : Nat) (rest : List Char) :
    ∀ (xs : List JVal) (x : JVal), PR x → (∀ y ∈ xs, PR y) → ∀ (fuel : Nat), good x = true → goodList xs = true →
      1 + cost x + costList xs ≤ fuel → depth x < d → depthList xs < d →
      parseElems fuel d (render x ++ (renderTail xs ++ rest)) = some (x :: xs, rest)
  | [], x, hx, _, fuel, hgx, _, hc, hdx, _ => by
    obtain ⟨f, rfl⟩ : ∃ f, fuel = f + 1 := ⟨fuel - 1, by omega⟩
    have := hx f d (renderTail [] ++ rest) hgx (by simp [costList] at hc; omega) hdx (delim_renderTail [] rest)
    simp only [renderTail, List.cons_append, List.nil_append] at this ⊢
    simp only [parseElems, this]
    rw [skipWs_of_not_ws (by decide)]
    simp
  | y :: ys, x, hx, hys, fuel, hgx, hgl, hc, hdx, hdl => by
    obtain ⟨f, rfl⟩ : ∃ f, fuel = f + 1 := ⟨fuel - 1, by omega⟩
    simp only [goodList, Bool.and_eq_true] at hgl
    simp only [costList] at hc
    simp only [depthList] at hdl
    have h1 := hx f d (renderTail (y :: ys) ++ rest) hgx (by omega) hdx (delim_renderTail (y :: ys) rest)
    have h2 := pr_elems d rest ys y (hys y List.mem_cons_self) (fun z hz => hys z (List.mem_cons_of_mem _ hz)) f
      hgl.1 hgl.2 (by omega) (by omega) (by omega)
    simp only [renderTail, List.cons_append, List.append_assoc] at h1 ⊢
    simp only [parseElems, h1]
    rw [skipWs_of_not_ws (by decide)]
    simp only [h2]

theorem pr_arr (xs : List JVal) (ih : ∀ x ∈ xs, PR x) : PR (.arr xs) := by
  intro fuel d rest hg hc hd _
  obtain ⟨f, rfl⟩ : ∃ f, fuel = f + 1 := ⟨fuel - 1, by simp [cost] at hc; omega⟩
  have hd1 : ¬ d ≤ 1 := by simp only [depth] at hd; omega
  cases xs with
  | nil =>
    simp only [render, List.cons_append, List.nil_append, parseValue]
    rw [skipWs_of_not_ws (by decide)]
    simp only [show ¬ '[' = '"' by decide, if_false, if_true, hd1]
    rw [skipWs_of_not_ws (by decide)]
    simp
  | cons x xs =>
    simp only [good, goodList, Bool.and_eq_true] at hg
    simp only [cost, costList] at hc
    simp only [depth, depthList] at hd
    obtain ⟨c, r, hr, hws, hnb, _⟩ := render_head x hg.1
    have h := pr_elems (d - 1) rest xs x (ih x List.mem_cons_self) (fun z hz => ih z (List.mem_cons_of_mem _ hz)) f
      hg.1 hg.2 (by omega) (by omega) (by omega)
    simp only [render, List.cons_append, List.append_assoc, parseValue]
    rw [skipWs_of_not_ws (by decide)]
    simp only [show ¬ '[' = '"' by decide, if_false, if_true, hd1]
    rw [h]
    rw [hr, List.cons_append, skipWs_of_not_ws hws]
    split
    · rename_i heq
      simp only [List.cons.injEq] at heq
      exact absurd heq.1 hnb
    · rfl

/-- members after the opening brace -/
theorem pr_members (d : Nat) (rest : List Char) :
    ∀ (kvs : List (List Char × JVal)) (k : List Char) (v : JVal), PR v → (∀ p ∈ kvs, PR p.2) → ∀ (fuel : Nat),
      good v = true → goodMembers kvs = true → 1 + cost v + costMembers kvs ≤ fuel → depth v < d → depthMembers kvs < d →
      parseMembers fuel d (renderStr k ++ ':' :: (render v ++ (renderMembersTail kvs ++ rest))) = some ((k, v) :: kvs, rest)
  | [], k, v, hv, _, fuel, hgv, _, hc, hdv, _ => by
    obtain ⟨f, rfl⟩ : ∃ f, fuel = f + 1 := ⟨fuel - 1, by omega⟩
    have h1 := hv f d (renderMembersTail [] ++ rest) hgv (by simp [costMembers] at hc; omega) hdv
      (delim_renderMembersTail [] rest)
    have hs := parse_renderStr k (':' :: (render v ++ (renderMembersTail [] ++ rest)))
    simp only [renderMembersTail, List.cons_append, List.nil_append] at h1 hs ⊢
    simp only [parseMembers, renderStr, List.cons_append, List.append_assoc, List.nil_append]
    rw [skipWs_of_not_ws (by decide)]
    simp only [hs]
    rw [skipWs_of_not_ws (by decide)]
    simp only [h1]
    rw [skipWs_of_not_ws (by decide)]
    simp
  | (k', v') :: kvs, k, v, hv, hkvs, fuel, hgv, hgl, hc, hdv, hdl => by
    obtain ⟨f, rfl⟩ : ∃ f, fuel = f + 1 := ⟨fuel - 1, by omega⟩
    simp only [goodMembers, Bool.and_eq_true] at hgl
    simp only [costMembers] at hc
    simp only [depthMembers] at hdl
    have h1 := hv f d (renderMembersTail ((k', v') :: kvs) ++ rest) hgv (by omega) hdv
      (delim_renderMembersTail ((k', v') :: kvs) rest)
    have h2 := pr_members d rest kvs k' v' (hkvs (k', v') List.mem_cons_self)
      (fun z hz => hkvs z (List.mem_cons_of_mem _ hz)) f hgl.1 hgl.2 (by omega) (by omega) (by omega)
    have hs := parse_renderStr k (':' :: (render v ++ (renderMembersTail ((k', v') :: kvs) ++ rest)))
    simp only [renderMembersTail, renderStr, List.cons_append, List.append_assoc, List.nil_append] at h1 hs ⊢
    simp only [parseMembers]
    rw [skipWs_of_not_ws (by decide)]
    simp only [hs]
    rw [skipWs_of_not_ws (by decide)]
    simp only [h1]
    rw [skipWs_of_not_ws (by decide)]
    simp only [renderStr, List.cons_append, List.append_assoc, List.nil_append] at h2
    simp only [h2]

theorem pr_obj (kvs : List (List Char × JVal)) (ih : ∀ p ∈ kvs, PR p.2) : PR (.obj kvs) := by
  intro fuel d rest hg hc hd _
  obtain ⟨f, rfl⟩ : ∃ f, fuel = f + 1 := ⟨fuel - 1, by simp [cost] at hc; omega⟩
  have hd1 : ¬ d ≤ 1 := by simp only [depth] at hd; omega
  cases kvs with
  | nil =>
    simp only [render, List.cons_append, List.nil_append, parseValue]
    rw [skipWs_of_not_ws (by decide)]
    simp only [show ¬ '{' = '"' by decide, show ¬ '{' = '[' by decide, if_false, if_true, hd1]
    rw [skipWs_of_not_ws (by decide)]
    simp
  | cons p kvs =>
    obtain ⟨k, v⟩ := p
    simp only [good, goodMembers, Bool.and_eq_true] at hg
    simp only [cost, costMembers] at hc
    simp only [depth, depthMembers] at hd
    have h := pr_members (d - 1) rest kvs k v (ih (k, v) List.mem_cons_self)
      (fun z hz => ih z (List.mem_cons_of_mem _ hz)) f hg.1 hg.2 (by omega) (by omega) (by omega)
    simp only [render, List.cons_append, List.append_assoc, parseValue]
    rw [skipWs_of_not_ws (by decide)]
    simp only [show ¬ '{' = '"' by decide, show ¬ '{' = '[' by decide, if_false, if_true, hd1]
    rw [h]
    simp only [renderStr, List.cons_append]
    rw [skipWs_of_not_ws (by decide)]
    simp

theorem pr_float : PR .float := by
  intro fuel d rest hg
  simp [good] at hg

theorem parseValue_render : ∀ v, PR v :=
  JVal.induct' pr_null pr_bool pr_num pr_float pr_str pr_arr pr_obj

/-! ### Fuel bound and the theorem -/

theorem renderStr_length (s : List Char) : 2 ≤ (renderStr s).length := by
  simp [renderStr]

theorem costList_le (xs : List JVal) (h : ∀ x ∈ xs, cost x ≤ 2 * (render x).length) :
    costList xs + 1 ≤ 2 * (renderTail xs).length := by
  induction xs with
  | nil => simp [costList, renderTail]
  | cons y ys ih =>
    have h1 := h y List.mem_cons_self
    have h2 := ih (fun x hx => h x (List.mem_cons_of_mem _ hx))
    simp only [costList, renderTail, List.length_cons, List.length_append]
    omega

theorem costMembers_le (kvs : List (List Char × JVal)) (h : ∀ p ∈ kvs, cost p.2 ≤ 2 * (render p.2).length) :
    costMembers kvs + 1 ≤ 2 * (renderMembersTail kvs).length := by
  induction kvs with
  | nil => simp [costMembers, renderMembersTail]
  | cons p kvs ih =>
    obtain ⟨k, v⟩ := p
    have h1 := h (k, v) List.mem_cons_self
    have h2 := ih (fun x hx => h x (List.mem_cons_of_mem _ hx))
    simp only [costMembers, renderMembersTail, List.length_cons, List.length_append]
    simp only at h1
    omega

theorem cost_le : ∀ v, cost v ≤ 2 * (render v).length := by
  apply JVal.induct'
  · simp [cost, render]
  · intro b; cases b <;> simp [cost, render]
  · intro s n
    have : 1 ≤ (natDigits n).length := by
      cases h : natDigits n with
      | nil => exact absurd h (natDigits_ne_nil n)
      | cons _ _ => simp
    cases s <;> simp [cost, render] <;> omega
  · simp [cost, render]
  · intro e s
    have := renderStr_length s
    simp only [cost, render]
    omega
  · intro xs ih
    cases xs with
    | nil => simp [cost, render, costList]
    | cons x xs =>
      have h1 := ih x List.mem_cons_self
      have h2 := costList_le xs (fun y hy => ih y (List.mem_cons_of_mem _ hy))
      simp only [cost, costList, render, List.length_cons, List.length_append]
      omega
  · intro kvs ih
    cases kvs with
    | nil => simp [cost, render, costMembers]
    | cons p kvs =>
      obtain ⟨k, v⟩ := p
      have h1 := ih (k, v) List.mem_cons_self
      have h2 := costMembers_le kvs (fun y hy => ih y (List.mem_cons_of_mem _ hy))
      simp only [cost, costMembers, render, List.length_cons, List.length_append]
      simp only at h1
      omega

theorem parsePrefix_render (v : JVal) (hg : good v = true) (hd : depth v < maxDepth) (rest : List Char)
    (hr : Delim rest) : parsePrefix (render v ++ rest) = some (v, rest) := by
  unfold parsePrefix
  apply parseValue_render v _ _ _ hg _ hd hr
  have := cost_le v
  simp only [List.length_append]
  omega

/-- **C19 (JSON).**  Reading back what `serde_json::to_string` prints gives the same value tree: all escapes
(`\"`, `\\`, `\b \f \n \r \t`, `\u00xx`) round-trip, every other character -- DEL and all of Unicode included -- is
verbatim, integers of any size below the `f64` overflow threshold, arrays and objects nested less than 128 deep
(serde_json's recursion limit), duplicate keys kept in order.  `good` excludes float literals (their value is not
modelled) and asks that a string node carries the escape flag the reader would compute. -/
theorem parse_render_json (v : JVal) (hg : good v = true) (hd : depth v < 128) : parseJson (render v) = some v := by
  have := parsePrefix_render v hg hd [] (Or.inl rfl)
  simp only [List.append_nil] at this
  simp [parseJson, this, onlyWs, skipWs]

#print axioms parse_render_json

/-- the hypotheses are satisfiable by a value with every kind of node and every kind of escape -/
example :
    let v : JVal := .obj [("a\"b".toList, .arr [.num true 0, .num false 18446744073709551616, .null, .bool true, .arr [], .obj []]),
      ("a\"b".toList, .str true ("q\"b\\s/\n\t" ++ String.singleton (Char.ofNat 1) ++ String.singleton (Char.ofNat 127) ++ "é😀").toList),
      ([], .str false "plain".toList)]
    good v = true ∧ depth v < 128 ∧ parseJson (render v) = some v := by
  refine ⟨by decide +kernel, by decide +kernel, parse_render_json _ (by decide +kernel) (by decide +kernel)⟩

/-! ## 5. End to end: the TEXT of a document of the documented shape decodes to the value -/

theorem f64_big : 2 ^ 64 < f64Overflow := by decide +kernel

theorem goodMembers_append (a b : List (List Char × JVal)) : goodMembers (a ++ b) = (goodMembers a && goodMembers b) := by
  induction a with
  | nil => simp [goodMembers]
  | cons p a ih => obtain ⟨k, v⟩ := p; simp [goodMembers, ih, Bool.and_assoc]

theorem good_jstr (s : List Char) : good (jstr s) = true := by simp [jstr, good]

/-- the encoder produces values the JSON theorem applies to -/
def GW (t : Ty) : Prop :=
  ∀ (v : DVal) (absent : List String → Bool) (path : List String), wt t v = true → good (wireEncode absent path t v) = true

theorem gw_field {fi : FieldInfo} {t : Ty} {v : DVal} (absent : List String → Bool) (path : List String) (h : GW t)
    (hv : ((fi.default && emptyRules t v) || wt t v) = true) : good (wireEncode absent path t v) = true := by
  rcases Bool.or_eq_true_iff.mp hv with h' | h'
  · simp only [Bool.and_eq_true] at h'
    cases t <;> cases v <;> simp [emptyRules] at h'
    simp only [wireEncode]
    exact good_jstr _
  · exact h v absent path h'

theorem gw_fields (absent : List String → Bool) :
    ∀ (fs : List (FieldInfo × Ty)) (vals : List DVal) (path : List String), (∀ p ∈ fs, GW p.2) → wtFields fs vals = true →
      goodMembers (wireFields absent path fs vals) = true
  | [], _, _, _, _ => by simp [wireFields, goodMembers]
  | _ :: _, [], _, _, _ => by simp [wireFields, goodMembers]
  | (fi, t) :: rest, v :: vals, path, ih, hwt => by
    simp only [wtFields, Bool.and_eq_true] at hwt
    have hg := gw_field absent (fi.rust :: path) (ih (fi, t) List.mem_cons_self) hwt.1
    have hrest := gw_fields absent rest vals path (fun p hp => ih p (List.mem_cons_of_mem _ hp)) hwt.2
    rw [wireFields_cons, goodMembers_append, hrest, Bool.and_true]
    split
    · split
      · rename_i es heq
        rw [heq] at hg
        simpa [good] using hg
      · simp [goodMembers]
    · split
      · simp [goodMembers]
      · simp [goodMembers, hg]

theorem good_wireEncode : ∀ (t : Ty), GW t := by
  have hbig := f64_big
  apply Ty.induct'
  · intro v absent path hv
    cases v <;> simp [wt] at hv
    simp only [wireEncode, good, decide_eq_true_eq]; omega
  · intro v absent path hv
    cases v <;> simp [wt] at hv
    simp only [wireEncode, good, decide_eq_true_eq]; omega
  · intro v absent path hv
    cases v <;> simp [wt] at hv
    simp only [wireEncode, encodeI32, good, decide_eq_true_eq]; omega
  · intro v absent path hv
    cases v <;> simp [wt] at hv
    simp [wireEncode, good]
  · intro v absent path hv
    cases v <;> simp [wt] at hv
    simp only [wireEncode]; exact good_jstr _
  · intro v absent path hv
    cases v <;> simp only [wt, Bool.false_eq_true] at hv
    simp only [wireEncode]; exact good_jstr _
  · intro a b v absent path hv
    cases v <;> simp only [wt, Bool.false_eq_true] at hv
    simp only [wireEncode]; exact good_jstr _
  · intro t ih v absent path hv
    cases v <;> simp only [wt, Bool.false_eq_true] at hv
    · simp [wireEncode, good]
    · simp only [wireEncode]; exact ih _ absent path hv
  · intro vs v absent path hv
    cases v <;> simp only [wt, Bool.false_eq_true] at hv
    simp only [wireEncode]; exact good_jstr _
  · intro fs ih v absent path hv
    cases v <;> simp only [wt, Bool.false_eq_true] at hv
    simp only [wireEncode, good]
    exact gw_fields absent fs _ path ih hv
  · intro tag vs ih v absent path hv
    cases v <;> simp only [wt, Bool.false_eq_true] at hv
    obtain ⟨vi, fs, hpick, hmem, _, hwtf⟩ := pick_of_wt hv
    simp only [wireEncode, good, wireVariant_of_pick absent tag path hpick, goodMembers, good_jstr, Bool.true_and]
    exact gw_fields absent fs _ _ (ih _ hmem) hwtf

mutual
/-- nesting depth of the documents of a type -/
def tyDepth : Ty → Nat
  | .opt t => tyDepth t
  | .struct fs => 1 + fieldsDepth fs
  | .tagged _ vs => 1 + variantsDepth vs
  | _ => 0
def fieldsDepth : List (FieldInfo × Ty) → Nat
  | [] => 0
  | (_, t) :: rest => max (tyDepth t) (fieldsDepth rest)
def variantsDepth : List (VariantInfo × List (FieldInfo × Ty)) → Nat
  | [] => 0
  | (_, fs) :: rest => max (fieldsDepth fs) (variantsDepth rest)
end

theorem depthMembers_append (a b : List (List Char × JVal)) :
    depthMembers (a ++ b) = max (depthMembers a) (depthMembers b) := by
  induction a with
  | nil => simp [depthMembers]
  | cons p a ih => obtain ⟨k, v⟩ := p; simp [depthMembers, ih, Nat.max_assoc]

def DW (t : Ty) : Prop :=
  ∀ (v : DVal) (absent : List String → Bool) (path : List String), depth (wireEncode absent path t v) ≤ tyDepth t

theorem dw_fields (absent : List String → Bool) :
    ∀ (fs : List (FieldInfo × Ty)) (vals : List DVal) (path : List String), (∀ p ∈ fs, DW p.2) →
      depthMembers (wireFields absent path fs vals) ≤ fieldsDepth fs
  | [], _, _, _ => by simp [wireFields, depthMembers]
  | _ :: _, [], _, _ => by simp [wireFields, depthMembers]
  | (fi, t) :: rest, v :: vals, path, ih => by
    have hd := ih (fi, t) List.mem_cons_self v absent (fi.rust :: path)
    have hrest := dw_fields absent rest vals path (fun p hp => ih p (List.mem_cons_of_mem _ hp))
    rw [wireFields_cons, depthMembers_append]
    simp only [fieldsDepth]
    simp only at hd
    refine Nat.max_le.mpr ⟨Nat.le_trans ?_ (Nat.le_max_left _ _), Nat.le_trans hrest (Nat.le_max_right _ _)⟩
    split
    · split
      · rename_i es heq
        rw [heq] at hd
        simp only [depth] at hd
        omega
      · simp [depthMembers]
    · split
      · simp [depthMembers]
      · simp only [depthMembers]; omega

theorem dw_variants (absent : List String → Bool) (tag : Key) (r : String) (vals : List DVal) :
    ∀ (vs : List (VariantInfo × List (FieldInfo × Ty))) (path : List String), (∀ q ∈ vs, ∀ p ∈ q.2, DW p.2) →
      depthMembers (wireVariant absent tag path vs r vals) ≤ variantsDepth vs
  | [], _, _ => by simp [wireVariant, depthMembers]
  | (vi, fs) :: rest, path, ih => by
    have h1 := dw_fields absent fs vals (vi.rust :: path) (ih (vi, fs) List.mem_cons_self)
    have h2 := dw_variants absent tag r vals rest path (fun q hq => ih q (List.mem_cons_of_mem _ hq))
    simp only [wireVariant, variantsDepth]
    split
    · simp only [depthMembers, jstr, depth]; omega
    · omega

theorem depth_wireEncode : ∀ (t : Ty), DW t := by
  apply Ty.induct'
  case opt =>
    intro t ih v absent path
    cases v <;> simp only [wireEncode, tyDepth, depth, Nat.zero_le]
    exact ih _ absent path
  case struct =>
    intro fs ih v absent path
    cases v <;> simp only [wireEncode, tyDepth, depth, Nat.zero_le]
    rename_i vals
    have := dw_fields absent fs vals path ih
    omega
  case tagged =>
    intro tag vs ih v absent path
    cases v <;> simp only [wireEncode, tyDepth, depth, Nat.zero_le]
    rename_i r vals
    have := dw_variants absent tag r vals vs path ih
    omega
  all_goals
    intros
    intro v absent path
    cases v <;> simp [wireEncode, depth, jstr, encodeI32]

/-- **C19 (end to end, type trees).**  The printed text of a document of the documented shape decodes to the value:
`serde_json::from_str` (text → `Content` → typed value → `Deserializer::end`) on `to_string` of the wire document. -/
theorem decodeText_render_wireEncode (t : Ty) (hwf : wfTy t = true) (hd : tyDepth t < 128) (v : DVal)
    (hv : wt t v = true) (absent : List String → Bool) :
    decodeText t (render (wireEncode absent [] t v)) = .ok v := by
  have hp := parsePrefix_render (wireEncode absent [] t v) (good_wireEncode t v absent [] hv)
    (Nat.lt_of_le_of_lt (depth_wireEncode t v absent []) hd) [] (Or.inl rfl)
  simp only [List.append_nil] at hp
  have hdec := decodeTy_wireEncode t v absent [] hwf hv
  simp [decodeText, hp, decodeRoot, numericTag_wireEncode absent [] t v hwf hv, hdec, onlyWs, skipWs]

#print axioms decodeText_render_wireEncode

/-- **C19 (end to end).**  For every well-formed schema, every named type of it, every well-typed value and every
choice of absent optional fields, `serde_json::from_str` of the printed wire document yields the value. -/
theorem decode_text_roundtrip (σ : List TypeDef) (rules : List (String × String)) (hσ : WFSchema σ rules)
    (name : String) (hname : name ∈ σ.map (·.name)) (t : Ty) (ht : resolve σ rules name = some t) (hd : tyDepth t < 128)
    (v : DVal) (hv : wt t v = true) (absent : List String → Bool) :
    decodeText t (render (wireEncode absent [] t v)) = .ok v := by
  obtain ⟨td, htd, rfl⟩ := List.mem_map.mp hname
  have h := List.all_eq_true.mp hσ td htd
  simp only [ht] at h
  exact decodeText_render_wireEncode t h hd v hv absent

#print axioms decode_text_roundtrip

/-! ## 6. The generated schema: instances -/

/-- both message types unfold, are well-formed and nest less deep than serde_json's recursion limit -/
theorem generated_roots :
    (genResolve "BotGameState").any (fun t => wfTy t && decide (tyDepth t < 128)) = true ∧
    (genResolve "BotEvent").any (fun t => wfTy t && decide (tyDepth t < 128)) = true := by
  decide +kernel

/-- a `gameState` message: castling, a promotion, some optional fields present and some not -/
def exGameState : DVal :=
  .variant "GameState" [.struct [.strs ["e2e4".toList, "e7e5".toList, "e1g1".toList, "a7a8q".toList], .nat 7598040,
    .nat 8395220, .nat 10000, .nat 10000, .enumv "Started", .none, .some (.bool false), .none, .none,
    .some (.enumv "White"), .none]]

/-- a `challenge` message: nested objects, a string with escapes, a nested internally tagged enum, rules -/
def exChallenge : DVal :=
  .variant "Challenge" [
    .struct [.str "7pGLxJ4F".toList, .str "https://lichess.org/7pGLxJ4F".toList, .enumv "Created",
      .some (.struct [.str "lovlas".toList, .str "Lov \"las\"\n".toList, .some (.str "IM".toList), .nat 2506, .none,
        .some (.bool true), .none, .some (.nat 24)]),
      .none, .struct [.enumv "Standard", .str "Standard".toList, .str "Std".toList], .bool true, .enumv "Rapid",
      .variant "Clock" [.nat 300, .nat 25, .str "5+25".toList], .enumv "Random", .enumv "White",
      .struct [.str "#".toList, .str "Rapid".toList], .none, .some (.enumv "In"), .none, .none,
      .rules ["NoAbort", "NoClaimWin"]],
    .some (.struct [.bool true, .bool false])]

/-- the hypotheses of `decode_encode` / `decode_text_roundtrip` hold for these values -/
theorem examples_wellTyped :
    (genResolve "BotGameState").any (fun t => wt t exGameState) = true ∧
    (genResolve "BotEvent").any (fun t => wt t exChallenge) = true := by
  decide +kernel

/-- what the documents look like (all `None` fields left out / all written as `null`) -/
example : (genResolve "BotGameState").map (fun t => String.ofList (render (wireEncode (fun _ => true) [] t exGameState)))
    = some "{\"type\":\"gameState\",\"moves\":\"e2e4 e7e5 e1g1 a7a8q\",\"wtime\":7598040,\"btime\":8395220,\"winc\":10000,\"binc\":10000,\"status\":\"started\",\"bdraw\":false,\"winner\":\"white\"}" := by
  decide +kernel

/- The `challenge` document with every `None` written as `null` (`#eval`; comparing a 700 character string literal in the
   kernel takes ~40 s, so it is not re-checked here):
   {"type":"challenge","challenge":{"id":"7pGLxJ4F","url":"https://lichess.org/7pGLxJ4F","status":"created",
    "challenger":{"id":"lovlas","name":"Lov \"las\"\n","title":"IM","rating":2506,"provisional":null,"patron":true,
    "online":null,"lag":24},"destUser":null,"variant":{"key":"standard","name":"Standard","short":"Std"},"rated":true,
    "speed":"rapid","timeControl":{"type":"clock","limit":300,"increment":25,"show":"5+25"},"color":"random",
    "finalColor":"white","perf":{"icon":"#","name":"Rapid"},"rematchOf":null,"direction":"in","initialFen":null,
    "declineReason":null,"rules":"noAbort,noClaimWin"},"compat":{"bot":true,"board":false}} -/
example : (genResolve "BotEvent").map (fun t => (render (wireEncode (fun _ => false) [] t exChallenge)).length) = some 630 := by
  decide +kernel

/-- `decode_encode` and `decode_text_roundtrip` applied: whatever subset of the `None` fields is left out, the text of
the `gameState` document decodes to the value, moves in order -/
example (absent : List String → Bool) (t : Ty) (ht : genResolve "BotGameState" = some t) :
    decode schema csvRuleTable "BotGameState" (wireEncode absent [] t exGameState) = .ok exGameState ∧
    decodeText t (render (wireEncode absent [] t exGameState)) = .ok exGameState := by
  have hw := examples_wellTyped.1
  have hr := generated_roots.1
  rw [ht] at hw hr
  simp only [Option.any_some, Bool.and_eq_true, decide_eq_true_eq] at hw hr
  exact ⟨decode_encode _ _ wf_generated _ (by decide +kernel) t ht _ hw absent,
    decode_text_roundtrip _ _ wf_generated _ (by decide +kernel) t ht hr.2 _ hw absent⟩

example (absent : List String → Bool) (t : Ty) (ht : genResolve "BotEvent" = some t) :
    decode schema csvRuleTable "BotEvent" (wireEncode absent [] t exChallenge) = .ok exChallenge ∧
    decodeText t (render (wireEncode absent [] t exChallenge)) = .ok exChallenge := by
  have hw := examples_wellTyped.2
  have hr := generated_roots.2
  rw [ht] at hw hr
  simp only [Option.any_some, Bool.and_eq_true, decide_eq_true_eq] at hw hr
  exact ⟨decode_encode _ _ wf_generated _ (by decide +kernel) t ht _ hw absent,
    decode_text_roundtrip _ _ wf_generated _ (by decide +kernel) t ht hr.2 _ hw absent⟩

/-- ... and the quirks stay visible: an escape inside the move string is an error, an unknown rule is a panic,
a panic wins over trailing garbage -/
example : (rootTy "state").map (fun t => match decodeText t "{\"type\":\"gameState\",\"moves\":\"e2e4\\u0020e7e5\",\"wtime\":1,\"btime\":1,\"winc\":0,\"binc\":0,\"status\":\"started\"}".toList with
    | .err => 1 | .panic => 2 | .ok _ => 0) = some 1 := by decide +kernel
example : (rootTy "event").map (fun t => match decodeText t "{\"type\":\"challenge\",\"challenge\":{\"rules\":\"noAbort,bogus\"}} trailing".toList with
    | .err => 1 | .panic => 2 | .ok _ => 0) = some 2 := by decide +kernel


end Inkayaku.Props.C19
