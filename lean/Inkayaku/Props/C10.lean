import Inkayaku.Model.History
/-!
Property C10 (part: the repetition counter `ZobristHistory::count_repetitions`).

"A line is valued as a draw by repetition exactly when the position it reaches has then occurred at least three times —
counting the game history supplied with the position command and the line itself, with no capture or pawn move in
between ..."

The search asks `count_repetitions(ply_clock, halfmove_clock) >= 3` right after storing the current hash at index
`ply_clock`; index = ply number.  Model: `Inkayaku.History.countRepetitions h start hm`, `h : Nat → Nat` the stored
hashes.  `repIndices`, `repCount`, `occIndices`, `occCount` are the `List.filter` specifications defined in the model
file (membership characterised by `mem_repIndices` / `mem_occIndices`).
-/
namespace Inkayaku.C10
open Inkayaku.History

/-! ### Exact value and the `≥ 3` test -/

/-- Exact value: `0` below ply 4, otherwise `min 3 (1 + number of counted earlier plies)`. -/
theorem countRepetitions_value (h : Nat → Nat) (start hm : Nat) :
    countRepetitions h start hm =
      if start < 4 then 0
      else min 3 (1 + ((List.range (start - 3)).filter
        (fun j => decide (start - hm ≤ j) && decide ((start - j) % 2 = 0) && decide (h j = h start))).length) :=
  countRepetitions_eq h start hm
#print axioms countRepetitions_value

/-- The list in `countRepetitions_value`/`countRepetitions_spec` is exactly the set
`{ j | j + 4 ≤ start ∧ start − hm ≤ j ∧ (start − j) % 2 = 0 ∧ h j = h start }` (no duplicates: sublist of `range`). -/
theorem repIndices_mem (h : Nat → Nat) (start hm j : Nat) :
    j ∈ (List.range (start - 3)).filter
        (fun j => decide (start - hm ≤ j) && decide ((start - j) % 2 = 0) && decide (h j = h start))
      ↔ j + 4 ≤ start ∧ start - hm ≤ j ∧ (start - j) % 2 = 0 ∧ h j = h start :=
  mem_repIndices h start hm j
#print axioms repIndices_mem

theorem repIndices_nodup (h : Nat → Nat) (start hm : Nat) : (repIndices h start hm).Nodup :=
  List.Nodup.sublist List.filter_sublist List.nodup_range
#print axioms repIndices_nodup

/-- `count_repetitions(start, hm) >= 3` iff at least two earlier plies `j ≤ start − 4`, inside the window, at even
distance from `start`, carry the hash stored at `start`.  Holds for all `start` (for `start < 4` both sides are false). -/
theorem countRepetitions_spec (h : Nat → Nat) (start hm : Nat) :
    countRepetitions h start hm ≥ 3 ↔
      2 ≤ ((List.range (start - 3)).filter
        (fun j => decide (start - hm ≤ j) && decide ((start - j) % 2 = 0) && decide (h j = h start))).length := by
  rw [countRepetitions_eq]
  show _ ↔ 2 ≤ repCount h start hm
  by_cases h4 : start < 4
  · have e : start - 3 = 0 := by omega
    have : repCount h start hm = 0 := by simp [repCount, repIndices, e]
    simp [h4, this]
  · simp only [h4, if_false]; omega
#print axioms countRepetitions_spec

/-- hypotheses satisfiable, both directions non-trivial -/
example : countRepetitions (fun i => [7, 0, 7, 0, 7, 0, 7, 0, 7].getD i 0) 8 8 ≥ 3 ∧
    ¬ countRepetitions (fun i => [7, 0, 7, 0, 7, 0, 7, 0, 7].getD i 0) 8 5 ≥ 3 := by decide

/-- helper: `k ≤ |filter p (range n)|` for `k = 1, 2` as existence of increasing witnesses -/
private theorem one_le_filter_range (p : Nat → Bool) (n : Nat) :
    1 ≤ ((List.range n).filter p).length ↔ ∃ j, j < n ∧ p j = true := by
  rw [← List.countP_eq_length_filter, Nat.succ_le_iff, List.countP_pos_iff]
  simp [List.mem_range]

private theorem two_le_filter_range (p : Nat → Bool) (n : Nat) :
    2 ≤ ((List.range n).filter p).length ↔ ∃ j1 j2, j1 < j2 ∧ j2 < n ∧ p j1 = true ∧ p j2 = true := by
  induction n with
  | zero => simp
  | succ n ih =>
    rw [List.range_succ, List.filter_append, List.length_append]
    by_cases hp : p n = true
    · have e : (List.filter p [n]).length = 1 := by simp [hp]
      rw [e]
      constructor
      · intro hl
        have : 1 ≤ ((List.range n).filter p).length := by omega
        obtain ⟨j, hj, hpj⟩ := (one_le_filter_range p n).mp this
        exact ⟨j, n, hj, Nat.lt_succ_self n, hpj, hp⟩
      · rintro ⟨j1, j2, h12, h2, hp1, _⟩
        have : 1 ≤ ((List.range n).filter p).length :=
          (one_le_filter_range p n).mpr ⟨j1, by omega, hp1⟩
        omega
    · have e : (List.filter p [n]).length = 0 := by simp [hp]
      rw [e, Nat.add_zero, ih]
      constructor
      · rintro ⟨j1, j2, h12, h2, hp1, hp2⟩
        exact ⟨j1, j2, h12, by omega, hp1, hp2⟩
      · rintro ⟨j1, j2, h12, h2, hp1, hp2⟩
        have : j2 ≠ n := fun e => hp (e ▸ hp2)
        exact ⟨j1, j2, h12, by omega, hp1, hp2⟩

/-- The same test with explicit witnesses: two different earlier plies `j1 < j2 ≤ start − 4`, both in the window,
both at even distance from `start`, both with the hash of `start`. -/
theorem countRepetitions_spec_exists (h : Nat → Nat) (start hm : Nat) :
    countRepetitions h start hm ≥ 3 ↔
      ∃ j1 j2, j1 < j2 ∧ j2 + 4 ≤ start ∧ start - hm ≤ j1 ∧
        (start - j1) % 2 = 0 ∧ (start - j2) % 2 = 0 ∧ h j1 = h start ∧ h j2 = h start := by
  rw [countRepetitions_spec, two_le_filter_range]
  simp only [Bool.and_eq_true, decide_eq_true_eq]
  constructor
  · rintro ⟨j1, j2, h12, h2, ⟨⟨w1, p1⟩, e1⟩, ⟨⟨_, p2⟩, e2⟩⟩
    exact ⟨j1, j2, h12, by omega, w1, p1, p2, e1, e2⟩
  · rintro ⟨j1, j2, h12, h2, w1, p1, p2, e1, e2⟩
    exact ⟨j1, j2, h12, by omega, ⟨⟨w1, p1⟩, e1⟩, ⟨⟨by omega, p2⟩, e2⟩⟩
#print axioms countRepetitions_spec_exists

/-! ### Only indices `≤ start` are inspected -/

/-- If two histories agree on all indices `≤ start` the results are equal: stale entries above the current ply
(left over from deeper, already abandoned search lines) are harmless. -/
theorem never_reads_above_start (h h' : Nat → Nat) (start hm : Nat)
    (hagree : ∀ i, i ≤ start → h i = h' i) :
    countRepetitions h start hm = countRepetitions h' start hm := by
  rw [countRepetitions_eq, countRepetitions_eq]
  have : repCount h start hm = repCount h' start hm := by
    unfold repCount repIndices
    rw [← List.countP_eq_length_filter, ← List.countP_eq_length_filter]
    apply List.countP_congr
    intro j hj
    have hj' : j < start - 3 := List.mem_range.mp hj
    rw [hagree j (by omega), hagree start (Nat.le_refl _)]
  rw [this]
#print axioms never_reads_above_start

/-- hypothesis satisfiable with histories that really differ above `start` -/
example : (∀ i, i ≤ 4 → (fun i => [5, 0, 5, 0, 5, 9].getD i 0) i = (fun i => [5, 0, 5, 0, 5, 5].getD i 0) i) ∧
    (fun i => [5, 0, 5, 0, 5, 9].getD i 0) 5 ≠ (fun i => [5, 0, 5, 0, 5, 5].getD i 0) 5 := by decide

/-- On the real vector: with `start < len` the Rust code reads only in-range cells (never panics) and computes the
model value. -/
theorem reads_in_range (a : Array Nat) (start hm : Nat) (hs : start < a.size) :
    countRepetitionsChecked a start hm = some (countRepetitions (fun i => a.getD i 0) start hm) :=
  countRepetitionsChecked_eq a start hm hs
#print axioms reads_in_range

example : countRepetitionsChecked #[1, 0, 1, 0, 1] 4 4 = some 2 ∧ countRepetitionsChecked #[1, 0, 1, 0] 4 4 = none := by
  decide

/-! ### Monotone in the halfmove clock -/

theorem window_monotone (h : Nat → Nat) (start hm hm' : Nat) (hle : hm ≤ hm') :
    countRepetitions h start hm ≤ countRepetitions h start hm' := by
  rw [countRepetitions_eq, countRepetitions_eq]
  have : repCount h start hm ≤ repCount h start hm' := by
    unfold repCount repIndices
    rw [← List.countP_eq_length_filter, ← List.countP_eq_length_filter]
    apply List.countP_mono_left
    intro j _
    simp only [Bool.and_eq_true, decide_eq_true_eq]
    rintro ⟨⟨w, p⟩, e⟩
    exact ⟨⟨by omega, p⟩, e⟩
  split <;> omega
#print axioms window_monotone

example : countRepetitions (fun i => [7, 0, 7, 0, 7, 0, 7, 0, 7].getD i 0) 8 5 <
    countRepetitions (fun i => [7, 0, 7, 0, 7, 0, 7, 0, 7].getD i 0) 8 8 := by decide

/-- nothing can be counted while `hm < 4` -/
theorem window_lt_four (h : Nat → Nat) (start hm : Nat) (hhm : hm < 4) : countRepetitions h start hm ≤ 1 := by
  rw [countRepetitions_eq]
  have : repCount h start hm = 0 := by
    unfold repCount repIndices
    rw [← List.countP_eq_length_filter, List.countP_eq_zero]
    intro j hj
    have hj' : j < start - 3 := List.mem_range.mp hj
    have : ¬ start - hm ≤ j := by omega
    simp [this]
  split <;> omega
#print axioms window_lt_four

/-- Right after a capture or pawn move (`hm = 0`) only the position itself is counted. -/
theorem window_zero (h : Nat → Nat) (start : Nat) : countRepetitions h start 0 ≤ 1 :=
  window_lt_four h start 0 (by decide)
#print axioms window_zero

/-! ### Connection to positions: threefold repetition -/

section Threefold
variable {P : Type} [DecidableEq P]

/-- Under the stated hypotheses the number of occurrences of `pos start` in the window `max(0,start−hm) .. start`
(including `start` itself) is one more than the number of plies counted by the loop. -/
theorem occCount_eq (pos : Nat → P) (hash : P → Nat) (h : Nat → Nat) (start hm : Nat)
    (hh : ∀ i, i ≤ start → h i = hash (pos i))
    (HashInj : ∀ i, i ≤ start → start - hm ≤ i → hash (pos i) = hash (pos start) → pos i = pos start)
    (NoTwoPlyRepeat : ∀ i, start - hm ≤ i → i + 2 ≤ start → pos (i + 2) ≠ pos i)
    (Alternates : ∀ i j, i ≤ start → j ≤ start → (i + j) % 2 = 1 → pos i ≠ pos j) :
    occCount pos start hm = repCount h start hm + 1 := by
  unfold occCount occIndices repCount repIndices
  rw [← List.countP_eq_length_filter, ← List.countP_eq_length_filter]
  have e : List.range (start + 1) = List.range (start - 3) ++ List.range' (start - 3) (start + 1 - (start - 3)) := by
    rw [List.range_eq_range', List.range_eq_range']
    have := @List.range'_append_1 0 (start - 3) (start + 1 - (start - 3))
    rw [Nat.zero_add] at this
    rw [this]; congr 1; omega
  rw [e, List.countP_append]
  congr 1
  · apply List.countP_congr
    intro j hj
    have hj' : j < start - 3 := List.mem_range.mp hj
    simp only [Bool.and_eq_true, decide_eq_true_eq]
    constructor
    · rintro ⟨w, ep⟩
      refine ⟨⟨w, ?_⟩, ?_⟩
      · have := Alternates j start (by omega) (Nat.le_refl _)
        false_or_by_contra
        exact this (by omega) ep
      · rw [hh j (by omega), hh start (Nat.le_refl _), ep]
    · rintro ⟨⟨w, _⟩, eh⟩
      refine ⟨w, HashInj j (by omega) w ?_⟩
      rw [← hh j (by omega), ← hh start (Nat.le_refl _)]; exact eh
  · have hc : List.count start (List.range' (start - 3) (start + 1 - (start - 3))) = 1 := by
      rw [List.count_range_1']
      have : start - 3 ≤ start ∧ start < start - 3 + (start + 1 - (start - 3)) := by omega
      simp [this]
    refine Eq.trans ?_ hc
    rw [List.count_eq_countP]
    apply List.countP_congr
    intro j hj
    have hj' : start - 3 ≤ j ∧ j < start - 3 + (start + 1 - (start - 3)) := List.mem_range'_1.mp hj
    simp only [Bool.and_eq_true, decide_eq_true_eq, beq_iff_eq]
    constructor
    · rintro ⟨w, ep⟩
      false_or_by_contra
      rename_i hne
      by_cases hpar : (j + start) % 2 = 1
      · exact Alternates j start (by omega) (Nat.le_refl _) hpar ep
      · have ej : j + 2 = start := by omega
        have := NoTwoPlyRepeat j w (by omega)
        rw [ej] at this
        exact this ep.symm
    · rintro rfl
      exact ⟨by omega, rfl⟩

/-- **Threefold repetition.**  `pos i` is the position after ply `i`, the stored hash is `hash (pos i)`.
Hypotheses (all restricted to what is used, none is an axiom):
* `HashInj` : inside the window no other position has the hash of `pos start` (no Zobrist collision);
* `NoTwoPlyRepeat` : inside the window a position never recurs after exactly two plies;
* `Alternates` : positions at plies of different parity differ (side to move is part of the position).
Then `count_repetitions(start, hm) >= 3` holds exactly when `pos start` occurs at least three times among the plies
`max(0, start − hm), …, start` (`start − hm` is truncated subtraction, so `hm > start` means "from ply 0"). -/
theorem threefold_iff (pos : Nat → P) (hash : P → Nat) (h : Nat → Nat) (start hm : Nat)
    (hh : ∀ i, i ≤ start → h i = hash (pos i))
    (HashInj : ∀ i, i ≤ start → start - hm ≤ i → hash (pos i) = hash (pos start) → pos i = pos start)
    (NoTwoPlyRepeat : ∀ i, start - hm ≤ i → i + 2 ≤ start → pos (i + 2) ≠ pos i)
    (Alternates : ∀ i j, i ≤ start → j ≤ start → (i + j) % 2 = 1 → pos i ≠ pos j) :
    countRepetitions h start hm ≥ 3 ↔
      3 ≤ ((List.range (start + 1)).filter
        (fun j => decide (start - hm ≤ j) && decide (pos j = pos start))).length := by
  have hocc := occCount_eq pos hash h start hm hh HashInj NoTwoPlyRepeat Alternates
  rw [countRepetitions_spec]
  show 2 ≤ repCount h start hm ↔ 3 ≤ occCount pos start hm
  omega
#print axioms threefold_iff

/-- Exact value in terms of occurrences, for `start ≥ 4`. -/
theorem countRepetitions_eq_min_occ (pos : Nat → P) (hash : P → Nat) (h : Nat → Nat) (start hm : Nat)
    (h4 : 4 ≤ start)
    (hh : ∀ i, i ≤ start → h i = hash (pos i))
    (HashInj : ∀ i, i ≤ start → start - hm ≤ i → hash (pos i) = hash (pos start) → pos i = pos start)
    (NoTwoPlyRepeat : ∀ i, start - hm ≤ i → i + 2 ≤ start → pos (i + 2) ≠ pos i)
    (Alternates : ∀ i j, i ≤ start → j ≤ start → (i + j) % 2 = 1 → pos i ≠ pos j) :
    countRepetitions h start hm = min 3 (occCount pos start hm) := by
  rw [occCount_eq pos hash h start hm hh HashInj NoTwoPlyRepeat Alternates, countRepetitions_eq]
  have : ¬ start < 4 := by omega
  simp only [this, if_false]; omega
#print axioms countRepetitions_eq_min_occ

end Threefold

/-- the positions of the Rust unit test (hash = identity) -/
def testPos (i : Nat) : Nat := [123, 4312, 1, 2, 3, 4, 1, 2, 3, 4, 1].getD i 0

/-- The hypotheses of `threefold_iff` are satisfiable by a non-trivial sequence (three occurrences at plies 2, 6, 10),
and both sides are then true. -/
example : countRepetitions testPos 10 8 ≥ 3 ∧
    3 ≤ ((List.range (10 + 1)).filter (fun j => decide (10 - 8 ≤ j) && decide (testPos j = testPos 10))).length := by
  have hAlt : ∀ i, i ≤ 10 → ∀ j, j ≤ 10 → (i + j) % 2 = 1 → testPos i ≠ testPos j := by decide
  have hNo : ∀ i, i ≤ 10 → 10 - 8 ≤ i → i + 2 ≤ 10 → testPos (i + 2) ≠ testPos i := by decide
  have key := threefold_iff (P := Nat) testPos id testPos 10 8
    (fun _ _ => rfl) (fun _ _ _ e => e)
    (fun i w b => hNo i (by omega) w b)
    (fun i j hi hj => hAlt i hi j hj)
  exact ⟨by decide, key.mp (by decide)⟩

/-! ### Concrete checks -/

/-- the Rust unit test `zobrist_history::test::test` -/
def testHist (i : Nat) : Nat := [123, 4312, 1, 2, 3, 4, 1, 2, 3, 4, 1].getD i 0

example : countRepetitions testHist 10 8 = 3 := by decide
example : countRepetitions testHist 10 7 ≠ 3 := by decide
example : countRepetitions testHist 10 6 ≠ 3 := by decide
example : countRepetitions testHist 10 7 = 2 ∧ countRepetitions testHist 10 6 = 2 := by decide

/-- same through the `Vec` model built with `set` on the 5000-zero default -/
example :
    let z := [123, 4312, 1, 2, 3, 4, 1, 2, 3, 4, 1].zipIdx.foldl (fun z (x, i) => z.set i x) ZobristHistory.default
    countRepetitions z.get 10 8 = 3 ∧ countRepetitions z.get 10 7 = 2 := by decide +kernel

/-- `start − 2` is skipped: a hash equal at `start − 2` (and only there) is not counted ... -/
example : countRepetitions (fun i => [0, 0, 0, 0, 9, 0, 9].getD i 0) 6 6 = 1 := by decide
/-- ... so `9 _ 9 _ 9` with the first at `start − 4` gives 2, -/
example : countRepetitions (fun i => [0, 0, 9, 0, 9, 0, 9].getD i 0) 6 6 = 2 := by decide
/-- ... and three stored equal hashes at `start − 2, start − 4`, `start` do not reach 3 while `start−4, start−8` do. -/
example : countRepetitions (fun i => [0, 0, 0, 0, 9, 0, 9, 0, 9].getD i 0) 8 8 = 2 := by decide
example : countRepetitions (fun i => [9, 0, 0, 0, 9, 0, 0, 0, 9].getD i 0) 8 8 = 3 := by decide
/-- below ply 4 the answer is 0 whatever the history -/
example : countRepetitions (fun _ => 9) 3 3 = 0 := by decide
/-- line protocol -/
example : handleReps ["10", "8", "123", "4312", "1", "2", "3", "4", "1", "2", "3", "4", "1"] = "3" := by decide +kernel
example : handleReps ["10", "7", "123", "4312", "1", "2", "3", "4", "1", "2", "3", "4", "1"] = "2" := by decide +kernel
example : handleReps ["10", "8", "1", "2"] = "bad-request" := by decide +kernel
example : handleReps ["10", "x", "1", "2"] = "bad-request" := by decide +kernel

end Inkayaku.C10
