import Inkayaku.Proofs.SearchPvCheck
import Inkayaku.Proofs.SearchMate
import Inkayaku.Model.FenBoard
/-!
# C16 (PV part) and C08 (mate clause): the reported principal variation

"Every reported principal variation is a legal line from the searched position" (C16) and "whenever a positive `mate N`
is reported, the PV is a legal line of 2N−1 plies ending in checkmate" (C08), on the search model `Inkayaku.Search`.

## `pv_legal_line` — relative to a no-collision hypothesis, in two strengths

The transposition table is keyed by the 64-bit Zobrist hash alone and a hit returns the stored `ValuedMove` chain
unverified, so the statement can only hold relative to "no two different positions of this search share a hash".
The hypothesis is stated over `ReachLe s.board maxIter` = the positions at most `maxIter` legal moves below the root (the
positions that can be `negamax` nodes of a `go` with `maxIter` iterations; quiescence nodes neither probe nor store).
It is an idealisation about the key material (a real collision makes the engine print an illegal line), but it is
satisfiable and checkable for concrete roots (`Search.hashInjVis_of_check`, `hashInjCore_of_check`; examples below).
Quantifying it over ALL well-formed boards would be contradictory, hence make the theorem vacuous: the hash ignores the
clocks, so two boards differing in a clock only always collide.

* `pv_legal_line` (the TARGET of `Props/C16.lean`, literally): under `HashInjVis` (equal hash ⇒ equal visible position,
  CLOCKS INCLUDED) every reported PV is a `LegalLine`: each move is a member of `genPseudo` of the position reached and
  its successor passes `isValid`.  `HashInjVis` fails as soon as the search tree contains a transposition across a pawn
  move or capture (the two paths reset the half-move clock at different times) — for the demo position below at depth 3
  (`#guard` at the end).  In that case the engine really does report `Move` values whose undo field `prevHalfmove` is
  stale; what is printed (source, target, promotion) is still right:
* `pv_legal_line_rules`: under `HashInjCore` (equal hash ⇒ same position up to the two clocks — violated by real
  collisions only) every reported PV, abstracted move by move to (source, target, promotion), is a sequence of legal
  moves by the rules of chess (`Spec.legalMoves`/`Spec.apply`) from the searched position, and every move prints as the
  UCI text of its abstraction.

Both follow from one induction over the search (`Proofs/SearchPv.lean`) carrying `TTLegal` ("every stored chain is a line
of every reachable position with that hash"); the hash argument of every recursive call is the hash of the child by C06.

## `mate_pv` — no collision hypothesis

Checkmate values are never stored in the table, so a table hit never returns one; the fail-hard quiescence search returns
a mate-range value only when it hands back a window bound.  `Proofs/SearchMate.lean` shows: a mate-range value that is
none of the window bounds and not `±winScore` comes with a PV built by the move loops alone, ending in a position without
legal move whose mover is in check, with `value = ±(winScore − fullmove there)`.  At the root the window is
`(−winScore, winScore)`, and a reported `mate N` with `N > 0` excludes both bounds.  Hypotheses: clock budget, and
`fullmove + maxIter + 201 < maxFullMoves = 2^20` (beyond that `is_checkmate` itself fails to recognise mate values).
-/
namespace Inkayaku.C16Pv
open Inkayaku.Search Inkayaku.Board Inkayaku.WF Inkayaku.Eval Inkayaku.Abs

/-- **C16, literal form** (the TARGET of `Props/C16.lean`): every PV reported by a `go` is a legal line from the searched
position — no hash collision among the positions within `maxIter` plies, clocks included -/
theorem pv_legal_line (s : St) (g : GoParams) (maxIter : Nat) (hinv : Inv (goBudget maxIter) s.board)
    (hinj : HashInjVis (ReachLe s.board maxIter))
    (d t : Option Nat) (n : Nat) (sc : Option Score) (pvl : List Move)
    (ho : Out.info d t n sc (some pvl) ∈ (goCmd s g maxIter).out) (hnew : Out.info d t n sc (some pvl) ∉ s.out) :
    LegalLine s.board pvl :=
  goCmd_pv_ok s (legalLine_laws hinj) g maxIter (fun _ n hn hr => ⟨n, hn, hr⟩) hinv _ ho hnew

/-- **C16, rules form**: every PV reported by a `go`, read as (source, target, promotion) triples — i.e. as the UCI text
that is printed — is a sequence of legal moves by the rules of chess from the searched position; no REAL hash collision
(different placement, side to move, castling rights or en-passant square) among the positions within `maxIter` plies -/
theorem pv_legal_line_rules (s : St) (g : GoParams) (maxIter : Nat) (hinv : Inv (goBudget maxIter) s.board)
    (hinj : HashInjCore (ReachLe s.board maxIter))
    (d t : Option Nat) (n : Nat) (sc : Option Score) (pvl : List Move)
    (ho : Out.info d t n sc (some pvl) ∈ (goCmd s g maxIter).out) (hnew : Out.info d t n sc (some pvl) ∉ s.out) :
    RulesLine (abs s.board) (pvl.map smove) ∧ ∀ m ∈ pvl, m.uci = (smove m).uci :=
  goCmd_pv_ok s (rules_laws hinj) g maxIter (fun _ n hn hr => ⟨n, hn, hr⟩) hinv _ ho hnew

/-- **C08, mate clause**: whenever a `go` reports `mate N` with `N > 0` together with a PV, that PV has `2N − 1` plies, is
a legal line from the searched position (literally generated moves), and the position after it is well-formed, has no
legal move and its mover is in check — checkmate by the rules.  No collision hypothesis. -/
theorem mate_pv (s : St) (g : GoParams) (maxIter : Nat) (hinv : Inv (goBudget maxIter) s.board)
    (hfm : s.board.fullmove + goBudget maxIter < 1048576)
    (d t : Option Nat) (n : Nat) (N : Int) (pvl : List Move) (hN : N > 0)
    (ho : Out.info d t n (some (.mate N)) (some pvl) ∈ (goCmd s g maxIter).out)
    (hnew : Out.info d t n (some (.mate N)) (some pvl) ∉ s.out) :
    (pvl.length : Int) = 2 * N - 1 ∧ LegalLine s.board pvl ∧ Mated (pvl.foldl make s.board) ∧
    Spec.isCheckmate (abs (pvl.foldl make s.board)) = true := by
  obtain ⟨h1, h2, h3, h4⟩ := goCmd_mate_ok s g maxIter hinv hfm _ ho hnew hN
  exact ⟨h1, h2, h4, h4.isCheckmate h3⟩

#print axioms pv_legal_line
#print axioms pv_legal_line_rules
#print axioms mate_pv

/-! ## the node-level statements behind them -/

/-- **one `negamax` call**: for a board with clock budget whose hash argument is its hash, lying `ply ≤ maxPly ≤ N` legal
moves below `root`, and a table all of whose stored chains are legal lines of every position of `S` with that hash
(`S` ⊇ the positions within `N` plies of `root`, no collision on `S`): the returned PV is a legal line of the board, and
the returned table has the property again (a store inserts the node's own result under the node's own hash) -/
theorem negamax_pv_legal {S : Board → Prop} (hinj : HashInjVis S) (root : Board) (N : Nat)
    (hS : ∀ b n, n ≤ N → Reach root n b → S b) (fuel : Nat) (s : St) (ply maxPly : Nat) (a b : Int) (isPv : Bool)
    (h ph : UInt64) (hinv : Inv fuel s.board) (hh : h = Zobrist.hash s.board) (hreach : Reach root ply s.board)
    (hply : ply ≤ maxPly) (hmax : maxPly ≤ N) (htt : TTLegal S LegalLine s.tt) :
    LegalLine s.board (negamax fuel s ply maxPly a b isPv h ph).1.pv ∧
    TTLegal S LegalLine (negamax fuel s ply maxPly a b isPv h ph).2.tt :=
  negamax_pv (legalLine_laws hinj) root N hS fuel s ply maxPly a b isPv h ph hinv hh hreach hply hmax htt

/-- **one `quiescence` call**: the returned PV is a legal line of the board (captures and promotions are pseudo-legal
moves, C01); the table is neither read nor written -/
theorem quiescence_pv_legal (fuel : Nat) (s : St) (a b : Int) (hinv : Inv fuel s.board) :
    LegalLine s.board (quiescence fuel s a b).1.pv ∧ (quiescence fuel s a b).2.tt = s.tt :=
  ⟨quiescence_pv (legalLine_laws (S := fun _ => False) (fun _ _ h => h.elim)) fuel s a b hinv, quiescence_tt fuel s a b⟩

/-- **quiescence and mate values**: the fail-hard quiescence search returns a value in the `is_checkmate` range only by
handing back one of its window bounds -/
theorem quiescence_mate_value_is_bound (fuel : Nat) (s : St) (a b : Int)
    (h : isCheckmateValue (quiescence fuel s a b).1.value = true) :
    (quiescence fuel s a b).1.value = a ∨ (quiescence fuel s a b).1.value = b :=
  (quiescence_val fuel s a b).2 ((big_iff _).mp h)

/-- **one `negamax` call below the root and mate values**: if the table holds small values only (it does: checkmate values
are not stored) and the window bounds are static-evaluation or mate-range values, then a returned value in the
`is_checkmate` range that is none of `alpha0`, `beta0`, `±winScore` comes with a PV that is a legal line through
well-formed boards ending in a position without legal move whose mover is in check, and the value is
`-(winScore - fullmove there)` negated once per ply (`MateLine`) -/
theorem negamax_mate_pv (fuel : Nat) (s : St) (ply maxPly : Nat) (a b : Int) (isPv : Bool) (h ph : UInt64)
    (hinv : Inv fuel s.board) (hfm : s.board.fullmove + fuel < 1048576) (htt : TTSmall s.tt) (ha : Val a) (hb : Val b)
    (hply : 0 < ply) (hB : isCheckmateValue (negamax fuel s ply maxPly a b isPv h ph).1.value = true)
    (ho : Outside (negamax fuel s ply maxPly a b isPv h ph).1.value a b) :
    MateLine s.board (negamax fuel s ply maxPly a b isPv h ph).1.pv (negamax fuel s ply maxPly a b isPv h ph).1.value := by
  rcases (negamax_mate fuel s ply maxPly a b isPv h ph hinv hfm htt ha hb).2.2.1 ((big_iff _).mp hB) ho with ⟨h0, -⟩ | h1
  · omega
  · exact h1

#print axioms negamax_pv_legal
#print axioms quiescence_pv_legal
#print axioms quiescence_mate_value_is_bound
#print axioms negamax_mate_pv

/-! ## non-vacuity -/

instance decLegalLine : ∀ (b : Board) (l : List Move), Decidable (LegalLine b l)
  | _, [] => isTrue trivial
  | b, m :: ms =>
    have := decLegalLine (make b m) ms
    inferInstanceAs (Decidable (m ∈ genPseudo b ∧ isValid (make b m) = true ∧ LegalLine (make b m) ms))

instance decRulesLine : ∀ (p : Spec.Pos) (l : List Spec.SMove), Decidable (RulesLine p l)
  | _, [] => isTrue trivial
  | p, m :: ms =>
    have := decRulesLine (Spec.apply p m) ms
    inferInstanceAs (Decidable (m ∈ Spec.legalMoves p ∧ RulesLine (Spec.apply p m) ms))

instance (b : Board) : Decidable (Mated b) :=
  inferInstanceAs (Decidable ((∀ m ∈ genPseudo b, isValid (make b m) = false) ∧ isCurrentInCheck b = true))

def bd (s : String) : Board :=
  match FenBoard.fromFenString s with
  | .ok b => b
  | .error _ => default

/-- White mates in two: 1. Ra6 bxa6 2. b7# (or 1. … B any 2. Rxa7#) -/
def mateIn2 : Board := bd "kbK5/pp6/1P6/8/8/8/8/R7 w - - 0 1"

/-- the hypotheses of all three theorems hold for this root (any `maxIter ≤ 2` for the literal no-collision hypothesis) -/
theorem mateIn2_inv : Inv (goBudget 8) mateIn2 ∧ mateIn2.fullmove + goBudget 8 < 1048576 := by
  refine ⟨⟨?_, ?_, ?_⟩, ?_⟩ <;> decide +kernel

/-- no two of the 144 positions within two plies of the root (16 + 127 successors) share a hash: kernel-evaluated -/
theorem mateIn2_noCollision : HashInjVis (ReachLe mateIn2 2) :=
  hashInjVis_of_check mateIn2 2 (by decide +kernel)

def start2 : St := { Search.initial with board := mateIn2 }

/-- the theorems applied: every PV of a two-iteration `go` from this root is a legal line, literally and by the rules -/
example (g : GoParams) (d t : Option Nat) (n : Nat) (sc : Option Score) (pvl : List Move)
    (ho : Out.info d t n sc (some pvl) ∈ (goCmd start2 g 2).out) :
    LegalLine mateIn2 pvl ∧ RulesLine (abs mateIn2) (pvl.map smove) :=
  have hinv : Inv (goBudget 2) mateIn2 := Inv_mono (by decide) mateIn2_inv.1
  ⟨pv_legal_line start2 g 2 hinv mateIn2_noCollision d t n sc pvl ho (by simp [start2, Search.initial]),
   (pv_legal_line_rules start2 g 2 hinv mateIn2_noCollision.core d t n sc pvl ho (by simp [start2, Search.initial])).1⟩

/-- a depth-3 search: reports `mate 2` with the three-ply PV 1. Ra6 bxa6 2. b7# -/
def demo : St := goCmd start2 { depth := some 3 } 8

def lastInfo (s : St) : Option (Option Score × List Move) :=
  s.out.findSome? fun | .info (some _) _ _ sc (some pv) => some (sc, pv) | _ => none

#guard (lastInfo demo).map (fun x => (x.1, x.2.map Move.uci)) == some (some (.mate 2), ["a1a6", "b7a6", "b6b7"])
-- the conclusions of `mate_pv`, evaluated: 2·2 − 1 plies, legal line, ends in checkmate (model and rules)
#guard match lastInfo demo with
  | some (some (.mate N), pv) =>
    N == 2 && (pv.length : Int) == 2 * N - 1 && decide (LegalLine mateIn2 pv) && decide (Mated (pv.foldl make mateIn2))
      && Spec.isCheckmate (abs (pv.foldl make mateIn2)) && decide (RulesLine (abs mateIn2) (pv.map smove))
  | _ => false
-- every PV reported by the demo is a legal line
#guard demo.out.all fun | .info _ _ _ _ (some pv) => decide (LegalLine mateIn2 pv) | _ => true
-- the 2096 positions within three plies: the literal hypothesis FAILS (1. bxa7 … 2. Kd7 and 1. Kd7 … 2. bxa7 reach the
-- same placement with different half-move clocks, same hash), the rules-level hypothesis holds
#guard (reachList mateIn2 3).length == 2096
#guard injCheck vis (reachList mateIn2 3) == false
#guard injCheck coreB (reachList mateIn2 3) == true
-- the start position, depth 3
#guard (goCmd Search.initial { depth := some 3 } 8).out.all fun
  | .info _ _ _ _ (some pv) => decide (LegalLine FenBoard.startBoard pv) | _ => true

end Inkayaku.C16Pv
