import Inkayaku.Props.C10Deep
/-!
# C10 below the root: why exactness cannot extend beyond the hypotheses of `C10Deep.go_depth_eq_repSpec` — a graph-history witness

`Props/C10Deep.lean` proves that `go depth d` after a game reports the exact path-dependent minimax `mm repGame d` (the value of
`RepSpec.repSearch`) for EVERY `d` under `RHashInj b0 T d`, and that `RHashInj` is a theorem for `d ≤ 3`.  This file exhibits a game
on which, at depth 5, the search model's value DIFFERS from the specification although the same position searched WITHOUT the
history agrees with it — so the deviation is caused by the history, not by the draft effects of the table that limit C08 to depth 3.

`8/8/2Q5/k2Kq3/6R1/8/8/8 w - - 0 31`, then `Kd5-c4 Qe5-c3+ Kc4-d5`; Black (queen against queen and rook) to move at the root `R`.
Black has the perpetual `Qc3-e5+ Kd5-c4 Qe5-c3+ Kc4-d5`: its first move reaches the FEN position (second occurrence), its fourth
move reaches `R` again (second occurrence, no draw), and `Qc3-e5+` at ply 5 would be the THIRD occurrence of the FEN position: a
draw.  The specification sees it: value `cp 0`.  The search model reports `cp -75`: in iteration 5 the node at ply 4 has the
position of the root; its repetition test counts two occurrences, so the table is probed, and the ROOT ENTRY stored by iteration 4
(draft 4 ≥ remaining 1, bound exact) answers with the value the position had at the root — where the FEN position below it was only
a second occurrence.  One table entry, stored on one line, used on another line with a different repetition status: graph-history
interaction.  Without the history (`position <R>` alone) both values are `cp -75`.

* `ghiWitness` (`#guard`, the search runs on `Std.HashMap` and is evaluated by the compiler): the two values with the history
  differ, the two values without it agree; `ghiWitnessKings`: the same mechanism with bare kings (`cp 10` against `cp 20`);
* `root_recurs`, `not_rhashInj` (kernel): the hypothesis `RHashInj` of the conditional theorem fails on this game at depth 5 — a
  node at ply 4 has the hash (indeed the placement, side, rights and e.p. file) of the root, a node at which the search stores.
-/
namespace Inkayaku.C10DeepGhi
open Inkayaku.Board Inkayaku.Eval Inkayaku.WF Inkayaku.Search Inkayaku.Minimax
open Inkayaku.SearchSim Inkayaku.SearchRep Inkayaku.SearchRepDeep
open Inkayaku.RepSpec (repGame repSearch key)
open Inkayaku.C10Search.Example (boardOf tailOf moveOf lastInfo)

def fenBoard : Board := boardOf "8/8/2Q5/k2Kq3/6R1/8/8/8 w - - 0 31"
def history : List String := ["d5c4", "e5c3", "c4d5"]
def histT : List Board := tailOf fenBoard history
/-- the root of the search: Black to move -/
def root : Board := lastBoard fenBoard histT

/-- depth and score of the last iteration the search model reports for `go depth d` after `position <b0> moves …` -/
def engineScore (d : Nat) (b0 : Board) (ucis : List String) : Option (Nat × Score) :=
  lastInfo (goCmd (setPosition initial b0 ucis) { depth := some d }).out

/-- the same for the executable specification -/
def specScore (d : Nat) (b0 : Board) (ucis : List String) : Option (Nat × Score) :=
  (repSearch d b0 ucis []).map fun r => (d, scoreFromValue r.2.1 r.1)

/-- **the witness**: with the history the search model says `cp -75`, the specification `cp 0` (Black forces the repetition);
without the history both say `cp -75` -/
def ghiWitness : Bool :=
  engineScore 5 fenBoard history == some (5, .cp (-75)) && specScore 5 fenBoard history == some (5, .cp 0) &&
  engineScore 5 root [] == some (5, .cp (-75)) && specScore 5 root [] == some (5, .cp (-75))

#guard ghiWitness
-- (model driver: `rep-search 8/8/2Q5/k2Kq3/6R1/8/8/8_w_-_-_0_31 5 d5c4 e5c3 c4d5` answers `cp0 cp-75`: the rule decides the value;
--  `session pos 8/8/2Q5/k2Kq3/6R1/8/8/8_w_-_-_0_31 d5c4 e5c3 c4d5 ; go depth 5` ends with `D:5:cp-75`)

/-! ## the same with bare kings (fast)

`8/8/8/3K1k2/8/8/8/8 b - - 0 30`, then `Kf5-g4 Kd5-d4 Kg4-f5`; White to move at the root `R` (Kd4, kf5).  `A = R + Kd4-d5` is the FEN
position (one occurrence in the game).  The line `Kd4-d5 Kf5-f4 Kd5-d4 Kf4-f5` reaches `R` at ply 4 (second occurrence); there
`Kd4-d5` would complete the threefold of `A` (worth `+50` to the root side by the contempt convention), so Black must avoid
`Kf4-f5` and the exact value is `cp 20`.  The search model answers the ply-4 node from the root entry of iteration 4 (value `cp 10`)
and reports `cp 10`.  Without the history both say `cp 10`; at depth 4 both say `cp 10` with the history. -/

def kings : Board := boardOf "8/8/8/3K1k2/8/8/8/8 b - - 0 30"
def kingsHistory : List String := ["f5g4", "d5d4", "g4f5"]
def kingsRoot : Board := lastBoard kings (tailOf kings kingsHistory)

def ghiWitnessKings : Bool :=
  engineScore 5 kings kingsHistory == some (5, .cp 10) && specScore 5 kings kingsHistory == some (5, .cp 20) &&
  engineScore 5 kingsRoot [] == some (5, .cp 10) && specScore 5 kingsRoot [] == some (5, .cp 10) &&
  engineScore 4 kings kingsHistory == some (4, .cp 10) && specScore 4 kings kingsHistory == some (4, .cp 10)

#guard ghiWitnessKings

/-! ## the hypothesis that fails -/

/-- the perpetual, from the root -/
def m1 : Move := moveOf root "c3e5"
def p1 : Board := make root m1
def m2 : Move := moveOf p1 "d5c4"
def p2 : Board := make p1 m2
def m3 : Move := moveOf p2 "e5c3"
def p3 : Board := make p2 m3
def m4 : Move := moveOf p3 "c4d5"
def p4 : Board := make p3 m4

theorem game_ok : gameBoards fenBoard history = some (fenBoard :: histT) ∧ Inv histT.length fenBoard := by
  refine ⟨by decide +kernel, by decide +kernel, by decide +kernel, by decide +kernel⟩

theorem isLine : IsLine (fenBoard :: histT) :=
  (gameBoards_isLine history fenBoard histT.length _ game_ok.2 (by decide +kernel) game_ok.1).1

/-- **a node at ply 4 shows the position of the root** (the four moves are legal; kernel evaluation) -/
theorem root_recurs : ∃ Lb, RNode fenBoard histT 4 Lb p4 ∧ C06.HashKey p4 = C06.HashKey root ∧
    Zobrist.hash p4 = Zobrist.hash root := by
  have h0 : RNode fenBoard histT 0 (fenBoard :: histT).dropLast root := RNode.root isLine
  have h1 := h0.child (m := m1) (by decide +kernel)
  have h2 := h1.child (m := m2) (by decide +kernel)
  have h3 := h2.child (m := m3) (by decide +kernel)
  have h4 := h3.child (m := m4) (by decide +kernel)
  have hk : C06.HashKey p4 = C06.HashKey root := by decide +kernel
  exact ⟨_, h4, hk, (C06.hash_congr hk).1⟩

/-- **`RHashInj` fails at depth 5 on this game**: the root (ply 0, a node at which the search stores) and the node at ply 4 have
the same hash but not the same ply -/
theorem not_rhashInj : ¬ RHashInj fenBoard histT 5 := by
  intro h
  obtain ⟨Lb, hn, _, he⟩ := root_recurs
  have := (h 0 4 _ _ _ _ (by omega) (by omega) (RNode.root isLine) hn he.symm).1
  omega

#print axioms root_recurs
#print axioms not_rhashInj

end Inkayaku.C10DeepGhi
