import Inkayaku.Proofs.MoveBits
import Inkayaku.Proofs.MakeUnmake
import Inkayaku.Proofs.GenOK
import Inkayaku.Model.Zobrist
/-!
# C03 — unmake restores the position exactly

"For every legal position and every move the generator can emit (legal or only pseudo-legal), making the move and
then unmaking it restores the identical chess position: placement, side to move, castling rights, en-passant target,
half-move clock, full-move number and both position hashes.  The same holds for whole lines made and then unmade in
reverse order."

* `field_roundtrip` — every getter of the packed move word returns what its setter stored when the value fits its
  field (masks/shifts of the CURRENT build, `Gen.BoardConsts`); in particular the 12-bit previous-half-move field
  holds every clock value `0..4095` (the pinned code truncated it at 128: finding F-undo).
* `unmake_make` — for every board and every move with `MoveOK` (no bound on either clock):
  `vis (unmake (make b m) m) = vis b`; `vis` is everything except the scratch occupancy word (`vis_eq_iff`).
* `unmake_make_line` — lines of any length.
* `hash_restored` — both Zobrist hashes are functions of `vis`, hence restored.
* `unmake_make_generated`, `unmake_make_generated_line` — the statement over "every move the generator can emit"
  on well-formed boards (`genPseudo_ok`: ALL generators are covered, nothing is partial).
-/
namespace Inkayaku.C03
open Inkayaku.Board Inkayaku.WF Inkayaku.MoveBits Inkayaku.MakeUnmake Inkayaku.GenOK

/-- what `vis` compares: placement ×12, castling rights ×4, side to move, e.p. square, both clocks -/
theorem vis_eq_iff (b c : Board) : vis b = vis c ↔
    b.white.pawns = c.white.pawns ∧ b.white.knights = c.white.knights ∧ b.white.bishops = c.white.bishops ∧
    b.white.rooks = c.white.rooks ∧ b.white.queens = c.white.queens ∧ b.white.kings = c.white.kings ∧
    b.black.pawns = c.black.pawns ∧ b.black.knights = c.black.knights ∧ b.black.bishops = c.black.bishops ∧
    b.black.rooks = c.black.rooks ∧ b.black.queens = c.black.queens ∧ b.black.kings = c.black.kings ∧
    b.white.ks = c.white.ks ∧ b.white.qs = c.white.qs ∧ b.black.ks = c.black.ks ∧ b.black.qs = c.black.qs ∧
    b.turn = c.turn ∧ b.ep = c.ep ∧ b.halfmove = c.halfmove ∧ b.fullmove = c.fullmove := by
  obtain ⟨⟨w0, w1, w2, w3, w4, w5, w6, w7, w8⟩, ⟨k0, k1, k2, k3, k4, k5, k6, k7, k8⟩, t, e, fm, hm⟩ := b
  obtain ⟨⟨w0', w1', w2', w3', w4', w5', w6', w7', w8'⟩, ⟨k0', k1', k2', k3', k4', k5', k6', k7', k8'⟩, t', e', fm', hm'⟩ := c
  simp only [vis, visSide, Board.mk.injEq, Side.mk.injEq, true_and]
  constructor
  · rintro ⟨⟨h1, h2, h3, h4, h5, h6, h7, h8⟩, ⟨g1, g2, g3, g4, g5, g6, g7, g8⟩, ht, he, hf, hh⟩
    exact ⟨h1, h2, h3, h4, h5, h6, g1, g2, g3, g4, g5, g6, h8, h7, g8, g7, ht, he, hh, hf⟩
  · rintro ⟨h1, h2, h3, h4, h5, h6, g1, g2, g3, g4, g5, g6, h8, h7, g8, g7, ht, he, hh, hf⟩
    exact ⟨⟨h1, h2, h3, h4, h5, h6, h7, h8⟩, ⟨g1, g2, g3, g4, g5, g6, g7, g8⟩, ht, he, hf, hh⟩

/-! ## the packed move word -/

/-- every getter returns what its setter stored when the value fits its field -/
theorem field_roundtrip (f : MoveF) (h : FieldsFit f) : decode (encode f) = f := decode_encode h

theorem pack_injective (f g : MoveF) (hf : FieldsFit f) (hg : FieldsFit g) (h : encode f = encode g) : f = g :=
  encode_injective_on_fit hf hg h

/-! ## one move -/

/-- make then unmake restores the visible position, for every clock value -/
theorem unmake_make (b : Board) (m : Move) (h : MoveOK b m.f) : vis (unmake (make b m) m) = vis b :=
  MakeUnmake.unmake_make h

/-! ## lines -/

/-- make the moves first to last -/
def makeLine (b : Board) (ms : List Move) : Board := ms.foldl make b
/-- unmake the moves last to first -/
def unmakeLine (b : Board) (ms : List Move) : Board := ms.foldr (fun m b => unmake b m) b

theorem makeLine_eq (b : Board) (ms : List Move) : makeLine b ms = makeAll b (ms.map Move.f) := by
  induction ms generalizing b with
  | nil => rfl
  | cons m ms ih => simp only [makeLine, makeAll, List.foldl_cons, List.map_cons] at ih ⊢; exact ih _

theorem unmakeLine_eq (b : Board) (ms : List Move) : unmakeLine b ms = unmakeAll b (ms.map Move.f) := by
  induction ms with
  | nil => rfl
  | cons m ms ih => simp only [unmakeLine, unmakeAll, List.foldr_cons, List.map_cons] at ih ⊢; rw [ih]; rfl

/-- a whole line made and then unmade in reverse order restores the visible position -/
theorem unmake_make_line (b : Board) (ms : List Move) (h : LineOK b (ms.map Move.f)) :
    vis (unmakeLine (makeLine b ms) ms) = vis b := by
  rw [makeLine_eq, unmakeLine_eq]; exact unmakeAll_makeAll h

/-! ## hashes -/

theorem hash_vis (b : Board) : Zobrist.hash b = Zobrist.hash (vis b) := rfl
theorem pawnHash_vis (b : Board) : Zobrist.pawnHash b = Zobrist.pawnHash (vis b) := rfl

/-- equal visible positions have equal hashes -/
theorem hash_congr {b c : Board} (h : vis b = vis c) :
    Zobrist.hash b = Zobrist.hash c ∧ Zobrist.pawnHash b = Zobrist.pawnHash c := by
  rw [hash_vis b, hash_vis c, pawnHash_vis b, pawnHash_vis c, h]; exact ⟨rfl, rfl⟩

/-- both position hashes (recomputed from the board) are restored -/
theorem hash_restored (b : Board) (m : Move) (h : MoveOK b m.f) :
    Zobrist.hash (unmake (make b m) m) = Zobrist.hash b ∧
    Zobrist.pawnHash (unmake (make b m) m) = Zobrist.pawnHash b :=
  hash_congr (unmake_make b m h)

theorem hash_restored_line (b : Board) (ms : List Move) (h : LineOK b (ms.map Move.f)) :
    Zobrist.hash (unmakeLine (makeLine b ms) ms) = Zobrist.hash b ∧
    Zobrist.pawnHash (unmakeLine (makeLine b ms) ms) = Zobrist.pawnHash b :=
  hash_congr (unmake_make_line b ms h)

/-! ## every move the generator can emit -/

/-- on a well-formed board every generated (pseudo-legal) move is restored exactly by `unmake`,
including both hashes -/
theorem unmake_make_generated (b : Board) (hwf : wf b = true) (m : Move) (hm : m ∈ genPseudo b) :
    vis (unmake (make b m) m) = vis b ∧
    Zobrist.hash (unmake (make b m) m) = Zobrist.hash b ∧
    Zobrist.pawnHash (unmake (make b m) m) = Zobrist.pawnHash b :=
  have h := (genPseudo_ok hwf m hm).2
  ⟨unmake_make b m h, hash_restored b m h⟩

/-- the same for the capture/promotion generator of the quiescence search -/
theorem unmake_make_generated_nq (b : Board) (hwf : wf b = true) (m : Move) (hm : m ∈ genNonQuiescent b) :
    vis (unmake (make b m) m) = vis b ∧
    Zobrist.hash (unmake (make b m) m) = Zobrist.hash b ∧
    Zobrist.pawnHash (unmake (make b m) m) = Zobrist.pawnHash b :=
  have h := (genNonQuiescent_ok hwf m hm).2
  ⟨unmake_make b m h, hash_restored b m h⟩

/-- a line in which every move is generated in the (well-formed) position it is played in -/
def GenLine : Board → List Move → Prop
  | _, [] => True
  | b, m :: ms => wf b = true ∧ m ∈ genPseudo b ∧ GenLine (make b m) ms

theorem genLine_ok {b : Board} {ms : List Move} (h : GenLine b ms) : LineOK b (ms.map Move.f) := by
  induction ms generalizing b with
  | nil => trivial
  | cons m ms ih => exact ⟨(genPseudo_ok h.1 m h.2.1).2, ih h.2.2⟩

/-- lines of generated moves of any length, made and then unmade in reverse order -/
theorem unmake_make_generated_line (b : Board) (ms : List Move) (h : GenLine b ms) :
    vis (unmakeLine (makeLine b ms) ms) = vis b ∧
    Zobrist.hash (unmakeLine (makeLine b ms) ms) = Zobrist.hash b ∧
    Zobrist.pawnHash (unmakeLine (makeLine b ms) ms) = Zobrist.pawnHash b :=
  ⟨unmake_make_line b ms (genLine_ok h), hash_restored_line b ms (genLine_ok h)⟩

/-! ## non-vacuity: the hypotheses hold for concrete positions and moves (squares: a8 = 0 … h1 = 63) -/

section Examples

/-- the start position -/
def exStart : Board :=
  { white := { pawns := 0x00FF000000000000, knights := 0x4200000000000000, bishops := 0x2400000000000000,
               rooks := 0x8100000000000000, queens := 0x0800000000000000, kings := 0x1000000000000000,
               qs := true, ks := true }
    black := { pawns := 0xFF00, knights := 0x42, bishops := 0x24, rooks := 0x81, queens := 0x08, kings := 0x10,
               qs := true, ks := true }
    turn := 0, ep := 0, fullmove := 1, halfmove := 0 }

def exE2E4 : MoveF := { pieceMoved := PAWN, source := 52, target := 36, halfmoveReset := true, nextEp := 44 }
def exE7E5 : MoveF :=
  { pieceMoved := PAWN, source := 12, target := 28, halfmoveReset := true, prevEp := 44, nextEp := 20, side := 1 }

/-- `4k3/8/8/8/8/8/8/4K2R w K - 130 70`: the half-move clock does not fit 7 bits (finding F-undo) -/
def exClock130 : Board :=
  { white := { rooks := 0x8000000000000000, kings := 0x1000000000000000, ks := true }
    black := { kings := 0x10 }
    turn := 0, ep := 0, fullmove := 70, halfmove := 130 }

/-- h1h2 in `exClock130` (loses the king-side right) -/
def exH1H2 : MoveF := { pieceMoved := ROOK, source := 63, target := 55, selfLostKing := true, prevHalfmove := 130 }

/-- `r5k1/1P6/8/3pP3/8/8/8/R3K2R w KQ d6 0 40`: en passant, promotion (with and without capture) and both
castlings are available -/
def exAllKinds : Board :=
  { white := { pawns := 0x10000200, rooks := 0x8100000000000000, kings := 0x1000000000000000, qs := true, ks := true }
    black := { pawns := 0x8000000, rooks := 0x1, kings := 0x40 }
    turn := 0, ep := 19, fullmove := 40, halfmove := 0 }

-- `field_roundtrip`: a move with the largest clock value
example : FieldsFit { exH1H2 with prevHalfmove := 4095 } := by decide
example : (decode (encode { exH1H2 with prevHalfmove := 4095 })).prevHalfmove = 4095 := by decide
-- `unmake_make`: hypotheses hold (start position; clock 130), conclusion checked by evaluation too
set_option maxRecDepth 100000 in
example : MoveOK exStart exE2E4 ∧ FieldsFit exE2E4 := by decide
set_option maxRecDepth 100000 in
example : MoveOK exClock130 exH1H2 ∧ FieldsFit exH1H2 := by decide
set_option maxRecDepth 100000 in
example : (unmakeF (makeF exClock130 exH1H2) exH1H2).halfmove = 130 ∧ (makeF exClock130 exH1H2).halfmove = 131 := by
  decide
-- `unmake_make_line`
set_option maxRecDepth 100000 in
example : LineOK exStart [exE2E4, exE7E5] := by decide
-- `unmake_make_generated`: well-formed boards exist and the generator emits moves of every kind on them
set_option maxRecDepth 100000 in
example : wf exStart = true ∧ wf exClock130 = true ∧ wf exAllKinds = true := by decide +kernel
set_option maxRecDepth 100000 in
example : (genPseudo exStart).length = 20 ∧ (⟨encode exE2E4, 0⟩ : Move) ∈ genPseudo exStart := by decide +kernel
set_option maxRecDepth 100000 in
example : (⟨encode exH1H2, 0⟩ : Move) ∈ genPseudo exClock130 := by decide +kernel
set_option maxRecDepth 100000 in
example : (genPseudo exAllKinds).any (fun m => m.f.enPassant) = true ∧
    (genPseudo exAllKinds).any (fun m => m.f.castle && m.f.target == C1) = true ∧
    (genPseudo exAllKinds).any (fun m => m.f.castle && m.f.target == G1) = true ∧
    (genPseudo exAllKinds).any (fun m => m.f.promotion == QUEEN && m.f.pieceAttacked == ROOK) = true ∧
    (genPseudo exAllKinds).any (fun m => m.f.promotion == KNIGHT && m.f.pieceAttacked == NO_PIECE) = true := by
  decide +kernel
-- `unmake_make_generated_line`: a two-ply line through a position with an en-passant square
set_option maxRecDepth 100000 in
example : GenLine exStart [⟨encode exE2E4, 0⟩, ⟨encode exE7E5, 0⟩] := by
  unfold GenLine GenLine GenLine
  decide +kernel

end Examples

#print axioms vis_eq_iff
#print axioms field_roundtrip
#print axioms pack_injective
#print axioms unmake_make
#print axioms unmake_make_line
#print axioms hash_restored
#print axioms hash_restored_line
#print axioms unmake_make_generated
#print axioms unmake_make_generated_nq
#print axioms unmake_make_generated_line

end Inkayaku.C03
