import Inkayaku.Proofs.SearchFlipValue
import Inkayaku.Props.C08
import Inkayaku.Props.C08Sim
import Inkayaku.Model.FenBoard
/-!
# C11 (search half) – fixed-depth search scores and mate distances are unchanged by the colour flip

Property text (second half): *"Mirroring a position vertically while swapping the colours of all pieces, the side to move and
the castling rights … leaves every fixed-depth (d ≤ 3) search score and mate distance unchanged from the mover's point of
view."*  The static half is `Props/C11.lean`.  This file closes the TARGET `search_flip` stated there.

Objects: `Generate.flipBoard` (the flip; clocks kept), `SpecSearch.specValue d b` (the verified alpha-beta of the specification
game = plain minimax with capture resolution at the horizon, `C08.specValue_eq_mm`), `Eval.scoreFromValue` (`score_from_value`:
centipawns or mate distance), `Search.goCmd` (the faithful model of the search thread), `WF.wf` / `Search.Inv k` ("legal position"
with room for `k` more plies in the 12-bit half-move field and the `u32` full-move counter).

Proved here (helper proofs: `Proofs/SearchFlip{Spec,Rules,Abs,Wf,Moves,Value}.lean`):

* `wf_flipBoard`        – the flip of a legal position is a legal position;
* `legal_moves_flip`    – the legal moves of the flipped position are exactly the mirrored legal moves, and the successors
                          are flips of each other up to the full-move number (which `make` advances after Black's move only);
                          `captures_flip`, `noisy_flip` – the same for the capture/promotion moves of the quiescence search and
                          for the horizon test;
* `specValue_flip_nv`   – **for EVERY depth `d`** the minimax values of `b` and `flipBoard b` have the same normal form
                          (`SearchFlip.nv`: centipawn values as they are, mate values relative to the node);
* `specValue_flip_raw`  – hence: centipawn values and "mated" values are EQUAL, "mate" values differ by exactly one
                          (`2·turn − 1`: the fact noted in `C11.mate_score_flip`);
* `specScore_flip`      – **the reported score (centipawns / mate distance) is the same, for every depth**;
* `search_flip`         – the engine model: after `position <b>` resp. `position <flipBoard b>`, `go depth d` (1 ≤ d ≤ 3) reports
                          the SAME score in the info line of depth `d` (through `C08Sim.go_eq_spec`; the explicit hash
                          hypotheses `HashInj` / `HashNonzero` are needed for both positions, the Zobrist keys are not
                          flip-symmetric).

Side conditions (each a real limit of the engine, stated explicitly): the clock budget `Inv (d + 64) b` (12-bit undo field of the
half-move clock, 64 = `quiescenceFuel`), and `fullmove + d < 2^23`: above that the mate values `2^24 − fullmove` leave the
range `score_from_value` reads as mate and the statement is FALSE (a mate in one at full move `2^23` is reported as centipawns
for White and as a different number of centipawns for the flipped position).
-/
namespace Inkayaku.C11Search
open Inkayaku.Board Inkayaku.Eval Inkayaku.WF Inkayaku.Abs Inkayaku.Generate Inkayaku.SpecSearch Inkayaku.Search
  Inkayaku.SearchFlip Inkayaku.SearchSim

/-! ## the flip of a legal position -/

theorem wf_flipBoard {b : Board} (h : wf b = true) : wf (flipBoard b) = true := SearchFlip.wf_flipBoard h

/-- the abstraction (mailbox position of the rules) of the flipped board is the flip of the abstraction: square `s` ↦
`mir s` with the colour swapped, side to move and castling rights swapped, e.p. square mirrored -/
theorem abs_flipBoard {b : Board} (h : wf b = true) : SFlip (abs b) (abs (flipBoard b)) := SearchFlip.abs_flipBoard h

/-! ## legal moves and successors -/

/-- **equivariance of the legal move set and of the successor.**  For every legal move `m` of `b` the mirrored move
(`flipSM`: both squares mirrored, same promotion piece) is a legal move `m'` of `flipBoard b`, and the position after `m'` is
the flip of the position after `m` – up to the scratch words and the full-move number; and conversely. -/
theorem legal_moves_flip {b : Board} (hinv : Inv 1 b) :
    (∀ m ∈ genLegal b, ∃ m' ∈ genLegal (flipBoard b), absMove m'.f = flipSM (absMove m.f) ∧
        vis (make (flipBoard b) m') = vis { flipBoard (make b m) with fullmove := (make (flipBoard b) m').fullmove }) ∧
    (∀ m' ∈ genLegal (flipBoard b), ∃ m ∈ genLegal b, absMove m'.f = flipSM (absMove m.f) ∧
        vis (make (flipBoard b) m') = vis { flipBoard (make b m) with fullmove := (make (flipBoard b) m').fullmove }) := by
  have h : FlipRel (0 + 1) b (flipBoard b) := flipRel_root hinv
  constructor
  · intro m hm
    obtain ⟨m', hm', hr, -, he⟩ := legal_step h hm
    exact ⟨m', hm', he, flipRel_vis hr⟩
  · intro m' hm'
    obtain ⟨m, hm, hr, -, he⟩ := legal_step h.symm hm'
    refine ⟨m, hm, ?_, flipRel_vis hr.symm⟩
    obtain ⟨hs, ht, -⟩ := GenSpec.gen_bounds h.2.1.1 (List.mem_filter.mp hm').1
    have : flipSM (absMove m.f) = flipSM (flipSM (absMove m'.f)) := by rw [he]
    rw [this]
    have hs' : (absMove m'.f).src < 64 := hs
    have ht' : (absMove m'.f).tgt < 64 := ht
    show absMove m'.f = ⟨mir (mir (absMove m'.f).src), mir (mir (absMove m'.f).tgt), (absMove m'.f).promo⟩
    rw [mir_mir hs', mir_mir ht']

/-- the same for the capture/promotion moves the quiescence search plays -/
theorem captures_flip {b : Board} (hinv : Inv 1 b) :
    (∀ m ∈ legalCaptures b, ∃ m' ∈ legalCaptures (flipBoard b),
        vis (make (flipBoard b) m') = vis { flipBoard (make b m) with fullmove := (make (flipBoard b) m').fullmove }) ∧
    (∀ m' ∈ legalCaptures (flipBoard b), ∃ m ∈ legalCaptures b,
        vis (make (flipBoard b) m') = vis { flipBoard (make b m) with fullmove := (make (flipBoard b) m').fullmove }) := by
  have h : FlipRel (0 + 1) b (flipBoard b) := flipRel_root hinv
  constructor
  · intro m hm
    obtain ⟨m', hm', hr⟩ := capture_step h hm
    exact ⟨m', hm', flipRel_vis hr⟩
  · intro m' hm'
    obtain ⟨m, hm, hr⟩ := capture_step h.symm hm'
    exact ⟨m, hm, flipRel_vis hr.symm⟩

/-- the horizon test of `search_negamax`, the static value from the mover's point of view, check -/
theorem horizon_flip {b : Board} (h : wf b = true) :
    SpecSearch.noisy (flipBoard b) = SpecSearch.noisy b ∧
    evalFor (flipBoard b) (flipBoard b).turn true = evalFor b b.turn true ∧
    isCurrentInCheck (flipBoard b) = isCurrentInCheck b := by
  have hr : FlipRel 0 b (flipBoard b) := flipRel_root ((Inv_zero b).mpr h)
  exact ⟨noisy_flip hr, evalFor_flip_static hr, isCurrentInCheck_flipRel hr⟩

/-- mate and stalemate: the flipped position has a legal move iff the position has one -/
theorem terminal_flip {b : Board} (hinv : Inv 1 b) : genLegal (flipBoard b) = [] ↔ genLegal b = [] :=
  genLegal_nil_flip (k := 0) (flipRel_root hinv)

/-! ## minimax values -/

/-- **every depth**: the minimax values of a position and of its flip have the same normal form (`SearchFlip.nv`:
`v + fullmove + turn` above `2^23`, `v − fullmove` below `−2^23`, `v` in between) -/
theorem specValue_flip_nv (b : Board) (d : Nat) (hinv : Inv (d + quiescenceFuel) b) (hfm : b.fullmove + d < 8388608) :
    nv (flipBoard b) (specValue d (flipBoard b)) = nv b (specValue d b) := by
  rw [C08.specValue_eq_mm, C08.specValue_eq_mm]
  exact ((V_flip d b (flipBoard b) (flipRel_root hinv) hfm hfm).2.2).symm

/-- the raw values: equal unless the mover mates, then they differ by exactly one (the flipped root has the other colour and
`make` advances the full-move number after Black's move only) -/
theorem specValue_flip_raw (b : Board) (d : Nat) (hinv : Inv (d + quiescenceFuel) b) (hfm : b.fullmove + d < 8388608) :
    (specValue d b ≤ 8388608 → specValue d (flipBoard b) = specValue d b) ∧
    (8388608 < specValue d b → specValue d (flipBoard b) = specValue d b + 2 * (b.turn : Int) - 1) := by
  have h := specValue_flip_nv b d hinv hfm
  have ht := (Check.struct_of_wf hinv.1).2
  unfold nv nvf at h
  have e1 : ((flipBoard b).turn : Int) = 1 - (b.turn : Int) := by
    show ((1 - b.turn : Nat) : Int) = _
    omega
  have e2 : ((flipBoard b).fullmove : Int) = (b.fullmove : Int) := rfl
  rw [e1, e2] at h
  constructor <;> intro hv <;> omega

/-- **C11, search half, specification level.**  The score the search reports – centipawns, or the mate distance – is the same
for a position and for its colour flip, at EVERY depth (the property asks for `d ≤ 3`; the specification search has no
transposition table, so nothing restricts the depth). -/
theorem specScore_flip (b : Board) (d : Nat) (hinv : Inv (d + quiescenceFuel) b) (hfm : b.fullmove + d < 8388608) :
    scoreFromValue (specValue d (flipBoard b)) (flipBoard b) = scoreFromValue (specValue d b) b := by
  have ht := (Check.struct_of_wf hinv.1).2
  exact scoreFromValue_of_nv ht (by show 1 - b.turn ≤ 1; omega) (specValue_flip_nv b d hinv hfm).symm

/-- the printed form (`cp<n>` / `mate<n>`) used by the line protocol -/
theorem specScore_flip_text (b : Board) (d : Nat) (hinv : Inv (d + quiescenceFuel) b) (hfm : b.fullmove + d < 8388608) :
    specScore d (flipBoard b) = specScore d b := by
  unfold specScore renderValue
  rw [specScore_flip b d hinv hfm]

/-! ## the engine model -/

theorem material_flip (b : Board) : material (flipBoard b) = material b := by
  unfold material materialS
  simp only [flipBoard, flipSide, wfpop_flipU]
  omega

/-- **C11, search half (`search_flip`).**  After `position <b>` and after `position <flipBoard b>`, `go depth d` with
`1 ≤ d ≤ 3` reports the same score in its info line of depth `d`, namely `scoreFromValue (specValue d b) b`.
Hypotheses = those of `C08Sim.go_eq_spec` for both positions; the ones that transfer along the flip (clock budget, a legal move
exists, material) are derived, the hash hypotheses are needed for each position separately. -/
theorem search_flip (b : Board) (d : Nat) (hd1 : 1 ≤ d) (hd3 : d ≤ 3)
    (hinv : Inv (fuelFor d) b) (hlegal : genLegal b ≠ []) (hnowrap : 2 * b.fullmove + d < 65536) (hmat : material b ≤ 64)
    (hinj : HashInj b d) (hnz : HashNonzero b d) (hinj' : HashInj (flipBoard b) d) (hnz' : HashNonzero (flipBoard b) d) :
    let s := goCmd (setPosition initial b []) { depth := some d }
    let s' := goCmd (setPosition initial (flipBoard b) []) { depth := some d }
    ∃ sc, sc = scoreFromValue (specValue d b) b ∧
      (∃ pv nodes t, Out.info (some d) t nodes (some sc) (some pv) ∈ s.out) ∧
      (∃ pv nodes t, Out.info (some d) t nodes (some sc) (some pv) ∈ s'.out) := by
  have ht := (Check.struct_of_wf hinv.1).2
  have hfm1 := ((MakeWf.wf_iff b).mp hinv.1).fm1
  have hq : Inv (d + quiescenceFuel) b := Inv_mono (by unfold fuelFor quiescenceFuel; omega) hinv
  have hlegal' : genLegal (flipBoard b) ≠ [] := fun e =>
    hlegal ((terminal_flip (Inv_mono (by unfold fuelFor; omega) hinv)).mp e)
  have hp : ply2 b + d < 65536 := by unfold ply2; omega
  have hp' : ply2 (flipBoard b) + d < 65536 := by
    unfold ply2
    show 2 * (b.fullmove - 1) + (1 - b.turn) + d < 65536
    omega
  obtain ⟨pv, nodes, t, h1, -⟩ := C08Sim.go_eq_spec b d hd1 hd3 hinv hlegal hp hinj hnz hmat
  obtain ⟨pv', nodes', t', h1', -⟩ := C08Sim.go_eq_spec (flipBoard b) d hd1 hd3 (inv_flipBoard hinv) hlegal' hp' hinj' hnz'
    (by rw [material_flip]; exact hmat)
  rw [specScore_flip b d hq (by omega)] at h1'
  exact ⟨_, rfl, ⟨pv, nodes, t, h1⟩, ⟨pv', nodes', t', h1'⟩⟩

#print axioms wf_flipBoard
#print axioms abs_flipBoard
#print axioms legal_moves_flip
#print axioms captures_flip
#print axioms horizon_flip
#print axioms terminal_flip
#print axioms specValue_flip_nv
#print axioms specValue_flip_raw
#print axioms specScore_flip
#print axioms specScore_flip_text
#print axioms search_flip

/-! ## non-vacuity

`kr` = `k7/8/1K6/8/8/8/8/7R w - - 0 1` (`C08.Example.kr`, mate in one by `h1h8`); its flip is
`7r/8/8/8/8/1k6/8/K7 b - - 0 1`.  Hypotheses are evaluated in the kernel; the searches themselves (strings, `Std.HashMap`) by the
compiler (`#guard`). -/

namespace Example
open Inkayaku.C08.Example Inkayaku.C08Sim.Example

theorem kr_inv : Inv (fuelFor 3) kr := ⟨by decide +kernel, by decide, by decide⟩

example : wf kr = true ∧ wf (flipBoard kr) = true := ⟨kr_inv.1, wf_flipBoard kr_inv.1⟩
example : FenBoard.printFen (flipBoard kr) = some "7r/8/8/8/8/1k6/8/K7 b - - 0 1" := by decide +kernel

/-- the hypotheses of `specScore_flip` hold for `kr` at depths 1, 2, 3 … -/
example : ∀ d, d ≤ 3 → Inv (d + quiescenceFuel) kr ∧ kr.fullmove + d < 8388608 :=
  fun d hd => ⟨Inv_mono (by unfold fuelFor quiescenceFuel; omega) kr_inv, by show 1 + d < 8388608; omega⟩

/-- … and the theorem at work: the flipped position (Black to move, mates in one) has the RAW value `2^24 − 2`, one less
than `kr`'s `2^24 − 1` (`C08.Example.kr_value`), and the same reported score `mate 1` -/
example : specValue 1 (flipBoard kr) = 16777214 ∧ scoreFromValue (specValue 1 (flipBoard kr)) (flipBoard kr) = Score.mate 1 := by
  have hi : Inv (1 + quiescenceFuel) kr := Inv_mono (by unfold fuelFor quiescenceFuel; omega) kr_inv
  have hraw := (specValue_flip_raw kr 1 hi (by decide)).2
  have hsc := specScore_flip kr 1 hi (by decide)
  rw [kr_value] at hraw hsc
  refine ⟨by rw [hraw (by decide)]; decide, ?_⟩
  rw [hsc]; decide +kernel

/-- `legal_moves_flip` applies; `kr` has 20 legal moves and so has its flip -/
example : (genLegal kr).length = 20 ∧ (genLegal (flipBoard kr)).length = 20 := by decide +kernel
example := legal_moves_flip (b := kr) (Inv_mono (by unfold fuelFor; omega) kr_inv)

/-- all hypotheses of `search_flip` for `kr`, depth 1, checked in the kernel (`hypB` = the executable conjunction of
`HashInj`, `HashNonzero`, `QBound` and the clock guards, `hyp_of_check` its soundness) -/
theorem krf_hyp1 : Hyp (flipBoard kr) 1 := hyp_of_check (by decide +kernel)

example :
    let s := goCmd (setPosition initial kr []) { depth := some 1 }
    let s' := goCmd (setPosition initial (flipBoard kr) []) { depth := some 1 }
    ∃ sc, sc = scoreFromValue (specValue 1 kr) kr ∧
      (∃ pv nodes t, Out.info (some 1) t nodes (some sc) (some pv) ∈ s.out) ∧
      (∃ pv nodes t, Out.info (some 1) t nodes (some sc) (some pv) ∈ s'.out) :=
  search_flip kr 1 (by decide) (by decide) (Inv_mono (by unfold fuelFor; omega) kr_inv) (by decide +kernel) (by decide)
    (by decide +kernel) kr_hyp1.inj kr_hyp1.nz krf_hyp1.inj krf_hyp1.nz

/-- both sessions report the same score, and all decidable hypotheses of `search_flip` hold -/
def twin (b : Board) (d : Nat) : Bool :=
  hypotheses b d && hypotheses (flipBoard b) d &&
    (lastInfo (goCmd (setPosition initial b []) { depth := some d }).out ==
      some (d, scoreFromValue (specValue d b) b)) &&
    (lastInfo (goCmd (setPosition initial (flipBoard b) []) { depth := some d }).out ==
      some (d, scoreFromValue (specValue d b) b))

#guard twin kr 1 && twin kr 2 && twin kr 3
-- mate in two (raw values 2^24 − 2 and 2^24 − 3), both reported as `mate 2`
#guard specScore 3 (boardOf "k7/8/2K5/8/8/8/8/7R w - - 0 1") == "mate2" &&
  specScore 3 (flipBoard (boardOf "k7/8/2K5/8/8/8/8/7R w - - 0 1")) == "mate2" &&
  specValue 3 (boardOf "k7/8/2K5/8/8/8/8/7R w - - 0 1") == 16777214 &&
  specValue 3 (flipBoard (boardOf "k7/8/2K5/8/8/8/8/7R w - - 0 1")) == 16777213
#guard twin (boardOf "k7/8/2K5/8/8/8/8/7R w - - 0 1") 2
-- captures, promotion, en passant, castling rights in the tree; Black to move with a large half-move clock; a middlegame
#guard twin (boardOf "r3k3/1P6/8/3pP3/8/8/8/4K2R w Kq d6 0 2") 2
#guard specScore 3 (flipBoard (boardOf "7K/8/5k2/8/8/8/8/r7 b - - 60 40")) == specScore 3 (boardOf "7K/8/5k2/8/8/8/8/r7 b - - 60 40")
#guard specScore 2 (flipBoard (boardOf "r3k2r/p1ppqpb1/bn2pnp1/3PN3/1p2P3/2N2Q1p/PPPBBPPP/R3K2R w KQkq - 0 1")) ==
  specScore 2 (boardOf "r3k2r/p1ppqpb1/bn2pnp1/3PN3/1p2P3/2N2Q1p/PPPBBPPP/R3K2R w KQkq - 0 1")
-- the bound `fullmove + d < 2^23` is sharp: at full move 2^23 the mate in one of `kr` is printed as centipawns, and as a
-- different number for the flipped position (the theorem's conclusion fails, only its clock hypothesis is violated)
#guard wf { kr with fullmove := 8388608 } &&
  specScore 1 { kr with fullmove := 8388608 } == "cp8388608" &&
  specScore 1 (flipBoard { kr with fullmove := 8388608 }) == "cp8388607" &&
  specScore 1 { kr with fullmove := 8388606 } == "mate1" && specScore 1 (flipBoard { kr with fullmove := 8388606 }) == "mate1"

end Example

end Inkayaku.C11Search
