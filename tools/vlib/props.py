"""Per-property definitions: theorem modules, required theorems, case generators, oracles."""
import os, re

from . import core, chessref as ref
from .core import hex_token
from .main import Case

BOARD_ANCHORS = ['board/src/board.rs', 'board/src/board/constants.rs', 'board/src/board/precalculated/magic.rs',
                 'board/src/board/precalculated/nonmagic.rs', 'board/src/board/zobrist.rs']

# ------------------------------------------------------------------------------------------------------ helpers


def positions(ctx, n):
    key = ('positions', n)
    if key not in ctx.cache:
        lines = core.model_gen(['positions', ctx.seed, n])
        ctx.cache[key] = [l.split(' ')[1] for l in lines if l.startswith('pos ')]
        ctx.stats['position_features_%d' % n] = feature_histogram(ctx.cache[key])
    return ctx.cache[key]


def feature_histogram(pos):
    """input distribution of the generated positions (computed by the model): how often each feature occurs"""
    sample = pos[:1500]
    ans = core.run_model(['features %s' % p for p in sample])
    h = {'positions': len(pos), 'distinct': len(set(pos)), 'sampled': len(sample), 'in_check': 0, 'no_legal_move': 0, 'promotion_available': 0,
         'castling_available': 0, 'en_passant_capture_available': 0, 'ep_square_set': 0, 'some_castling_right': 0, 'black_to_move': 0,
         'has_illegal_pseudo_move': 0, 'halfmove_ge_100': 0, 'pieces_le_6': 0, 'pieces_7_16': 0, 'pieces_ge_17': 0}
    for a in ans:
        f = dict(kv.split('=') for kv in a.split(' ') if '=' in kv)
        if not f:
            continue
        h['in_check'] += f['incheck'] == '1'
        h['no_legal_move'] += f['legal'] == '0'
        h['promotion_available'] += f['promo'] == '1'
        h['castling_available'] += f['castle'] == '1'
        h['en_passant_capture_available'] += f['epcap'] == '1'
        h['ep_square_set'] += f['epset'] == '1'
        h['some_castling_right'] += f['rights'] != '0'
        h['black_to_move'] += f['turn'] == '1'
        h['has_illegal_pseudo_move'] += f['pinned_or_illegal'] != '0'
        h['halfmove_ge_100'] += int(f['hm']) >= 100
        n = int(f['pieces'])
        h['pieces_le_6' if n <= 6 else ('pieces_7_16' if n <= 16 else 'pieces_ge_17')] += 1
    return {k: int(v) for k, v in h.items()}


def games(ctx, n, maxlen):
    key = ('games', n, maxlen)
    if key not in ctx.cache:
        lines = core.model_gen(['games', ctx.seed, n, maxlen])
        ctx.cache[key] = [l.split(' ')[1:] for l in lines if l.startswith('game ')]
    return ctx.cache[key]


def corpus(name):
    p = os.path.join(core.VERIF, 'corpus', name)
    if not os.path.exists(p):
        return []
    return [l.rstrip('\n') for l in open(p, encoding='utf-8') if l.strip() and not l.startswith('#')]


def ftok(fen):
    return fen.replace(' ', '_')


def wf_corpus(name):
    """corpus FENs that satisfy the model's decidable well-formedness predicate (theorems apply to those only)"""
    fens = [ftok(f) for f in corpus(name)]
    if not fens:
        return []
    ans = core.run_model(['wf %s' % f for f in fens])
    bad = [f for f, a in zip(fens, ans) if a != '1']
    if bad:
        core.log('corpus %s: %d entries are not well-formed positions and are skipped: %s' % (name, len(bad), bad[:3]))
    return [f for f, a in zip(fens, ans) if a == '1']


def all_cases(ctx, pos, op, stream, spec=True, oracle=None):
    return [Case('%s %s' % (op, p), stream, spec=('spec:%s %s' % (op, p)) if spec else None, oracle=oracle) for p in pos]


# ------------------------------------------------------------------------------------------------------ C04

def gen_masks(kind):
    res = {}
    gen = os.path.join(core.LEAN, 'Inkayaku', 'Gen')
    for fn in os.listdir(gen):
        if fn.startswith(kind.capitalize()) and fn.endswith('.lean'):
            txt = open(os.path.join(gen, fn)).read()
            for m in re.finditer(r'def %sCfg(\d+) : MagicCfg :=\s*\{ mask := (0x[0-9a-f]+),' % kind, txt):
                res[int(m.group(1))] = int(m.group(2), 16)
    return res


def c04_oracle(kind, sq, occ):
    dirs = ref.ROOK if kind == 'r' else ref.BISHOP
    want = ref.slide(dirs, sq, occ)

    def f(a):
        parts = a.split(' ')
        if len(parts) != 3:
            return 'malformed answer'
        att, idx, ln = int(parts[0], 16), int(parts[1]), int(parts[2])
        if idx >= ln:
            return 'table index %d outside the table of length %d (unchecked access)' % (idx, ln)
        if att != want:
            return 'attack set %x differs from the ray walk %x' % (att, want)
        return None
    return f


def c04_cases(ctx):
    cases = []
    for kind, dirs in (('r', ref.ROOK), ('b', ref.BISHOP)):
        for sq in range(64):
            # the relevant-blocker mask by geometry (not the code's mask): complete enumeration of its subsets
            for sub in ref.subsets(ref.relevant_mask(dirs, sq)):
                cases.append(Case('magic %s %d %x' % (kind, sq, sub), 'relevant-subsets', oracle=c04_oracle(kind, sq, sub)))
    n = ctx.scale(40000, 2000000)
    for _ in range(n):
        kind = 'r' if ctx.rng.chance(1, 2) else 'b'
        sq = ctx.rng.below(64)
        occ = ctx.rng.next()
        if ctx.rng.chance(1, 3):
            occ &= ctx.rng.next()
        if ctx.rng.chance(1, 6):
            occ |= ctx.rng.next()
        cases.append(Case('magic %s %d %x' % (kind, sq, occ), 'random-occupancy', oracle=c04_oracle(kind, sq, occ)))
    for name, ds in (('k', ref.KING), ('n', ref.KNIGHT), ('wp', ref.WPAWN), ('bp', ref.BPAWN)):
        for sq in range(64):
            cases.append(Case('leaper %s %d' % (name, sq), 'leaper-tables', model=None, expect='%x' % ref.steps(ds, sq)))
    ctx.notes.append('relevant-subsets stream enumerates ALL 107,648 sub-occupancies of the geometric relevant masks (exhaustive)')
    return cases


def c04_witness(ctx):
    """a C04 lemma failed on the regenerated tables: sweep the implementation exhaustively for a witness"""
    cases = [c for c in c04_cases(ctx) if c.stream != 'random-occupancy']
    impl = core.run_impl([c.req for c in cases])
    for c, a in zip(cases, impl):
        why = (c.oracle(a) if c.oracle else (None if a == c.expect else 'leaper table entry differs from the step pattern'))
        if a in ('PANIC', 'CRASH', 'HANG'):
            why = 'panic'
        if why:
            return {'input': c.req, 'impl_output': a, 'why': why, 'stream': c.stream}
    return None


# ------------------------------------------------------------------------------------------------------ C18

def c18_cases(ctx):
    cases = []
    n = ctx.scale(4000, 60000)
    for i in range(n):
        cap = ctx.rng.pick([0, 1, 1, 2, 2, 3, 3, 4, 5, 6, 8])
        nkeys = 2 + ctx.rng.below(10)
        length = ctx.rng.below(60) if ctx.rng.chance(3, 4) else ctx.rng.below(220)
        ops, toks = [], []
        for _ in range(length):
            r = ctx.rng.below(20)
            if r < 10:
                k, v = ctx.rng.below(nkeys) * 0x9E3779B97F4A7C15 % 2 ** 64 if ctx.rng.chance(1, 5) else ctx.rng.below(nkeys), ctx.rng.below(1000)
                ops.append(('p', k, v)); toks.append('p:%d:%d' % (k, v))
            elif r < 17:
                k = ctx.rng.below(nkeys)
                ops.append(('g', k)); toks.append('g:%d' % k)
            elif r < 18:
                ops.append(('c',)); toks.append('c')
            else:
                ops.append(('l',)); toks.append('l')
        cases.append(Case('table %d %s' % (cap, ' '.join(toks)), 'random-ops', expect=ref.fifo_ref(cap, ops)))
    if not ctx.quick:
        # exhaustive: all sequences of length <= 6 over {put k (k<3), get k, clear} with capacity 1..2
        alphabet = [('p', k, 0) for k in range(3)] + [('g', k) for k in range(3)] + [('c',)]
        def rec(prefix, depth):
            if depth == 0:
                return
            for a in alphabet:
                seq = prefix + [a]
                yield seq
                yield from rec(seq, depth - 1)
        for cap in (1, 2):
            for idx, seq in enumerate(rec([], 5)):
                ops = [(o[0], o[1], idx2) if o[0] == 'p' else o for idx2, o in enumerate(seq)] + [('g', 0), ('g', 1), ('g', 2), ('l',)]
                toks = ['p:%d:%d' % (o[1], o[2]) if o[0] == 'p' else ('g:%d' % o[1] if o[0] == 'g' else o[0]) for o in ops]
                cases.append(Case('table %d %s' % (cap, ' '.join(toks)), 'exhaustive-len5', expect=ref.fifo_ref(cap, ops)))
    return cases


# ------------------------------------------------------------------------------------------------------ C10 (history part)

def c10_history_cases(ctx):
    cases = []
    n = ctx.scale(20000, 300000)
    for _ in range(n):
        syms = 2 + ctx.rng.below(3)
        ln = 1 + ctx.rng.below(40)
        h = [1 + ctx.rng.below(syms) for _ in range(ln)]
        if ctx.rng.chance(1, 3) and ln >= 9:
            # plant a clean repetition cycle
            for i in range(ln):
                h[i] = 1 + (i % 4)
        start = ln - 1 if ctx.rng.chance(2, 3) else ctx.rng.below(ln)
        hm = ctx.rng.pick([0, 1, 2, 3, 4, 5, 6, 7, 8, 10, 12, 20, 50, 99, 100, 150]) if ctx.rng.chance(1, 2) else ctx.rng.below(ln + 3)
        cases.append(Case('reps %d %d %s' % (start, hm, ' '.join(map(str, h))), 'random-history', expect=str(ref.reps_ref(start, hm, h))))
    return cases


# ------------------------------------------------------------------------------------------------------ chess: C01 C02 C05

def ep_special(ctx, n):
    """corpus/ep_special.txt: positions whose pseudo-legal e.p. capture is illegal because it clears two pawns off one line
    (validated by the rules Spec when built, tools/build_ep_corpus.py); stalemates first — they decide fast paths of legality tests"""
    ents = [l.split(' ') for l in corpus('ep_special.txt')]
    st = [e[0] for e in ents if e[1] == 'stalemate']
    other = [e[0] for e in ents if e[1] != 'stalemate']
    return ctx.rng.sample(st, min(len(st), n)) + ctx.rng.sample(other, min(len(other), n // 2))


def big_fullmove(ctx, pos, n):
    """full-move numbers up to the u32 limit of the well-formedness predicate (2^31 - 1): 16-bit and 15-bit boundaries included"""
    out = []
    for p in pos[:n]:
        f = p.split('_')
        f[5] = str(ctx.rng.pick([32766, 32767, 32768, 32769, 40000, 65535, 65536, 65537, 1000000, 2 ** 31 - 300]))
        f[4] = str(min(int(f[4]), 3000))
        out.append('_'.join(f))
    return out


def c01_cases(ctx):
    pos = positions(ctx, ctx.scale(2500, 40000))
    eps = ep_special(ctx, ctx.scale(120, 800))
    cases = all_cases(ctx, pos, 'legal', 'legal-moves') + all_cases(ctx, eps, 'legal', 'illegal-en-passant-corpus')
    cases += [Case('pseudo %s' % p, 'illegal-en-passant-corpus', spec='spec:legal %s' % p) for p in eps]
    # the search/perft path: pseudo-legal + make/is_valid/unmake must give the same legal set
    cases += [Case('pseudo %s' % p, 'pseudo+filter', spec='spec:legal %s' % p) for p in pos]
    cases += all_cases(ctx, pos, 'nq', 'capture-promotion-generator')
    for p in pos[:ctx.scale(120, 1500)]:
        cases.append(Case('perft %s 2' % p, 'perft-2', spec='spec:perft %s 2' % p))
    for p in pos[:ctx.scale(25, 300)]:
        cases.append(Case('perft %s 3' % p, 'perft-3', spec='spec:perft %s 3' % p))
    for f in wf_corpus('perft_roots.txt'):
        d = ctx.scale(3, 4)
        cases.append(Case('perft %s %d' % (f, d), 'perft-roots', spec=('spec:perft %s %d' % (f, d)) if d <= 3 else None))
    # positions reached by the board's OWN make along played lines (state carried by make feeds the generator)
    for g in games(ctx, ctx.scale(400, 6000), 80):
        cases.append(Case('legalafter %s' % ' '.join(g), 'legal-moves-after-played-line', spec='spec:legalafter %s' % ' '.join(g)))
    return cases


def c02_cases(ctx):
    pos = positions(ctx, ctx.scale(2500, 40000))
    return all_cases(ctx, pos, 'succ', 'successor') + all_cases(ctx, big_fullmove(ctx, pos, ctx.scale(150, 2000)), 'succ', 'successor-big-move-number')



def geometry_positions(ctx):
    """every (attacker kind, attacker square, king square) on an otherwise empty board, plus variants with one blocker:
    checks by every piece kind from every direction and distance, for both colours (C05 quantifier)"""
    out = []
    sqname = lambda s: 'abcdefgh'[s % 8] + str(8 - s // 8)

    def fen(pieces, side):
        rows = []
        for r in range(8):
            row, empty = '', 0
            for f in range(8):
                c = pieces.get(r * 8 + f)
                if c is None:
                    empty += 1
                else:
                    if empty:
                        row += str(empty)
                    empty = 0
                    row += c
            if empty:
                row += str(empty)
            rows.append(row)
        return '/'.join(rows) + '_%s_-_-_0_1' % side
    for ks in range(64):
        for at in range(64):
            if at == ks:
                continue
            for kind in 'qrbnp':
                if kind == 'p' and at // 8 in (0, 7):
                    continue
                for white_attacked in (True, False):
                    # the attacked king, the attacker of the other colour, the other king far away from everything
                    k_att = 'K' if white_attacked else 'k'
                    k_oth = 'k' if white_attacked else 'K'
                    a = kind if white_attacked else kind.upper()
                    other = next(s for s in (63, 0, 7, 56, 36, 27, 18, 45) if s not in (ks, at) and max(abs(s % 8 - ks % 8), abs(s // 8 - ks // 8)) > 1)
                    pieces = {ks: k_att, at: a, other: k_oth}
                    out.append(fen(pieces, 'w' if white_attacked else 'b'))
                    # one blocker strictly between attacker and king (sliders on a common line)
                    df, dr = ks % 8 - at % 8, ks // 8 - at // 8
                    if kind in 'qrb' and (df == 0 or dr == 0 or abs(df) == abs(dr)) and max(abs(df), abs(dr)) > 1 and ctx.rng.chance(1, 3):
                        n = max(abs(df), abs(dr))
                        j = 1 + ctx.rng.below(n - 1)
                        bsq = (at % 8 + (df // n) * j) + 8 * (at // 8 + (dr // n) * j)
                        if bsq not in pieces:
                            p2 = dict(pieces)
                            p2[bsq] = ctx.rng.pick(['N', 'n', 'B', 'b'])
                            out.append(fen(p2, 'w' if white_attacked else 'b'))
    return out


def terminal_variants(ctx, pos):
    """checkmate / stalemate positions with every kind of clock: the evaluator must score mate as mate whatever the clocks"""
    ans = core.run_model(['spec:terminal %s' % p for p in pos])
    out = []
    for p, a in zip(pos, ans):
        if a in ('mate', 'stalemate'):
            f = p.split('_')
            for hm in (0, 50, 99, 100, 101, 150, 4000):
                for fm in (1, 2, 80, 2400):
                    g = list(f)
                    g[4], g[5] = str(hm), str(fm)
                    out.append(('_'.join(g), a))
    return out


def eval_terminal_oracle(kind, fen_tok):
    side = fen_tok.split('_')[1]
    fm = int(fen_tok.split('_')[5])

    def f(a):
        try:
            v = int(a)
        except ValueError:
            return 'malformed evaluation'
        if kind == 'stalemate' and v != 0:
            return 'stalemate evaluated %d instead of the draw score' % v
        if kind == 'mate':
            want = -(2 ** 24 - fm) if side == 'w' else (2 ** 24 - fm)
            if v != want:
                return 'checkmated side to move evaluated %d (white-centric) instead of the mate score %d' % (v, want)
        return None
    return f

def c05_cases(ctx):
    pos = positions(ctx, ctx.scale(2500, 40000))
    cases = all_cases(ctx, pos, 'incheck', 'in-check') + all_cases(ctx, pos, 'terminal', 'mate-stalemate')
    # the evaluator's and the SAN writer's path to "no legal move": is_any_move_legal on the pseudo-legal buffer
    cases += all_cases(ctx, pos, 'anylegal', 'any-move-legal')
    eps = ep_special(ctx, ctx.scale(150, 800))
    cases += all_cases(ctx, eps, 'anylegal', 'illegal-en-passant-corpus') + all_cases(ctx, eps, 'terminal', 'illegal-en-passant-corpus')
    # SAN suffixes decide mate vs stalemate too ('#' only for checkmate): few-piece positions, where stalemating moves abound
    few = [p for p in pos if sum(1 for ch in p.split('_')[0] if ch.isalpha()) <= 5][:ctx.scale(400, 5000)] + wf_corpus('stalemating_fens.txt')
    cases += [Case('san %s' % p, 'san-suffix-mate-vs-stalemate', spec='spec:san %s' % p) for p in few]
    geo = geometry_positions(ctx)
    ok = core.run_model(['wf %s' % p for p in geo])
    geo = [p for p, a in zip(geo, ok) if a == '1']
    ctx.notes.append('attack-geometry stream: %d well-formed two/three-piece positions (every kind x attacker square x king square x colour)' % len(geo))
    cases += all_cases(ctx, geo, 'incheck', 'attack-geometry-exhaustive') + all_cases(ctx, geo, 'terminal', 'attack-geometry-terminal')
    # the evaluator's mate / stalemate decision (anchor: heuristic.rs) on terminal positions with all kinds of clocks
    for p, kind in terminal_variants(ctx, pos + wf_corpus('terminal_fens.txt')):
        cases.append(Case('eval %s' % p, 'evaluator-terminal-decision', oracle=eval_terminal_oracle(kind, p)))
        cases.append(Case('terminal %s' % p, 'terminal-with-clocks', spec='spec:terminal %s' % p))
    return cases


# ------------------------------------------------------------------------------------------------------ C03

def same_oracle(a):
    return None if a.startswith('same') else 'make followed by unmake did not restore the position'


def c03_cases(ctx):
    pos = positions(ctx, ctx.scale(2500, 40000))
    cases = [Case('mkunmk %s' % p, 'make-unmake-all-pseudo-legal', oracle=same_oracle) for p in pos]
    cases += [Case('mkunmk %s' % p, 'make-unmake-big-move-number', oracle=same_oracle) for p in big_fullmove(ctx, pos, ctx.scale(150, 2000))]
    for g in games(ctx, ctx.scale(300, 5000), 120):
        if len(g) > 1:
            cases.append(Case('line %s' % ' '.join(g), 'line-make-all-unmake-all', oracle=same_oracle))
    for f in wf_corpus('clock_fens.txt'):
        cases.append(Case('mkunmk %s' % f, 'corpus', oracle=same_oracle))
    return cases


# ------------------------------------------------------------------------------------------------------ C06

def xor_oracle(a):
    return 'incremental hash differs from the hash recomputed from scratch' if ':BAD' in a else None


def position_key(fen_tok):
    """(placement, side, rights, e.p. FILE) — what the hash may depend on"""
    f = fen_tok.split('_')
    return (f[0], f[1], f[2], f[3][0] if f[3] != '-' else '-')


def c06_cases(ctx):
    pos = positions(ctx, ctx.scale(2500, 40000))
    cases = [Case('xor %s' % p, 'incremental-vs-recomputed', oracle=xor_oracle) for p in pos]
    cases += [Case('hash %s' % p, 'hash', spec=None) for p in pos]
    # clock-only variants and single-component edits
    for p in pos[:ctx.scale(600, 8000)]:
        f = p.split('_')
        v = list(f); v[4] = str((int(f[4]) + 1 + ctx.rng.below(90)) % 4096); v[5] = str(1 + ctx.rng.below(2000))
        cases.append(Case('hash %s' % '_'.join(v), 'variant:clocks'))
        v = list(f); v[1] = 'b' if f[1] == 'w' else 'w'; v[3] = '-'
        cases.append(Case('hash %s' % '_'.join(v), 'variant:side'))
        if f[2] != '-':
            drop = ctx.rng.pick(list(f[2]))
            v = list(f); v[2] = f[2].replace(drop, '') or '-'
            cases.append(Case('hash %s' % '_'.join(v), 'variant:right'))
        if f[3] != '-':
            v = list(f); v[3] = '-'
            cases.append(Case('hash %s' % '_'.join(v), 'variant:ep'))
            # same position with the e.p. target on another file (only the e.p. component differs)
            v = list(f); v[3] = ctx.rng.pick([c for c in 'abcdefgh' if c != f[3][0]]) + f[3][1]
            cases.append(Case('hash %s' % '_'.join(v), 'variant:epfile'))
        elif ctx.rng.chance(1, 6):
            # an e.p. target added on two different files
            r = '6' if f[1] == 'w' else '3'
            a, b = ctx.rng.pick('abcd'), ctx.rng.pick('efgh')
            for fl in (a, b):
                v = list(f); v[3] = fl + r
                cases.append(Case('hash %s' % '_'.join(v), 'variant:epfile'))
    return cases


def c06_post(ctx, cases, impl):
    """hash is a function of the position key, and (on the explored pool) distinct keys hash differently"""
    vs = []
    by_key, by_hash = {}, {}
    for c, a in zip(cases, impl):
        if not c.req.startswith('hash ') or ' ' not in a:
            continue
        p = c.req.split(' ')[1]
        k = position_key(p)
        for kk, hh in ((k, a.split(' ')[0]),):
            if kk in by_key and by_key[kk][0] != hh:
                vs.append({'kind': 'property', 'stream': 'same-position-different-hash', 'input': c.req, 'impl_output': a,
                           'why': 'same placement/side/rights/e.p. file as %s but a different hash' % by_key[kk][1]})
            by_key.setdefault(kk, (hh, p))
            if hh in by_hash and by_hash[hh][0] != kk:
                vs.append({'kind': 'property', 'stream': 'different-position-same-hash', 'input': c.req, 'impl_output': a,
                           'why': 'position differs from %s in placement/side/rights/e.p. file but hashes identically' % by_hash[hh][1]})
            by_hash.setdefault(hh, (kk, p))
    ctx.notes.append('hash pool: %d distinct position keys, %d distinct hashes' % (len(by_key), len(by_hash)))
    return vs


# ------------------------------------------------------------------------------------------------------ C12

def fen_expect(s):
    r = ref.fen_ref(s)
    if r is None:
        return 'err'
    pieces, side, rights, epi, hm, fm = r
    return 'ok %s %s %s %d %d %d %s' % (pieces, side, rights, epi, hm, fm, hex_token(ref.fen_canonical(r)))


def mutate_fen(rng, fen):
    kind = rng.below(16)
    f = fen.split(' ')
    if len(f) < 4:
        kind = rng.pick([1, 2, 3, 4, 12, 13])
    if kind == 0:
        return ' '.join(f[:rng.below(6)])
    if kind == 1:
        return fen + ' ' + rng.pick(['0', 'x', '1 2', ''])
    if kind == 2:
        i = rng.below(len(fen))
        return fen[:i] + rng.pick(list('xX9/0- kKqQpP!?٣ \t')) + fen[i + 1:]
    if kind == 3:
        i = rng.below(len(fen))
        return fen[:i] + fen[i + 1:]
    if kind == 4:
        i = rng.below(len(fen) + 1)
        return fen[:i] + rng.pick(list('pP1 8/kq-wb')) + fen[i:]
    if kind == 5:
        if rng.chance(1, 2):
            f[0] = f[0].replace('8', rng.pick(['44', '17', '71', '9', '7', '35']), 1)
            return ' '.join(f)
        # split one digit d >= 2 into two adjacent digits with the same sum (rank still sums to eight): must be rejected
        # wherever in the rank it stands
        idx = [i for i, c in enumerate(f[0]) if c in '2345678']
        if idx:
            i = rng.pick(idx)
            d = int(f[0][i])
            a = 1 + rng.below(d - 1)
            f[0] = f[0][:i] + str(a) + str(d - a) + f[0][i + 1:]
        return ' '.join(f)
    if kind == 6:
        f[1] = rng.pick(['W', 'B', 'x', '', 'wb', '-'])
        return ' '.join(f)
    if kind == 7:
        f[2] = rng.pick(['QK', 'kK', 'KQkqq', 'KK', 'x', '', 'qk', 'Kq-', 'kq', 'Qq', 'Kk'])
        return ' '.join(f)
    if kind == 8:
        f[3] = rng.pick(['e9', 'i3', 'e', 'e33', '--', 'E3', '3e', 'a0', 'h8', 'a1'])
        return ' '.join(f)
    if kind == 9 and len(f) == 6:
        f[4] = rng.pick(['-1', '4294967295', '4294967296', '99999999999999999999', '١٢', '+5', '1e3', '0x10', '', '007', '１２'])
        return ' '.join(f)
    if kind == 10 and len(f) == 6:
        f[5] = rng.pick(['0', '-1', '4294967295', '4294967296', '18446744073709551616', '٩', '1.0', ' ', '0001'])
        return ' '.join(f)
    if kind == 11:
        return fen.replace(' ', '  ', 1)
    if kind == 12:
        return fen + rng.pick(['\n', ' ', '\r\n', '\t'])
    if kind == 13:
        return rng.pick([' ', '\n', '﻿']) + fen
    if kind == 14:
        return fen.replace('/', rng.pick(['\\', '//', '|', '']), 1)
    return ' '.join(f[:4])


def c12_cases(ctx):
    cases = []
    pos = positions(ctx, ctx.scale(3000, 60000))
    for p in pos:
        fen = p.replace('_', ' ')
        cases.append(Case('fen ' + hex_token(fen), 'canonical-fen', expect=fen_expect(fen)))
        if ctx.rng.chance(1, 4):
            f4 = ' '.join(fen.split(' ')[:4])
            cases.append(Case('fen ' + hex_token(f4), 'four-field-fen', expect=fen_expect(f4)))
        if ctx.rng.chance(1, 3):
            # clocks of any magnitude
            f = fen.split(' ')
            f[4] = str(ctx.rng.pick([0, 99, 100, 127, 128, 4095, 4096, 65535, 2 ** 31, 2 ** 32 - 1]))
            f[5] = str(ctx.rng.pick([1, 2, 2500, 2501, 32767, 65536, 2 ** 31 - 1, 2 ** 32 - 1]))
            s = ' '.join(f)
            cases.append(Case('fen ' + hex_token(s), 'big-clocks', expect=fen_expect(s)))
    nm = ctx.scale(12000, 400000)
    for _ in range(nm):
        fen = ctx.rng.pick(pos).replace('_', ' ')
        s = mutate_fen(ctx.rng, fen)
        if ctx.rng.chance(1, 5):
            s = mutate_fen(ctx.rng, s)
        cases.append(Case('fen ' + hex_token(s), 'single-fault-mutation', expect=fen_expect(s)))
    for _ in range(ctx.scale(3000, 60000)):
        ln = ctx.rng.below(80)
        alphabet = 'pnbrqkPNBRQK12345678/ wb-KQkqabcdefgh09 ' if ctx.rng.chance(2, 3) else ''.join(chr(32 + i) for i in range(95)) + '٠३é中\t\n'
        s = ''.join(ctx.rng.pick(alphabet) for _ in range(ln))
        cases.append(Case('fen ' + hex_token(s), 'random-string', expect=fen_expect(s)))
    for s in corpus('fen_strings.txt'):
        s = s.encode('utf-8').decode('unicode_escape').encode('latin-1', 'ignore').decode('utf-8', 'ignore') if '\\' in s else s
        cases.append(Case('fen ' + hex_token(s), 'corpus', expect=fen_expect(s)))
    return cases


# ------------------------------------------------------------------------------------------------------ C13

def unchanged_oracle(a):
    if a.startswith('err') and a.endswith('changed'):
        return 'a rejected move changed the position'
    if a.startswith('ok') and a.endswith('changed'):
        return 'a pure query changed the position'
    return None


def random_move_string(rng, legal, pseudo):
    k = rng.below(12)
    sq = lambda: 'abcdefgh'[rng.below(8)] + '12345678'[rng.below(8)]
    if k < 3 and legal:
        return rng.pick(legal)
    if k < 5 and pseudo:
        return rng.pick(pseudo)
    if k == 5 and legal:
        return rng.pick([' ', '\t', '\n', ' ', '']) + rng.pick(legal) + rng.pick([' ', '\n', '\r\n', ' ', ''])
    if k == 6 and legal:
        m = rng.pick(legal)
        return m[:4] + rng.pick(['q', 'k', 'n', 'Q', 'x', '=Q', 'r ']) if len(m) == 4 else m[:4] + rng.pick(['', 'k', 'Q', 'p'])
    if k == 7 and legal:
        m = rng.pick(legal)
        return rng.pick([m.upper(), m[2:4] + m[0:2], m[:3], m + m, '0000', 'O-O', m[:2] + '-' + m[2:]])
    if k == 8:
        return ''.join(rng.pick('abcdefgh12345678qrbnk xX-=é') for _ in range(rng.below(8)))
    return sq() + sq() + rng.pick(['', '', '', 'q', 'r', 'b', 'n', 'k'])


def c13_cases(ctx):
    cases = []
    pos = positions(ctx, ctx.scale(1500, 20000))
    # first pass to learn legal / pseudo-legal strings from the SPEC side of the driver is not needed: the spec op judges
    info_req = ['spec:legal %s' % p for p in pos] + ['pseudoraw %s' % p for p in pos]
    ans = core.run_model(info_req)
    legal = [a.split(',') if a != '-' else [] for a in ans[:len(pos)]]
    pseudo = [a.split(',') if a != '-' else [] for a in ans[len(pos):]]
    per = ctx.scale(14, 40)
    for p, lg, ps in zip(pos, legal, pseudo):
        illegal = [m for m in ps if m not in lg]
        for _ in range(per):
            s = random_move_string(ctx.rng, lg, illegal)
            t = hex_token(s)
            op = ctx.rng.pick(['finduci', 'finduci', 'makeuci', 'ucipgn'])
            cases.append(Case('%s %s %s' % (op, p, t), op, spec='spec:%s %s %s' % (op, p, t), oracle=unchanged_oracle))
    # complete sweep of all 64*64*6 strings on a few positions (bulk op)
    for p in pos[:ctx.scale(12, 200)]:
        cases.append(Case('finduci-all %s' % p, 'all-24576-strings', spec='spec:finduci-all %s' % p, oracle=unchanged_oracle))
    # move lists: all-or-nothing
    for g in games(ctx, ctx.scale(500, 8000), 60):
        root, moves = g[0], g[1:]
        toks = [hex_token(m) for m in moves]
        if ctx.rng.chance(2, 3) and moves:
            i = ctx.rng.below(len(moves) + 1)
            bad = random_move_string(ctx.rng, [], []) if ctx.rng.chance(1, 2) else ctx.rng.pick(moves)
            toks.insert(i, hex_token(bad))
        cases.append(Case('makeall %s %s' % (root, ' '.join(toks)), 'make-all-uci', spec='spec:makeall %s %s' % (root, ' '.join(toks)), oracle=unchanged_oracle))
    for line in corpus('c13_cases.txt'):
        cases.append(Case(line, 'corpus', oracle=unchanged_oracle))
    return cases


# ------------------------------------------------------------------------------------------------------ C14

def san_oracle(a):
    if not a.endswith(' same'):
        return 'SAN conversion changed the position'
    for item in a[:-5].split(','):
        if item == '-':
            continue
        parts = item.split('=')
        # promotions contain '=' in the SAN itself: uci=san(=X)=back
        uci, back = parts[0], parts[-1]
        if back != uci:
            return 'SAN %s of %s parses back to %s' % ('='.join(parts[1:-1]), uci, back)
    return None


def mutate_san(rng, san):
    k = rng.below(10)
    if k == 0:
        return san.replace('x', '')
    if k == 1:
        return san + rng.pick(['+', '#', '!', '?!', '??', '+!', ' '])
    if k == 2:
        return san.rstrip('+#')
    if k == 3:
        return san.lower()
    if k == 4 and len(san) > 2:
        return san[0] + rng.pick('abcdefgh12345678') + san[1:]
    if k == 5:
        return san.replace('=', '')
    if k == 6:
        return rng.pick(['O-O', 'O-O-O', '0-0', 'o-o', 'O-O+', 'O-O-O#'])
    if k == 7 and len(san) > 1:
        i = rng.below(len(san))
        return san[:i] + san[i + 1:]
    if k == 8:
        return ''.join(rng.pick('KQRBNabcdefgh12345678x=+#O-') for _ in range(1 + rng.below(6)))
    return san


def c14_cases(ctx):
    pos = positions(ctx, ctx.scale(2500, 40000))
    pos = pos + wf_corpus('san_fens.txt')
    cases = [Case('san %s' % p, 'san-of-every-legal-move', spec='spec:san %s' % p, oracle=san_oracle) for p in pos]
    # SAN parser on standard and perturbed strings
    sub = pos[:ctx.scale(700, 12000)]
    ans = core.run_model(['spec:san %s' % p for p in sub])
    for p, a in zip(sub, ans):
        items = [it.split('=') for it in a[:-5].split(',') if it != '-']
        sans = ['='.join(it[1:-1]) for it in items]
        for _ in range(ctx.scale(6, 12)):
            if not sans:
                break
            s = mutate_san(ctx.rng, ctx.rng.pick(sans))
            cases.append(Case('sanmv %s %s' % (p, hex_token(s)), 'san-parser-perturbed', spec='spec:sanmv %s %s' % (p, hex_token(s)), oracle=unchanged_oracle))
    return cases


# ------------------------------------------------------------------------------------------------------ C15

STARTFEN = 'rnbqkbnr/pppppppp/8/8/8/8/PPPPPPPP/RNBQKBNR w KQkq - 0 1'
GO_KEYS = ['searchmoves', 'ponder', 'wtime', 'btime', 'winc', 'binc', 'movestogo', 'depth', 'nodes', 'mate', 'movetime', 'infinite']


def rand_uci_move(rng):
    sq = lambda: 'abcdefgh'[rng.below(8)] + '12345678'[rng.below(8)]
    return sq() + sq() + rng.pick(['', '', '', 'q', 'r', 'b', 'n', 'k', 'p'])


def pad_tokens(rng, toks):
    lead = ''.join(rng.pick([' ', ' ', '\t', '\n', ' ', '　']) for _ in range(rng.below(3)))
    trail = ''.join(rng.pick([' ', '\n', '\r\n', '\t', ' ']) for _ in range(rng.below(3)))
    out = lead
    for i, t in enumerate(toks):
        if i:
            out += ' ' * (1 + (rng.below(4) if rng.chance(1, 3) else 0))
        out += t
    return out + trail


def gen_uci_command(rng, fens):
    """returns (token list, expected canonical answer)"""
    k = rng.below(16)
    if k < 6:
        w = ['uci', 'isready', 'ucinewgame', 'stop', 'ponderhit', 'quit'][k]
        return [w], 'ok ' + w
    if k == 6:
        v = rng.pick(['on', 'off'])
        return ['debug', v], 'ok debug ' + v
    if k == 7:
        name = [rng.pick(['Hash', 'Clear', 'Nalimov', 'Path', 'x', 'UCI_Elo', 'name', 'é']) for _ in range(1 + rng.below(3))]
        if rng.chance(1, 2):
            return ['setoption', 'name'] + name, 'ok setoption ' + hex_token(' '.join(name))
        val = [rng.pick(['32', 'true', 'c:\\tb', 'a', 'value', 'name']) for _ in range(1 + rng.below(3))]
        return ['setoption', 'name'] + name + ['value'] + val, 'ok setoptionvalue %s %s' % (hex_token(' '.join(name)), hex_token(' '.join(val)))
    if k == 8:
        if rng.chance(1, 3):
            return ['register', 'later'], 'ok registerlater'
        name = [rng.pick(['Stefan', 'MK', 'name', 'x']) for _ in range(1 + rng.below(3))]
        code = [rng.pick(['4359874324', 'code', 'abc']) for _ in range(1 + rng.below(2))]
        return ['register', 'name'] + name + ['code'] + code, 'ok register %s %s' % (hex_token(' '.join(name)), hex_token(' '.join(code)))
    if k < 12:
        moves = [rand_uci_move(rng) for _ in range(rng.below(12) if rng.chance(3, 4) else rng.below(200))]
        if rng.chance(1, 2):
            toks, fen = ['position', 'startpos'], STARTFEN
        else:
            fen = rng.pick(fens).replace('_', ' ')
            if rng.chance(1, 5):
                fen = ' '.join(fen.split(' ')[:4])
            toks = ['position', 'fen'] + fen.split(' ')
        if moves or rng.chance(1, 2):
            toks += ['moves'] + moves
        exp = 'ok position %s %d' % (hex_token(fen), len(moves))
        for m in moves:
            exp += ' ' + m[:4] + m[4:].lower()
        return toks, exp
    # go with any subset and order of its parameters
    keys = [g for g in GO_KEYS if rng.chance(1, 3)]
    for i in range(len(keys) - 1, 0, -1):
        j = rng.below(i + 1)
        keys[i], keys[j] = keys[j], keys[i]
    toks = ['go']
    vals = {}
    for key in keys:
        toks.append(key)
        if key == 'searchmoves':
            ms = [rand_uci_move(rng) for _ in range(rng.below(5))]
            toks += ms
            vals[key] = ms
        elif key in ('ponder', 'infinite'):
            vals[key] = True
        elif key in ('wtime', 'btime', 'winc', 'binc', 'movetime'):
            v = rng.pick([0, 1, 1000, 60000, 2 ** 40, -5, -2 ** 63, 2 ** 63 - 1]) if rng.chance(1, 3) else rng.below(600000)
            toks.append(rng.pick(['%d', '%d', '+%d', '00%d']) % v if v >= 0 else str(v))
            vals[key] = max(v, 0)
        else:
            v = rng.pick([0, 1, 5, 2 ** 64 - 1]) if rng.chance(1, 4) else rng.below(100)
            toks.append(rng.pick(['%d', '%d', '+%d', '0%d']) % v)
            vals[key] = v
    o = lambda key: str(vals[key]) if key in vals else '-'
    sm = ','.join(m[:4] + m[4:].lower() for m in vals.get('searchmoves', [])) or '-'
    exp = 'ok go sm=%s ponder=%d wtime=%s btime=%s winc=%s binc=%s mtg=%s depth=%s nodes=%s mate=%s movetime=%s inf=%d' % (
        sm, 1 if 'ponder' in vals else 0, o('wtime'), o('btime'), o('winc'), o('binc'), o('movestogo'), o('depth'), o('nodes'), o('mate'),
        o('movetime'), 1 if 'infinite' in vals else 0)
    return toks, exp


def no_panic(a):
    return None


def c15_cases(ctx):
    cases = []
    fens = positions(ctx, 400)
    for _ in range(ctx.scale(20000, 600000)):
        toks, exp = gen_uci_command(ctx.rng, fens)
        line = pad_tokens(ctx.rng, toks)
        cases.append(Case('uciparse ' + hex_token(line), 'grammar:' + toks[0], expect=exp))
    for _ in range(ctx.scale(15000, 600000)):
        toks, _ = gen_uci_command(ctx.rng, fens)
        k = ctx.rng.below(9)
        if k == 0 and len(toks) > 1:
            del toks[ctx.rng.below(len(toks))]
        elif k == 1:
            toks.insert(ctx.rng.below(len(toks) + 1), ctx.rng.pick(toks + GO_KEYS + ['moves', 'fen', 'name', 'value', 'code', 'x', '-1', 'A1a2', '1234', 'e2e4']))
        elif k == 2:
            i = ctx.rng.below(len(toks))
            toks[i] = ctx.rng.pick([toks[i].upper(), toks[i] + 'x', toks[i][:-1], '٣', 'é', toks[i] + '\t', '\tgo', '99999999999999999999', '-', 'i9i9', 'a0a1', 'e2e', 'e2e4v'])
        elif k == 3:
            toks = toks + [ctx.rng.pick(toks)]
        elif k == 4:
            toks[0] = ctx.rng.pick(['Uci', 'go2', 'positon', '', 'ucinewgam', 'stopp', 'xyz', 'GO'])
        elif k == 5 and len(toks) > 2:
            i, j = ctx.rng.below(len(toks)), ctx.rng.below(len(toks))
            toks[i], toks[j] = toks[j], toks[i]
        line = pad_tokens(ctx.rng, [t for t in toks if t != ''] or ['x'])
        cases.append(Case('uciparse ' + hex_token(line), 'token-mutation'))
    # a duplicated go parameter (value-carrying or flag) after an otherwise valid line is a parse error, never accepted
    for _ in range(ctx.scale(3000, 60000)):
        while True:
            toks, _ = gen_uci_command(ctx.rng, fens)
            keys = [t for t in toks[1:] if t in GO_KEYS] if toks[0] == 'go' else []
            if keys:
                break
        dup = ctx.rng.pick(keys)
        extra = [dup] + ([] if dup in ('ponder', 'infinite', 'searchmoves') else [str(ctx.rng.below(100))])
        cases.append(Case('uciparse ' + hex_token(pad_tokens(ctx.rng, toks + extra)), 'go-duplicate-parameter', expect='err dup'))
    # characters whose code point differs from a valid file/rank/promotion character by a multiple of 256 (or that are
    # non-ASCII look-alikes) must not be read as that character
    def alias(c):
        return chr(ord(c) + 256 * ctx.rng.pick([1, 2, 3, 0xFE, 0xFF, 0x100, 0x1F0]))
    for _ in range(ctx.scale(4000, 80000)):
        m = rand_uci_move(ctx.rng)
        i = ctx.rng.below(len(m))
        bad = m[:i] + alias(m[i]) + m[i + 1:]
        if i < 4:
            cases.append(Case('ucimove ' + hex_token(bad), 'aliased-character-move-text', expect='err'))
            cases.append(Case('uciparse ' + hex_token('position startpos moves e2e4 ' + bad), 'aliased-character-move-text', expect='err move'))
        else:
            cases.append(Case('ucimove ' + hex_token(bad), 'aliased-character-move-text', expect='err'))
    alphabet = ''.join(chr(32 + i) for i in range(95)) + '\t\n\r　٣é中😀'
    for _ in range(ctx.scale(8000, 200000)):
        s = ''.join(ctx.rng.pick(alphabet) for _ in range(ctx.rng.below(40)))
        if ctx.rng.chance(1, 2):
            s = ctx.rng.pick(['go ', 'position fen ', 'position startpos moves ', 'debug ', 'setoption name ', 'register ']) + s
        first = s.strip().split(' ')[0] if s.strip() else ''
        cases.append(Case('uciparse ' + hex_token(s), 'random-string'))
    # every move text 64 x 64 x {none + 6 letters in both cases}
    sqs = [f + r for r in '87654321' for f in 'abcdefgh']
    for a in sqs:
        for b in sqs:
            p = ctx.rng.pick(['', 'q', 'r', 'b', 'n', 'k', 'p', 'Q', 'N'])
            cases.append(Case('ucimove ' + hex_token(a + b + p), 'all-squares-move-text', expect='ok ' + a + b + p.lower()))
    for _ in range(ctx.scale(6000, 100000)):
        s = ''.join(ctx.rng.pick('abcdefghABCH12345678 90qrbnkxX-=é٣`') for _ in range(ctx.rng.below(8)))
        cases.append(Case('ucimove ' + hex_token(s), 'random-move-text'))
    for line in corpus('uci_lines.txt'):
        cases.append(Case('uciparse ' + hex_token(line.encode().decode('unicode_escape')), 'corpus'))
    return cases


# ------------------------------------------------------------------------------------------------------ C17

def hx(b):
    return b.hex()


def widen(v):
    """the reader turns every input byte into one char (`byte as char`) and the harness prints every char of a yielded string
    as one byte again: the bytes of a tag value / comment must come back unchanged, for every chunking"""
    return v.encode('utf-8')


def render_pgn(rng, game_list):
    """game_list: [(tags [(k, v)], sans [str], final_fen_tok)] -> (bytes, expected `pgn` answer, expected `pgnreplay` answer)"""
    out = b''
    items, finals = [], []
    for gi, (tags, sans, final) in enumerate(game_list):
        numbering = rng.pick(['white', 'both', 'none', 'lichess'])
        comments = rng.chance(1, 2)
        result = rng.pick(['1-0', '0-1', '1/2-1/2', '*'])
        tags = list(tags) + [('Result', result)]
        for k, v in tags:
            out += b'[' + k.encode() + b' "' + v.encode('utf-8') + b'"]\n'
        out += b'\n'
        mt = []
        exp_moves = []
        prev_commented = False
        for i, san in enumerate(sans):
            white = i % 2 == 0
            num = ''
            if white and numbering in ('white', 'both', 'lichess'):
                num = '%d.' % (i // 2 + 1)
            elif not white and (numbering == 'both' or (numbering == 'lichess' and prev_commented)):
                num = '%d...' % (i // 2 + 1)
            if num:
                mt.append(num)
            mt.append(san)
            ann = None
            if comments and rng.chance(3, 4):
                ann = rng.pick([' [%%clk 0:%02d:%02d] ' % (rng.below(60), rng.below(60)), ' [%eval 0.17] [%clk 0:00:30] ', '', ' book ', ' Blunder. Qd8 was best. ',
                                ' (0.32 \u2192 1.05) Inaccuracy. Gr\u00fcnfeld was best. '])
                mt.append('{' + ann + '}')
            prev_commented = ann is not None
            exp_moves.append((san, ann))
        mt.append(result)
        out += ' '.join(mt).encode()
        last = gi == len(game_list) - 1
        out += b'\n' * (rng.pick([0, 1, 2, 3]) if last else rng.pick([1, 2, 2, 2, 3]))
        dedup = {}
        for k, v in tags:
            dedup[k.encode('latin-1', 'replace')] = v
        item = 'G' + ''.join(' t:%s=%s' % (hx(k), hx(widen(v))) for k, v in sorted(dedup.items()))
        item += ''.join(' m:%s' % hx(s.encode()) + ('/' + hx(widen(a)) if a is not None else '') for s, a in exp_moves)
        items.append(item)
        finals.append(final)
    return out, ' | '.join(items) if items else '-', ' | '.join(finals) if finals else '-'


def c17_cases(ctx):
    cases = []
    gs = games(ctx, ctx.scale(500, 8000), 90)
    # a few very long games (several hundred moves: three-digit move numbers)
    gs = gs + [g for g in games(ctx, ctx.scale(12, 200), 900) if len(g) > 520][:ctx.scale(4, 40)]
    reqs = ['spec:gamesan %s' % ' '.join(g) for g in gs]
    ans = core.run_model(reqs)
    pool = []
    for g, a in zip(gs, ans):
        if a == 'ERR' or ' > ' not in a and not a.startswith('> ') and not a.startswith(' > '):
            continue
        sans_s, final = a.rsplit('> ', 1) if '> ' in a else (a, '')
        sans = [x for x in sans_s.strip().split(' ') if x and x != '>']
        root = g[0].replace('_', ' ')
        tags = [('Event', ctx.rng.pick(['Rated Blitz game', 'Casual Bullet game', 'Rated Classical tournament https://lichess.org/tournament/x', 'S\u00e4misch Memorial \u2014 Runde 3'])),
                ('Site', 'https://lichess.org/%08x' % ctx.rng.below(2 ** 32)), ('White', ctx.rng.pick(['alice', 'B0b', 'x y z', 'Gr\u00fcnfeld', 'Zo\u00eb \u265e'])),
                ('Black', ctx.rng.pick(['carol', 'd_e', 'Anonymous'])), ('WhiteElo', str(1500 + ctx.rng.below(1200))),
                ('BlackElo', '?'), ('TimeControl', ctx.rng.pick(['600+0', '180+2', '-'])), ('Termination', 'Normal')]
        if root != STARTFEN:
            tags += [('SetUp', '1'), ('FEN', root)]
        pool.append((tags, sans, final.strip()))
    ctx.notes.append('pgn pool: %d games, %d with castling' % (len(pool), sum(1 for p in pool if any(s.startswith('O-O') for s in p[1]))))
    n = ctx.scale(250, 4000)
    longs = [p for p in pool if len(p[1]) > 520]
    ctx.notes.append('very long games (> 260 moves) in the pool: %d' % len(longs))
    for i in range(n):
        k = ctx.rng.pick([0, 1, 1, 2, 2, 3, 5])
        sel = [ctx.rng.pick(pool) for _ in range(k)] if pool else []
        if longs and i % 25 == 0:
            sel = [ctx.rng.pick(longs)] + sel[:1]
        data, exp, finals = render_pgn(ctx.rng, sel)
        tok = 'x:' + data.hex()
        chunks = [1, 2, 3, 5, 7, 8, 13, 16, 31, 64, 100, 8192] if i < n // 6 else [ctx.rng.pick([1, 2, 3, 4, 5, 6, 7, 8, 9, 11, 16, 17, 32, 33, 63, 64, 128, 1000, 8192]) for _ in range(3)]
        for ch in chunks:
            sched = '-' if ctx.rng.chance(1, 2) else ','.join(str(1 + ctx.rng.below(ctx.rng.pick([1, 2, 3, 9, 70]))) for _ in range(1 + ctx.rng.below(5)))
            cases.append(Case('pgn %d %s %s' % (ch, sched, tok), 'lichess-layout', expect=exp))
        cases.append(Case('pgnreplay %d - %s' % (ctx.rng.pick([1, 7, 64, 8192]), tok), 'replay-on-board', model=None, expect=finals))
    # malformed / truncated inputs: model agreement only (and no panic)
    for i in range(ctx.scale(600, 10000)):
        sel = [ctx.rng.pick(pool) for _ in range(1 + ctx.rng.below(2))] if pool else []
        data, _, _ = render_pgn(ctx.rng, sel)
        data = bytearray(data)
        k = ctx.rng.below(4)
        if k == 0 and data:
            data = data[:ctx.rng.below(len(data))]
        elif k == 1 and data:
            for _ in range(1 + ctx.rng.below(3)):
                data[ctx.rng.below(len(data))] = ctx.rng.pick(list(b'[]"{}\n ;.*-/1x\xff\x80'))
        elif k == 2 and data:
            j = ctx.rng.below(len(data))
            del data[j:j + 1 + ctx.rng.below(5)]
        else:
            j = ctx.rng.below(len(data) + 1)
            data[j:j] = bytes(ctx.rng.pick(list(b'[]"{}\n ;.')) for _ in range(1 + ctx.rng.below(3)))
        sched = '-' if ctx.rng.chance(1, 2) else ','.join(str(1 + ctx.rng.below(9)) for _ in range(1 + ctx.rng.below(4)))
        for ch in ctx.rng.sample([1, 2, 3, 7, 16, 64, 8192], 2):
            cases.append(Case('pgn %d %s x:%s' % (ch, sched if ch != 8192 else '-', bytes(data).hex()), 'malformed'))
    for line in corpus('pgn_cases.txt'):
        cases.append(Case(line, 'corpus'))
    return cases


def c17_post(ctx, cases, impl):
    """the property itself: the items yielded for one input must not depend on the buffer size or on how the underlying
    reader fragments its reads — every pair of runs on the same bytes is compared, whatever the expected answer"""
    vs = []
    first = {}
    n = 0
    for c, a in zip(cases, impl):
        if c.stream not in ('lichess-layout', 'malformed', 'corpus') or not c.req.startswith('pgn '):
            continue
        tok = c.req.split(' ')[3]
        if tok in first:
            n += 1
            c0, a0 = first[tok]
            if a0 != a and len(vs) < 50:
                vs.append({'kind': 'property', 'stream': 'chunk-independence', 'op': 'pgn', 'input': c.req, 'impl_output': a[:400],
                           'why': 'the same bytes read with another buffer size / fragmentation (%s) yield different items: %s' % (' '.join(c0.req.split(' ')[:3]), a0[:200])})
        else:
            first[tok] = (c, a)
    ctx.notes.append('pairs of runs on identical bytes with different chunking compared: %d' % n)
    return vs


# ------------------------------------------------------------------------------------------------------ C19

def c19_valid_oracle(kind, doc_hex):
    import json as _json
    try:
        src = _json.loads(bytes.fromhex(doc_hex).decode('utf-8'))
    except Exception:
        src = None

    def f(a):
        if not a.startswith('ok x:'):
            return 'a document of a documented shape was not decoded'
        if src is None:
            return None
        try:
            got = _json.loads(bytes.fromhex(a[5:]).decode('utf-8'))
        except Exception:
            return 're-serialised value is not JSON'
        st = None
        if src.get('type') == 'gameState':
            st, g = src, got
        elif src.get('type') == 'gameFull':
            st, g = src.get('state'), got.get('state')
        if st is not None and isinstance(st, dict) and isinstance(g, dict):
            mv = st.get('moves', '')
            want = [] if mv.strip() == '' else mv.split(' ')
            if g.get('moves') != want:
                return 'move list decoded as %r, transmitted %r' % (g.get('moves'), mv)
            for k in ('wtime', 'btime', 'winc', 'binc', 'status'):
                if g.get(k) != st.get(k):
                    return 'field %s decoded as %r, transmitted %r' % (k, g.get(k), st.get(k))
        if src.get('type') == 'opponentGone':
            if got.get('claimWinInSeconds') != src.get('claimWinInSeconds') or got.get('gone') != src.get('gone'):
                return 'opponentGone decoded as %r, transmitted %r' % (got, src)
        return None
    return f


def c19_cases(ctx):
    cases = []
    gen = os.path.join(core.VERIF, 'tools', 'gen_lichess_docs.py')
    import sys as _sys
    n = ctx.scale(5000, 200000)
    rc, out = core.run([_sys.executable, gen, str(ctx.seed), str(n), '--mutate-percent', '0'], timeout=1800)
    if rc != 0:
        raise core.Broken('gen_lichess_docs', out[-2000:])
    for l in out.split('\n'):
        if l.startswith('json '):
            _, kind, tok = l.split(' ')
            cases.append(Case(l, 'documented-shape:' + kind, oracle=c19_valid_oracle(kind, tok[2:])))
    rc, out = core.run([_sys.executable, gen, str(ctx.seed + 1), str(ctx.scale(5000, 200000)), '--mutate-percent', '60'], timeout=1800)
    if rc != 0:
        raise core.Broken('gen_lichess_docs', out[-2000:])
    for l in out.split('\n'):
        if l.startswith('json '):
            cases.append(Case(l, 'mutated', panic_ok=True))
    for l in corpus('json_cases.txt'):
        cases.append(Case(l, 'corpus'))
    return cases


# ------------------------------------------------------------------------------------------------------ sessions (engine)

def project_session(ans):
    """drop what the properties do not speak about: poll infos, node counts, times"""
    out = []
    for part in ans.split(' ; '):
        toks = []
        for t in part.split(' '):
            if t.startswith('I:'):
                f = t.split(':')
                if f[1] != '-':
                    toks.append('D:%s:%s:%s' % (f[1], f[4], f[5]))
            else:
                toks.append(t)
        out.append(' '.join(toks) if toks else '-')
    return ' ; '.join(out)


def flip_fen(tok):
    f = tok.split('_')
    rows = f[0].split('/')[::-1]
    placement = '/'.join(r.swapcase() for r in rows)
    side = 'b' if f[1] == 'w' else 'w'
    rights = ''.join(c for c in 'KQkq' if c in f[2].swapcase()) or '-'
    ep = '-' if f[3] == '-' else f[3][0] + str(9 - int(f[3][1]))
    return '_'.join([placement, side, rights, ep, f[4], f[5]])


def flip_uci(m):
    fl = lambda sq: sq[0] + str(9 - int(sq[1]))
    return fl(m[0:2]) + fl(m[2:4]) + m[4:]


# ------------------------------------------------------------------------------------------------------ C11

def c11_cases(ctx):
    pos = positions(ctx, ctx.scale(2500, 40000))
    cases = []
    for p in pos:
        cases.append(Case('eval %s' % p, 'static-eval'))
        cases.append(Case('eval %s' % flip_fen(p), 'static-eval-of-flip'))
    for p, kind in terminal_variants(ctx, pos + wf_corpus('terminal_fens.txt')):
        cases.append(Case('eval %s' % p, 'terminal-sign', oracle=eval_terminal_oracle(kind, p)))
        cases.append(Case('eval %s' % flip_fen(p), 'terminal-sign', oracle=eval_terminal_oracle(kind, flip_fen(p))))
    return cases


def c11_post(ctx, cases, impl):
    vs = []
    by = {}
    for c, a in zip(cases, impl):
        if c.req.startswith('eval '):
            by[c.req.split(' ')[1]] = a
    n = 0
    for p, a in by.items():
        q = flip_fen(p)
        if q in by and p < q:
            n += 1
            try:
                if int(by[q]) != -int(a):
                    vs.append({'kind': 'property', 'stream': 'eval-flip', 'input': 'eval %s' % p, 'impl_output': '%s vs flipped %s' % (a, by[q]),
                               'why': 'static evaluation of the colour-flipped mirror position is not the negation'})
            except ValueError:
                pass
    ctx.notes.append('flip pairs compared: %d' % n)
    return vs


# ------------------------------------------------------------------------------------------------------ registry

PROPS = {
    'C01': dict(modules=['Inkayaku.Props.C01', 'Inkayaku.Props.Closure', 'Inkayaku.Props.SpecValidation'], theorems=['Inkayaku.C01.castle_masks_eq_fide', 'Inkayaku.C01.genNonQuiescent_eq_filter', 'Inkayaku.C01.sliding_iff', 'Inkayaku.C01.knight_iff', 'Inkayaku.C01.king_iff', 'Inkayaku.C01.pawn_iff', 'Inkayaku.C01.castle_iff', 'Inkayaku.C01.genPseudo_iff', 'Inkayaku.C01.genPseudo_uci_iff', 'Inkayaku.C01.genPseudo_nodup', 'Inkayaku.C01.genLegal_nodup', 'Inkayaku.C01.uci_agree', 'Inkayaku.C01.uci_injective', 'Inkayaku.C01.genLegal_eq_spec', 'Inkayaku.C01.perft_moves', 'Inkayaku.C01.legal_moves_exact'] + ['Inkayaku.Closure.genLegal_eq_rules'], cases=c01_cases, anchors=BOARD_ANCHORS),
    'C02': dict(modules=['Inkayaku.Props.C02'], theorems=['Inkayaku.C02.make_eq_apply', 'Inkayaku.C02.fen_make', 'Inkayaku.C02.make_eq_apply_legal', 'Inkayaku.C02.fen_make_legal', 'Inkayaku.C02.make_eq_apply_meta', 'Inkayaku.C02.castle_relocates_rook', 'Inkayaku.C02.en_passant_removes_pawn', 'Inkayaku.C02.promotion_replaces_pawn', 'Inkayaku.C02.rights_lost_iff', 'Inkayaku.C02.clock_reset_iff', 'Inkayaku.C02.fullmove_increments_after_black'], cases=c02_cases, anchors=BOARD_ANCHORS),
    'C03': dict(modules=['Inkayaku.Props.C03'], theorems=['Inkayaku.C03.vis_eq_iff', 'Inkayaku.C03.field_roundtrip', 'Inkayaku.C03.pack_injective', 'Inkayaku.C03.unmake_make', 'Inkayaku.C03.unmake_make_line', 'Inkayaku.C03.hash_restored', 'Inkayaku.C03.hash_restored_line', 'Inkayaku.C03.unmake_make_generated', 'Inkayaku.C03.unmake_make_generated_nq', 'Inkayaku.C03.unmake_make_generated_line'], cases=c03_cases, anchors=BOARD_ANCHORS),
    'C04': dict(modules=['Inkayaku.Props.C04'],
                theorems=['Inkayaku.C04.rook_correct', 'Inkayaku.C04.bishop_correct', 'Inkayaku.C04.rook_correct_u64',
                          'Inkayaku.C04.bishop_correct_u64', 'Inkayaku.C04.leapers_correct', 'Inkayaku.C04.leapers_length'],
                extra_obligations=128, cases=c04_cases, witness_search=c04_witness,
                anchors=['board/src/board/precalculated/magic.rs', 'board/src/board/precalculated/nonmagic.rs',
                         'core/src/constants/direction.rs', 'core/src/constants/square.rs'],
                assumptions=['rustc evaluates the const tables as dumped by the same binary at run time']),
    'C05': dict(modules=['Inkayaku.Props.C05', 'Inkayaku.Props.Closure'], theorems=['Inkayaku.Closure.no_moves_iff_rules', 'Inkayaku.C05.square_attacked', 'Inkayaku.C05.in_check', 'Inkayaku.C05.current_in_check', 'Inkayaku.C05.valid', 'Inkayaku.C05.move_legal', 'Inkayaku.C05.wf_not_in_check', 'Inkayaku.C05.occupancy_in_check', 'Inkayaku.C05.no_moves_iff'], cases=c05_cases, anchors=BOARD_ANCHORS),
    'C06': dict(modules=['Inkayaku.Props.C06', 'Inkayaku.Props.C06Gen'], theorems=['Inkayaku.C06Gen.hash_incremental_generated', 'Inkayaku.C06Gen.ep_key_by_file', 'Inkayaku.C06Gen.pawnHash_incremental_generated', 'Inkayaku.C06.hash_incremental', 'Inkayaku.C06.pawnHash_incremental', 'Inkayaku.C06.hash_congr', 'Inkayaku.C06.hash_vis', 'Inkayaku.C06.hash_clocks', 'Inkayaku.C06.keys_good', 'Inkayaku.C06.hash_side', 'Inkayaku.C06.hash_toggles_right', 'Inkayaku.C06.hash_ep_file', 'Inkayaku.C06.hash_moves_piece', 'Inkayaku.C06.hash_changes_kind'], cases=c06_cases, post=c06_post, anchors=BOARD_ANCHORS),
    'C10': dict(modules=['Inkayaku.Props.C10', 'Inkayaku.Props.C10Fifty', 'Inkayaku.Props.C10Search', 'Inkayaku.Props.C10Rep', 'Inkayaku.Props.C10Deep', 'Inkayaku.Props.C10DeepGhi'],
                theorems=['Inkayaku.C10Deep.' + n for n in 'go_depth2_eq_repSpec go_depth3_eq_repSpec go_depth_eq_repSpec rhashInj_le3 node_value node_repetition_iff_spec'.split()] + ['Inkayaku.C10Rep.' + n for n in 'repSearch_eq_mm repSearch_order_irrelevant rule_never_at_root rule_applies_iff rule_value rule_otherwise occurrences_agree isRepetition_iff_occurrences go_depth1_eq_repSpec go_depth1_searchmoves_eq_repSpec'.split()] + ['Inkayaku.C10Search.' + n for n in 'history_of_setPosition node_repetition_iff node_repetition search_never_writes_below node_hyp_inherited root_child_repetition_iff go_threefold go_no_threefold go_depth1_game repValue_const irreversible_move_closes_window window_is_reversible_suffix'.split()] + ['Inkayaku.C10.countRepetitions_value', 'Inkayaku.C10.countRepetitions_spec',
                          'Inkayaku.C10.never_reads_above_start', 'Inkayaku.C10.threefold_iff',
                          'Inkayaku.C10.max_half_moves', 'Inkayaku.C10.fifty_only_after_100', 'Inkayaku.C10.fifty_draw_from_100',
                          'Inkayaku.C10.terminal_ignores_clock'],
                cases=c10_history_cases,
                anchors=['engine_core/src/engine/zobrist_history.rs', 'engine_core/src/engine/search.rs', 'engine_core/src/engine/heuristic.rs']),
    'C11': dict(modules=['Inkayaku.Props.C11', 'Inkayaku.Props.C11Search'], theorems=['Inkayaku.C11Search.' + n for n in 'wf_flipBoard abs_flipBoard legal_moves_flip captures_flip horizon_flip terminal_flip specValue_flip_nv specValue_flip_raw specScore_flip search_flip'.split()] + ['Inkayaku.C11.black_tables_mirror', 'Inkayaku.C11.tables_shape', 'Inkayaku.C11.eval_flip', 'Inkayaku.C11.gameStage_flip', 'Inkayaku.C11.isCurrentInCheck_flip', 'Inkayaku.C11.evaluate_flip', 'Inkayaku.C11.evaluate_flip_wf', 'Inkayaku.C11.evaluate_flip_mover', 'Inkayaku.C11.terminal_sign', 'Inkayaku.C11.checkmate_sign', 'Inkayaku.C11.stalemate_draw', 'Inkayaku.C11.nearer_mate_better', 'Inkayaku.C11.score_mate_white', 'Inkayaku.C11.score_mate_black', 'Inkayaku.C11.score_mated_white', 'Inkayaku.C11.score_mated_black', 'Inkayaku.C11.score_cp', 'Inkayaku.C11.score_mate_leaf', 'Inkayaku.C11.score_mated_leaf', 'Inkayaku.C11.mate_score_flip'],
                cases=c11_cases, post=c11_post,
                anchors=['engine_core/src/engine/heuristic.rs', 'engine_core/src/engine/heuristic/simple.rs', 'engine_core/src/engine/search.rs']),
    'C12': dict(modules=['Inkayaku.Props.C12'], theorems=['Inkayaku.C12.wf_repr', 'Inkayaku.C12.print_parse_board', 'Inkayaku.C12.print_parse_legal', 'Inkayaku.C12.decode_correct', 'Inkayaku.C12.decode_correct_four', 'Inkayaku.C12.decode_then_print', 'Inkayaku.C12.four_field_defaults', 'Inkayaku.C12.parse_print_canonical', 'Inkayaku.C12.parse_print_same', 'Inkayaku.C12.parse_print_four', 'Inkayaku.C12.reject_field_count', 'Inkayaku.C12.reject_illegal_char', 'Inkayaku.C12.reject_rank_sum', 'Inkayaku.C12.reject_adjacent_digits', 'Inkayaku.C12.reject_bad_side', 'Inkayaku.C12.reject_bad_castling', 'Inkayaku.C12.reject_bad_ep', 'Inkayaku.C12.reject_bad_clock', 'Inkayaku.C12.parse_no_panic_branch'], cases=c12_cases, anchors=['core/src/fen.rs', 'board/src/board.rs']),
    'C13': dict(modules=['Inkayaku.Props.C13', 'Inkayaku.Props.Closure'], theorems=['Inkayaku.Closure.findUci_ok_iff_legal_wf', 'Inkayaku.Closure.makeAllUci_all_or_nothing_wf', 'Inkayaku.Closure.wfStep', 'Inkayaku.C13.findUci_pure', 'Inkayaku.C13.findUci_ok_iff', 'Inkayaku.C13.findUci_ok_iff_legal', 'Inkayaku.C13.findUci_err_kinds', 'Inkayaku.C13.makeUci_spec', 'Inkayaku.C13.makeAllUci_all_or_nothing', 'Inkayaku.C13.findUci_idempotent', 'Inkayaku.C13.uciToSan_pure', 'Inkayaku.C13.uciToSan_err_iff', 'Inkayaku.C13.sanToMove_legal'], cases=c13_cases, anchors=BOARD_ANCHORS),
    'C14': dict(modules=['Inkayaku.Props.C14', 'Inkayaku.Props.C14Spec'], theorems=['Inkayaku.C14Spec.san_eq_spec', 'Inkayaku.C14Spec.uciToSan_eq_spec', 'Inkayaku.C14.sanCaptures_render', 'Inkayaku.C14.sanCaptures_complete', 'Inkayaku.C14.sanCaptures_none', 'Inkayaku.C14.check_mark', 'Inkayaku.C14.check_mark_rules', 'Inkayaku.C14.never_hash_for_stalemate', 'Inkayaku.C14.disamb_standard', 'Inkayaku.C14.disamb_unique', 'Inkayaku.C14.text_standard', 'Inkayaku.C14.san_roundtrip', 'Inkayaku.C14.san_roundtrip_wf', 'Inkayaku.C14.sanToMove_sound', 'Inkayaku.C14.sanToMove_some_iff', 'Inkayaku.C14.sanToMove_none_iff'], cases=c14_cases, anchors=BOARD_ANCHORS),
    'C15': dict(modules=['Inkayaku.Props.C15'],
                theorems=['Inkayaku.C15.tokenize_pad', 'Inkayaku.C15.ucimove_roundtrip', 'Inkayaku.C15.parse_render_simple',
                          'Inkayaku.C15.parse_render_position', 'Inkayaku.C15.parse_render_go', 'Inkayaku.C15.parse_render',
                          'Inkayaku.C15.parse_line', 'Inkayaku.C15.unknown_first_word', 'Inkayaku.C15.go_duplicate', 'Inkayaku.C15.bad_int',
                          'Inkayaku.C15.bad_move', 'Inkayaku.C15.bad_fen', 'Inkayaku.C15.missing_param'],
                cases=c15_cases, anchors=['uci/src/uci/parser.rs', 'uci/src/uci.rs', 'core/src/constants/square.rs', 'core/src/fen.rs'],
                assumptions=['Rust str::trim / split / integer parsing as modelled (std library trusted)']),
    'C17': dict(modules=['Inkayaku.Props.C17', 'Inkayaku.Props.C17Replay'],
                theorems=['Inkayaku.C17.reader_bytes', 'Inkayaku.C17.chunk_independent', 'Inkayaku.C17.parse_render', 'Inkayaku.C17.c17',
                          'Inkayaku.C17.fuel_adequate', 'Inkayaku.C17Replay.replay_sanLine', 'Inkayaku.C17Replay.sanLine_some',
                          'Inkayaku.C17Replay.wfSan_of_sanLine', 'Inkayaku.C17Replay.pgn_replay'],
                cases=c17_cases, post=c17_post, anchors=['pgn/src/reader.rs', 'pgn_test/src/main.rs', 'board/src/board.rs'],
                assumptions=['std::io::Read contract: read returns 0 only at end of input']),
    'C19': dict(modules=['Inkayaku.Props.C19', 'Inkayaku.Props.C19Moves'], theorems=['Inkayaku.Props.C19Moves.uci_shape_parses', 'Inkayaku.Props.C19Moves.moves_decode_and_parse', 'Inkayaku.Props.C19Moves.moves_decode_parse_all', 'Inkayaku.Props.C19.schema_names_documented', 'Inkayaku.Props.C19.perf_keys_documented', 'Inkayaku.Props.C19.moves_split', 'Inkayaku.Props.C19.moves_split_uci', 'Inkayaku.Props.C19.decode_encode', 'Inkayaku.Props.C19.wf_generated', 'Inkayaku.Props.C19.parse_render_json', 'Inkayaku.Props.C19.decode_text_roundtrip'],
                cases=c19_cases, needs_lichess=True,
                anchors=['lichess_api/src/api/bot_game_state_response.rs', 'lichess_api/src/api/bot_event_response.rs', 'lichess_api/src/api/response.rs'],
                assumptions=['serde / serde_json semantics as modelled (libraries trusted)', 'documented wire names as written in Spec/LichessDoc.lean']),
    'C18': dict(modules=['Inkayaku.Props.C18'],
                theorems=['Inkayaku.C18.refines', 'Inkayaku.C18.inv_reach', 'Inkayaku.C18.len_le_cap', 'Inkayaku.C18.len_eq_card',
                          'Inkayaku.C18.get_put_same', 'Inkayaku.C18.get_put_other', 'Inkayaku.C18.evicts_oldest',
                          'Inkayaku.C18.get_after_clear'],
                cases=c18_cases, anchors=['engine_core/src/engine/table.rs', 'engine_core/src/engine/table/transposition.rs'],
                assumptions=['std HashMap / VecDeque behave as a map / queue']),
}
