"""Shared machinery of the checks: builds, line-protocol runs, comparison, evidence, findings."""
import fcntl, hashlib, json, os, re, subprocess, sys, time

VERIF = os.path.abspath(os.path.join(os.path.dirname(__file__), '..', '..'))
REPO = os.environ.get('VERIF_REPO', '/repo')
LEAN = os.path.join(VERIF, 'lean')
HARNESS = os.path.join(VERIF, 'harness')
WORK = os.path.join(VERIF, 'work')
EVIDENCE = os.environ.get('VERIF_EVIDENCE_DIR') or os.path.join(VERIF, 'evidence')   # tools/try_seed.py redirects it: a trial on a changed tree must not rewrite the committed evidence
IMPL = os.environ.get('VERIF_IMPL') or os.path.join(HARNESS, 'target', 'debug', 'implrunner')   # VERIF_IMPL: tools/coverage.py's instrumented build
HARNESS_LICHESS = os.path.join(VERIF, 'harness_lichess')
IMPL_LICHESS = os.path.join(HARNESS_LICHESS, 'target', 'debug', 'inkayaku_verif_harness_lichess')
DUMP = os.path.join(HARNESS, 'target', 'debug', 'dumpconsts')
MODEL = os.path.join(LEAN, '.lake', 'build', 'bin', 'modeldriver')
ALLOWED_AXIOMS = {'propext', 'Classical.choice', 'Quot.sound'}
FORBIDDEN = re.compile(r'\b(sorry|admit|native_decide|bv_decide|implemented_by|unsafe)\b|^\s*axiom\s|maxHeartbeats\s+0')

ENV = dict(os.environ, CARGO_NET_OFFLINE='true')
ENV.setdefault('VERIF_WATCHDOG_SECS', '90')


class Broken(Exception):
    """a proof obligation or the tie to the code no longer checks"""
    def __init__(self, what, detail=''):
        super().__init__(what)
        self.what, self.detail = what, detail


class Lock:
    def __init__(self, name):
        os.makedirs(WORK, exist_ok=True)
        self.path = os.path.join(WORK, name + '.lock')
    def __enter__(self):
        self.f = open(self.path, 'w')
        fcntl.flock(self.f, fcntl.LOCK_EX)
    def __exit__(self, *a):
        fcntl.flock(self.f, fcntl.LOCK_UN)
        self.f.close()


def log(msg):
    print('[check] ' + msg, file=sys.stderr, flush=True)


def run(cmd, cwd=None, timeout=None, input_bytes=None):
    p = subprocess.run(cmd, cwd=cwd, env=ENV, stdout=subprocess.PIPE, stderr=subprocess.STDOUT, timeout=timeout, input=input_bytes)
    return p.returncode, p.stdout.decode('utf-8', 'replace')


SOFT_TIE = []


TRANSLATOR = os.path.join(VERIF, 'translator')
RS2LEAN = os.path.join(TRANSLATOR, 'target', 'debug', 'rs2lean')


def build_impl(lichess=False, translated_modules=()):
    """cargo build of the harness against /repo's current working tree with --cfg inkayaku_verif; regenerates Gen"""
    with Lock('build'):
        t = time.time()
        if lichess:
            rc, out = run(['cargo', 'build', '--offline'], cwd=HARNESS_LICHESS, timeout=3600)
            if rc != 0:
                raise Broken('harness-lichess-build', 'the lichess harness no longer builds against /repo:\n' + out[-4000:])
            rc, out = run([sys.executable, os.path.join(VERIF, 'tools', 'serde_schema.py'), REPO, os.path.join(LEAN, 'Inkayaku', 'Gen', 'LichessSchema.lean')], timeout=120)
            del SOFT_TIE[:]
            if rc != 0:
                if not os.path.exists(os.path.join(LEAN, 'Inkayaku', 'Gen', 'LichessSchema.lean')):
                    raise Broken('serde_schema', 'the schema translator does not understand the current source:\n' + out[-4000:])
                SOFT_TIE.append(('serde_schema', 'the schema translator does not understand the current source:\n' + out[-4000:]))
        lock_src = os.path.join(REPO, 'Cargo.lock')
        rc, out = run(['cargo', 'build', '--offline', '--bins'], cwd=HARNESS, timeout=1800)
        if rc != 0:
            raise Broken('harness-build', 'the harness (hooks enabled) no longer builds against /repo:\n' + out[-4000:])
        rc, out = run([DUMP, os.path.join(LEAN, 'Inkayaku', 'Gen')], timeout=300)
        if rc != 0:
            raise Broken('dumpconsts', out[-4000:])
        rc, out = run([sys.executable, os.path.join(VERIF, 'tools', 'gen_c04.py'), LEAN], timeout=120)
        if rc != 0:
            raise Broken('gen_c04', out[-4000:])
        # rs2lean: selected Rust functions are translated to Lean on every run (Gen/Rs/*.lean); the equivalence theorems
        # Props/Translated/* tie them to the hand-written model.  A source outside the translator's subset is a broken tie for the
        # properties that use those theorems (soft: the differential run still takes place); other properties are not affected.
        if not lichess:
            del SOFT_TIE[:]
        rc, out = run(['cargo', 'build', '--offline'], cwd=TRANSLATOR, timeout=1800)
        failed_modules = None
        if rc == 0:
            rc, out = run([RS2LEAN, REPO, os.path.join(LEAN, 'Inkayaku', 'Gen', 'Rs')], timeout=300)
            if rc == 3:
                # keep-going mode: the modules that could not be translated are named, all others were regenerated
                failed_modules = set(re.findall(r'FAILED module (\w+):', out))
        if rc != 0 and translated_modules:
            used = {os.path.splitext(os.path.basename(f))[0] for f in import_closure(translated_modules) if os.sep + os.path.join('Gen', 'Rs') + os.sep in f}
            hit = sorted(used & failed_modules) if failed_modules is not None else sorted(used)
            if hit:
                SOFT_TIE.append(('rs2lean', 'the Rust-to-Lean translator does not understand the current source of the module(s) %s this property depends on (their generated definitions are those of the last translated source):\n%s' % (', '.join(hit), out[-3000:])))
        return time.time() - t


def source_tokens_ok(paths):
    bad = []
    for p in paths:
        if not os.path.exists(p):
            continue
        depth = 0
        for n, line in enumerate(open(p, encoding='utf-8'), 1):
            # drop comments (block comments tracked line-wise, good enough for an audit grep)
            l = line
            if depth == 0 and '/-' in l and '-/' in l:
                l = re.sub(r'/-.*?-/', '', l)
            if '/-' in l:
                depth += 1
                l = l.split('/-')[0]
            elif '-/' in l and depth > 0:
                depth -= 1
                l = l.split('-/')[-1]
            elif depth > 0:
                continue
            l = l.split('--')[0]
            if FORBIDDEN.search(l):
                bad.append('%s:%d: %s' % (p, n, line.strip()))
    return bad


def import_closure(modules):
    """source files of the given modules and of everything they import inside the project (what the theorems depend on);
    files nobody imports (work in progress) are not part of any proof and are not audited"""
    seen, todo = {}, list(modules) + ['Driver']
    while todo:
        m = todo.pop()
        if m in seen:
            continue
        path = os.path.join(LEAN, *m.split('.')) + '.lean'
        if not os.path.exists(path):
            continue
        seen[m] = path
        for line in open(path, encoding='utf-8'):
            mm = re.match(r'\s*(?:public\s+)?import\s+(Inkayaku[\w.]*)', line)
            if mm:
                todo.append(mm.group(1))
    return sorted(seen.values())


def lean_sources():
    out = []
    for sub in ('Model', 'Spec', 'Proofs', 'Props', 'Gen'):
        for root, _, files in os.walk(os.path.join(LEAN, 'Inkayaku', sub)):
            for f in files:
                if f.endswith('.lean'):
                    out.append(os.path.join(root, f))
    return out


def build_lean(modules, need_driver=True):
    """lake build of theorem modules (+ driver). Returns (axiom report, wall seconds).
    axiom report: {theorem: [axioms]} parsed from the `#print axioms` lines of the Props modules."""
    with Lock('build'):
        t = time.time()
        targets = list(modules) + (['modeldriver'] if need_driver else [])
        rc, out = run(['lake', 'build'] + targets, cwd=LEAN, timeout=3600)
        if rc != 0:
            failed = re.findall(r'^- (\S+)$', out, re.M)
            errs = re.findall(r'^error: (.*)$', out, re.M)
            raise Broken('lean-build', json.dumps({'failed_targets': failed, 'errors': errs[:20]}, indent=1) + '\n' + out[-6000:])
        axioms = {}
        for m in re.finditer(r"'([^']+)' depends on axioms: \[([^\]]*)\]", out):
            axioms[m.group(1)] = [a.strip() for a in m.group(2).split(',') if a.strip()]
        for m in re.finditer(r"'([^']+)' does not depend on any axioms", out):
            axioms[m.group(1)] = []
        return axioms, time.time() - t


def audit(prop_modules, axioms, required_theorems):
    """every required theorem must have been printed by #print axioms with allowed axioms only"""
    problems = []
    for thm in required_theorems:
        if thm not in axioms:
            problems.append('theorem %s not found in the build output (renamed, removed or its #print axioms is gone)' % thm)
        else:
            extra = [a for a in axioms[thm] if a not in ALLOWED_AXIOMS]
            if extra:
                problems.append('theorem %s depends on non-standard axioms %s' % (thm, extra))
    bad = source_tokens_ok(import_closure(prop_modules))
    problems += ['forbidden token: ' + b for b in bad]
    return problems


def run_lines(binary, args, lines, timeout=3600):
    data = ('\n'.join(lines) + '\n').encode()
    p = subprocess.run([binary] + args, input=data, stdout=subprocess.PIPE, stderr=subprocess.PIPE, env=ENV, timeout=timeout)
    out = p.stdout.decode('utf-8', 'replace').split('\n')
    if out and out[-1] == '':
        out.pop()
    return p.returncode, out, p.stderr.decode('utf-8', 'replace')


def run_impl(lines, timeout=3600):
    """the implementation side; if the process dies (abort, stack overflow) bisect to the offending line"""
    if lines and all(l.startswith('json ') for l in lines):
        rc, out, err = run_lines(IMPL_LICHESS, [], lines, timeout)
        if rc != 0 or len(out) != len(lines):
            raise Broken('harness-lichess', 'lichess harness failed: ' + err[-2000:])
        return out
    res, i, hangs = [], 0, 0
    while i < len(lines):
        if hangs >= 6:
            # the implementation blocks again and again: the check fails anyway, do not spend hours on it
            res += ['SKIPPED'] * (len(lines) - i)
            break
        rc, out, err = run_lines(IMPL, [], lines[i:], timeout)
        if rc == 0 and len(out) == len(lines) - i:
            res += out
            break
        res += out
        i = len(res)
        if out and out[-1] == 'HANG':
            hangs += 1          # the watchdog of implrunner answered for the blocking request; go on with the rest
            continue
        if i >= len(lines):
            break
        # process died without an answer (abort, stack overflow): retry the offending line alone
        rc1, out1, _ = run_lines(IMPL, [], [lines[i]], 600)
        res.append(out1[0] if rc1 == 0 and len(out1) == 1 else ('HANG' if out1 and out1[-1] == 'HANG' else 'CRASH'))
        i += 1
    return res[:len(lines)]


def run_model(lines, timeout=3600):
    rc, out, err = run_lines(MODEL, ['run'], lines, timeout)
    if rc != 0 or len(out) != len(lines):
        raise Broken('model-driver', 'modeldriver failed (rc=%s, %d/%d answers): %s' % (rc, len(out), len(lines), err[-2000:]))
    return out


def model_gen(args, timeout=600):
    rc, out = run([MODEL, 'gen'] + [str(a) for a in args], timeout=timeout)
    if rc != 0:
        raise Broken('model-gen', out[-2000:])
    return [l for l in out.split('\n') if l]


def fingerprint(anchor_files):
    h = {}
    for f in anchor_files:
        p = os.path.join(REPO, f)
        if os.path.exists(p):
            src = open(p, 'rb').read()
            # token hash: whitespace-insensitive
            h[f] = hashlib.sha256(b' '.join(src.split())).hexdigest()[:16]
    return h


def load_findings():
    p = os.path.join(VERIF, 'known_findings.json')
    if not os.path.exists(p):
        return []
    return json.load(open(p))['findings']


def write_json(path, obj):
    os.makedirs(os.path.dirname(path), exist_ok=True)
    tmp = path + '.tmp'
    with open(tmp, 'w') as f:
        json.dump(obj, f, indent=1, sort_keys=True)
    os.replace(tmp, path)


class Rng:
    """xorshift64* — all random choices of the Python side derive from the seed"""
    def __init__(self, seed):
        self.s = (seed * 0x9E3779B97F4A7C15 + 0xDEADBEEFCAFEF00D) & 0xFFFFFFFFFFFFFFFF or 88172645463325252
        for _ in range(4):
            self.next()
    def next(self):
        x = self.s
        x ^= x >> 12
        x ^= (x << 25) & 0xFFFFFFFFFFFFFFFF
        x ^= x >> 27
        self.s = x
        return (x * 0x2545F4914F6CDD1D) & 0xFFFFFFFFFFFFFFFF
    def below(self, n):
        return (self.next() >> 11) % n if n > 0 else 0
    def pick(self, xs):
        return xs[self.below(len(xs))]
    def chance(self, num, den):
        return self.below(den) < num
    def sample(self, xs, n):
        xs = list(xs)
        for i in range(min(n, len(xs))):
            j = i + self.below(len(xs) - i)
            xs[i], xs[j] = xs[j], xs[i]
        return xs[:n]


def hex_token(s):
    if isinstance(s, str):
        s = s.encode('utf-8')
    return 'x:' + s.hex()
