"""Small independent reference computations used as oracles on the Python side (no chess move generation here)."""

ROOK = [(0, -1), (1, 0), (0, 1), (-1, 0)]
BISHOP = [(1, -1), (1, 1), (-1, 1), (-1, -1)]
KING = ROOK + BISHOP
KNIGHT = [(1, -2), (2, -1), (2, 1), (1, 2), (-1, 2), (-2, 1), (-2, -1), (-1, -2)]
WPAWN = [(-1, -1), (1, -1)]
BPAWN = [(-1, 1), (1, 1)]


def slide(dirs, sq, occ):
    f0, r0 = sq % 8, sq // 8
    att = 0
    for df, dr in dirs:
        f, r = f0 + df, r0 + dr
        while 0 <= f < 8 and 0 <= r < 8:
            s = f + 8 * r
            att |= 1 << s
            if occ >> s & 1:
                break
            f += df
            r += dr
    return att


def steps(ds, sq):
    f0, r0 = sq % 8, sq // 8
    att = 0
    for df, dr in ds:
        f, r = f0 + df, r0 + dr
        if 0 <= f < 8 and 0 <= r < 8:
            att |= 1 << (f + 8 * r)
    return att


def relevant_mask(dirs, sq):
    """ray squares except the last one of each ray"""
    f0, r0 = sq % 8, sq // 8
    m = 0
    for df, dr in dirs:
        f, r = f0 + df, r0 + dr
        while 0 <= f + df < 8 and 0 <= r + dr < 8:
            m |= 1 << (f + 8 * r)
            f += df
            r += dr
    return m


def subsets(mask):
    sub = 0
    while True:
        yield sub
        sub = (sub - mask) & mask
        if sub == 0:
            return


PLACEMENT = set('PNBRQKpnbrqk12345678')
CASTLING = {'-'} | {''.join(c for c, b in zip('KQkq', bits) if b) for bits in
                    [[(i >> k) & 1 for k in range(4)] for i in range(1, 16)]}


def fen_ref(s):
    """Reference FEN reader: returns None for anything outside the FEN grammar, else
    (64 piece chars with '.', side, rights as 4 chars, ep index, halfmove, fullmove)."""
    if s == 'startpos':
        s = 'rnbqkbnr/pppppppp/8/8/8/8/PPPPPPPP/RNBQKBNR w KQkq - 0 1'
    fields = s.split(' ')
    if len(fields) not in (4, 6):
        return None
    ranks = fields[0].split('/')
    if len(ranks) != 8:
        return None
    pieces = []
    for r in ranks:
        if not (1 <= len(r) <= 8) or any(c not in PLACEMENT for c in r):
            return None
        n = 0
        prev_digit = False
        for c in r:
            if c.isdigit():
                if prev_digit:
                    return None
                prev_digit = True
                n += int(c)
                pieces += ['.'] * int(c)
            else:
                prev_digit = False
                n += 1
                pieces.append(c)
        if n != 8:
            return None
    if fields[1] not in ('w', 'b'):
        return None
    if fields[2] not in CASTLING:
        return None
    ep = fields[3]
    if ep == '-':
        epi = 0
    elif len(ep) == 2 and ep[0] in 'abcdefgh' and ep[1] in '12345678':
        epi = (ord(ep[0]) - 97) + 8 * (8 - int(ep[1]))
    else:
        return None
    hm, fm = 0, 1
    if len(fields) == 6:
        for x in fields[4:]:
            if not x or any(c not in '0123456789' for c in x) or int(x) >= 2 ** 32:
                return None
        hm, fm = int(fields[4]), int(fields[5])
    rights = ''.join(c if c in fields[2] else '-' for c in 'KQkq')
    return (''.join(pieces), fields[1], rights, epi, hm, fm)


def fen_canonical(ref):
    """canonical FEN text of a decoded reference tuple"""
    pieces, side, rights, epi, hm, fm = ref
    rows = []
    for r in range(8):
        row, empty = '', 0
        for f in range(8):
            c = pieces[r * 8 + f]
            if c == '.':
                empty += 1
            else:
                if empty:
                    row += str(empty)
                empty = 0
                row += c
        if empty:
            row += str(empty)
        rows.append(row)
    rt = ''.join(c for c in rights if c != '-') or '-'
    ep = '-' if epi == 0 else 'abcdefgh'[epi % 8] + str(8 - epi // 8)
    return '%s %s %s %s %d %d' % ('/'.join(rows), side, rt, ep, hm, fm)


def fifo_ref(cap, ops):
    """abstract FIFO-bounded map: list of (k, v) in first-insertion order"""
    entries = []
    out = []
    for op in ops:
        if op[0] == 'p':
            k, v = op[1], op[2]
            for i, (k2, _) in enumerate(entries):
                if k2 == k:
                    entries[i] = (k, v)
                    break
            else:
                entries.append((k, v))
            while len(entries) > cap:
                entries.pop(0)
        elif op[0] == 'g':
            out.append(next((str(v) for k2, v in entries if k2 == op[1]), '-'))
        elif op[0] == 'c':
            entries = []
        elif op[0] == 'l':
            out.append(str(len(entries)))
    return ' '.join(out + ['|', str(len(entries)), str(len(entries))])


def reps_ref(start, hm, h):
    if start < 4:
        return 0
    n = 1
    for j in range(0, start - 3):
        if j >= start - hm and (start - j) % 2 == 0 and h[j] == h[start]:
            n += 1
    return min(3, n)
