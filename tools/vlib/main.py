"""Driver of one property check (see bin/check)."""
import json, os, sys, time, traceback

from . import core
from .core import Broken, log


class Ctx:
    def __init__(self, pid, tier, seed):
        self.pid, self.tier, self.seed = pid, tier, seed
        self.quick = tier == 'quick'
        self.rng = core.Rng(seed)
        self.notes = []
        self.stats = {}
        self.cache = {}

    def scale(self, quick, thorough):
        return quick if self.quick else thorough


class Case:
    """one request to the implementation (+ how it is judged)

    req    : request line for implrunner
    model  : request line for the Lean model (default: same line); None = not modelled
    spec   : request line for the executable Spec in the Lean driver (answer must equal the impl answer); None = no spec
    oracle : callable(impl_answer) -> None | str  (property evaluated on the implementation alone)
    stream : generator stream name (for the distribution report)
    """
    __slots__ = ('req', 'model', 'spec', 'oracle', 'stream', 'expect', 'panic_ok', 'proj', 'agree')

    def __init__(self, req, stream, model='same', spec=None, oracle=None, expect=None, panic_ok=False, proj=None, agree=None):
        # panic_ok: a panic that the model predicts as well is not a violation (the property has no totality clause)
        # proj: projection applied to the implementation answer before it is compared with the model answer
        self.req, self.stream, self.spec, self.oracle, self.expect, self.panic_ok, self.proj = req, stream, spec, oracle, expect, panic_ok, proj
        # agree: callable(model_answer, impl_answer) -> bool replacing textual equality (used where only part of the answer is
        # determined by the properties, e.g. scores but not the identity of the best move among equally good moves)
        self.agree = agree
        self.model = req if model == 'same' else model


TRIVIAL = {'-', 'err', 'bad-request', 'badfen', 'ERR', 'err same', '0', '.'}


def evaluate(ctx, prop, cases):
    """run all three sides, return (violations, stats)"""
    t = time.time()
    reqs = [c.req for c in cases]
    impl = core.run_impl(reqs)
    mreq = [(i, c.model) for i, c in enumerate(cases) if c.model is not None]
    sreq = [(i, c.spec) for i, c in enumerate(cases) if c.spec is not None]
    mans = core.run_model([r for _, r in mreq] + [r for _, r in sreq])
    model = {i: a for (i, _), a in zip(mreq, mans[:len(mreq)])}
    spec = {i: a for (i, _), a in zip(sreq, mans[len(mreq):])}
    violations = []
    per_stream = {}
    distinct = set()
    nontrivial = set()
    for i, c in enumerate(cases):
        a = impl[i]
        st = per_stream.setdefault(c.stream, {'cases': 0, 'distinct': set(), 'nontrivial': 0, 'impl_vs_oracle': 0, 'model_vs_impl': 0})
        st['cases'] += 1
        st['distinct'].add(c.req)
        if c.req not in distinct:
            distinct.add(c.req)
            if a not in TRIVIAL and not a.startswith('err'):
                nontrivial.add(c.req)
                st['nontrivial'] += 1
        why = None
        if a == 'SKIPPED':
            # the runner blocked repeatedly on earlier requests (each reported as a violation); the rest was not run
            st['skipped'] = st.get('skipped', 0) + 1
            continue
        if a == 'HANG':
            why = 'the implementation did not answer within the watchdog limit (blocked or looping)'
        elif a in ('PANIC', 'CRASH') and not (c.panic_ok and model.get(i) == 'PANIC'):
            why = 'the implementation panicked'
        elif c.expect is not None and a != c.expect:
            why = 'expected answer %r' % c.expect
        elif c.oracle is not None:
            why = c.oracle(a)
        if why is None and i in spec and spec[i] != 'skip' and spec[i] != a:
            why = 'differs from the rules of chess / reference specification'
        if why is not None:
            st['impl_vs_oracle'] += 1
            violations.append({'kind': 'property', 'stream': c.stream, 'input': c.req, 'impl_output': a,
                               'model_output': model.get(i), 'spec_output': spec.get(i), 'why': why})
        elif i in model and not (c.agree(model[i], a) if c.agree else model[i] == (c.proj(a) if c.proj else a)):
            st['model_vs_impl'] += 1
            violations.append({'kind': 'correspondence', 'stream': c.stream, 'input': c.req, 'impl_output': a,
                               'model_output': model[i], 'spec_output': spec.get(i),
                               'why': 'hand-written Lean model and implementation disagree'})
    for st in per_stream.values():
        st['distinct'] = len(st['distinct'])
    stats = {'evaluations': len(cases), 'distinct': len(distinct), 'distinct_nontrivial': len(nontrivial),
             'per_stream': per_stream, 'run_s': round(time.time() - t, 2),
             'traces_validated_against_impl': len(mreq)}
    return violations, stats, impl


def signature(v):
    op = v['input'].split(' ')[0] if v.get('input') else v.get('theorem', '?')
    return '%s:%s:%s' % (v['kind'], v.get('stream', '-'), op)


def main(argv):
    from .props import PROPS
    from . import engine
    engine.register(PROPS)
    if not argv or argv[0] not in PROPS:
        print('usage: check <%s> [--tier quick|thorough] [--replay FILE]' % '|'.join(sorted(PROPS)))
        return 2
    pid = argv[0]
    tier = os.environ.get('VERIF_TIER', 'quick')
    replay = None
    i = 1
    while i < len(argv):
        if argv[i] == '--tier':
            tier = argv[i + 1]; i += 2
        elif argv[i] == '--replay':
            replay = argv[i + 1]; i += 2
        else:
            i += 1
    seed = int(os.environ.get('VERIF_SEED', '1'))
    prop = PROPS[pid]
    ctx = Ctx(pid, tier, seed)
    t0 = time.time()
    violations = []
    proof = {'obligations': 0, 'discharged': 0, 'axioms': {}, 'problems': []}
    stats = {'evaluations': 0, 'distinct_nontrivial': 0, 'per_stream': {}}
    samples = []
    driver_ok = True
    # ---- 1. tie: build the implementation side and regenerate Gen -----------------------------------------
    try:
        ctx.stats['build_impl_s'] = round(core.build_impl(lichess=prop.get('needs_lichess', False), translated_modules=[m for m in prop['modules'] if 'Translated' in m]), 1)
        # a translator that no longer understands the source is a broken tie, but the search for a concrete failing input
        # still runs (against the model generated from the last source the translator understood)
        for what, detail in core.SOFT_TIE:
            violations.append({'kind': 'tie', 'theorem': what, 'why': 'the translator no longer understands the current source; the model is the one of the last translated source', 'detail': detail})
    except Broken as e:
        violations.append({'kind': 'tie', 'theorem': e.what, 'why': 'the harness does not build against the current tree', 'detail': e.detail})
        driver_ok = False
    # ---- 2. the model driver, then the theorems ---------------------------------------------------------------
    if driver_ok:
        try:
            core.build_lean([], need_driver=True)
        except Broken as e:
            driver_ok = False
            violations.append({'kind': 'tie', 'theorem': 'modeldriver', 'why': 'the Lean model no longer builds with the regenerated constants', 'detail': e.detail})
        try:
            axioms, secs = core.build_lean(prop['modules'], need_driver=False)
            proof['axioms'] = {k: v for k, v in axioms.items() if k in prop['theorems']}
            proof['build_s'] = round(secs, 1)
            problems = core.audit(prop['modules'], axioms, prop['theorems'])
            proof['obligations'] = len(prop['theorems']) + prop.get('extra_obligations', 0)
            proof['discharged'] = proof['obligations'] - len([p for p in problems if p.startswith('theorem')])
            proof['problems'] = problems
            if problems:
                violations.append({'kind': 'proof', 'theorem': 'axiom/token audit', 'why': '; '.join(problems[:5])})
        except Broken as e:
            proof['obligations'] = len(prop['theorems']) + prop.get('extra_obligations', 0)
            proof['discharged'] = 0
            proof['problems'] = [e.what]
            v = {'kind': 'proof', 'theorem': ','.join(prop['modules']), 'why': 'a proof obligation of this property no longer checks', 'detail': e.detail}
            # search the implementation for a concrete witness of what the theorem abstracts
            if 'witness_search' in prop:
                try:
                    w = prop['witness_search'](ctx)
                    if w:
                        v.update(w)
                        v['kind'] = 'property'
                except Exception:
                    v['search_error'] = traceback.format_exc()[-1500:]
            violations.append(v)
    # ---- 3. replay mode ---------------------------------------------------------------------------------------
    if replay:
        r = json.load(open(replay))
        lines = [r['input']] if isinstance(r.get('input'), str) else r.get('inputs', [])
        cases = [Case(l, 'replay', spec=None) for l in lines]
        vs, st, impl = evaluate(ctx, prop, cases)
        for l, a in zip(lines, impl):
            print('%s\n  -> %s' % (l, a))
        print('verdict:', 'VIOLATION' if vs or violations else 'ok')
        return 1 if vs or violations else 0
    # ---- 4. correspondence + property oracle ------------------------------------------------------------------
    if driver_ok:
        try:
            cases = prop['cases'](ctx)
            vs, stats, impl = evaluate(ctx, prop, cases)
            if 'post' in prop:
                vs += prop['post'](ctx, cases, impl)
            violations += vs
            # samples: a few actual cases per stream
            seen = {}
            for c, a in zip(cases, impl):
                if seen.get(c.stream, 0) < 2:
                    seen[c.stream] = seen.get(c.stream, 0) + 1
                    samples.append({'stream': c.stream, 'request': c.req[:400], 'impl_answer': a[:400]})
        except Broken as e:
            violations.append({'kind': 'tie', 'theorem': e.what, 'why': 'the correspondence run could not be executed', 'detail': e.detail})
    # ---- 5. findings ------------------------------------------------------------------------------------------
    known = [f for f in core.load_findings() if f.get('property') == pid and f.get('status') == 'known']
    reported, known_hit = [], {}
    for v in violations:
        hit = None
        for f in known:
            import re as _re
            if _re.search(f['match'], (v.get('input') or '') + ' ' + (v.get('impl_output') or '') + ' ' + (v.get('theorem') or '')):
                hit = f
                break
        if hit:
            known_hit[hit['id']] = hit
        else:
            reported.append(v)
    for f in known_hit.values():
        print('KNOWN-FINDING: property=%s %s' % (pid, f['what']))
    # one replay file per distinct signature
    by_sig = {}
    for v in reported:
        by_sig.setdefault(signature(v), []).append(v)
    exit_code = 0
    rdir = os.path.join(core.WORK, 'replays')
    os.makedirs(rdir, exist_ok=True)
    # concrete property failures (replayable inputs) first, then broken correspondences / proofs / ties
    for n, (sig, vs) in enumerate(sorted(by_sig.items(), key=lambda kv: (0 if kv[1][0]['kind'] == 'property' and kv[1][0].get('input') else 1, kv[0]))):
        # the smallest input is the replay
        vs.sort(key=lambda v: len(v.get('input') or ''))
        v = dict(vs[0])
        v['property'] = pid
        v['signature'] = sig
        v['occurrences'] = len(vs)
        v['more_inputs'] = [x.get('input') for x in vs[1:6]]
        path = os.path.join(rdir, '%s-%d.json' % (pid, n))
        core.write_json(path, v)
        concrete = v['kind'] == 'property' and v.get('input')
        # a broken correspondence / proof without a concrete property failure
        tail = '' if concrete else ' no-failing-input-found'
        print('VIOLATION property=%s replay=%s%s' % (pid, path, tail))
        log('%s: %s | input: %s' % (sig, v.get('why'), (v.get('input') or v.get('theorem') or '')[:300]))
        exit_code = 1
    # ---- 6. evidence ------------------------------------------------------------------------------------------
    wall = time.time() - t0
    ev = {
        'property_id': pid, 'tier': tier, 'seed': seed, 'level': 'proof',
        'coverage': {
            'obligations': max(proof['obligations'], 1), 'discharged': proof['discharged'],
            'checker_cmd': 'cd /verif/lean && lake build ' + ' '.join(prop['modules']) + '   (Lean 4.33.0 kernel; axioms audited from #print axioms)',
            'trusted_base': prop.get('trusted_base', []) + [
                'Lean 4.33.0 kernel', 'axioms: propext, Classical.choice, Quot.sound only (audited on every run)',
                'dumpconsts (Rust) regenerating Inkayaku/Gen from the current build', 'the line-protocol harness and generators (differential testing)']
                + (['rs2lean (/verif/translator) translating the Rust functions named in Props/Translated to Lean on every run, and the semantics it gives to the Rust subset (Gen/Rs/Prelude.lean header)']
                   if any('Translated' in m for m in prop['modules']) else []),
            'translated_modules': [m for m in prop['modules'] if 'Translated' in m],
            'theorems': proof['axioms'], 'proof_problems': proof['problems'],
            'evaluations': stats.get('evaluations', 0), 'distinct_nontrivial': stats.get('distinct_nontrivial', 0),
            'rule': prop.get('rule', 'cases are generated by the Lean model / Python generators from VERIF_SEED; distinct = distinct request lines; '
                                     'non-trivial = the implementation answer is not an empty/error answer'),
            'traces_validated_against_impl': stats.get('traces_validated_against_impl', 0),
            'per_stream': stats.get('per_stream', {}), 'samples': samples[:12],
            'fingerprints': core.fingerprint(prop.get('anchors', [])),
            'notes': ctx.notes, 'timing': ctx.stats,
        },
        'assumptions': prop.get('assumptions', []),
        'wall_s': round(wall, 2), 'violations': len(reported),
    }
    core.write_json(os.path.join(core.EVIDENCE, pid + '.json'), ev)
    log('%s %s: %d cases, %d distinct non-trivial, %d/%d obligations, %d violations, %.1fs' % (
        pid, tier, ev['coverage']['evaluations'], ev['coverage']['distinct_nontrivial'], proof['discharged'], proof['obligations'], len(reported), wall))
    return exit_code
