"""Engine-level cases (C07 C08 C09 C10 C11 C16): in-process sessions through the hooks, and the real binary over pipes."""
import os, re, subprocess, time

from . import core
from .main import Case
from .props import positions, games, corpus, ftok, flip_fen, flip_uci, project_session, wf_corpus, STARTFEN

START = ftok(STARTFEN)


class Plan:
    """a session under construction: commands + what the oracle has to know about each"""
    def __init__(self, stream):
        self.stream = stream
        self.cmds = []      # token lists
        self.meta = []      # dicts
        self.cur = None     # index into the position table
        self.dense = False  # poll period lowered below the engine's 100 000 by a `poll` command

    def pos(self, root, moves, pidx):
        self.cmds.append(['pos', root] + list(moves))
        self.meta.append({'kind': 'pos'})
        self.cur = pidx

    def go(self, args, searchmoves=None, interrupt=None):
        toks = list(args)
        if searchmoves:
            toks += ['searchmoves'] + list(searchmoves)
        if interrupt and interrupt[0] == 'midgo':
            # ('midgo', n, [messages waiting behind the go])
            self.cmds.append(['midgo', str(interrupt[1]), ','.join(interrupt[2]) or '-'] + toks)
            cut = any(m in ('stop', 'quit') for m in interrupt[2])
        elif interrupt:
            self.cmds.append([interrupt[0], str(interrupt[1])] + toks)
            cut = True
        else:
            self.cmds.append(['go'] + toks)
            cut = False
        self.meta.append({'kind': 'go', 'pidx': self.cur, 'searchmoves': list(searchmoves) if searchmoves else None,
                          'dense_poll': self.dense or bool(interrupt),
                          'depth': int(args[args.index('depth') + 1]) if 'depth' in args else None, 'interrupted': cut})

    def simple(self, *toks):
        if toks[0] == 'poll':
            self.dense = toks[1] != '-' and int(toks[1]) < 100000
        self.cmds.append(list(toks))
        self.meta.append({'kind': toks[0], 'pidx': self.cur})

    def request(self):
        return 'session ' + ' ; '.join(' '.join(c) for c in self.cmds)


class PosTable:
    """positions reached by (root, moves): FEN after and legal moves, computed by the Spec side of the driver"""
    def __init__(self):
        self.keys = []
        self.index = {}
        self.fen = []
        self.legal = []

    def add(self, root, moves):
        k = (root, tuple(moves))
        if k not in self.index:
            self.index[k] = len(self.keys)
            self.keys.append(k)
        return self.index[k]

    def resolve(self):
        reqs = ['spec:makeall %s %s' % (r, ' '.join(core.hex_token(m) for m in ms)) for r, ms in self.keys]
        ans = core.run_model(reqs) if reqs else []
        self.fen = [a[3:] if a.startswith('ok ') else None for a in ans]
        reqs2 = ['spec:legal %s' % f for f in self.fen if f]
        ans2 = iter(core.run_model(reqs2) if reqs2 else [])
        self.legal = [(lambda a: [] if a == '-' else a.split(','))(next(ans2)) if f else None for f in self.fen]


def parse_go_answer(tokens):
    infos, bests = [], []
    for t in tokens:
        if t.startswith('I:'):
            f = t.split(':')
            infos.append({'depth': None if f[1] == '-' else int(f[1]), 'time': None if f[2] == '-' else int(f[2]),
                          'nodes': None if f[3] == '-' else int(f[3]), 'score': f[4], 'pv': [] if f[5] == '-' else f[5].split(',')})
        elif t.startswith('B:'):
            f = t.split(':')
            bests.append((f[1], f[2]))
    return infos, bests


def session_oracle(plan, table):
    def f(a):
        parts = a.split(' ; ')
        if len(parts) != len(plan.cmds):
            return 'malformed session answer'
        for part, meta in zip(parts, plan.meta):
            if meta['kind'] == 'board':
                want = table.fen[meta['pidx']] if meta['pidx'] is not None else None
                if want and part != 'F:' + want:
                    return 'the engine holds %s instead of the position %s given by the last position command' % (part[2:], want)
            if meta['kind'] != 'go':
                continue
            toks = part.split(' ')
            infos, bests = parse_go_answer(toks)
            if len(bests) != 1:
                return 'go answered by %d bestmove messages' % len(bests)
            if not toks[-1].startswith('B:'):
                return 'bestmove is not the last message of the search'
            bm, pm = bests[0]
            # "…answers with exactly one bestmove taken from the last completed iteration": a search none of whose iterations
            # completed (aborted inside iteration 1, no legal root move) has nothing to take a move from
            if bm != '0000' and not any(inf['depth'] is not None and inf['depth'] >= 1 and inf['score'] != '-' for inf in infos):
                return 'bestmove %s announced although no iteration of this search completed (it is not taken from the last completed iteration of THIS search)' % bm
            legal = table.legal[meta['pidx']] if meta['pidx'] is not None else None
            if legal is not None:
                allowed = [m for m in legal if not meta['searchmoves'] or m in meta['searchmoves']]
                completed = [inf for inf in infos if inf['depth'] is not None and inf['depth'] >= 1 and inf['score'] != '-']
                # With the engine's own poll period (100 000 nodes) the first iteration (< 220 nodes) can never be
                # interrupted.  Only under the verification hook's lowered poll period can a stop / time-out arrive before
                # any iteration completed; then "the last completed iteration" does not exist and the null move is correct.
                artificial = (meta['interrupted'] or meta.get('dense_poll')) and not completed
                if allowed and bm == '0000' and not artificial:
                    return 'null move answered although the position has legal moves'
                if allowed and bm == '0000' and artificial:
                    continue
                if allowed and bm not in allowed:
                    return 'bestmove %s is not a legal move of the position (or not among searchmoves)' % bm
                if not allowed and bm != '0000':
                    return 'bestmove %s although no legal move is available' % bm
            if bm == '0000' and pm != '-':
                return 'ponder move %s announced together with the null move' % pm
            # monotone depth / nodes / time within one search
            last = {'depth': -1, 'nodes': -1, 'time': -1}
            for inf in infos:
                for k in last:
                    if inf[k] is not None:
                        if inf[k] < last[k]:
                            return 'reported %s decreases within one search (%d after %d)' % (k, inf[k], last[k])
                        last[k] = inf[k]
            scored = [inf for inf in infos if inf['depth'] is not None and inf['score'] != '-']
            if 'expect_mate' in meta and (not scored or scored[-1]['score'] != 'mate%d' % meta['expect_mate']):
                return 'forced mate in %d not reported (last score %s)' % (meta['expect_mate'], scored[-1]['score'] if scored else '-')
            if 'expect_kind' in meta and scored:
                sc = scored[-1]['score']
                val = int(sc[2:]) if sc.startswith('cp') else (10 ** 6 if sc.startswith('mate') and not sc.startswith('mate-') else -10 ** 6)
                if meta['expect_kind'] == 'win' and val < 500:
                    return 'a won position with fewer than 100 reversible plies is scored %s (fifty-move draw applied too early?)' % sc
                if meta['expect_kind'] == 'draw' and val != 0:
                    return 'a position with 100 or more reversible plies is scored %s instead of the fifty-move draw' % sc
            if 'expect_score' in meta and (not scored or scored[-1]['score'] != meta['expect_score']):
                return 'expected score %s, reported %s' % (meta['expect_score'], scored[-1]['score'] if scored else '-')
            withpv = [inf for inf in infos if inf['pv']]
            if bm != '0000' and withpv:
                pv = withpv[-1]['pv']
                if pv[0] != bm:
                    return 'bestmove %s is not the first move of the last reported PV %s' % (bm, ','.join(pv))
                if (pv[1] if len(pv) > 1 else '-') != pm:
                    return 'ponder move %s is not the second move of the last reported PV %s' % (pm, ','.join(pv))
        return None
    return f


def pv_checks(plan, table, answer):
    """(fen, pv, score) triples whose PV has to be a legal line (and end in mate when a positive mate is announced)"""
    out = []
    parts = answer.split(' ; ')
    if len(parts) != len(plan.cmds):
        return out
    for part, meta in zip(parts, plan.meta):
        if meta['kind'] != 'go' or meta['pidx'] is None or table.fen[meta['pidx']] is None:
            continue
        infos, _ = parse_go_answer(part.split(' '))
        for inf in infos:
            if inf['pv']:
                out.append((table.fen[meta['pidx']], inf['pv'], inf['score']))
    return out


def sessions_agree(model_ans, impl_ans, scores=True):
    """Correspondence of the search model and the engine on what the properties determine: the board read-backs, and for
    every go the scores of the completed iterations of depth <= 3 (exact minimax values: independent of move order,
    killers, PV hints and the transposition table by theorem C08) on the common prefix of completed iterations (how many
    iterations complete before a stop / time-out depends on node counts, i.e. on move order), and the number of bestmove
    messages.  The identity of the best move and of the PV among equally valued lines is NOT compared: it depends on the
    generation order, which no property constrains; the oracles check legality, searchmoves, value and PV validity instead."""
    m = model_ans.split(' ; ')
    i = project_session(impl_ans).split(' ; ')
    if len(m) != len(i):
        return False
    for a, b in zip(m, i):
        if b.startswith('T:') or b == 'T-':
            continue        # transposition-table read-back: judged by tt_post / tt_presence_post, not part of the model's answer
        ta, tb = a.split(' '), b.split(' ')
        if any(t.startswith('D:') or t.startswith('B:') for t in ta + tb):
            # depth -> score of the completed iterations (an aborted iteration repeats the previous depth and score)
            sa = {t.split(':')[1]: t.split(':')[2] for t in ta if t.startswith('D:') and t.split(':')[2] != '-' and 1 <= int(t.split(':')[1]) <= 3}
            sb = {t.split(':')[1]: t.split(':')[2] for t in tb if t.startswith('D:') and t.split(':')[2] != '-' and 1 <= int(t.split(':')[1]) <= 3}
            k = len(set(sa) & set(sb))
            # scores are compared only for the properties that determine them (C08, C10, C11, C06); C07 / C09 / C16 speak about
            # the number, legality and provenance of bestmove messages, the held position and the shape of the stream
            if scores and any(sa[d] != sb[d] for d in set(sa) & set(sb)):
                return False
            if sum(t.startswith('B:') for t in ta) != sum(t.startswith('B:') for t in tb):
                return False
            # a null move on one side only
            na = [t for t in ta if t.startswith('B:0000')]
            nb = [t for t in tb if t.startswith('B:0000')]
            if bool(na) != bool(nb) and k > 0:
                return False
        elif a != b:
            return False
    return True


def sessions_agree_strict(model_ans, impl_ans):
    """the search model mirrors move ordering, killers, PV hints and the table exactly, so on the unchanged code model and engine
    agree on EVERY depth's score and on the best move; used only in the thorough tier (a harmless reordering of equal moves breaks
    it and is then reported as a broken correspondence without failing input)"""
    return model_ans == project_session(impl_ans)


def deep_strict_stream(ctx, plans, table, n):
    if ctx.tier != 'thorough':
        return
    for p in pick_positions(ctx, n):
        npieces = sum(1 for ch in p.split('_')[0] if ch.isalpha())
        if npieces > 8:
            continue
        idx = table.add(p, [])
        pl = Plan('deep-search-model-equality')
        pl.strict = True
        pl.pos(p, [], idx)
        pl.go(['depth', ctx.rng.pick(['4', '5'])])
        pl.go(['depth', '3'])
        plans.append(pl)


def build_cases(ctx, plans, table, scores=True):
    table.resolve()
    follow = [pl for pl in plans if getattr(pl, 'follow', False)]
    if follow:
        # second leg of the descending-depth sessions: a position in the tree of the one searched before
        for pl in follow:
            legal = table.legal[pl.cur] if pl.cur is not None else None
            if legal:
                root, moves = table.keys[pl.cur]
                m = ctx.rng.pick(legal)
                idx = table.add(root, list(moves) + [m])
                pl.pos(root, list(moves) + [m], idx)
                pl.go(['depth', '1'])
                pl.go(['depth', '2'])
        table.resolve()
    resolve_searchmoves(ctx, plans, table)
    cases = []
    for pl in plans:
        if getattr(pl, 'nomodel', False):
            # expectation comes from a corpus validated by the verified evaluator: the (slow) search model is not run
            cases.append(Case(pl.request(), pl.stream, model=None, oracle=session_oracle(pl, table)))
        else:
            cases.append(Case(pl.request(), pl.stream, oracle=session_oracle(pl, table),
                              agree=sessions_agree_strict if getattr(pl, 'strict', False) else (sessions_agree if scores else (lambda m, i: sessions_agree(m, i, scores=False)))))
    return cases


def engine_post(plans, table):
    def post(ctx, cases, impl):
        vs = []
        checks = []
        by_req = {pl.request(): pl for pl in plans}
        for c, a in zip(cases, impl):
            pl = by_req.get(c.req)
            if pl is None:
                continue
            for fen, pv, score in pv_checks(pl, table, a):
                checks.append((c.req, fen, pv, score))
        uniq = {}
        for req, fen, pv, score in checks:
            uniq.setdefault((fen, tuple(pv)), (req, score))
        keys = list(uniq)
        ans = core.run_model(['spec:makeall %s %s' % (fen, ' '.join(core.hex_token(m) for m in pv)) for fen, pv in keys]) if keys else []
        mates = []
        for (fen, pv), a in zip(keys, ans):
            req, score = uniq[(fen, pv)]
            if not a.startswith('ok '):
                vs.append({'kind': 'property', 'stream': 'pv-legal-line', 'input': req, 'impl_output': 'pv ' + ','.join(pv),
                           'why': 'a reported principal variation is not a legal line from %s' % fen})
            elif score.startswith('mate') and int(score[4:]) > 0:
                n = int(score[4:])
                if len(pv) != 2 * n - 1:
                    vs.append({'kind': 'property', 'stream': 'mate-pv', 'input': req, 'impl_output': '%s pv %s' % (score, ','.join(pv)),
                               'why': 'mate %d announced with a PV of %d plies' % (n, len(pv))})
                else:
                    mates.append((req, score, pv, a[3:]))
        if mates:
            ans2 = core.run_model(['spec:terminal %s' % m[3] for m in mates])
            for (req, score, pv, fen), t in zip(mates, ans2):
                if t != 'mate':
                    vs.append({'kind': 'property', 'stream': 'mate-pv', 'input': req, 'impl_output': '%s pv %s' % (score, ','.join(pv)),
                               'why': 'announced mate but the PV ends in a position that is not checkmate'})
        ctx.notes.append('PVs validated as legal lines by the rules Spec: %d (mate PVs: %d)' % (len(keys), len(mates)))
        return vs
    return post


# ------------------------------------------------------------------------------------------------------ streams

def pick_positions(ctx, n, heavy_ok=False):
    pos = positions(ctx, max(n * 3, 600))
    out = []
    for p in pos:
        # keep the quick tier fast: prefer positions with few pieces for deep searches
        npieces = sum(1 for ch in p.split('_')[0] if ch.isalpha())
        # searches make moves: stay clear of the 12-bit undo field of the half-move clock (C03 bounds it by 4095)
        if int(p.split('_')[4]) > 3900:
            continue
        if heavy_ok or npieces <= 14:
            out.append(p)
        if len(out) >= n:
            break
    return out


def limits_stream(ctx, plans, table, n):
    """C07: every kind of limit, with/without searchmoves, zero increments, near-zero time, stop under go infinite"""
    pos = pick_positions(ctx, n) + [START] * 3
    table_idx = {p: table.add(p, []) for p in pos}
    lim = [['depth', '0'], ['depth', '1'], ['depth', '2'], ['depth', '3'], ['movetime', '0'], ['movetime', '1'], ['movetime', '7'],
           ['wtime', '60000', 'btime', '60000', 'winc', '0', 'binc', '0'], ['wtime', '1', 'btime', '1'],
           ['wtime', '1000', 'btime', '1000', 'winc', '10', 'binc', '10'], ['wtime', '30000', 'btime', '5', 'winc', '500', 'binc', '0', 'movestogo', '10'],
           ['depth', '2', 'nodes', '10', 'mate', '3'], ['binc', '100', 'winc', '100', 'btime', '15000', 'wtime', '15000', 'depth', '3'],
           ['ponder', 'depth', '1'], ['movetime', '5', 'depth', '3'],
           # the mover's clock is smaller than the increment-derived budget (factors 0.25 / 0.5 / 0.75 / 1 of the increment)
           ['wtime', '300', 'btime', '300', 'winc', '2000', 'binc', '2000'], ['wtime', '40', 'btime', '40', 'winc', '1000', 'binc', '1000'],
           ['wtime', '2500', 'btime', '2500', 'winc', '6000', 'binc', '6000'], ['wtime', '11000', 'btime', '11000', 'winc', '16000', 'binc', '16000'],
           ['wtime', '0', 'btime', '0', 'winc', '50', 'binc', '50'], ['wtime', '21000', 'btime', '21000', 'winc', '22000', 'binc', '22000', 'depth', '2']]
    for i, p in enumerate(pos):
        pl = Plan('limits')
        pl.simple('clock', ctx.rng.pick(['200000', '1000000', '5000000', '1000000']))
        pl.simple('poll', ctx.rng.pick(['100000', '64', '9', '500']))
        pl.pos(p, [], table_idx[p])
        for _ in range(2):
            args = ctx.rng.pick(lim)
            sm = None
            legal_known = ctx.rng.chance(1, 3)
            if ctx.rng.chance(1, 10):
                # searchmoves that match no legal move: the root buffer is empty, the answer is the null move
                pl.go(args, searchmoves=[ctx.rng.pick(['a1a1', 'h8h8', 'e1e8q'])])
            else:
                pl.go(args, searchmoves=('?' if legal_known else None))
        plans.append(pl)


def resolve_searchmoves(ctx, plans, table):
    """replace the '?' placeholder by a random non-empty subset of the legal moves"""
    for pl in plans:
        for cmd, meta in zip(pl.cmds, pl.meta):
            if meta['kind'] == 'go' and meta['searchmoves'] == ['?']:
                legal = table.legal[meta['pidx']] or []
                i = cmd.index('searchmoves')
                if legal:
                    k = 1 + ctx.rng.below(min(4, len(legal)))
                    sub = sorted({ctx.rng.pick(legal) for _ in range(k)})
                    cmd[i + 1:] = sub
                    meta['searchmoves'] = sub
                else:
                    del cmd[i:]
                    meta['searchmoves'] = None


def interrupt_stream(ctx, plans, table, npos, maxn):
    """C09: every poll point N of small searches, stop and quit, then read the board back and search again"""
    pos = pick_positions(ctx, npos) + [START]
    for p in pos:
        idx = table.add(p, [])
        depth = ctx.rng.pick(['2', '3'])
        ns = list(range(1, maxn + 1)) if p == START or ctx.rng.chance(1, 2) else sorted({1 + ctx.rng.below(maxn * 4) for _ in range(maxn // 3)})
        for n in ns:
            pl = Plan('stop-at-every-node')
            pl.pos(p, [], idx)
            pl.go(['depth', depth], interrupt=('stopgo', n))
            pl.simple('board')
            pl.go(['depth', '1'])
            plans.append(pl)
        for n in ns[::7]:
            pl = Plan('quit-at-node')
            pl.pos(p, [], idx)
            pl.go(['infinite'], interrupt=('quitgo', n))
            plans.append(pl)
        # an earlier COMPLETED search, then a search aborted inside its first iteration: nothing of the earlier search may leak
        for n in sorted({1, 2, 1 + ctx.rng.below(6), 3 + ctx.rng.below(12)}):
            pl = Plan('abort-in-first-iteration-after-completed-search')
            pl.pos(p, [], idx)
            pl.go(['depth', ctx.rng.pick(['1', '2', '3'])])
            pl.go(['infinite'], interrupt=('stopgo', n))
            pl.simple('board')
            pl.go(['depth', '1'])
            plans.append(pl)
        # several consecutive interrupted searches
        pl = Plan('consecutive-interrupts')
        pl.pos(p, [], idx)
        for _ in range(3):
            pl.go(['infinite'], interrupt=('stopgo', 1 + ctx.rng.below(maxn * 2)))
        pl.simple('board')
        pl.go(['depth', '1'])
        plans.append(pl)
        # move time running out in the middle of an iteration (virtual clock, dense polling)
        pl = Plan('movetime-expiry')
        pl.simple('clock', '1000000')
        pl.simple('poll', str(1 + ctx.rng.below(40)))
        pl.pos(p, [], idx)
        pl.go(['movetime', str(1 + ctx.rng.below(60)), 'depth', '4'])
        pl.simple('board')
        pl.go(['depth', '1'])
        plans.append(pl)


def pending_stream(ctx, plans, table, n):
    """messages of every kind waiting in the channel behind a go (ucinewgame, debug, ponderhit, a position command, stop,
    quit, in any order): what the search consumes at its first poll must not disturb the running search (node/time/depth
    monotone, one bestmove, board kept), what it leaves is handled by idle"""
    pos = pick_positions(ctx, n) + [START]
    alt = pick_positions(ctx, 5)
    kinds = ['new', 'debugon', 'debugoff', 'ponderhit', 'new', 'new']
    for p in pos:
        idx = table.add(p, [])
        for _ in range(3):
            pl = Plan('pending-messages')
            pl.pos(p, [], idx)
            pl.go(['depth', ctx.rng.pick(['1', '2'])])          # state from an earlier search (PV, killers, metrics)
            msgs = [ctx.rng.pick(kinds) for _ in range(1 + ctx.rng.below(3))]
            withpos = ctx.rng.chance(1, 4)
            if withpos:
                msgs.insert(ctx.rng.below(len(msgs) + 1), 'pos=' + ctx.rng.pick(alt))
            end = ctx.rng.pick(['stop', 'stop', 'none', 'quit'])
            if end != 'none':
                msgs.append(end)
                if ctx.rng.chance(1, 3):
                    msgs.append(ctx.rng.pick(kinds))
            n_poll = 1 + ctx.rng.below(120)
            pl.go(['depth', ctx.rng.pick(['2', '3'])] if end == 'none' else ['infinite'], interrupt=('midgo', n_poll, msgs))
            if end != 'quit':
                if withpos:
                    pl.cur = None       # the position message may have been left to idle: no legality oracle, model comparison only
                pl.simple('board')
                pl.go(['depth', '1'])
                pl.go(['depth', '2'])
            plans.append(pl)


def refen_stream(ctx, plans, table, n):
    """C10: the same game handed over twice in one session — first as a move list, then (as GUIs do) as the FEN of a later
    position with its true clocks plus the remaining moves.  Only the history supplied with the LAST position command counts:
    hashes recorded for the first command lie inside the half-move window of the second and must not be counted."""
    lines = core.model_gen(['repgames', ctx.seed + 17, n])
    contempt = gen_int('contempt')
    nthree = nfresh = 0
    for l in lines:
        toks = l.split(' ')
        bar = toks.index('|')
        root, prefix, cyc = toks[1], toks[2:bar], toks[bar + 1:]
        full = prefix + cyc * 3
        for rep in range(2):
            k1 = len(prefix) + len(cyc) * ctx.rng.pick([1, 2]) + ctx.rng.below(len(cyc))
            j = len(prefix) + ctx.rng.below(k1 - len(prefix) + 1)          # FEN taken at ply j (inside the reversible stretch)
            k2 = min(j + ctx.rng.below(2 * len(cyc)), len(full) - 1)
            a = core.run_model(['spec:makeall %s %s' % (root, ' '.join(core.hex_token(m) for m in full[:j]))])[0]
            if not a.startswith('ok '):
                continue
            fenj = a[3:]
            if int(fenj.split('_')[4]) == 0:
                continue
            keys = position_keys(fenj, full[j:k2 + 1])
            pl = Plan('history-of-last-position-command-only')
            idx1 = table.add(root, full[:k1])
            pl.pos(root, full[:k1], idx1)
            pl.go(['depth', '1'])
            if ctx.rng.chance(1, 2):
                pl.simple('new')
            idx2 = table.add(fenj, full[j:k2])
            pl.pos(fenj, full[j:k2], idx2)
            pl.go(['depth', '1', 'searchmoves', full[k2]])
            pl.meta[-1]['searchmoves'] = [full[k2]]
            after = keys[-1]
            if after is not None and keys.count(after) >= 3:
                pl.meta[-1]['expect_score'] = 'cp%d' % contempt
                nthree += 1
            else:
                pl.meta[-1]['fresh_value'] = True      # valued by the verified evaluator (no repetition in THIS history)
                nfresh += 1
            plans.append(pl)
    ctx.notes.append('re-sent-FEN sessions: %d with a threefold inside the second history, %d without (score must be the minimax value)' % (nthree, nfresh))


def depth_stream(ctx, plans, table, n, stream='fixed-depth'):
    pos = pick_positions(ctx, n)
    for p in pos:
        idx = table.add(p, [])
        pl = Plan(stream)
        pl.pos(p, [], idx)
        pl.go(['depth', ctx.rng.pick(['1', '2', '3', '3'])])
        plans.append(pl)


def descending_stream(ctx, plans, table, n):
    """C08: the exact value of depth d must not depend on what an EARLIER search of the same engine instance left behind
    (table, killers, PV): deeper search first, then shallower ones of the same position and of a position in its tree"""
    pos = pick_positions(ctx, n)
    for p in pos:
        idx = table.add(p, [])
        pl = Plan('descending-depth')
        pl.pos(p, [], idx)
        for d in ctx.rng.pick([['3', '1', '2'], ['3', '2', '1'], ['2', '1'], ['3', '1']]):
            pl.go(['depth', d])
        pl.follow = True        # build_cases appends `pos p <legal move>; go depth 1; go depth 2` once legal moves are known
        plans.append(pl)


def pv_follow_stream(ctx, plans, table, n):
    """C08 / state carried between searches along the engine's OWN line: deeper search, then the game follows the first two
    moves of the reported PV (so the next go takes the PV-continuation path: previous PV kept, ponder move played), then shallower
    searches whose values must still be the exact minimax values of THAT position (judged by pv_follow_post from the FEN the
    engine holds; the search model is not run: which PV is reported among equal lines is not determined)"""
    pos = pick_positions(ctx, n)
    for p in pos:
        idx = table.add(p, [])
        npieces = sum(1 for ch in p.split('_')[0] if ch.isalpha())
        pl = Plan('pv-follow')
        pl.nomodel = True
        pl.pos(p, [], idx)
        pl.go(['depth', '4' if npieces <= 8 else '3'])
        pl.simple('pospv', ctx.rng.pick(['2', '2', '1', '3']))
        pl.cur = None
        pl.go(['depth', '1'])
        pl.go(['depth', '2'])
        pl.simple('pospv', '2')
        pl.go(['depth', '1'])
        plans.append(pl)


def pv_follow_post(ctx, cases, impl):
    vs, reqs, owners = [], [], []
    for c, a in zip(cases, impl):
        if c.stream != 'pv-follow':
            continue
        parts = a.split(' ; ')
        cmds = c.req[len('session '):].split(' ; ')
        if len(parts) != len(cmds):
            continue
        fen = None
        for cmd, part in zip(cmds, parts):
            if cmd.startswith('pospv') and part.startswith('F:'):
                fen = part[2:]
            elif cmd.startswith('go depth') and fen is not None:
                infos, bests = parse_go_answer(part.split(' '))
                d = int(cmd.split(' ')[2])
                fin = [i for i in infos if i['depth'] == d and i['score'] != '-']
                if fin:
                    reqs.append('spec-search %s %d' % (fen, d))
                    owners.append((c.req, d, fin[-1]['score'], bests[0][0] if bests else None, fen))
    uniq = list(dict.fromkeys(reqs))
    ans = dict(zip(uniq, core.run_model(uniq))) if uniq else {}
    for r, (req, d, score, bm, fen) in zip(reqs, owners):
        a = ans[r]
        if a in ('nomoves', 'bad-request', 'badfen'):
            continue
        want, bestset = a.split(' ')[0], (a.split(' ')[1].split(',') if ' ' in a else [])
        if score != want:
            vs.append({'kind': 'property', 'stream': 'pv-follow', 'op': 'session', 'input': req, 'impl_output': 'position %s depth %d score %s' % (fen, d, score), 'spec_output': a,
                       'why': 'after the game followed the engine\'s own PV, the depth-%d score %s of %s differs from the exact minimax value %s' % (d, score, fen, want)})
        elif bm and bm != '0000' and bm not in bestset:
            vs.append({'kind': 'property', 'stream': 'pv-follow', 'op': 'session', 'input': req, 'impl_output': 'bestmove %s' % bm, 'spec_output': a,
                       'why': 'best move %s of %s does not attain the minimax value (moves that do: %s)' % (bm, fen, ','.join(bestset))})
    ctx.notes.append('searches after following the engine\'s own PV compared with the verified evaluator: %d' % len(reqs))
    return vs


def Plan_badpos(pl, root, moves):
    """a position command the engine rejects (its move list contains an illegal move): the held position must stay"""
    pl.cmds.append(['pos', root] + list(moves))
    pl.meta.append({'kind': 'badpos'})


def rejected_position_stream(ctx, plans, table, n):
    """a rejected `position` command (illegal move in its list) must leave position, history AND the hashes the search
    threads down the tree untouched: board read-back, search result, and the transposition table read back through the hook
    (`tt`: entries are looked up under the RECOMPUTED hash of the held position and its successors)"""
    gs = games(ctx, n, 12)
    # a go before any successful position command: the engine searches its default board (the start position); the hashes
    # the search threads down the tree must be those of that board
    for variant in range(3):
        pl = Plan('rejected-position')
        pl.cur = table.add(START, [])
        if variant == 1:
            Plan_badpos(pl, START, ['e2e4', 'a1a1'])
        elif variant == 2:
            pl.simple('new')
            Plan_badpos(pl, gs[0][0] if gs else START, ['zzzz'])
        pl.simple('board')
        pl.go(['depth', '2'])
        pl.meta[-1]['fresh_value'] = True
        pl.simple('tt', '1')
        plans.append(pl)
    for g in gs:
        root, moves = g[0], g[1:]
        if len(moves) < 4:
            continue
        k = 1 + ctx.rng.below(len(moves) - 2)
        idx = table.add(root, moves[:k])
        pl = Plan('rejected-position')
        if ctx.rng.chance(1, 2):
            pl.simple('new')
        pl.pos(root, moves[:k], idx)
        bad = ctx.rng.pick(['a1a1', 'h4h4', 'b8b1q', 'e1e8n', 'zzzz'])      # illegal in EVERY position (null move, promotion across the board, not a move)
        variant = ctx.rng.below(3)
        if variant == 0:      # rejected at the first move
            Plan_badpos(pl, root, [bad])
        elif variant == 1:    # a legal prefix longer than the held line, then an illegal move
            Plan_badpos(pl, root, moves[:min(k + 2, len(moves))] + [bad])
        else:                 # another root, legal prefix, illegal move
            other = ctx.rng.pick(gs)
            Plan_badpos(pl, other[0], list(other[1:1 + ctx.rng.below(3)]) + [bad])
        pl.simple('board')
        pl.go(['depth', '2'])
        pl.meta[-1]['fresh_value'] = True
        pl.simple('tt', '1')
        plans.append(pl)


def tt_presence_post(ctx, cases, impl):
    """after `go depth 2` with a centipawn score the table must hold the root under the hash recomputed from the held
    position (the search stores every completed non-mate node under the hash it threads down the tree)"""
    vs = []
    n = 0
    for c, a in zip(cases, impl):
        if c.stream != 'rejected-position':
            continue
        parts = a.split(' ; ')
        goparts = [p for p in parts if ' B:' in p or p.startswith('B:')]
        if not goparts or not parts[-1].startswith('T'):
            continue
        infos, bests = parse_go_answer(goparts[-1].split(' '))
        scored = [i for i in infos if i['depth'] == 2 and i['score'].startswith('cp')]
        if not scored or not bests or bests[0][0] == '0000':
            continue
        n += 1
        ents = [t.split(':') for t in parts[-1].split(' ') if t.startswith('T:')]
        if not any(e[1] == '-' for e in ents):
            vs.append({'kind': 'property', 'stream': c.stream, 'op': 'session', 'input': c.req, 'impl_output': parts[-1][:300],
                       'why': 'after a completed depth-2 search the transposition table holds no entry under the recomputed hash of the searched position: the hash the search threads down the tree is not the hash of the position'})
    ctx.notes.append('table presence of the root under its recomputed hash checked after %d searches' % n)
    return vs


def mate_stream(ctx, plans, table):
    for line in corpus('mates.txt'):
        fen, n = line.rsplit(' ', 1)
        for f in (ftok(fen), flip_fen(ftok(fen))):
            idx = table.add(f, [])
            pl = Plan('forced-mates')
            pl.pos(f, [], idx)
            pl.go(['depth', str(2 * int(n) - 1)])
            pl.meta[-1]['expect_mate'] = int(n)
            plans.append(pl)


def mate_corpus_stream(ctx, plans, table, n, flip_stream_name=None):
    """corpus/mates_generated.txt: `fen N` — the side to move forces mate in N (N = 2, 3); every entry was validated by the
    verified minimax evaluator when the corpus was built (tools/build_mate_corpus.py), so the expectation does not depend on
    the engine or on the search model.  Searched at depth 2N-1, position and colour-flipped twin."""
    ents = [l.rsplit(' ', 1) for l in corpus('mates_generated.txt')]
    ents = [(ftok(f), int(k)) for f, k in ents if k.isdigit()]
    if len(ents) > n:
        ents = ctx.rng.sample(ents, n)
    for f, k in ents:
        for q in (f, flip_fen(f)):
            idx = table.add(q, [])
            pl = Plan(flip_stream_name or 'forced-mates-corpus')
            pl.nomodel = True
            pl.pos(q, [], idx)
            pl.go(['depth', str(2 * k - 1)])
            pl.meta[-1]['expect_score'] = 'mate%d' % k
            plans.append(pl)
    ctx.notes.append('validated forced-mate corpus positions searched: %d (x2 with flips)' % len(ents))


def mated_corpus_stream(ctx, plans, table, n, maxk=2, flip_stream_name=None):
    """corpus/mated_generated.txt: `fen K` — the side to move is mated in K whatever it plays (validated by the verified
    evaluator, tools/build_mated_corpus.py).  A depth 2K (and 2K+1 when <= 3) search must report `mate -K`."""
    ents = [l.rsplit(' ', 1) for l in corpus('mated_generated.txt')]
    ents = [(ftok(f), int(k)) for f, k in ents if k.isdigit() and int(k) <= maxk]
    if len(ents) > n:
        ents = ctx.rng.sample(ents, n)
    for f, k in ents:
        for q in (f, flip_fen(f)):
            for d in ([2 * k, 2 * k + 1] if k == 1 else [2 * k]):
                idx = table.add(q, [])
                pl = Plan(flip_stream_name or 'forced-mated-corpus')
                pl.nomodel = True
                pl.pos(q, [], idx)
                pl.go(['depth', str(d)])
                pl.meta[-1]['expect_score'] = 'mate-%d' % k
                plans.append(pl)
    ctx.notes.append('validated being-mated corpus positions searched: %d (x2 with flips)' % len(ents))


def position_keys(root, moves):
    """position identity (placement, side, rights, e.p.) after every prefix of the game, from the rules Spec"""
    reqs = ['spec:makeall %s %s' % (root, ' '.join(core.hex_token(m) for m in moves[:k])) for k in range(len(moves) + 1)]
    ans = core.run_model(reqs)
    return [tuple(a[3:].split('_')[:4]) if a.startswith('ok ') else None for a in ans]


def repetition_stream(ctx, plans, table, n):
    lines = core.model_gen(['repgames', ctx.seed, n])
    contempt = gen_int('contempt')
    nthree = 0
    for l in lines:
        toks = l.split(' ')
        bar = toks.index('|')
        root, prefix, cyc = toks[1], toks[2:bar], toks[bar + 1:]
        full = prefix + cyc * 3
        keys = position_keys(root, full)
        for k in (1, 2):
            for cut in range(0, 4):
                moves = prefix + cyc * k + cyc[:cut]
                idx = table.add(root, moves)
                pl = Plan('repetition-history')
                pl.pos(root, moves, idx)
                pl.go(['depth', '1', 'searchmoves', cyc[cut]])
                pl.meta[-1]['searchmoves'] = [cyc[cut]]
                # independent oracle: the position after the move has then occurred three times (game history + the move
                # itself; all moves since the prefix are reversible) -> the only root move leads to a repetition draw,
                # valued draw + contempt from the mover's point of view
                after = keys[len(moves) + 1] if len(moves) + 1 < len(keys) else None
                if after is not None and keys[:len(moves) + 2].count(after) >= 3:
                    pl.meta[-1]['expect_score'] = 'cp%d' % contempt
                    nthree += 1
                pl.go(['depth', ctx.rng.pick(['2', '3'])])
                plans.append(pl)
    ctx.notes.append('repetition sessions whose searched move completes a threefold (independent count): %d' % nthree)
    for line in corpus('threefold.txt'):
        root, rest = line.split(' | ')
        ms = rest.split(' ')
        idx = table.add(ftok(root), ms[:-1])
        pl = Plan('threefold-corpus')
        pl.pos(ftok(root), ms[:-1], idx)
        pl.go(['depth', '3', 'searchmoves', ms[-1]])
        pl.meta[-1]['searchmoves'] = [ms[-1]]
        pl.meta[-1]['expect_score'] = 'cp%d' % gen_int('contempt')
        plans.append(pl)


def perpetual_stream(ctx, plans, table, n):
    """C10 below the root: positions in which the side to move is lost on material but has a perpetual check; the cycle has been
    played once (game history), so completing it again reaches a third occurrence at ply 4, after the same position was searched
    as the root of the earlier iterations.  Expected score = the exact path-dependent minimax value of the specification
    `RepSpec.repSearch`, stored in the corpus when it was built (tools/build_perpetual_corpus.py) and re-computed in the thorough
    tier."""
    ents = [l.split(' | ') for l in corpus('perpetuals.txt')]
    ents = ctx.rng.sample(ents, min(n, len(ents)))
    for fen, cyc, depth, want, plain in ents:
        ms = cyc.split(' ')
        idx = table.add(fen, ms)
        pl = Plan('perpetual-check-corpus')
        pl.nomodel = True
        pl.pos(fen, ms, idx)
        pl.go(['depth', depth])
        pl.meta[-1]['expect_score'] = want
        plans.append(pl)
        if ctx.tier == 'thorough':
            a = core.run_model(['rep-search %s %s %s' % (fen, depth, cyc)])[0]
            if a.split(' ')[0] != want:
                raise core.Broken('perpetual-corpus', 'corpus entry %s: specification value %s, stored %s' % (fen, a, want))
    ctx.notes.append('perpetual-check corpus positions searched at depth 4 (repetition rule decides the value): %d' % len(ents))


def gen_int(name):
    import re as _re
    txt = open(os.path.join(core.LEAN, 'Inkayaku', 'Gen', 'Eval.lean')).read()
    return int(_re.search(r'def %s : (?:Int|Nat) := (-?\d+)' % name, txt).group(1))


def fifty_explicit(ctx, plans, table):
    """the fifty-move rule must not fire before 100 plies: a won K+Q v K position keeps a winning score"""
    for fen_t, hm, depth, kind in (('7k/8/8/8/8/8/8/KQ6_w_-_-_%d_80', 0, 2, 'win'), ('7k/8/8/8/8/8/8/KQ6_w_-_-_%d_80', 49, 2, 'win'),
                                   ('7k/8/8/8/8/8/8/KQ6_w_-_-_%d_80', 60, 2, 'win'), ('7k/8/8/8/8/8/8/KQ6_w_-_-_%d_80', 97, 2, 'win'),
                                   ('7k/8/8/8/8/8/8/KQ6_w_-_-_%d_80', 98, 1, 'win'), ('7k/8/8/8/8/8/8/KQ6_w_-_-_%d_80', 99, 1, 'draw'),
                                   ('7k/8/8/8/8/8/8/KQ6_w_-_-_%d_80', 120, 1, 'draw'),
                                   ('kq6/8/8/8/8/8/8/7K_b_-_-_%d_80', 50, 2, 'win'), ('kq6/8/8/8/8/8/8/7K_b_-_-_%d_80', 96, 2, 'win'),
                                   # ply index beyond the initial 5000 entries of the repetition history (it has to grow)
                                   ('7k/8/8/8/8/8/8/KQ6_w_-_-_%d_2600', 3, 2, 'win'), ('kq6/8/8/8/8/8/8/7K_b_-_-_%d_2501', 7, 3, 'win'),
                                   ('7k/8/8/8/8/8/8/KQ6_w_-_-_%d_30000', 40, 2, 'win')):
        f = fen_t % hm
        idx = table.add(f, [])
        pl = Plan('fifty-move-explicit')
        pl.pos(f, [], idx)
        pl.go(['depth', str(depth)])
        pl.meta[-1]['expect_kind'] = kind
        plans.append(pl)


def fifty_stream(ctx, plans, table, n):
    pos = pick_positions(ctx, n)
    for p in pos:
        f = p.split('_')
        if f[3] != '-':
            continue
        for hm in (ctx.rng.pick([96, 97, 98]), 99, 100, ctx.rng.pick([101, 120, 149])):
            f2 = list(f)
            f2[4] = str(hm)
            q = '_'.join(f2)
            idx = table.add(q, [])
            pl = Plan('fifty-move-clock')
            pl.pos(q, [], idx)
            pl.go(['depth', ctx.rng.pick(['1', '2'])])
            plans.append(pl)


def multi_cycle_stream(ctx, plans, table, n):
    """C16: many position/go cycles on one engine instance, with and without ucinewgame and stop"""
    gs = games(ctx, n, 40)
    for g in gs:
        root, moves = g[0], g[1:]
        pl = Plan('multi-cycle-session')
        npieces = sum(1 for ch in root.split('_')[0] if ch.isalpha())
        k = 0
        while k <= len(moves) and len(pl.cmds) < 14:
            if ctx.rng.chance(1, 5):
                pl.simple('new')
            idx = table.add(root, moves[:k])
            pl.pos(root, moves[:k], idx)
            d = ctx.rng.pick(['1', '2', '2', '3']) if npieces <= 16 else ctx.rng.pick(['1', '2'])
            if ctx.rng.chance(1, 5):
                pl.go(['infinite'], interrupt=('stopgo', 1 + ctx.rng.below(300)))
            else:
                pl.go(['depth', d])
            k += ctx.rng.pick([1, 2, 2, 3])
        plans.append(pl)


def terminal_after_search_stream(ctx, plans, table, n):
    """a mated / stalemated position searched after an ordinary search on the same engine (state carried over: previous PV)"""
    terms = wf_corpus('terminal_fens.txt')
    pos = pick_positions(ctx, n)
    for i, p in enumerate(pos):
        t = terms[i % len(terms)] if terms else None
        if t is None:
            break
        pl = Plan('terminal-after-search')
        if ctx.rng.chance(1, 3):
            pl.simple('new')
        pl.pos(p, [], table.add(p, []))
        pl.go(['depth', ctx.rng.pick(['2', '3'])])
        if ctx.rng.chance(1, 3):
            pl.simple('new')
        q = t if ctx.rng.chance(1, 2) else flip_fen(t)
        pl.pos(q, [], table.add(q, []))
        pl.go(['depth', ctx.rng.pick(['1', '2', '3'])])
        plans.append(pl)


def promotion_stream(ctx, plans, table, n):
    """every promotion move (all four pieces) forced with searchmoves: the announced move must carry its promotion letter"""
    pos = positions(ctx, max(n * 3, 600))
    feats = core.run_model(['spec:legal %s' % p for p in pos])
    done = 0
    for p, legal in zip(pos, feats):
        promos = [m for m in legal.split(',') if len(m) == 5]
        if not promos or int(p.split('_')[4]) > 3900:
            continue
        idx = table.add(p, [])
        pl = Plan('promotion-searchmoves')
        pl.pos(p, [], idx)
        for m in sorted(set(ctx.rng.pick(promos) for _ in range(3))):
            pl.go(['depth', '1', 'searchmoves', m])
            pl.meta[-1]['searchmoves'] = [m]
        pl.go(['depth', '2'])
        plans.append(pl)
        done += 1
        if done >= n:
            break


def flip_stream(ctx, plans, table, n):
    pos = pick_positions(ctx, n)
    for p in pos:
        d = ctx.rng.pick(['1', '2', '3'])
        for q in (p, flip_fen(p)):
            idx = table.add(q, [])
            pl = Plan('flip-twin-search')
            pl.pos(q, [], idx)
            pl.go(['depth', d])
            plans.append(pl)


MINIMAX_STREAMS = ('fixed-depth', 'forced-mates', 'descending-depth')


def minimax_post(plans_ref):
    """C08: the score reported for every completed depth d <= 3 (and for the mate corpus up to depth 5) must equal the
    value of the VERIFIED evaluator (alpha-beta proved equal to minimax, Props/C08.lean), and the best move must attain it"""
    def post(ctx, cases, impl):
        vs = []
        plans = {pl.request(): pl for pl in plans_ref['plans']}
        table = plans_ref['table']
        reqs, owners = [], []
        for c, a in zip(cases, impl):
            pl = plans.get(c.req)
            if pl is None or not (pl.stream in MINIMAX_STREAMS or any(m.get('fresh_value') for m in pl.meta)):
                continue
            parts = a.split(' ; ')
            if len(parts) != len(pl.cmds):
                continue
            for part, meta in zip(parts, pl.meta):
                if meta['kind'] != 'go' or meta['pidx'] is None or table.fen[meta['pidx']] is None or meta['depth'] is None:
                    continue
                if pl.stream not in MINIMAX_STREAMS and not meta.get('fresh_value'):
                    continue
                infos, bests = parse_go_answer(part.split(' '))
                limit = 5 if pl.stream == 'forced-mates' else 3
                final = max(meta['depth'], 1)
                for inf in infos:
                    if inf['depth'] is not None and 1 <= inf['depth'] <= limit and inf['score'] != '-':
                        bm = bests[0][0] if bests and inf['depth'] == final else None
                        reqs.append('spec-search %s %d%s' % (table.fen[meta['pidx']], inf['depth'], (' ' + ' '.join(meta['searchmoves'])) if meta['searchmoves'] else ''))
                        owners.append((c.req, inf['depth'], inf['score'], bm))
        # identical requests are evaluated once
        uniq = list(dict.fromkeys(reqs))
        ans = dict(zip(uniq, core.run_model(uniq))) if uniq else {}
        for r, (req, d, score, bm) in zip(reqs, owners):
            a = ans[r]
            if a in ('nomoves', 'bad-request', 'badfen'):
                continue
            want_score, bestset = a.split(' ')[0], a.split(' ')[1].split(',') if ' ' in a else []
            if score != want_score:
                vs.append({'kind': 'property', 'stream': 'minimax-value', 'input': req, 'impl_output': 'depth %d score %s' % (d, score), 'spec_output': a,
                           'why': 'depth-%d score %s differs from the exact minimax value %s' % (d, score, want_score)})
            elif bm is not None and bm != '0000' and bm not in bestset:
                vs.append({'kind': 'property', 'stream': 'minimax-best-move', 'input': req, 'impl_output': 'bestmove %s' % bm, 'spec_output': a,
                           'why': 'best move %s does not attain the minimax value (moves that do: %s)' % (bm, ','.join(bestset))})
        ctx.notes.append('scores compared with the verified minimax evaluator: %d (distinct searches %d)' % (len(reqs), len(uniq)))
        return vs
    return post


def tt_stream(ctx, plans, table, n):
    """C08 / invariant correspondence: after a fixed-depth search the REAL transposition table is read back (hook
    `verif_tt_entry`) for every position within depth-1 plies of the root; tt_post checks the invariant `TTValid` under which
    Props/C08 `ab_tt_ok` is proved: an entry (draft e, value v, bound) of position p satisfies
    exact: mm(p,e) = v, lower: v <= mm(p,e), upper: mm(p,e) <= v, with mm from the verified evaluator."""
    pos = pick_positions(ctx, n)
    for p in pos[:n]:
        npieces = sum(1 for ch in p.split('_')[0] if ch.isalpha())
        d = 3 if npieces <= 8 else 2
        idx = table.add(p, [])
        pl = Plan('tt-invariant')
        pl.nomodel = True
        pl.pos(p, [], idx)
        pl.go(['depth', str(d)])
        pl.simple('tt', str(d - 1))
        plans.append(pl)


def tt_post(per_search=24):
    def post(ctx, cases, impl):
        vs = []
        items = []
        for c, a in zip(cases, impl):
            if c.stream != 'tt-invariant':
                continue
            parts = a.split(' ; ')
            if len(parts) != 3:
                continue
            root = c.req.split(' ')[2]
            d = int(c.req.split(' ; ')[1].split(' ')[2])
            ents = [t.split(':') for t in parts[2].split(' ') if t.startswith('T:')]
            # all entries of ply <= 1 and a sample of the deeper ones
            shallow = [e for e in ents if e[1] == '-' or ',' not in e[1]]
            deep = [e for e in ents if e not in shallow]
            for e in shallow + ctx.rng.sample(deep, per_search):
                path = [] if e[1] == '-' else e[1].split(',')
                items.append((c.req, root, d, path, int(e[2]), int(e[3]), e[4], int(e[5])))
        if not items:
            return vs
        fens = core.run_model(['spec:makeall %s %s' % (root, ' '.join(core.hex_token(m) for m in path)) for _, root, _, path, _, _, _, _ in items])
        reqs = ['spec-search %s %d' % (f[3:], it[4]) if f.startswith('ok ') and it[4] >= 1 else 'spec:terminal x' for f, it in zip(fens, items)]
        uniq = list(dict.fromkeys(reqs))
        ans = dict(zip(uniq, core.run_model(uniq)))
        nchk = {'E': 0, 'L': 0, 'U': 0}
        for (req, root, d, path, draft, value, kind, mvv), f, r in zip(items, fens, reqs):
            a = ans[r]
            what = 'entry draft %d value %d %s for the position after %s' % (draft, value, {'E': 'exact', 'L': 'lower bound', 'U': 'upper bound'}[kind], ','.join(path) or '(root)')
            if draft > d - len(path):
                vs.append({'kind': 'property', 'stream': 'tt-invariant', 'input': req, 'impl_output': what,
                           'why': 'table entry deeper than the draft the position was searched with (SameDraft, assumed by ab_tt_ok for d <= 3)'})
                continue
            if mvv != value:
                vs.append({'kind': 'property', 'stream': 'tt-invariant', 'input': req, 'impl_output': what,
                           'why': 'stored move carries value %d, entry value %d: an exact hit would return a different value' % (mvv, value)})
                continue
            if not (a.startswith('cp') or a.startswith('mate')):
                continue
            sc = a.split(' ')[0]
            mm = int(sc[2:]) if sc.startswith('cp') else (10 ** 9 if not sc.startswith('mate-') else -10 ** 9)
            nchk[kind] += 1
            ok = (mm == value) if kind == 'E' else (value <= mm) if kind == 'L' else (mm <= value)
            if not ok:
                vs.append({'kind': 'property', 'stream': 'tt-invariant', 'input': req, 'impl_output': what, 'spec_output': a,
                           'why': 'transposition-table %s but the exact minimax value of that position at draft %d is %s: a later probe of this entry changes a search result' % (what, draft, sc)})
        ctx.notes.append('transposition-table entries of the real table checked against TTValid (verified minimax): exact %d, lower %d, upper %d' % (nchk['E'], nchk['L'], nchk['U']))
        return vs
    return post


def flip_post(ctx, cases, impl):
    vs = []
    ans = {}
    for c, a in zip(cases, impl):
        if c.stream == 'flip-twin-search':
            ans[c.req] = a
    n = 0
    for req, a in ans.items():
        toks = req.split(' ')
        p = toks[2]
        q = flip_fen(p)
        if not p < q:
            continue
        req2 = ' '.join(toks[:2] + [q] + toks[3:])
        if req2 not in ans:
            continue
        n += 1
        sc1 = [t.split(':')[4] for t in a.split(' ; ')[1].split(' ') if t.startswith('I:') and t.split(':')[1] != '-']
        sc2 = [t.split(':')[4] for t in ans[req2].split(' ; ')[1].split(' ') if t.startswith('I:') and t.split(':')[1] != '-']
        if sc1 != sc2:
            vs.append({'kind': 'property', 'stream': 'flip-twin-search', 'input': req, 'impl_output': '%s vs flipped %s' % (sc1, sc2),
                       'why': 'search scores of a position and its colour-flipped twin differ'})
    ctx.notes.append('flip-twin searches compared: %d' % n)
    return vs


def console_cases(ctx, n):
    """C16 / output syntax: engine-to-GUI messages are formatted by the REAL ConsoleUciTx and by the Lean model
    (Model/Console.lean, about which `render_accepts` is proved); messages that satisfy the theorem's decidable hypothesis
    `WFMsg` must additionally be accepted by the independent protocol grammar (Spec/UciOut.lean, op spec:uciout)."""
    rng = ctx.rng
    files, ranks = 'abcdefgh', '12345678'

    def mv():
        m = rng.pick(files) + rng.pick(ranks) + rng.pick(files) + rng.pick(ranks)
        return m + (rng.pick('qrbn') if rng.chance(1, 5) else '')

    def mvs(allow_empty):
        if allow_empty and rng.chance(1, 12):
            return 'empty'
        return ','.join(mv() for _ in range(1 + rng.below(6)))

    def num(bits=20):
        return str(rng.below(1 << rng.pick([1, 4, 10, bits, 31])))

    def text():
        alpha = 'abcXYZ 019-_.:;!?\'"#()'
        return ''.join(rng.pick(alpha) for _ in range(1 + rng.below(20)))
    cases = []
    for i in range(n):
        k = rng.below(10)
        wf = True
        if k == 0:
            b = mv() if rng.chance(5, 6) else '-'
            req = 'console bestmove %s %s' % (b, mv() if (b != '-' and rng.chance(2, 3)) else '-')
        elif k == 1:
            req = 'console ' + rng.pick(['uciok', 'readyok', 'registration checking', 'registration ok', 'registration error',
                                         'copyprotection checking', 'copyprotection ok', 'copyprotection error'])
        elif k == 2:
            t = text().strip() or 'x'
            req = 'console id %s %s' % (rng.pick(['name', 'author']), core.hex_token(t))
        else:
            a = ['-'] * 17
            present = [rng.chance(1, 2 if k < 8 else 6) for _ in range(17)]
            for j in (0, 1, 5, 8, 9, 11, 12, 13):
                if present[j]:
                    a[j] = num()
            if present[2]:
                a[2] = num(31)
            if present[3]:
                a[3] = str(rng.below(1 << rng.pick([4, 20, 40, 63])))
            if present[10]:
                a[10] = str(rng.below(1 << rng.pick([4, 20, 40, 63])))
            if present[4]:
                a[4] = mvs(True)
            if present[6]:
                v = rng.below(40000) - 20000
                a[6] = rng.pick(['cp%d' % v, 'cp%d:lower' % v, 'cp%d:upper' % v, 'mate%d' % (rng.below(60) - 30)])
            if present[7]:
                a[7] = mv()
            if present[14]:
                a[14] = mvs(True)
            if present[15]:
                a[15] = '%d:%s' % (rng.below(64), mvs(True))
            if present[16]:
                a[16] = core.hex_token(text())
            wf = 'empty' not in a[4] and 'empty' not in a[14] and not a[15].endswith(':empty')
            req = 'console info ' + ' '.join(a)
        cases.append(Case(req, 'console-format' if wf else 'console-format-empty-list'))
    return cases


def console_post(ctx, cases, impl):
    vs = []
    idx = [i for i, c in enumerate(cases) if c.stream == 'console-format' and impl[i].startswith('x:')]
    if idx:
        ans = core.run_model(['spec:uciout %s' % impl[i] for i in idx])
        for i, a in zip(idx, ans):
            if a != 'accept':
                vs.append({'kind': 'property', 'stream': 'console-format', 'input': cases[i].req, 'impl_output': bytes.fromhex(impl[i][2:]).decode('utf-8', 'replace'),
                           'why': 'the line printed for a well-formed message is not a UCI engine-to-GUI message (protocol grammar Spec/UciOut)'})
    ctx.notes.append('printed lines checked against the protocol grammar: %d' % len(idx))
    return vs


# ------------------------------------------------------------------------------------------------------ real binary

UCI_OUT = re.compile(
    r'^(?:id (?:name|author) \S.*|uciok|readyok|registration (?:checking|ok|error)|copyprotection (?:checking|ok|error)'
    r'|bestmove (?:0000|[a-h][1-8][a-h][1-8][qrbnkp]?)(?: ponder [a-h][1-8][a-h][1-8][qrbnkp]?)?'
    r'|info(?: depth \d+)?(?: seldepth \d+)?(?: time \d+)?(?: nodes \d+)?(?: pv(?: [a-h][1-8][a-h][1-8][qrbnkp]?)*)?(?: multipv \d+)?'
    r'(?: score (?:cp -?\d+(?: (?:lowerbound|upperbound))?|mate -?\d+))?(?: currmove [a-h][1-8][a-h][1-8][qrbnkp]?)?(?: currmovenumber \d+)?'
    r'(?: hashfull \d+)?(?: nps \d+)?(?: tbhits \d+)?(?: sbhits \d+)?(?: cpuload \d+)?(?: refutation(?: [a-h][1-8][a-h][1-8][qrbnkp]?)+)?'
    r'(?: currline \d+(?: [a-h][1-8][a-h][1-8][qrbnkp]?)+)?(?: string .*)?'
    r'|option name .+ type (?:check|spin|combo|button|string).*)$')


def build_engine_binary():
    target = os.path.join(core.WORK, 'target_app')
    with core.Lock('build'):
        rc, out = core.run(['cargo', 'build', '--offline', '--release', '-p', 'inkayaku_engine_app', '--target-dir', target], cwd=core.REPO, timeout=3600)
    if rc != 0:
        raise core.Broken('engine-binary-build', out[-3000:])
    return os.path.join(target, 'release', 'inkayaku_engine_app')


def run_binary_session(binary, script, timeout=60):
    """script: list of ('send', line) | ('wait_bestmove',) | ('sleep', seconds). Returns (stdout lines after banner, problems)"""
    p = subprocess.Popen([binary], stdin=subprocess.PIPE, stdout=subprocess.PIPE, stderr=subprocess.DEVNULL, text=True, bufsize=1)
    lines, problems, per_go = [], [], []
    import threading, queue
    q = queue.Queue()

    def reader():
        for l in p.stdout:
            q.put(l.rstrip('\n'))
        q.put(None)
    threading.Thread(target=reader, daemon=True).start()
    banner = q.get(timeout=10)
    try:
        for step in script:
            if step[0] == 'send':
                p.stdin.write(step[1] + '\n')
                p.stdin.flush()
            elif step[0] == 'sleep':
                time.sleep(step[1])
            elif step[0] == 'wait_bestmove':
                got = []
                deadline = time.time() + timeout
                while True:
                    try:
                        l = q.get(timeout=max(0.01, deadline - time.time()))
                    except queue.Empty:
                        problems.append('no bestmove within %ds after: %s' % (timeout, step[1]))
                        break
                    if l is None:
                        problems.append('engine process ended while a bestmove was awaited after: %s' % step[1])
                        break
                    lines.append(l)
                    got.append(l)
                    if l.startswith('bestmove'):
                        break
                per_go.append((step[1], got))
        p.stdin.write('quit\n')
        p.stdin.flush()
        try:
            p.wait(timeout=10)
        except subprocess.TimeoutExpired:
            problems.append('engine did not exit after quit')
            p.kill()
    except BrokenPipeError:
        problems.append('engine process died (broken pipe)')
    # anything printed after the last awaited bestmove
    time.sleep(0.05)
    while not q.empty():
        l = q.get()
        if l is not None:
            lines.append(l)
            if l.startswith('bestmove'):
                problems.append('extra bestmove line: ' + l)
    for l in lines:
        if not UCI_OUT.match(l):
            problems.append('line is not a valid UCI engine-to-GUI message: %r' % l)
    return banner, lines, per_go, problems


def app_project(line):
    """projection of one stdout line shared with the model's `app` op (Model/AppOps.lean `projectLine`): run-dependent numbers
    (time, nodes, nps, hashfull, debug string) are dropped from info lines; poll infos collapse to `info poll`"""
    f = line.split(' ')
    if f[0] != 'info':
        return line
    rest, kept, i = f[1:], [], 0
    while i < len(rest):
        if rest[i] == 'string':
            break
        if i + 1 >= len(rest):
            kept.append(rest[i])
            break
        if rest[i] in ('time', 'nodes', 'hashfull', 'nps'):
            i += 2
            continue
        kept.append(rest[i])
        i += 1
    return 'info ' + ' '.join(kept) if kept[:1] == ['depth'] else 'info poll'


def run_app_script(binary, lines, kinds, go_timeout=60):
    """the real engine_app process under the SEQUENTIAL schedule of Model/App.lean: one stdin line at a time, the next one only
    after the previous command has been processed.  `kinds[i]` = what the model's parser makes of line i (`go`, `uci`, `isready`,
    `register`, …, `err`): after a go line the bestmove is awaited, after uci / isready / register the final answer line; other
    lines print nothing and need no wait (the process reads its lines in order).  Returns the projected stdout lines (banner
    first) + the exit status element."""
    import threading, queue
    p = subprocess.Popen([binary], stdin=subprocess.PIPE, stdout=subprocess.PIPE, stderr=subprocess.DEVNULL)
    q = queue.Queue()

    def reader():
        for l in p.stdout:
            q.put(l.decode('utf-8', 'replace').rstrip('\n'))
        q.put(None)
    threading.Thread(target=reader, daemon=True).start()

    def get(timeout):
        try:
            return q.get(timeout=timeout)
        except queue.Empty:
            return ''
    out = [get(10)]
    last = {'go': 'bestmove', 'uci': 'uciok', 'isready': 'readyok', 'register': 'registration ok'}
    dead = False
    for l, kind in zip(lines, kinds):
        try:
            p.stdin.write(l.encode('utf-8') + b'\n')
            p.stdin.flush()
        except (BrokenPipeError, OSError):
            break
        want = last.get(kind)
        while want:
            x = get(go_timeout if kind == 'go' else 5)
            if x is None:
                dead = True
                break
            if x == '':
                break           # nothing came: the comparison with the model will show it
            out.append(x)
            if x.startswith(want):
                break
        if dead or kind in ('quit', 'setoption'):
            break
    try:
        p.stdin.close()
    except OSError:
        pass
    # quit / panic end the process; otherwise it keeps reading (and spins on the empty read at end of input: Model/App `atEof`)
    try:
        rc = p.wait(timeout=30 if (dead or 'quit' in kinds or 'setoption' in kinds) else 0.3)
    except subprocess.TimeoutExpired:
        rc = None
        p.kill()
    status = 'exit:none' if rc is None else {0: 'exit:quit', 101: 'exit:panic'}.get(rc, 'exit:%d' % rc)
    time.sleep(0.02)
    while not q.empty():
        x = q.get()
        if x:
            out.append(x)
    return ' | '.join([app_project(o) for o in out if o is not None] + [status])


APP_FIXED = [
    ['uci', 'isready', 'position startpos moves e2e4', 'go depth 2', 'quit'],
    ['', '   ', 'foo', 'go depth x', 'position fen 8/8 w', 'isready', 'register later', 'register name a code b', 'position startpos moves e2e4',
     'position startpos moves e2e5', 'debug on', 'go depth 1', 'stop', 'ponderhit', 'quit', 'isready'],
    ['isready', 'setoption name Hash value 3', 'isready'], ['setoption name foo'], ['go depth 1'],
    ['position startpos moves f2f3 e7e5 g2g4 d8h4', 'go depth 2', 'go depth 1'],
    ['go depth 3', 'ucinewgame', 'position startpos moves b1c3 b8c6', 'go depth 3', 'debug on', 'go depth 2', 'debug off', 'go depth 2'],
    ['position fen 7k/5Q2/6K1/8/8/8/8/8 b - - 0 1', 'go depth 3', 'position fen 7k/5Q2/6K1/8/8/8/8/8 w - - 0 1 moves f7f8', 'go depth 2', 'go depth 0'],
    ['position fen k7/8/2K5/8/8/8/8/7R w - - 0 1', 'go depth 4 searchmoves h1h8 c6b6', 'go depth 2 nodes 5 mate 3'],
    ['position fen r3k3/1P6/8/3pP3/8/8/8/4K2R w Kq d6 0 2', 'go depth 3', 'position fen startpos', 'go depth 1', 'position startpos moves', 'go depth 1'],
    ['debug', 'debug on x', 'go depth 1 depth 2', 'go depth 1', 'quit now', 'isready'],
]


def app_sessions(ctx, n):
    """C16 end to end: the real process and the process model (Model/App.lean, theorems Props/C16App.lean) are given the same
    stdin scripts under the sequential schedule; their projected stdout streams and exit status must be equal, and every real
    line after the banner must be a valid engine-to-GUI message"""
    binary = build_engine_binary()
    gs = games(ctx, n, 16)
    scripts = [list(x) for x in APP_FIXED]
    junk = ['', 'xyzzy', 'go depth', 'position', 'position fen', 'debug maybe', 'isready now', 'uci', 'isready', 'ucinewgame', 'stop', 'ponderhit',
            'register later', 'go  depth   1', '\tisready', 'position startpos moves e2e4 e2e4', 'go depth 1 searchmoves a1a1', 'Go depth 1']
    for g in gs:
        root, moves = g[0], g[1:]
        npieces = sum(1 for ch in root.split('_')[0] if ch.isalpha())
        sc = []
        if ctx.rng.chance(1, 3):
            sc.append('uci')
        k = 0
        while k <= len(moves) and len(sc) < 12:
            if ctx.rng.chance(1, 4):
                sc.append(ctx.rng.pick(junk))
            if ctx.rng.chance(1, 6):
                sc.append(ctx.rng.pick(['debug on', 'debug off', 'ucinewgame']))
            pos = 'position ' + ('startpos' if root == START else 'fen ' + root.replace('_', ' '))
            if k:
                pos += ' moves ' + ' '.join(moves[:k])
            sc.append(pos)
            d = ctx.rng.pick([1, 2, 2, 3]) if npieces <= 12 else ctx.rng.pick([1, 1, 2])
            sc.append('go depth %d' % d)
            k += ctx.rng.pick([1, 2, 3])
        sc.append(ctx.rng.pick(['quit', 'quit', 'isready', 'setoption name Hash value 1']))
        scripts.append(sc)
    reqs = ['app status ' + ' '.join(core.hex_token(l) for l in sc) for sc in scripts]
    model = core.run_model(reqs)
    flat = [l for sc in scripts for l in sc]
    parsed = iter(core.run_model(['uciparse ' + core.hex_token(l) for l in flat]))

    def kind_of(a):
        if not a.startswith('ok '):
            return 'err'
        k = a.split(' ')[1]
        return 'register' if k == 'register' else k
    vs = []
    nlines = 0
    transient = []
    for sc, req, m in zip(scripts, reqs, model):
        kinds = [kind_of(next(parsed)) for _ in sc]
        r = run_app_script(binary, sc, kinds)
        retries = 0
        while r != m and retries < 2:
            # the real process is driven over pipes in real time: a disagreement must be reproducible to count
            retries += 1
            time.sleep(0.5)
            r2 = run_app_script(binary, sc, kinds)
            if r2 != r:
                transient.append((sc, r, r2))
            r = r2
        lines = r.split(' | ')
        nlines += len(lines)
        bad = [l for l in lines[1:-1] if not UCI_OUT.match(l.replace('info poll', 'info nodes 1'))]
        if bad:
            vs.append({'kind': 'property', 'stream': 'engine-process', 'op': 'app', 'input': req, 'impl_output': r[:600], 'model_output': m[:600],
                       'why': 'the engine process wrote a line that is not a valid UCI engine-to-GUI message: %r' % bad[0]})
        elif r != m:
            vs.append({'kind': 'correspondence', 'stream': 'engine-process', 'op': 'app', 'input': req, 'impl_output': r[:900], 'model_output': m[:900],
                       'why': 'process model (Model/App.lean) and the real engine_app binary disagree on the projected stdout stream of a sequential script: ' + ' / '.join(sc)[:300]})
    ctx.notes.append('real engine_app process vs process model: %d scripts, %d stdout lines compared' % (len(scripts), nlines))
    if transient:
        ctx.notes.append('runs of the real process that differed from their own repetition (pipe timing; not counted): %d, e.g. %r vs %r' % (len(transient), transient[0][1][-120:], transient[0][2][-120:]))
    return vs


def binary_cases(ctx, nsessions):
    """sessions against the real engine_app binary; returns violations + stats (not line-protocol cases)"""
    binary = build_engine_binary()
    table = PosTable()
    gs = games(ctx, nsessions, 30)
    sessions = []
    for g in gs:
        root, moves = g[0], g[1:]
        script = [('send', 'uci'), ('send', 'isready')]
        expect = []
        k = 0
        cycles = 0
        while k <= len(moves) and cycles < 6:
            if ctx.rng.chance(1, 4):
                script.append(('send', 'ucinewgame'))
            idx = table.add(root, moves[:k])
            posline = 'position fen %s' % root.replace('_', ' ') + (' moves ' + ' '.join(moves[:k]) if k else '')
            script.append(('send', posline))
            kind = ctx.rng.below(6)
            if kind == 0:
                goline = 'go infinite'
                script.append(('send', goline))
                script.append(('sleep', ctx.rng.pick([0.0, 0.001, 0.01, 0.05])))
                script.append(('send', 'stop'))
            elif kind == 1:
                goline = 'go movetime %d' % ctx.rng.pick([0, 1, 5, 30])
                script.append(('send', goline))
            elif kind == 2:
                goline = 'go wtime %d btime %d winc 0 binc 0' % (ctx.rng.pick([1, 100, 60000]), ctx.rng.pick([1, 100, 60000]))
                script.append(('send', goline))
            else:
                goline = 'go depth %d' % ctx.rng.pick([1, 2, 3, 4])
                script.append(('send', goline))
            script.append(('wait_bestmove', posline + ' | ' + goline))
            expect.append(idx)
            k += ctx.rng.pick([1, 2, 3])
            cycles += 1
        sessions.append((script, expect))
    table.resolve()
    vs, nlines, ngo = [], 0, 0
    for script, expect in sessions:
        banner, lines, per_go, problems = run_binary_session(binary, script)
        nlines += len(lines)
        text = ' / '.join(s[1] for s in script if s[0] == 'send')
        for pr in problems:
            vs.append({'kind': 'property', 'stream': 'real-binary', 'input': text, 'impl_output': pr, 'why': pr})
        for (what, got), idx in zip(per_go, expect):
            ngo += 1
            best = [l for l in got if l.startswith('bestmove')]
            legal = table.legal[idx]
            if len(best) == 1 and legal is not None:
                bm = best[0].split(' ')[1]
                if legal and bm not in legal:
                    vs.append({'kind': 'property', 'stream': 'real-binary', 'input': text, 'impl_output': best[0],
                               'why': 'bestmove %s is not legal after: %s' % (bm, what)})
                if not legal and bm != '0000':
                    vs.append({'kind': 'property', 'stream': 'real-binary', 'input': text, 'impl_output': best[0], 'why': 'move announced without legal moves'})
                # bestmove / ponder = first / second move of the last PV
                pvs = [l for l in got if l.startswith('info') and ' pv ' in l]
                if pvs and bm != '0000':
                    m = re.search(r' pv((?: [a-h][1-8][a-h][1-8][qrbnkp]?)+)', pvs[-1])
                    if m:
                        pv = m.group(1).split()
                        pm = best[0].split(' ')[3] if ' ponder ' in best[0] else '-'
                        if pv[0] != bm or (pv[1] if len(pv) > 1 else '-') != pm:
                            vs.append({'kind': 'property', 'stream': 'real-binary', 'input': text, 'impl_output': best[0] + ' | ' + pvs[-1],
                                       'why': 'bestmove/ponder are not the first/second move of the last PV'})
    return vs, {'sessions': len(sessions), 'stdout_lines': nlines, 'go_commands': ngo}


# ------------------------------------------------------------------------------------------------------ registration

ENGINE_ANCHORS = ['engine_core/src/engine/search.rs', 'engine_core/src/engine.rs', 'engine_core/src/engine/heuristic.rs',
                  'engine_core/src/engine/move_order.rs', 'engine_core/src/engine/table/transposition.rs', 'engine_core/src/engine/table/killer.rs',
                  'engine_core/src/engine/zobrist_history.rs', 'uci/src/uci/console.rs', 'engine_app/src/main.rs']


def make_prop(streams, binary_sessions=None, extra_post=None, minimax=False, scores=True):
    state = {}

    def cases(ctx):
        plans, table = [], PosTable()
        for fn in streams:
            fn(ctx, plans, table)
        state['plans'], state['table'] = plans, table
        return build_cases(ctx, plans, table, scores=scores)

    def post(ctx, cs, impl):
        vs = engine_post(state['plans'], state['table'])(ctx, cs, impl)
        if extra_post:
            vs += extra_post(ctx, cs, impl)
        if minimax or any(m.get('fresh_value') for pl in state['plans'] for m in pl.meta):
            vs += minimax_post(state)(ctx, cs, impl)
        if binary_sessions:
            bvs, st = binary_cases(ctx, binary_sessions(ctx))
            ctx.notes.append('real engine binary over pipes: %s' % st)
            vs += bvs
        return vs
    return cases, post


def register(PROPS):
    from . import props as P
    c07c, c07p = make_prop([lambda c, pl, t: limits_stream(c, pl, t, c.scale(120, 2500)),
                            lambda c, pl, t: interrupt_stream(c, pl, t, c.scale(3, 40), c.scale(30, 120)),
                            lambda c, pl, t: repetition_stream(c, pl, t, c.scale(10, 200)),
                            lambda c, pl, t: multi_cycle_stream(c, pl, t, c.scale(25, 600)),
                            lambda c, pl, t: terminal_after_search_stream(c, pl, t, c.scale(20, 400)),
                            lambda c, pl, t: promotion_stream(c, pl, t, c.scale(20, 400)),
                            lambda c, pl, t: pending_stream(c, pl, t, c.scale(12, 200)),
                            lambda c, pl, t: rejected_position_stream(c, pl, t, c.scale(15, 300))],
                           binary_sessions=lambda c: c.scale(12, 300), scores=False)
    PROPS['C07'] = dict(modules=['Inkayaku.Props.C07', 'Inkayaku.Props.C07Final'], theorems=['Inkayaku.C07.' + n for n in 'go_exactly_one_bestmove bestmove_legal every_iteration_legal root_move_from_buffer nolegal_null depth1_not_interrupted depth1_completes go_answers_legal_move genPseudo_length_lt'.split()] + ['Inkayaku.Search.boardLaws'], cases=c07c, post=c07p, anchors=ENGINE_ANCHORS)
    c08c, c08p = make_prop([lambda c, pl, t: depth_stream(c, pl, t, c.scale(150, 4000)), mate_stream,
                            lambda c, pl, t: mate_corpus_stream(c, pl, t, c.scale(120, 1000)),
                            lambda c, pl, t: mated_corpus_stream(c, pl, t, c.scale(60, 1000)),
                            lambda c, pl, t: tt_stream(c, pl, t, c.scale(40, 600)),
                            lambda c, pl, t: multi_cycle_stream(c, pl, t, c.scale(10, 300)),
                            lambda c, pl, t: descending_stream(c, pl, t, c.scale(40, 800)),
                            lambda c, pl, t: pv_follow_stream(c, pl, t, c.scale(40, 800)),
                            lambda c, pl, t: deep_strict_stream(c, pl, t, 300)], minimax=True,
                           extra_post=lambda ctx, cs, impl: tt_post()(ctx, cs, impl) + pv_follow_post(ctx, cs, impl))
    PROPS['C08'] = dict(modules=['Inkayaku.Props.C08', 'Inkayaku.Props.C08Sim', 'Inkayaku.Props.C08Transp', 'Inkayaku.Props.C16Pv'], theorems=['Inkayaku.C08Transp.' + n for n in 'transp13 transp22 sameDraft_le3 hashInj_of_noCollision_le3 go_eq_spec_le3'.split()] + ['Inkayaku.C08Sim.' + n for n in 'quiescence_sim repetition_inert fuel_adequate negamax_node_sim negamax_eq_spec go_eq_spec go_eq_spec_le2'.split()] + ['Inkayaku.C16Pv.mate_pv'] + ['Inkayaku.C08.' + n for n in 'quiescence_clamp quiescence_ok ab_ok root_exact order_irrelevant best_move_optimal ab_tt_ok root_exact_tt engine_order_is_permutation search_eq_mm specValue_eq_mm specValue_order_irrelevant specBestMoves_eq_optimal search_best_move_optimal mate_found mate_real'.split()], cases=c08c, post=c08p, anchors=ENGINE_ANCHORS)
    c09c, c09p = make_prop([lambda c, pl, t: interrupt_stream(c, pl, t, c.scale(24, 300), c.scale(90, 250)),
                            lambda c, pl, t: pending_stream(c, pl, t, c.scale(20, 300)),
                            lambda c, pl, t: terminal_after_search_stream(c, pl, t, c.scale(15, 300))], scores=False)
    PROPS['C09'] = dict(modules=['Inkayaku.Props.C09'], theorems=['Inkayaku.C09.' + n for n in 'quiescence_board negamax_board deepen_board go_preserves_board go_preserves_inv session_preserves_board next_go_searches_same_position go_one_bestmove bestmove_from_last_completed_iteration bestmove_none_iff_no_completed_iteration'.split()] + ['Inkayaku.Search.boardLaws', 'Inkayaku.Search.unmake_make_of_generated', 'Inkayaku.Search.make_wf', 'Inkayaku.BoardCongr.make_congr', 'Inkayaku.BoardCongr.genPseudo_congr'], cases=c09c, post=c09p, anchors=ENGINE_ANCHORS)
    c16c, c16p = make_prop([lambda c, pl, t: multi_cycle_stream(c, pl, t, c.scale(60, 1500)),
                            lambda c, pl, t: terminal_after_search_stream(c, pl, t, c.scale(30, 600)),
                            lambda c, pl, t: promotion_stream(c, pl, t, c.scale(30, 600)),
                            lambda c, pl, t: limits_stream(c, pl, t, c.scale(40, 800)),
                            lambda c, pl, t: pending_stream(c, pl, t, c.scale(30, 500))],
                           binary_sessions=lambda c: c.scale(25, 600), scores=False)
    c16all = lambda ctx: c16c(ctx) + console_cases(ctx, ctx.scale(1500, 40000))
    c16post = lambda ctx, cs, impl: c16p(ctx, cs, impl) + console_post(ctx, cs, impl) + app_sessions(ctx, ctx.scale(30, 600))
    PROPS['C16'] = dict(modules=['Inkayaku.Props.C16', 'Inkayaku.Props.C16Console', 'Inkayaku.Props.C16Pv', 'Inkayaku.Props.C16Wf', 'Inkayaku.Props.C16App'],
                        theorems=['Inkayaku.C16.' + n for n in 'info_depth_mono info_nodes_mono info_time_mono info_time_is_clock bestmove_is_pv0_ponder_is_pv1 null_bestmove_no_ponder'.split()]
                        + ['Inkayaku.C16Console.' + n for n in 'render_accepts render_single_line empty_pv_rejected'.split()]
                        + ['Inkayaku.C16Pv.' + n for n in 'pv_legal_line pv_legal_line_rules mate_pv'.split()]
                        + ['Inkayaku.C16Wf.' + n for n in 'engine_out_news engine_out_wf engine_pv_nonempty engine_moves_ok engine_lines_accepted engine_lines_single'.split()]
                        + ['Inkayaku.C16App.' + n for n in 'app_lines_accepted app_one_bestmove_per_go app_parse_error_silent app_isready app_go_stream app_position_illegal_keeps app_setoption_panics app_panicked_iff'.split()],
                        cases=c16all, post=c16post, anchors=ENGINE_ANCHORS)
    # C10: history part (props.py) + engine-level repetition / fifty-move sessions
    e10c, e10p = make_prop([lambda c, pl, t: repetition_stream(c, pl, t, c.scale(25, 500)), fifty_explicit,
                            lambda c, pl, t: fifty_stream(c, pl, t, c.scale(40, 800)),
                            lambda c, pl, t: refen_stream(c, pl, t, c.scale(25, 500)),
                            lambda c, pl, t: perpetual_stream(c, pl, t, c.scale(24, 1000))])
    base10 = PROPS['C10']['cases']
    PROPS['C10']['cases'] = lambda ctx: base10(ctx) + e10c(ctx)
    PROPS['C10']['post'] = e10p
    # C06: hashes on the board (props.py) + the hashes the search threads down the tree (table read-back under recomputed hashes)
    e06c, e06p = make_prop([lambda c, pl, t: rejected_position_stream(c, pl, t, c.scale(30, 600)),
                            lambda c, pl, t: tt_stream(c, pl, t, c.scale(10, 200))], extra_post=lambda ctx, cs, impl: tt_presence_post(ctx, cs, impl) + tt_post()(ctx, cs, impl))
    base06, post06 = PROPS['C06']['cases'], PROPS['C06'].get('post')
    PROPS['C06']['cases'] = lambda ctx: base06(ctx) + e06c(ctx)
    PROPS['C06']['post'] = (lambda ctx, cs, impl: (post06(ctx, cs, impl) if post06 else []) + e06p(ctx, cs, impl))
    # equivalence theorems between Rust functions TRANSLATED on every run (Gen/Rs, /verif/translator) and the hand-written model
    translated = {'C10': (['History', 'PlyClock'], ['rs_count_repetitions_eq', 'rs_ply_clock_eq']),
                  'C07': (['Time'], ['rs_calculate_max_thinking_time_eq']),
                  'C08': (['Ordering', 'Heuristic'], ['rs_killer_get_eq', 'rs_killer_put_eq', 'rs_sort_key_eq', 'rs_is_checkmate_eq', 'rs_evaluate_eq']),
                  'C11': (['Heuristic', 'Simple'], ['rs_score_from_value_eq', 'rs_evaluate_eq', 'rs_is_checkmate_eq', 'rs_game_stage_eq', 'rs_piece_square_value_eq', 'rs_evaluate_ongoing_eq', 'rs_evaluate_full_eq']),
                  'C13': (['UciText', 'FindUci', 'MakeAllUci'], ['rs_to_uci_string_eq', 'rs_find_uci_eq', 'rs_find_uci_vis', 'rs_make_uci_eq', 'rs_make_uci_vis', 'rs_make_all_uci_eq']),
                  'C12': (['Fen', 'FenDecode', 'FenFromStr', 'FenRoundtrip', 'FenWrite'],
                          'rs_validate_rank_eq rs_fen_decode_eq rs_fen_decode_fromFenString rs_parse_player_states_eq rs_validate_ranks_eq rs_fen_from_str_eq rs_fen_from_str_startpos rs_fen_read_eq rs_fen_roundtrip_read rs_get_colored_piece_eq rs_fen_write_eq rs_fen_roundtrip'.split()),
                  'C15': (['Square'], ['rs_from_chars_eq']),
                  'C17': (['PgnBuffer', 'PgnBytes', 'PgnLoops', 'PgnTags', 'PgnMoves', 'PgnIter', 'PgnTotal'],
                          'rs_ensure_buffer_eq rs_read_token_sim rs_read_until_sim rs_pgn_next_eq rs_pgn_chunk_independent rs_pgn_next_total rs_pgn_reader_correct'.split()),
                  'C18': (['Table'], 'rs_table_put_eq rs_table_put_no_panic rs_table_get_eq rs_table_len_eq rs_table_clear_eq rs_table_new_eq rs_table_run_eq rs_table_run_spec'.split()),
                  'C04': (['Magic'], 'rs_magic_hash_eq rs_magic_get_attacks_eq rs_rook_attacks_eq rs_bishop_attacks_eq rs_rook_magics_eq rs_bishop_magics_eq'.split()),
                  # module granularity matters: a module that fails to build fails all its theorems, so each property lists only
                  # the function groups it depends on (Make / Unmake / GenMake / GenUnmake / GenXor are separate files)
                  'C01': (['GenerateCtor', 'GenerateScan', 'GenerateAttacks', 'GeneratePawns', 'GenerateCastle', 'GenerateTop', 'GenerateLegal', 'GenerateRules'],
                          'rs_make_move_ctor_eq rs_generate_attacks_eq rs_sliding_moves_eq rs_single_moves_eq rs_pawn_attacks_eq rs_pawn_moves_eq rs_castle_moves_eq rs_generate_pseudo_legal_wf rs_generate_non_quiescent_wf rs_generate_legal_moves_eq rs_is_any_move_legal_eq rs_generate_legal_eq_rules rs_generate_pseudo_legal_eq_rules'.split()),
                  'C02': (['Make', 'MoveBits', 'GenMake', 'GenerateCtor'], 'rs_make_eq rs_make_generated rs_is_valid_after_make rs_move_masks rs_move_shifts rs_move_decode_eq rs_move_encode_eq rs_make_move_ctor_eq rs_make_move_push'.split()),
                  'C03': (['Make', 'Unmake', 'MoveBits', 'GenMake', 'GenUnmake'], 'rs_unmake_eq rs_make_eq rs_unmake_generated rs_is_move_legal_generated rs_move_roundtrip rs_move_decode_eq'.split()),
                  'C05': (['Check'], 'rs_is_square_in_check_eq rs_is_in_check_by_bits_eq rs_is_current_in_check_eq rs_is_in_check_eq rs_is_valid_eq'.split()),
                  'C06': (['ZobristXor', 'GenXor'], 'rs_zobrist_xor_eq rs_zobrist_xor_generated'.split())}
    # end-to-end corollaries at the process level (stdin text -> stdout text): Props/EndToEnd composes C12, C15, C13, C02, C07, C08, C16
    e2e = {'C07': ['app_go_bestmove_legal', 'app_run_go_bestmove_legal', 'app_go_bestmove_legal_after_moves'],
           'C08': ['app_go_depth_reports_minimax', 'infoLine_projected'],
           'C16': ['app_position_fen_sets_board', 'app_go_depth_reports_minimax', 'app_go_bestmove_legal', 'app_position_moves']}
    for pid, thms in e2e.items():
        PROPS[pid]['modules'] = list(PROPS[pid]['modules']) + ['Inkayaku.Props.EndToEnd']
        PROPS[pid]['theorems'] = list(PROPS[pid]['theorems']) + ['Inkayaku.EndToEnd.' + t for t in thms]
    for pid, (mods, thms) in translated.items():
        PROPS[pid]['modules'] = list(PROPS[pid]['modules']) + ['Inkayaku.Props.Translated.' + m for m in mods]
        PROPS[pid]['theorems'] = list(PROPS[pid]['theorems']) + ['Inkayaku.Translated.' + t for t in thms]
    # C11: static evaluation (props.py) + searches of flip twins
    e11c, e11p = make_prop([lambda c, pl, t: flip_stream(c, pl, t, c.scale(60, 1500)),
                            lambda c, pl, t: mated_corpus_stream(c, pl, t, c.scale(40, 1000), maxk=1),
                            lambda c, pl, t: mate_corpus_stream(c, pl, t, c.scale(20, 200))], extra_post=flip_post)
    base11, post11 = PROPS['C11']['cases'], PROPS['C11']['post']
    PROPS['C11']['cases'] = lambda ctx: base11(ctx) + e11c(ctx)
    PROPS['C11']['post'] = lambda ctx, cs, impl: post11(ctx, cs, impl) + e11p(ctx, cs, impl)
