#!/usr/bin/env python3
"""build_ep_corpus.py [ncandidates] [seed] — builds corpus/ep_special.txt (run by hand, result committed).

Well-formed positions with an en-passant square in which the e.p. capture is pseudo-legal but ILLEGAL because it removes two pawns
from one line at once (king, the two pawns and an enemy rook/queen on a rank; or the captured pawn shielding a diagonal), in
particular positions that are STALEMATE apart from that capture.  Such positions decide fast paths of legality tests
(`is_any_move_legal`, `generate_legal_moves`, `find_uci`) that skip make/unmake for "unpinned" pieces.  Every entry is validated by
the rules Spec (well-formed; the e.p. capture is not legal).  Line format: <fen_> <kind>   (kind: stalemate | ongoing | mate)"""
import os, sys
sys.path.insert(0, os.path.dirname(__file__))
from vlib import core
from vlib.props import flip_fen


def fen_of(b, side, ep):
    rows = []
    for r in range(7, -1, -1):
        row, run = '', 0
        for f in range(8):
            p = b.get((f, r))
            if p is None:
                run += 1
            else:
                row += (str(run) if run else '') + p
                run = 0
        rows.append(row + (str(run) if run else ''))
    return '%s_%s_-_%s_0_40' % ('/'.join(rows), side, ep)


def candidate(rng):
    """white to move, black has just played a double step to rank 5 (index 4)"""
    b = {}
    r = 4
    files = rng.sample(list(range(8)), 8)
    # four squares on the rank in increasing or decreasing order: K, x, y, R   with {x,y} = {p,P} adjacent
    lo = rng.below(5)
    span = sorted(rng.sample(list(range(lo, 8)), 2))
    kf, rf = span[0], span[1]
    if rf - kf < 3:
        return None
    x = kf + 1 + rng.below(rf - kf - 2)
    pair = [(x, 'p'), (x + 1, 'P')] if rng.chance(1, 2) else [(x, 'P'), (x + 1, 'p')]
    if rng.chance(1, 2):      # mirror the rank
        kf, rf, pair = 7 - kf, 7 - rf, [(7 - f, p) for f, p in pair]
    b[(kf, r)] = 'K'
    b[(rf, r)] = rng.pick(['r', 'q'])
    for f, p in pair:
        b[(f, r)] = p
    pf = [f for f, p in pair if p == 'p'][0]
    of = [f for f, p in pair if p == 'P'][0]
    ep = 'abcdefgh'[pf] + '6'
    # block the own pawn
    if rng.chance(3, 4):
        b[(of, 5)] = rng.pick(['p', 'p', 'n', 'b'])
    allsq = [(f, rr) for f in range(8) for rr in range(8)]
    def put(piece, n):
        for _ in range(n):
            free = [s for s in allsq if s not in b and not (piece in 'pP' and s[1] in (0, 7)) and s != (pf, 5) and s != (pf, 6)]
            if free:
                b[rng.pick(free)] = piece
    put('k', 1)
    put('r', rng.below(3)); put('b', rng.below(3)); put('n', rng.below(2)); put('p', rng.below(4)); put('q', rng.below(2))
    if rng.chance(1, 3):
        put('P', 1)
    return fen_of(b, 'w', ep)


def main():
    n = int(sys.argv[1]) if len(sys.argv) > 1 else 200000
    rng = core.Rng(int(sys.argv[2]) if len(sys.argv) > 2 else 5)
    cands = [c for c in (candidate(rng) for _ in range(n)) if c]
    cands = list(dict.fromkeys(cands))
    wf = core.run_model(['wf %s' % c for c in cands])
    cands = [c for c, a in zip(cands, wf) if a == '1']
    term = core.run_model(['spec:terminal %s' % c for c in cands])
    legal = core.run_model(['spec:legal %s' % c for c in cands])
    keep = {'stalemate': [], 'ongoing': [], 'mate': []}
    for c, t, l in zip(cands, term, legal):
        ep = c.split('_')[3]
        rank5 = c.split('_')[0].split('/')[3]
        cells = []
        for ch in rank5:
            cells += ['.'] * int(ch) if ch.isdigit() else [ch]
        epf = ord(ep[0]) - 97
        # pseudo-legal e.p. captures: own pawns on rank 5 next to the e.p. file
        epcaps = ['abcdefgh'[f] + '5' + ep for f in (epf - 1, epf + 1) if 0 <= f < 8 and cells[f] == 'P']
        ill = [m for m in epcaps if m not in l.split(',')]
        if ill and t in keep:
            keep[t].append(c)
    print({k: len(v) for k, v in keep.items()}, 'of', len(cands), 'well-formed candidates', file=sys.stderr)
    out = []
    for k, lim in (('stalemate', 400), ('ongoing', 300), ('mate', 100)):
        for c in keep[k][:lim]:
            out.append('%s %s' % (c, k))
            out.append('%s %s' % (flip_fen(c), k))
    open(os.path.join(core.VERIF, 'corpus', 'ep_special.txt'), 'w').write('\n'.join(out) + '\n')
    print('written', len(out), file=sys.stderr)


main()
