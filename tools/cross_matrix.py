#!/usr/bin/env python3
"""cross_matrix.py <seed-id> [<seed-id> …]   — diagnostic: applies each seeded change to /repo and runs the quick check of EVERY
property, to see which checks besides the targeted one react (precision: a check should not alarm on a change that leaves its
property intact, except through a proof/tie it shares).  Writes work/cross_matrix.json; always reverts /repo."""
import json, os, subprocess, sys, time
VERIF = os.path.abspath(os.path.join(os.path.dirname(__file__), '..'))
PROPS = ['C%02d' % i for i in range(1, 20)]


def sh(cmd, **kw):
    return subprocess.run(cmd, shell=True, stdout=subprocess.PIPE, stderr=subprocess.STDOUT, text=True, **kw)


def main():
    out_p = os.path.join(VERIF, 'work', 'cross_matrix.json')
    res = json.load(open(out_p)) if os.path.exists(out_p) else {}
    for sid in sys.argv[1:]:
        d = os.path.join(VERIF, 'seeded', sid)
        if sh('git -C /repo status --porcelain').stdout.strip():
            print('refusing: /repo dirty')
            return 2
        if sh('git -C /repo apply --whitespace=nowarn %s/patch.diff' % d).returncode != 0:
            print('patch does not apply', sid)
            continue
        row = {}
        try:
            for p in PROPS:
                t = time.time()
                r = sh('VERIF_EVIDENCE_DIR=%s/work/seed_evidence %s/bin/check %s --tier quick' % (VERIF, VERIF, p), cwd=VERIF, timeout=3600)
                lines = [l for l in r.stdout.split('\n') if l.startswith('VIOLATION')]
                kinds = sorted({l.split(' ')[1].split(':')[0] for l in r.stdout.split('\n') if l.startswith('[check] ') and ':' in l.split(' ')[1] and not l.startswith('[check] C')})
                row[p] = {'exit': r.returncode, 'concrete': any('no-failing-input-found' not in l for l in lines), 'kinds': kinds, 'secs': round(time.time() - t, 1)}
                print(sid, p, row[p], flush=True)
        finally:
            sh('git -C /repo checkout -- .')
            sh('cd %s/harness && cargo build --offline --bins && ./target/debug/dumpconsts ../lean/Inkayaku/Gen' % VERIF)
            sh('%s/translator/target/debug/rs2lean /repo %s/lean/Inkayaku/Gen/Rs' % (VERIF, VERIF))
            sh('python3 %s/tools/gen_c04.py %s/lean; python3 %s/tools/serde_schema.py /repo %s/lean/Inkayaku/Gen/LichessSchema.lean' % (VERIF, VERIF, VERIF, VERIF))
        res[sid] = row
        json.dump(res, open(out_p, 'w'), indent=1)
    return 0


sys.exit(main())
