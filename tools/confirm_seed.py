#!/usr/bin/env python3
"""confirm_seed.py <worktree> <i> <seed-id> <property> [crate tests to run…]

Confirms a seeded change independently of the agent that wrote it, inside the scratch worktree:
  1. the diff applies to the worktree HEAD and the workspace crates touched still compile,
  2. the existing tests of the touched crates pass with the change (perft::run_all / test_threefold_1-3 excluded: they fail on
     the unchanged tree too),
  3. the demonstration test FAILS with the change and PASSES without it.
On success copies patch.diff / demo.rs / notes.md into /verif/seeded/<seed-id>/ and writes meta.json."""
import json, os, re, shutil, subprocess, sys, time

VERIF = os.path.abspath(os.path.join(os.path.dirname(__file__), '..'))


def sh(cmd, cwd, timeout=3600):
    p = subprocess.run(cmd, shell=True, cwd=cwd, stdout=subprocess.PIPE, stderr=subprocess.STDOUT, text=True, timeout=timeout,
                       env=dict(os.environ, CARGO_NET_OFFLINE='true'))
    return p.returncode, p.stdout


def main_inline(wt, i, sid, prop, diff, inline, notes):
    """the demonstration is a #[cfg(test)] module to be appended to a source file (private API)"""
    first = open(inline).readline()
    target = re.search(r'inline:\s*(\S+)', first).group(1)
    crate = target.split('/')[0]
    pkg = 'inkayaku_' + crate
    log = {'inline_target': target}
    sh('git checkout -- .', wt)
    src = os.path.join(wt, target)
    body = open(inline).read()
    ok = True
    try:
        open(src, 'a').write('\n' + body)
        rc, out = sh('cargo test --offline -p %s --lib seed_demo 2>&1 | tail -15' % pkg, wt)
        log['demo_without_change'] = 'pass' if 'test result: ok' in out and 'FAILED' not in out and not re.search(r' 0 passed', out) else 'FAIL'
        if log['demo_without_change'] != 'pass':
            ok = False
            log['out'] = out[-800:]
        sh('git checkout -- .', wt)
        rc, out = sh('git apply --whitespace=nowarn %s' % diff, wt)
        if rc != 0:
            ok = False
            log['apply'] = out
        else:
            rc, out = sh('cargo test --offline -p %s --lib 2>&1 -- --skip test_threefold_1 --skip test_threefold_2 --skip test_threefold_3 | grep -E "^test result|FAILED" | head' % pkg, wt)
            log['unit_tests'] = out.strip()
            if 'FAILED' in out or 'test result: ok' not in out:
                ok = False
            open(src, 'a').write('\n' + body)
            rc, out = sh('cargo test --offline -p %s --lib seed_demo 2>&1 | tail -15' % pkg, wt)
            log['demo_with_change'] = 'fail' if 'FAILED' in out or 'panicked' in out else 'PASSES'
            if log['demo_with_change'] != 'fail':
                ok = False
    finally:
        sh('git checkout -- .', wt)
    log['confirmed'] = ok
    print(json.dumps(log, indent=1))
    if ok:
        d = os.path.join(VERIF, 'seeded', sid)
        os.makedirs(d, exist_ok=True)
        shutil.copy(diff, os.path.join(d, 'patch.diff'))
        shutil.copy(inline, os.path.join(d, 'demo_inline.rs'))
        if os.path.exists(notes):
            shutil.copy(notes, os.path.join(d, 'notes.md'))
        meta = {'id': sid, 'breaks': [prop], 'demo_crate': pkg, 'demo_kind': 'inline test module appended to ' + target,
                'confirmed_by': 'tools/confirm_seed.py in scratch worktree %s' % wt, 'confirmation': log,
                'needs': open(notes).read()[:1500] if os.path.exists(notes) else ''}
        json.dump(meta, open(os.path.join(d, 'meta.json'), 'w'), indent=1)
    return 0 if ok else 1


def main():
    wt, i, sid, prop = sys.argv[1], sys.argv[2], sys.argv[3], sys.argv[4]
    seed = os.path.join(wt, '_seed')
    diff = os.path.join(seed, 'change%s.diff' % i)
    demo = os.path.join(seed, 'demo%s.rs' % i)
    inline = os.path.join(seed, 'demo%s_inline.rs' % i)
    if not os.path.exists(demo) and os.path.exists(inline):
        return main_inline(wt, i, sid, prop, diff, inline, os.path.join(seed, 'notes%s.md' % i))
    notes = os.path.join(seed, 'notes%s.md' % i)
    first = open(demo).readline()
    m = re.search(r'crate:\s*([A-Za-z_]+)', first)
    crate_dir = m.group(1) if m else 'board'
    crate_dir = crate_dir.replace('inkayaku_', '')
    pkg = 'inkayaku_' + crate_dir
    touched = sorted({l.split('/')[1] for l in open(diff) if l.startswith('+++ b/')})
    log = {'crate_of_demo': pkg, 'touched_crates': touched}
    sh('git checkout -- . && git clean -fdq -- %s' % ' '.join(touched + [crate_dir]), wt)
    tests_dir = os.path.join(wt, crate_dir, 'tests')
    os.makedirs(tests_dir, exist_ok=True)
    demo_name = 'seed_demo_%s_%s' % (sid.replace('-', '_').lower(), i)
    shutil.copy(demo, os.path.join(tests_dir, demo_name + '.rs'))
    ok = True
    try:
        # without the change: demo passes
        rc, out = sh('cargo test --offline -p %s --test %s 2>&1 | tail -15' % (pkg, demo_name), wt)
        log['demo_without_change'] = 'pass' if 'test result: ok' in out and 'FAILED' not in out else 'FAIL'
        if log['demo_without_change'] != 'pass':
            ok = False
            log['demo_without_change_output'] = out[-1500:]
        rc, out = sh('git apply --whitespace=nowarn %s' % diff, wt)
        if rc != 0:
            log['apply'] = out
            ok = False
        else:
            rc, out = sh('cargo test --offline -p %s --test %s 2>&1 | tail -25' % (pkg, demo_name), wt)
            log['demo_with_change'] = 'fail' if ('FAILED' in out or 'panicked' in out or 'test result: FAILED' in out or 'error' in out.lower() and 'test result: ok' not in out) else 'PASSES'
            log['demo_with_change_tail'] = out[-600:]
            if log['demo_with_change'] != 'fail':
                ok = False
            # existing tests of the touched crates (skipping the always-failing ones)
            for c in touched:
                rc, out = sh('cargo test --offline -p inkayaku_%s --lib --bins 2>&1 -- --skip run_all --skip test_threefold_1 --skip test_threefold_2 --skip test_threefold_3 | grep -E "^test result|FAILED|failed" | head' % c, wt, timeout=3600)
                log['unit_tests_%s' % c] = out.strip()
                if 'FAILED' in out or re.search(r'[1-9][0-9]* failed', out) or 'test result: ok' not in out:
                    ok = False
            if 'board' in touched or 'core' in touched:
                rc, out = sh('cargo test --offline -p inkayaku_board --test perft 2>&1 -- --skip run_all | grep -E "^test result|FAILED|failed" | head', wt, timeout=3600)
                log['perft_tests'] = out.strip()
                if 'FAILED' in out or re.search(r'[1-9][0-9]* failed', out) or 'test result: ok' not in out:
                    ok = False
    finally:
        sh('git checkout -- . ', wt)
        os.remove(os.path.join(tests_dir, demo_name + '.rs'))
    log['confirmed'] = ok
    print(json.dumps(log, indent=1))
    if ok:
        d = os.path.join(VERIF, 'seeded', sid)
        os.makedirs(d, exist_ok=True)
        shutil.copy(diff, os.path.join(d, 'patch.diff'))
        shutil.copy(demo, os.path.join(d, 'demo.rs'))
        if os.path.exists(notes):
            shutil.copy(notes, os.path.join(d, 'notes.md'))
        meta = {'id': sid, 'breaks': [prop], 'demo_crate': pkg, 'confirmed_by': 'tools/confirm_seed.py in scratch worktree %s' % wt,
                'confirmation': log, 'needs': open(notes).read()[:1500] if os.path.exists(notes) else ''}
        json.dump(meta, open(os.path.join(d, 'meta.json'), 'w'), indent=1)
    return 0 if ok else 1


sys.exit(main())
