#!/usr/bin/env python3
"""try_seed.py <seed dir> [property ids…]

Applies /verif/seeded/<id>/patch.diff (or the given directory's) to /repo, runs the quick check of the property it breaks
(from meta.json, or the ids given), records exit code + VIOLATION lines, and ALWAYS reverts /repo afterwards."""
import json, os, subprocess, sys, time

VERIF = os.path.abspath(os.path.join(os.path.dirname(__file__), '..'))


def sh(cmd, **kw):
    return subprocess.run(cmd, shell=True, stdout=subprocess.PIPE, stderr=subprocess.STDOUT, text=True, **kw)


def main():
    d = os.path.abspath(sys.argv[1])
    patch = os.path.join(d, 'patch.diff')
    meta_p = os.path.join(d, 'meta.json')
    meta = json.load(open(meta_p)) if os.path.exists(meta_p) else {}
    props = sys.argv[2:] or meta.get('breaks', [])
    if isinstance(props, str):
        props = [props]
    st = sh('git -C /repo status --porcelain')
    if st.stdout.strip():
        print('refusing: /repo has uncommitted changes:\n' + st.stdout)
        return 2
    r = sh('git -C /repo apply --whitespace=nowarn %s' % patch)
    if r.returncode != 0:
        print('patch does not apply:\n' + r.stdout)
        return 2
    results = {}
    try:
        for p in props:
            t = time.time()
            r = sh('VERIF_EVIDENCE_DIR=%s/work/seed_evidence %s/bin/check %s --tier quick' % (VERIF, VERIF, p), cwd=VERIF, timeout=3600)
            lines = [l for l in r.stdout.split('\n') if l.startswith('VIOLATION') or l.startswith('KNOWN-FINDING')]
            detail = [l for l in r.stdout.split('\n') if l.startswith('[check]')]
            results[p] = {'exit': r.returncode, 'violation_lines': lines[:6], 'log': detail[-8:], 'secs': round(time.time() - t, 1)}
            print(p, 'exit', r.returncode)
            for l in lines[:6] + detail[-6:]:
                print('   ', l[:400])
    finally:
        sh('git -C /repo checkout -- .')
        sh('git -C /repo clean -fdq -- board core uci engine_core engine_app pgn lichess_api lichess_bot')
        # the checks regenerated lean/Inkayaku/Gen from the patched tree: bring it back to the unchanged tree at once
        # (other work in the Lean project must not see the seeded constants)
        sh('cd %s/harness && cargo build --offline --bins && ./target/debug/dumpconsts ../lean/Inkayaku/Gen' % VERIF)
        sh('%s/translator/target/debug/rs2lean /repo %s/lean/Inkayaku/Gen/Rs' % (VERIF, VERIF))
        sh('python3 %s/tools/gen_c04.py %s/lean; python3 %s/tools/serde_schema.py /repo %s/lean/Inkayaku/Gen/LichessSchema.lean' % (VERIF, VERIF, VERIF, VERIF))
    if os.path.exists(meta_p):
        meta.setdefault('detection', {}).update(results)
        meta['detected'] = any(r['exit'] == 1 and r['violation_lines'] for r in meta['detection'].values())
        json.dump(meta, open(meta_p, 'w'), indent=1)
    return 0


sys.exit(main())
