#!/usr/bin/env python3
"""gen_lichess_docs.py -- test documents for property C19, generated FROM THE DOCUMENTED Lichess Bot API shapes
(not from the Rust code).

usage:  python3 gen_lichess_docs.py <seed> <n> [--strict-docs] [--mutate-percent P]

prints n lines
    json <kind> x:<lowercase hex of the UTF-8 JSON text>
with kind `state` (a line of GET /api/bot/game/stream/{gameId}: gameFull, gameState, chatLine, opponentGone) or
`event` (a line of GET /api/stream/event: gameStart, gameFinish, challenge, challengeCanceled, challengeDeclined).

About 85 % of the documents are valid documents of every message kind: every enumerated key (status, variant, speed,
perf, source, colour, title, ...), random subsets of the optional fields (absent or, where the API does so, null), unknown
extra fields, JSON escapes (\\n, \\", \\\\, \\/, \\uXXXX, surrogate pairs) in free-text fields, random member order and
white space, move strings of 0..600 plausible UCI moves including promotions (e7e8q) and castling (e1g1).
About 15 % are malformed / mutated: missing required field, wrong type, number out of range, unknown enum key, duplicate
field, truncated text, bad escapes, trailing garbage, irregular separators in the move string, unknown challenge rule.

Two places where the public documentation and the Rust model are known to differ are generated in the form the Rust
model expects unless --strict-docs is given:
  * challenge.rules        : documented as an ARRAY of rule names; generated as a comma separated string
  * challenge.declineReason: documented as human readable text (the key is `declineReasonKey`); generated as the key
All randomness comes from the seed.  Python stdlib only.
"""
import random
import sys

# ------------------------------------------------------------------------------------------------ documented keys

STATUS = [(10, "created"), (20, "started"), (25, "aborted"), (30, "mate"), (31, "resign"), (32, "stalemate"),
          (33, "timeout"), (34, "draw"), (35, "outoftime"), (36, "cheat"), (37, "noStart"), (38, "unknownFinish"),
          (60, "variantEnd")]
VARIANTS = [("standard", "Standard", "Std"), ("chess960", "Chess960", "960"), ("crazyhouse", "Crazyhouse", "Crazy"),
            ("antichess", "Antichess", "Anti"), ("atomic", "Atomic", "Atom"), ("horde", "Horde", "Horde"),
            ("kingOfTheHill", "King of the Hill", "KotH"), ("racingKings", "Racing Kings", "Racing"),
            ("threeCheck", "Three-check", "3check"), ("fromPosition", "From Position", "FEN")]
SPEEDS = ["ultraBullet", "bullet", "blitz", "rapid", "classical", "correspondence"]
# perf keys of games: the speeds for standard chess, the variant key otherwise
PERFS = SPEEDS + ["chess960", "crazyhouse", "antichess", "atomic", "horde", "kingOfTheHill", "racingKings", "threeCheck"]
SOURCES = ["lobby", "friend", "ai", "api", "arena", "position", "import", "importlive", "simul", "relay", "pool", "swiss"]
COLORS = ["white", "black"]
TITLES = ["GM", "WGM", "IM", "WIM", "FM", "WFM", "NM", "CM", "WCM", "WNM", "LM", "BOT"]
ROOMS = ["player", "spectator"]
CHALLENGE_STATUS = ["created", "offline", "canceled", "declined", "accepted"]
COLOR_CHOICE = ["white", "black", "random"]
DIRECTIONS = ["in", "out"]
DECLINE_KEYS = ["generic", "later", "toofast", "tooslow", "timecontrol", "rated", "casual", "standard", "variant",
                "nobot", "onlybot"]
DECLINE_TEXT = ["I'm not accepting challenges at the moment.", "This is not the right time for me, please ask again later.",
                "This time control is too fast for me, please challenge again with a slower game.",
                "I'm not accepting challenges with this time control.", "Please send me a rated challenge instead."]
RULES = ["noAbort", "noRematch", "noGiveTime", "noClaimWin", "noEarlyDraw"]
PERF_ICONS = ["\ue01d", "\ue008", "#", ")", "+", ";", "\ue00b", "(", "@"]

NAMES = ["lovlas", "thibot", "Philippe", "leelachess", "maia1", "DrNykterstein", "b\u00f8rre", "\u0416\u0435\u043d\u044f",
         "\u5f20\u4f1f", "anna \"the rook\" k", "back\\slash", "tab\there", "emoji\U0001F600\U0001F3C1", "nul\u0000char",
         "line1\nline2", "a/b", "\u007f", "\u00e9\u00e8", "x"]
TEXTS = ["Good luck, have fun", "gg", "Takeback sent", "\"quoted\"", "C:\\path\\file", "multi\nline\r\nchat", "tab\tsep",
         "\U0001F600\U0001F44D nice", "\u2028 line sep", "\u0001\u001f controls", "</script>", "1/2-1/2?", "", " ",
         "e2e4 e7e5", "\u00a0", "\ud7ff\ue000", "\U0010FFFF"]
FENS = ["startpos", "rnbqkbnr/pppppppp/8/8/8/8/PPPPPPPP/RNBQKBNR w KQkq - 0 1",
        "r1bqkbnr/pppp1ppp/2n5/4p3/4P3/5N2/PPPP1PPP/RNBQKB1R w KQkq - 2 3", "8/8/8/8/8/5k2/6q1/7K w - - 0 60",
        "rnbqk2r/pppp1ppp/5n2/2b1p3/2B1P3/5N2/PPPP1PPP/RNBQK2R w KQkq - 4 4"]
IDCHARS = "abcdefghijklmnopqrstuvwxyzABCDEFGHIJKLMNOPQRSTUVWXYZ0123456789"


# ------------------------------------------------------------------------------------------------ document tree

class Obj:
    """JSON object: ordered list of [key, value] (duplicates possible after mutation)"""
    def __init__(self, members):
        self.members = [[k, v] for k, v in members]


class Str:
    """string; free = free text (may be written with arbitrary escapes); otherwise only mandatory escapes are used"""
    def __init__(self, text, free=False, enum=None):
        self.text, self.free, self.enum = text, free, enum


class Raw:
    """literal JSON text (floats, odd numbers, broken tokens)"""
    def __init__(self, text):
        self.text = text


def S(text):
    return Str(text, free=True)


def E(rng, keys):
    return Str(rng.choice(keys), enum=keys)


# ------------------------------------------------------------------------------------------------ valid documents

def rand_id(rng, n):
    return "".join(rng.choice(IDCHARS) for _ in range(n))


def uci_move(rng):
    r = rng.random()
    if r < 0.04:
        return rng.choice(["e1g1", "e1c1", "e8g8", "e8c8"])
    if r < 0.10:
        f = rng.choice("abcdefgh")
        t = rng.choice("abcdefgh")
        if rng.random() < 0.5:
            return f + "7" + t + "8" + rng.choice("qrbn")
        return f + "2" + t + "1" + rng.choice("qrbn")
    while True:
        a = rng.choice("abcdefgh") + rng.choice("12345678")
        b = rng.choice("abcdefgh") + rng.choice("12345678")
        if a != b:
            return a + b


def moves_string(rng):
    r = rng.random()
    if r < 0.2:
        n = 0
    elif r < 0.5:
        n = rng.randint(1, 10)
    elif r < 0.85:
        n = rng.randint(11, 120)
    elif r < 0.95:
        n = rng.randint(121, 300)
    else:
        # very long games: Lichess ends a game after 300 MOVES = 600 plies (and the bot must still decode every ply)
        n = rng.choice([299, 300, 301, 302, 400, 599, 600, rng.randint(301, 600)])
    return " ".join(uci_move(rng) for _ in range(n))


def maybe(rng, members, key, make, p=0.5, nullable=False):
    """optional field: absent, present, or (where the API can send it) null"""
    r = rng.random()
    if r < p:
        members.append((key, make()))
    elif nullable and r < p + 0.15:
        members.append((key, None))


def extras(rng, members):
    """unknown extra fields, as the API adds over time"""
    while rng.random() < 0.25:
        k = rng.choice(["expiration", "isMyTurn", "id", "betterFields", "x-extra", "new\u00e9", "a b", "", "bot", "finalColour"])
        if any(k == m[0] for m in members):
            continue
        v = rng.choice([
            lambda: rng.randint(-10, 10 ** 6), lambda: S(rng.choice(TEXTS)), lambda: True, lambda: None,
            lambda: Obj([("idleMillis", rng.randint(0, 10 ** 5)), ("millisToMove", 30000)]),
            lambda: [1, S("two"), Obj([]), [], None], lambda: Raw("3.25"), lambda: Raw("-1.5e-3"), lambda: Raw("1E+2"),
            lambda: Raw("12345678901234567890123"), lambda: Obj([("a", Obj([("a", [Obj([])])]))]),
        ])()
        members.insert(rng.randint(0, len(members)), (k, v))
    return members


def variant_obj(rng, short=True):
    key, name, sh = rng.choice(VARIANTS)
    m = [("key", Str(key, enum=[v[0] for v in VARIANTS])), ("name", S(name))]
    if short:
        m.append(("short", S(sh)))
    return Obj(extras(rng, m))


def game_state_members(rng):
    m = [("moves", Str(moves_string(rng))),
         ("wtime", rng.choice([0, 1, 1000, 7598040, rng.randint(0, 2 ** 32 - 1), 2 ** 32 - 1, 2147483647])),
         ("btime", rng.randint(0, 10 ** 7)),
         ("winc", rng.choice([0, 1000, 10000, rng.randint(0, 180000)])),
         ("binc", rng.choice([0, 1000, 10000, rng.randint(0, 180000)])),
         ("status", Str(rng.choice(STATUS)[1], enum=[s[1] for s in STATUS]))]
    maybe(rng, m, "winner", lambda: E(rng, COLORS), 0.3)
    maybe(rng, m, "wdraw", lambda: rng.random() < 0.5)
    maybe(rng, m, "bdraw", lambda: rng.random() < 0.5)
    maybe(rng, m, "wtakeback", lambda: rng.random() < 0.5)
    maybe(rng, m, "btakeback", lambda: rng.random() < 0.5)
    maybe(rng, m, "rematch", lambda: S(rand_id(rng, 8)), 0.2)
    if rng.random() < 0.1:           # the API may leave out an empty move list in some clients' fixtures
        m = [x for x in m if x[0] != "moves"]
    return m


def player_obj(rng):
    m = [("id", S(rng.choice(NAMES).lower()))]
    maybe(rng, m, "name", lambda: S(rng.choice(NAMES)), 0.85)
    maybe(rng, m, "title", lambda: E(rng, TITLES), 0.3, nullable=True)
    maybe(rng, m, "rating", lambda: rng.randint(400, 3400), 0.8)
    maybe(rng, m, "provisional", lambda: True, 0.2)
    maybe(rng, m, "aiLevel", lambda: rng.randint(1, 8), 0.1)
    return Obj(extras(rng, m))


def gen_game_full(rng):
    m = [("type", Str("gameFull")), ("id", S(rand_id(rng, 8))), ("variant", variant_obj(rng)),
         ("speed", E(rng, SPEEDS)), ("perf", Obj([("name", S(rng.choice(["Blitz", "Bullet", "Rapid", "Three-check"])))])),
         ("rated", rng.random() < 0.5), ("createdAt", rng.choice([1523825103562, rng.randint(0, 2 ** 53), 2 ** 64 - 1])),
         ("white", player_obj(rng)), ("black", player_obj(rng)), ("initialFen", S(rng.choice(FENS)))]
    maybe(rng, m, "clock", lambda: Obj([("initial", rng.choice([60000, 300000, 10800000])),
                                       ("increment", rng.choice([0, 1000, 3000, 180000]))]), 0.7, nullable=True)
    maybe(rng, m, "daysPerTurn", lambda: rng.randint(1, 14), 0.15)
    maybe(rng, m, "tournamentId", lambda: S(rand_id(rng, 8)), 0.15)
    m.append(("state", Obj(extras(rng, [("type", Str("gameState"))] + game_state_members(rng)))))
    return "state", Obj(extras(rng, m))


def gen_game_state(rng):
    return "state", Obj(extras(rng, [("type", Str("gameState"))] + game_state_members(rng)))


def gen_chat_line(rng):
    return "state", Obj(extras(rng, [("type", Str("chatLine")), ("room", E(rng, ROOMS)),
                                      ("username", S(rng.choice(NAMES))), ("text", S(rng.choice(TEXTS)))]))


def gen_opponent_gone(rng):
    m = [("type", Str("opponentGone")), ("gone", rng.random() < 0.6)]
    maybe(rng, m, "claimWinInSeconds", lambda: rng.choice([0, 8, 30, rng.randint(0, 300)]), 0.6)
    return "state", Obj(extras(rng, m))


def compat_obj(rng):
    return Obj([("bot", rng.random() < 0.7), ("board", rng.random() < 0.7)])


def gen_game_event(rng, typ):
    sid, sname = rng.choice(STATUS)
    opp = [("id", S(rng.choice(NAMES).lower())), ("username", S(rng.choice(NAMES)))]
    maybe(rng, opp, "rating", lambda: rng.randint(400, 3400), 0.8)
    maybe(rng, opp, "ratingDiff", lambda: rng.randint(-60, 60), 0.2)
    maybe(rng, opp, "ai", lambda: rng.randint(1, 8), 0.1)
    g = [("fullId", S(rand_id(rng, 12))), ("gameId", S(rand_id(rng, 8))), ("fen", S(rng.choice(FENS[1:]))),
         ("color", E(rng, COLORS)), ("lastMove", Str(rng.choice(["", uci_move(rng)]))), ("source", E(rng, SOURCES)),
         ("status", Obj([("id", sid), ("name", Str(sname, enum=[s[1] for s in STATUS]))])),
         ("variant", variant_obj(rng, short=False)), ("speed", E(rng, SPEEDS)), ("perf", E(rng, PERFS)),
         ("rated", rng.random() < 0.5), ("hasMoved", rng.random() < 0.5), ("opponent", Obj(extras(rng, opp))),
         ("isMyTurn", rng.random() < 0.5)]
    maybe(rng, g, "secondsLeft", lambda: rng.randint(0, 1209600), 0.6)
    maybe(rng, g, "tournamentId", lambda: S(rand_id(rng, 8)), 0.15)
    maybe(rng, g, "swissId", lambda: S(rand_id(rng, 8)), 0.1)
    maybe(rng, g, "orientation", lambda: E(rng, COLORS), 0.1)
    maybe(rng, g, "compat", lambda: compat_obj(rng), 0.7)
    if typ == "gameFinish":
        maybe(rng, g, "winner", lambda: E(rng, COLORS), 0.6)
        maybe(rng, g, "ratingDiff", lambda: rng.choice([rng.randint(-60, 60), -2 ** 31, 2 ** 31 - 1]), 0.5)
    return "event", Obj(extras(rng, [("type", Str(typ)), ("game", Obj(extras(rng, g)))]))


def challenge_user(rng):
    m = [("id", S(rng.choice(NAMES).lower())), ("name", S(rng.choice(NAMES))), ("rating", rng.randint(400, 3400))]
    maybe(rng, m, "title", lambda: E(rng, TITLES), 0.3, nullable=True)
    maybe(rng, m, "provisional", lambda: True, 0.2)
    maybe(rng, m, "patron", lambda: True, 0.2)
    maybe(rng, m, "online", lambda: True, 0.6)
    maybe(rng, m, "lag", lambda: rng.randint(0, 400), 0.4)
    return Obj(extras(rng, m))


def gen_challenge_event(rng, typ, strict):
    r = rng.random()
    if r < 0.6:
        lim, inc = rng.choice([30, 60, 180, 300, 600, 10800]), rng.choice([0, 1, 2, 25, 180])
        tc = Obj([("type", Str("clock")), ("limit", lim), ("increment", inc), ("show", S(f"{lim // 60}+{inc}"))])
    elif r < 0.8:
        tc = Obj([("type", Str("correspondence")), ("daysPerTurn", rng.randint(1, 14))])
    else:
        tc = Obj([("type", Str("unlimited"))])
    cid = rand_id(rng, 8)
    c = [("id", S(cid)), ("url", S("https://lichess.org/" + cid)),
         ("status", E(rng, CHALLENGE_STATUS))]
    maybe(rng, c, "challenger", lambda: challenge_user(rng), 0.85, nullable=True)
    maybe(rng, c, "destUser", lambda: challenge_user(rng), 0.85, nullable=True)
    c += [("variant", variant_obj(rng)), ("rated", rng.random() < 0.5), ("speed", E(rng, SPEEDS)), ("timeControl", tc),
          ("color", E(rng, COLOR_CHOICE)), ("finalColor", E(rng, COLORS)),
          ("perf", Obj([("icon", S(rng.choice(PERF_ICONS))), ("name", S(rng.choice(["Rapid", "Blitz", "Horde"])))]))]
    maybe(rng, c, "direction", lambda: E(rng, DIRECTIONS), 0.5)
    maybe(rng, c, "initialFen", lambda: S(rng.choice(FENS[1:])), 0.2)
    maybe(rng, c, "rematchOf", lambda: S(rand_id(rng, 8)), 0.15)
    if typ == "challengeDeclined" or rng.random() < 0.05:
        if strict:
            c.append(("declineReason", S(rng.choice(DECLINE_TEXT))))
            c.append(("declineReasonKey", E(rng, DECLINE_KEYS)))
        else:
            maybe(rng, c, "declineReason", lambda: E(rng, DECLINE_KEYS), 0.8)
    if rng.random() < 0.4:
        rules = rng.sample(RULES, rng.randint(1, len(RULES)))
        if strict:
            c.append(("rules", [Str(x, enum=RULES) for x in rules]))
        else:
            c.append(("rules", Str(",".join(rules))))
    m = [("type", Str(typ)), ("challenge", Obj(extras(rng, c)))]
    maybe(rng, m, "compat", lambda: compat_obj(rng), 0.7)
    return "event", Obj(extras(rng, m))


GENERATORS = [
    ("gameFull", 3, lambda rng, s: gen_game_full(rng)),
    ("gameState", 4, lambda rng, s: gen_game_state(rng)),
    ("chatLine", 2, lambda rng, s: gen_chat_line(rng)),
    ("opponentGone", 1, lambda rng, s: gen_opponent_gone(rng)),
    ("gameStart", 2, lambda rng, s: gen_game_event(rng, "gameStart")),
    ("gameFinish", 2, lambda rng, s: gen_game_event(rng, "gameFinish")),
    ("challenge", 3, lambda rng, s: gen_challenge_event(rng, "challenge", s)),
    ("challengeCanceled", 1, lambda rng, s: gen_challenge_event(rng, "challengeCanceled", s)),
    ("challengeDeclined", 2, lambda rng, s: gen_challenge_event(rng, "challengeDeclined", s)),
]


# ------------------------------------------------------------------------------------------------ writer

def esc_mandatory(ch):
    o = ord(ch)
    if ch == '"':
        return '\\"'
    if ch == "\\":
        return "\\\\"
    if o < 0x20:
        return {8: "\\b", 9: "\\t", 10: "\\n", 12: "\\f", 13: "\\r"}.get(o, "\\u%04x" % o)
    return ch


def esc_u(ch, rng):
    o = ord(ch)
    fmt = "\\u%04x" if rng.random() < 0.5 else "\\u%04X"
    if o >= 0x10000:
        o -= 0x10000
        return (fmt % (0xD800 + (o >> 10))) + (fmt % (0xDC00 + (o & 0x3FF)))
    return fmt % o


def write_str(s, rng, free, style):
    out = ['"']
    for ch in s:
        if free and style > 0 and rng.random() < (0.15 if style == 1 else 0.6):
            if ch == "/" and rng.random() < 0.7:
                out.append("\\/")
            elif 0xD800 <= ord(ch) <= 0xDFFF:
                out.append(esc_mandatory(ch))
            else:
                out.append(esc_u(ch, rng))
        else:
            e = esc_mandatory(ch)
            if len(e) == 2 and e[1] in "btnfr" and rng.random() < 0.3:
                e = "\\u%04x" % ord(ch)
            out.append(e)
    out.append('"')
    return "".join(out)


def ws(rng, style):
    if style == 0:
        return ""
    return rng.choice(["", "", "", " ", "  ", "\n", "\t", "\r\n "]) if rng.random() < 0.3 else ""


def write(v, rng, wstyle, estyle):
    if v is None:
        return "null"
    if v is True:
        return "true"
    if v is False:
        return "false"
    if isinstance(v, int):
        return str(v)
    if isinstance(v, Raw):
        return v.text
    if isinstance(v, Str):
        return write_str(v.text, rng, v.free, estyle)
    if isinstance(v, list):
        return "[" + ws(rng, wstyle) + ("," + ws(rng, wstyle)).join(write(x, rng, wstyle, estyle) + ws(rng, wstyle) for x in v) + "]"
    if isinstance(v, Obj):
        parts = []
        for k, x in v.members:
            parts.append(write_str(k, rng, estyle == 2 and rng.random() < 0.1, estyle) + ws(rng, wstyle) + ":" + ws(rng, wstyle)
                         + write(x, rng, wstyle, estyle) + ws(rng, wstyle))
        return "{" + ws(rng, wstyle) + ("," + ws(rng, wstyle)).join(parts) + "}"
    raise TypeError(type(v))


# ------------------------------------------------------------------------------------------------ mutations

def all_slots(v, acc, parent=None, idx=None):
    """(container, index) of every value in the tree"""
    if parent is not None:
        acc.append((parent, idx))
    if isinstance(v, Obj):
        for i, (_, x) in enumerate(v.members):
            all_slots(x, acc, v, i)
    elif isinstance(v, list):
        for i, x in enumerate(v):
            all_slots(x, acc, v, i)
    return acc


def get_slot(slot):
    c, i = slot
    return c.members[i][1] if isinstance(c, Obj) else c[i]


def set_slot(slot, val):
    c, i = slot
    if isinstance(c, Obj):
        c.members[i][1] = val
    else:
        c[i] = val


def objects(v, acc):
    if isinstance(v, Obj):
        acc.append(v)
        for _, x in v.members:
            objects(x, acc)
    elif isinstance(v, list):
        for x in v:
            objects(x, acc)
    return acc


def other_type_value(rng, v):
    cands = [1, -1, S("str"), Str(""), True, False, None, Obj([]), [], Raw("1.5"), Raw("1e2"), Raw("-0"), [1, 2],
             Obj([("a", 1)]), Raw("0"), Str("0"), [Str("noAbort")], Obj([("white", None)]), Obj([("started", Obj([]))])]
    return rng.choice(cands)


def mutate_tree(rng, doc, kind_of_mutation):
    """returns True if the mutation could be applied"""
    slots = all_slots(doc, [])
    if kind_of_mutation == "missing":
        objs = [o for o in objects(doc, []) if o.members]
        o = rng.choice(objs)
        del o.members[rng.randrange(len(o.members))]
        return True
    if kind_of_mutation == "wrongtype":
        s = rng.choice(slots)
        set_slot(s, other_type_value(rng, get_slot(s)))
        return True
    if kind_of_mutation == "range":
        ints = [s for s in slots if isinstance(get_slot(s), int) and not isinstance(get_slot(s), bool)]
        if not ints:
            return False
        s = rng.choice(ints)
        set_slot(s, rng.choice([Raw("4294967296"), Raw("4294967295"), Raw("18446744073709551616"), Raw("18446744073709551615"),
                                Raw("-1"), Raw("2147483648"), Raw("-2147483649"), Raw("-2147483648"), Raw("1" + "0" * 30),
                                Raw("1.0"), Raw("1e3"), Raw("-0"), Raw("007"), Raw("9223372036854775808"),
                                Raw("-9223372036854775809"), Raw("1" + "0" * 400), Raw("1e400"), Raw("0e400"), Raw("1E-400"),
                                Raw("1.7976931348623157e308"), Raw("1.8e308"), Raw("3."), Raw(".5"), Raw("+1"), Raw("1e"),
                                Raw("0x10"), Raw("-")]))
        return True
    if kind_of_mutation == "enum":
        enums = [s for s in slots if isinstance(get_slot(s), Str) and get_slot(s).enum is not None]
        if not enums:
            return False
        s = rng.choice(enums)
        old = get_slot(s)
        new = rng.choice(["zzz", old.text.upper(), old.text.capitalize(), old.text + " ", "", old.text.lower(), "tournament",
                          "horde", "puzzle", "standard", "fromPosition", "importLive", "tooFast", "none"])
        set_slot(s, Str(new, enum=old.enum))
        return True
    if kind_of_mutation == "dupfield":
        objs = [o for o in objects(doc, []) if o.members]
        o = rng.choice(objs)
        k, v = rng.choice(o.members)
        o.members.insert(rng.randint(0, len(o.members)), [k, v if rng.random() < 0.6 else other_type_value(rng, v)])
        return True
    if kind_of_mutation == "moves":
        ms = [s for s in slots if isinstance(s[0], Obj) and s[0].members[s[1]][0] in ("moves", "lastMove")]
        if not ms:
            return False
        s = rng.choice(ms)
        old = get_slot(s)
        text = old.text if isinstance(old, Str) else "e2e4 e7e5"
        choice = rng.randrange(9)
        if choice == 0:
            text = text.replace(" ", "  ", 1) if " " in text else "e2e4  e7e5"
        elif choice == 1:
            text = " " + text
        elif choice == 2:
            text = text + " "
        elif choice == 3:
            text = rng.choice([" ", "   ", "\u00a0", "\u2003 ", "\u3000"])
        elif choice == 4:
            set_slot(s, Str(text + rng.choice(["\t", "\n", "\"", "\\"])))      # forces an escape in the literal
            return True
        elif choice == 5:
            set_slot(s, Str(text or "e2e4", free=True))                          # arbitrary \u escapes in the move string
            return True
        elif choice == 6:
            set_slot(s, [Str(x) for x in text.split(" ")])                       # array instead of string
            return True
        elif choice == 7:
            text = text + " " + rng.choice(["0000", "e2e9", "E2E4", "e7e8k", "\u00e92e4", "Nf3", "O-O", "e2-e4", "\u00a0"])
        else:
            text = text.replace(" ", "\u00a0")
        set_slot(s, Str(text))
        return True
    if kind_of_mutation == "rules":
        cs = [o for o in objects(doc, []) if any(k == "timeControl" for k, _ in o.members)]
        if not cs:
            return False
        o = rng.choice(cs)
        o.members = [m for m in o.members if m[0] != "rules"]
        val = rng.choice([Str("noAbort,bogus"), Str(""), Str("noAbort, noRematch"), Str("NOABORT,NoRematch"), Str("noabort"),
                          Str("noAbort,"), Str(","), [Str("noAbort")], [], Str("no\\u0041bort"), Str("noAbort", free=True),
                          Str("noClaimWin,noEarlyDraw,noGiveTime,noRematch,noAbort"), Str("\u212aoAbort"),
                          Str("noGiveTime\u0130"), None, 5, Str("noAbort\tnoRematch")])
        o.members.insert(rng.randint(0, len(o.members)), ["rules", val])
        if rng.random() < 0.3:                                                   # a second defect elsewhere: order matters
            mutate_tree(rng, doc, rng.choice(["missing", "wrongtype", "dupfield", "enum"]))
        return True
    return False


TEXT_MUTATIONS = ["truncate", "badescape", "trailing", "syntax"]
TREE_MUTATIONS = ["missing", "wrongtype", "range", "enum", "dupfield", "moves", "rules"]


def mutate_text(rng, text, kind_of_mutation):
    if kind_of_mutation == "truncate":
        return text[:rng.randrange(len(text))]
    if kind_of_mutation == "trailing":
        return text + rng.choice([" x", "}", ",", "{}", "null", " \n", "\u00a0", "\ufeff", "1"])
    if kind_of_mutation == "syntax":
        i = rng.randrange(len(text))
        return text[:i] + rng.choice([",", ":", "}", "{", "[", "]", "\"", "'", "nul", " ", "\u00a0", "tru", "\x00"]) + text[i + (rng.random() < 0.5):]
    if kind_of_mutation == "badescape":
        qs = [i for i, ch in enumerate(text) if ch == '"']
        if not qs:
            return text + "\\"
        i = rng.choice(qs) + (1 if rng.random() < 0.8 else 0)
        bad = rng.choice(["\\x", "\\u12", "\\ud800", "\\ud800\\u0041", "\\udc00", "\\ud83d\\ude00", "\\uD83D\\uDE00", "\t", "\n",
                          "\x01", "\\", "\\u00zz", "\\ud800\\udbff", "\\U0041", "\\ ", "\x7f", "\\u0000"])
        return text[:i] + bad + text[i:]
    return text


# ------------------------------------------------------------------------------------------------ main

def gen_one(rng, strict, mutate_p):
    total = sum(w for _, w, _ in GENERATORS)
    r = rng.randrange(total)
    for _, w, g in GENERATORS:
        if r < w:
            kind, doc = g(rng, strict)
            break
        r -= w
    wstyle = 0 if rng.random() < 0.6 else 1
    estyle = rng.choice([0, 0, 1, 1, 2])
    if rng.random() < 0.15:                      # member order is not significant in JSON
        rng.shuffle(doc.members)
    mutation = None
    if rng.random() < mutate_p:
        mutation = rng.choice(TREE_MUTATIONS + TEXT_MUTATIONS)
        if mutation in TREE_MUTATIONS and not mutate_tree(rng, doc, mutation):
            mutation = "truncate"
    text = write(doc, rng, wstyle, estyle)
    if mutation in TEXT_MUTATIONS:
        text = mutate_text(rng, text, mutation)
    if rng.random() < 0.1 and wstyle:
        text = rng.choice([" ", "\n", "\t "]) + text + rng.choice(["", "\n", "\r\n", "  "])
    # lone surrogates cannot be encoded as UTF-8; the document tree never contains them, text mutations neither
    return kind, text


def main(argv):
    args = [a for a in argv[1:] if not a.startswith("--")]
    strict = "--strict-docs" in argv
    mutate_p = 0.15
    if "--mutate-percent" in argv:
        mutate_p = float(argv[argv.index("--mutate-percent") + 1]) / 100.0
        args = [a for a in args if a != argv[argv.index("--mutate-percent") + 1]]
    if len(args) != 2:
        sys.stderr.write(__doc__)
        return 2
    seed, n = int(args[0]), int(args[1])
    rng = random.Random(seed)
    out = sys.stdout
    for _ in range(n):
        kind, text = gen_one(rng, strict, mutate_p)
        out.write(f"json {kind} x:{text.encode('utf-8').hex()}\n")
    return 0


if __name__ == "__main__":
    sys.exit(main(sys.argv))
