#!/usr/bin/env python3
"""build_perpetual_corpus.py [ncandidates] [seed]  — builds corpus/perpetuals.txt (run by hand, result committed).

Positions in which the draw-by-repetition rule DECIDES the value of a depth-4 search: the side to move is lost on material but
has a perpetual check (a forced four-ply cycle found by the model's `perpetual` op: two checking moves, each answered by the only
legal reply, restoring the position).  The session plays the cycle once as game history, so the root has occurred twice and every
line that completes the cycle again reaches a third occurrence at ply 4 — below the root, after the same position was searched
(and stored in the transposition table) as the root of the earlier iterations.
Each entry is validated when built: expected score = the exact path-dependent minimax value of the specification
`RepSpec.repSearch` (verified alpha-beta over the game with the repetition rule), it differs from the value without the rule,
and the UNCHANGED engine reports it.  Line format:  <fen_> | <a> <r1> <a2> <r2> | <depth> | <expected score> | <score without the rule>"""
import os, sys
sys.path.insert(0, os.path.join(os.path.dirname(__file__)))
from vlib import core
from vlib.props import flip_fen, flip_uci


def rows_to_fen(board):
    out = []
    for r in range(7, -1, -1):
        row, run = '', 0
        for f in range(8):
            p = board.get((f, r))
            if p is None:
                run += 1
            else:
                if run:
                    row += str(run)
                    run = 0
                row += p
        if run:
            row += str(run)
        out.append(row)
    return '/'.join(out)


def sq(name):
    return (ord(name[0]) - 97, int(name[1]) - 1)


def candidate(rng):
    b = {}
    def put(piece, squares):
        free = [s for s in squares if sq(s) not in b]
        if not free:
            return False
        b[sq(rng.pick(free))] = piece
        return True
    put('k', ['h8', 'g8', 'h7', 'g7', 'a8', 'b8'])
    for s in rng.sample(['f7', 'g7', 'h7', 'g6', 'h6', 'f6', 'a7', 'b7', 'c7', 'b6'], rng.below(4)):
        if sq(s) not in b:
            b[sq(s)] = 'p'
    put('K', ['h1', 'g1', 'h2', 'a1', 'b1'])
    for s in rng.sample(['g2', 'h2', 'f2', 'g3', 'h3', 'a2', 'b2', 'c2'], rng.below(4)):
        if sq(s) not in b:
            b[sq(s)] = 'P'
    allsq = [chr(97 + f) + str(r + 1) for f in range(8) for r in range(8)]
    put('Q', allsq)
    if rng.chance(1, 3):
        put(rng.pick(['N', 'B', 'R']), allsq)
    put('q', allsq)
    put('r', allsq)
    if rng.chance(1, 2):
        put(rng.pick(['r', 'b', 'n']), allsq)
    return rows_to_fen(b) + '_w_-_-_0_40'


def main():
    n = int(sys.argv[1]) if len(sys.argv) > 1 else 20000
    rng = core.Rng(int(sys.argv[2]) if len(sys.argv) > 2 else 7)
    cands = list(dict.fromkeys(candidate(rng) for _ in range(n)))
    ans = core.run_model(['perpetual %s' % c for c in cands])
    val = {'Q': 9, 'R': 5, 'B': 3, 'N': 3, 'P': 1}
    def deficit(c):     # material of black minus material of white (white is to move and should be the lost side)
        pl = c.split('_')[0]
        return sum(val.get(ch.upper(), 0) * (1 if ch.islower() else -1) for ch in pl if ch.isalpha())
    found = [(c, a) for c, a in zip(cands, ans) if a not in ('-', 'badfen', 'bad-request') and deficit(c) >= 4]
    print('candidates %d, with a forced four-ply cycle: %d' % (len(cands), len(found)), file=sys.stderr)
    # both colours
    both = []
    for c, cyc in found:
        both.append((c, cyc))
        both.append((flip_fen(c), ' '.join(flip_uci(m) for m in cyc.split(' '))))
    depth = 4
    reqs = ['rep-search %s %d %s' % (c, depth, cyc) for c, cyc in both]
    vals = core.run_model(reqs)
    keep = []
    for (c, cyc), v in zip(both, vals):
        parts = v.split(' ')
        if len(parts) != 2 or parts[0] == parts[1]:
            continue
        keep.append((c, cyc, parts[0], parts[1]))
    print('the rule changes the depth-%d value in %d' % (depth, len(keep)), file=sys.stderr)
    sess = ['session pos %s %s ; go depth %d' % (c, cyc, depth) for c, cyc, _, _ in keep]
    impl = core.run_impl(sess)
    out = []
    for (c, cyc, want, plain), a in zip(keep, impl):
        scores = [t.split(':') for t in a.split(' ') if t.startswith('I:')]
        final = [f[4] for f in scores if f[1] == str(depth)]
        if final and final[-1] == want:
            out.append('%s | %s | %d | %s | %s' % (c, cyc, depth, want, plain))
    print('validated on the unchanged engine: %d' % len(out), file=sys.stderr)
    path = os.path.join(core.VERIF, 'corpus', 'perpetuals.txt')
    open(path, 'w').write('\n'.join(out) + '\n')


main()
