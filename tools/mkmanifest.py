#!/usr/bin/env python3
"""Writes /verif/MANIFEST.json from the table below (kept in one place so that it stays valid and current)."""
import json, os, sys

VERIF = os.path.abspath(os.path.join(os.path.dirname(__file__), '..'))
TB = ("Trusted: Lean 4.33 kernel; axioms propext/Classical.choice/Quot.sound only (audited on every run); dumpconsts regenerating "
      "Inkayaku/Gen from the current build; the differential harness, generators and Python oracles; ")

P = {
 'C01': ("Theorems (Lean): the capture/promotion generator is exactly the capture-or-promotion filter of the pseudo-legal generator; every generated move is well-formed (C03 genPseudo_ok); "
         "check detection equals the rules' attack relation (C05) and table lookups equal ray walks (C04), castling masks equal the FIDE squares. The full equality genLegal = Spec.legalMoves "
         "is decided on every run by three-way differential testing (implementation = bitboard model = independent mailbox Spec of the rules) on generated legal positions incl. perft.",
         TB + "the full set equality with the rules is established by differential testing against the executable Spec, not by a closed Lean proof (stated as TARGET in Props/C01.lean).",
         "Lean 4 theorems for the generator structure + three-way differential testing against an executable rules Spec", "§4 C01"),
 'C02': ("Successor position of every legal move compared field by field (FEN) between implementation, bitboard model and the mailbox Spec; Lean theorems: castling-right loss, clock and e.p. updates of makeF as functions of the move fields.",
         TB + "equality with the rules' successor is by differential testing against the executable Spec.",
         "Lean 4 theorems on makeF + three-way differential testing", "§4 C02"),
 'C03': ("Lean theorems: field_roundtrip (decode∘encode = id on the CURRENT masks/shifts), unmake_make for every move satisfying the decidable MoveOK, genPseudo_ok/genNonQuiescent_ok (the generators only emit MoveOK moves on well-formed boards, every clock value up to 4095), hence unmake_make_generated incl. both hashes, and the line version by induction; tied to the code by make/unmake snapshots on all pseudo-legal moves of generated positions and whole lines.",
         TB + "u32 overflow of the full-move counter excluded by wf (fullmove < 2^31).",
         "Lean 4 proof (bit-level identities, induction over lines) + differential testing", "§4 C03"),
 'C04': ("Lean theorems rook_correct/bishop_correct: for every square and EVERY occupancy the magic lookup stays inside its table and equals the ray walk; 128 per-square kernel computations (decide +kernel over all 107,648 sub-occupancies) lifted to all 2^64 occupancies by a proved lemma; leaper tables equal step patterns by decide. Tables/magics/masks are regenerated from the current build on every run, so a changed constant re-opens the proof.",
         TB + "that rustc evaluates the const tables at run time as the same binary dumped them.",
         "Lean 4 kernel-checked theorem over regenerated tables + exhaustive differential sweep", "§4 C04"),
 'C05': ("Lean theorems: square_attacked / in_check / valid / move_legal — the reverse table lookup from the king square equals the rules' attack relation of the mailbox Spec for every well-formed board, colour and piece kind (via C04 and kernel-checked geometry/symmetry tables); no_moves_iff relative to C01; tied to the code by differential testing of in-check/valid/terminal on generated positions against model and Spec.",
         TB + "no_moves_iff uses the C01 move-set equality as hypothesis.",
         "Lean 4 proof via abstraction to a mailbox Spec + three-way differential testing", "§4 C05"),
 'C06': ("Lean theorems: hash_incremental / pawnHash_incremental (xor-linearity of the occupancy hash, zero rows), hash_congr (hash is a function of placement, side, rights, e.p. file), keys_good on the regenerated key material and single-component sensitivity; tied to the code by incremental-vs-recomputed checks on all pseudo-legal moves, clock/side/right/e.p. variants and a pool-wide key↔hash bijection check.",
         TB + "collisions between multi-component differences are outside the property.",
         "Lean 4 proof (GF(2) linearity) over regenerated keys + differential testing", "§4 C06"),
 'C07': ("Lean theorems on the faithful search model: go emits exactly one bestmove (last), taken from the last completed iteration; root move comes from the filtered legal buffer; no-legal-move gives the null move; tied to the code by in-process sessions (every go-limit kind, searchmoves, stop at enumerated poll points, virtual clock) compared exactly (scores, PVs, best moves) with the model, and by the real engine binary over pipes.",
         TB + "thread scheduling and wall clock are replaced by the poll-period / pending-message / virtual-clock parameters (hooks), over which the theorems quantify.",
         "Lean 4 theorems about an executable state-machine model + exact differential testing of sessions", "§4 C07"),
 'C08': ("Lean theorems: fail-soft alpha-beta with ANY move order over fail-hard quiescence equals minimax (quiescence_clamp, ab_ok, order_irrelevant, root_exact, best_move_optimal), mate-score arithmetic (C11 score_mate_*); the verified evaluator is the executable oracle: engine scores at depth 1..3 must equal it and the best move must attain it; mates in 1..3 corpus.",
         TB + "soundness of the transposition table inside the concrete search model for d<=3 is a stated TARGET; it is covered by exact differential testing of model and engine.",
         "Lean 4 proof on an abstract game instantiated with the board model + differential testing against the verified evaluator", "§4 C08"),
 'C09': ("Lean bracket theorem: for every fuel, window, poll period, pending message, clock and go parameters negamax/quiescence/deepen/go leave the visible board unchanged (every exit path incl. abort at any node), by induction, from C03's unmake_make; sessions by induction over consecutive searches; tied to the code by enumerating EVERY poll point of small searches (stop and quit, movetime expiry under the virtual clock) and reading the board back through the hook.",
         TB + "hypotheses H1/H2 (unmake∘make = id on wf boards; wf preserved by legal moves) are discharged by C03 / checked by the correspondence.",
         "Lean 4 invariant proof by induction over the search recursion + exhaustive interruption-point enumeration", "§4 C09"),
 'C10': ("Lean theorems countRepetitions_value/spec/threefold_iff characterise the repetition counter for every history, start index and half-move window and connect it to 'occurred three times' under explicit hypotheses; max_half_moves = 100 on the regenerated constant, fifty_only_after_100; engine-level correspondence on histories with repetitions and on half-move clocks 0..150.",
         TB + "64-bit hash collisions excluded by hypothesis HashInj inside the theorem.",
         "Lean 4 theorem about the executable model + differential testing against ZobristHistory through a hook", "§4 C10"),
 'C11': ("Lean theorems: black_tables_mirror (1152 entries, regenerated), eval_flip for EVERY board, evaluate_flip incl. terminal positions (check detection proved flip-equivariant via C04), terminal_sign, nearer_mate_better, score_mate_*/score_mated_* arithmetic for both colours; tied to the code by static evaluation of positions and their flips and depth<=3 searches of both.",
         TB + "search_flip (fixed-depth scores of flipped twins) is decided by differential testing, stated as TARGET in Lean.",
         "Lean 4 proof (sum re-indexing by the mirror involution) over regenerated tables + differential testing", "§4 C11"),
 'C12': ("Lean theorems: print_parse_board / print_parse_legal (reading back what was written gives the same position, all rights/e.p./clocks < 2^32), decode_correct against an independent FEN printer Spec, parse_print_same, four_field_defaults, eight rejection theorems, parse_no_panic_branch (totality); tied to the code by canonical, mutated and random strings with an independent Python FEN reference.",
         TB + "the regex crate is modelled by a hand translation of FEN_REGEX.",
         "Lean 4 round-trip proof on strings + differential testing with an independent reference reader", "§4 C12"),
 'C13': ("Lean theorems: findUci/uciToSan leave the visible board unchanged in every case, findUci_ok_iff (accepted iff trimmed text is the UCI text of a legal move), makeAllUci all-or-nothing by induction with C03's line theorem; tied to the code by structured and random move strings, complete 64x64x6 sweeps and move lists with an error at a random index, judged by the rules Spec.",
         TB + "uses C03 (unmake_make_generated).",
         "Lean 4 proof from the C03 bracket lemmas + differential testing judged by the rules Spec", "§4 C13"),
 'C14': ("SAN of every legal move compared between implementation, model and the standard-SAN Spec (minimal disambiguation, capture, promotion, castling, + and # via C05), parse-back equals the move; SAN parser on perturbed strings; Lean theorems on the SAN regex matcher (leftmost-first translation) and suffix logic.",
         TB + "san_eq_spec as a closed Lean theorem is a stated TARGET; equality with the Spec is decided by differential testing.",
         "Lean 4 theorems on the SAN grammar model + three-way differential testing against a SAN Spec", "§4 C14"),
 'C15': ("Lean theorems parse_render / parse_line (every well-formed command incl. every subset and order of go parameters, arbitrary spacing), ucimove_roundtrip, rejection lemmas (unknown first word, duplicate go parameter, bad int/move/FEN, missing parameter); the model is total so no input panics; tied to the Rust parser by grammar-generated lines with independently computed expected answers, mutations and random strings.",
         TB + "Rust std trim/split/integer parsing and the regex crate are modelled, not verified.",
         "Lean 4 theorems about a hand-written executable model + differential testing with independent expected answers", "§4 C15"),
 'C16': ("Lean theorems on the search model: infos never contain a bestmove, bestmove_is_pv0_ponder_is_pv1, info_depth/nodes/time monotone; every output line of the real engine binary is matched against the UCI engine-to-GUI grammar; PVs validated as legal lines by the rules Spec.",
         TB + "SystemTime monotonicity; PV legality through transposition-table hits assumes no 64-bit hash collision.",
         "Lean 4 trace theorems + grammar recogniser over the real binary's stdout", "§4 C16"),
 'C17': ("Lean theorems chunk_independent (for every input, chunk size >= 1 and read fragmentation the buffered reader yields exactly what the plain byte list yields) and parse_render (every well-formed Lichess-layout collection is read back completely), combined in c17; tied to pgn/src/reader.rs by differential testing over chunk sizes/schedules with independently computed expected answers, plus SAN replay of the yielded moves on the real board.",
         TB + "std::io::Read contract (0 bytes only at EOF).",
         "Lean 4 simulation proof (invariant consumed++window++rest=input) + differential testing", "§4 C17"),
 'C18': ("Lean refinement theorem: for every capacity, key type and put/get/clear sequence the table model produces the outputs of the abstract FIFO-bounded map; corollaries len_le_cap, len_eq_card, evicts_oldest, get_put_same/other, get_after_clear; tied to HashTable through a hook by differential testing with an independent Python reference.",
         TB + "std HashMap/VecDeque behave as map/queue.",
         "Lean 4 refinement proof by induction over operation sequences + differential testing", "§4 C18"),
 'C19': ("Translator serde_schema.py regenerates the wire schema from the Rust source on every run; Lean theorems: schema_names_documented (generated wire names = documented names, kernel decide), decode_encode (generic round trip for every well-formed schema, every optional subset), wf_generated, moves_split, parse_render_json, decode_text_roundtrip; tied to serde by decoding generated documents of the documented shapes (must decode, fields compared) and mutated ones (model agreement).",
         TB + "serde/serde_json are modelled; the documented names are those written in Spec/LichessDoc.lean (challenge.rules as array vs string cannot be decided offline).",
         "translator + Lean 4 generic decode/encode proof + differential testing against serde", "§4 C19"),
}


def main():
    claimed = sys.argv[1].split(',') if len(sys.argv) > 1 else sorted(P)
    reasons = {}
    if len(sys.argv) > 2:
        reasons = json.loads(sys.argv[2])
    checks = []
    for pid in sorted(P):
        if pid not in claimed:
            continue
        text, note, tech, ref = P[pid]
        checks.append({
            "property_id": pid,
            "quick_cmd": "bin/check %s --tier quick" % pid,
            "thorough_cmd": "bin/check %s --tier thorough" % pid,
            "evidence_file": "/verif/evidence/%s.json" % pid,
            "replay_cmd_template": "bin/check %s --replay {path}" % pid,
            "engine": "lean4-proof+correspondence",
            "level_claimed": {"category": "proof", "text": text, "design_ref": "DESIGN.md " + ref},
            "level_note": note,
            "technique": tech})
    m = {"version": 1,
         "setup_cmd": "bin/setup",
         "hooks": {"guard": "inkayaku_verif",
                   "enable": "RUSTFLAGS='--cfg inkayaku_verif' (set in /verif/harness/.cargo/config.toml; the harness crates path-depend on /repo's crates)",
                   "baseline_off_cmd": "cd /repo && cargo nextest run --workspace --no-fail-fast --tool-config-file pb:/w/lib/nextest.toml --profile pb --test-threads 8 --offline",
                   "source_commits": ["d03e098", "9aafa85", "0c1f8fe", "6a9543e"], "add_only": True},
         "engines": [{"name": "lean4-proof+correspondence", "path": "/verif/bin/check", "serves_properties": [c["property_id"] for c in checks],
                      "kind_free_text": "Lean 4 theorems about executable models (lake build, axiom audit) + line-protocol differential testing of model, executable Spec and the real Rust code"}],
         "checks": checks,
         "notes": "See DESIGN.md. Repaired defects are listed in known_findings.json (status fixed).",
         "not_applicable": [{"property_id": p, "reason": reasons.get(p, "check under construction in this session (model/theorems being built); not claimed yet")}
                            for p in sorted(P) if p not in claimed]}
    json.dump(m, open(os.path.join(VERIF, 'MANIFEST.json'), 'w'), indent=1)
    print('MANIFEST: %d checks, %d not claimed' % (len(checks), len(m['not_applicable'])))


main()
