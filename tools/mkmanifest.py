#!/usr/bin/env python3
"""Writes /verif/MANIFEST.json from the table below (kept in one place so that it stays valid and current)."""
import json, os, sys

VERIF = os.path.abspath(os.path.join(os.path.dirname(__file__), '..'))
TB = ("Trusted: Lean 4.33 kernel; axioms propext/Classical.choice/Quot.sound only (audited on every run); dumpconsts regenerating "
      "Inkayaku/Gen from the current build; rs2lean translating selected Rust functions to Lean on every run (Gen/Rs, equivalence with the model proved in Props/Translated); "
      "the differential harness, generators and Python oracles; ")

P = {
 'C01': ('Lean theorems (Props/C01, Props/Closure): genLegal_eq_rules — for every well-formed board the UCI texts of the legal-move generator are exactly the legal moves of the independent mailbox Spec of the rules of chess (no missing, no extra move; castling, e.p., promotions, pins, checks), no_moves_iff_rules; capture/promotion generator = filter of the pseudo-legal generator; uses C04 (table lookups = ray walks) and C05 (check detection = attack relation). Tied to the code on every run by three-way differential testing (implementation = bitboard model = Spec) on generated legal positions incl. perft to depth 3 and legal-after lines.',
         TB + 'the bitboard model is hand-written; its equality with board/src is checked by differential testing, not proved.',
         'Lean 4 proof (abstraction of the bitboard generator to a mailbox rules Spec) + three-way differential testing',
         '§4 C01'),
 'C02': ('Lean theorems (Props/C02, Closure.wfStep): for every well-formed board and legal move the successor computed by make equals, field by field (placement, side, rights, e.p. square, both clocks up to 4095), the successor of the rules Spec; castling-right loss, clock and e.p. updates as functions of the move; wf is preserved. Tied to the code by comparing the FEN of every successor between implementation, model and Spec, incl. clocks far above 100.',
         TB + 'the bitboard model is hand-written; its equality with board/src is checked by differential testing.',
         'Lean 4 proof against a mailbox rules Spec + three-way differential testing',
         '§4 C02'),
 'C03': ("Lean theorems: field_roundtrip (decode∘encode = id on the CURRENT masks/shifts), unmake_make for every move satisfying the decidable MoveOK, genPseudo_ok/genNonQuiescent_ok (the generators only emit MoveOK moves on well-formed boards, every clock value up to 4095), hence unmake_make_generated incl. both hashes, and the line version by induction; tied to the code by make/unmake snapshots on all pseudo-legal moves of generated positions and whole lines.",
         TB + "u32 overflow of the full-move counter excluded by wf (fullmove < 2^31).",
         "Lean 4 proof (bit-level identities, induction over lines) + differential testing", "§4 C03"),
 'C04': ("Lean theorems rook_correct/bishop_correct: for every square and EVERY occupancy the magic lookup stays inside its table and equals the ray walk; 128 per-square kernel computations (decide +kernel over all 107,648 sub-occupancies) lifted to all 2^64 occupancies by a proved lemma; leaper tables equal step patterns by decide. Tables/magics/masks are regenerated from the current build on every run, so a changed constant re-opens the proof.",
         TB + "that rustc evaluates the const tables at run time as the same binary dumped them.",
         "Lean 4 kernel-checked theorem over regenerated tables + exhaustive differential sweep", "§4 C04"),
 'C05': ("Lean theorems: square_attacked / in_check / valid / move_legal — the reverse table lookup from the king square equals the rules' attack relation of the mailbox Spec for every well-formed board, colour and piece kind (via C04 and kernel-checked geometry/symmetry tables); no_moves_iff relative to C01; tied to the code by differential testing of in-check/valid/terminal on generated positions against model and Spec.",
         TB + "no_moves_iff uses the C01 move-set equality as hypothesis.",
         "Lean 4 proof via abstraction to a mailbox Spec + three-way differential testing", "§4 C05"),
 'C06': ("Lean theorems: hash_incremental / pawnHash_incremental (xor-linearity of the occupancy hash, zero rows), hash_congr (hash is a function of placement, side, rights, e.p. file), keys_good on the regenerated key material and single-component sensitivity; tied to the code by incremental-vs-recomputed checks on all pseudo-legal moves, clock/side/right/e.p. variants, a pool-wide key↔hash bijection check, and read-back of the real transposition table under recomputed hashes after searches (incl. after rejected position commands).",
         TB + "collisions between multi-component differences are outside the property.",
         "Lean 4 proof (GF(2) linearity) over regenerated keys + differential testing", "§4 C06"),
 'C07': ("Lean theorems on the faithful search model (Props/C07, C07Final): go emits exactly one bestmove, last; bestmove_legal / go_answers_legal_move (a legal move of the position, among searchmoves when given, whenever one exists; depth 1 always completes under the engine's poll period); the move comes from the last completed iteration; no-legal-move gives the null move; BoardLaws discharged from C03/C02. Tied to the code by in-process sessions (every go-limit kind, searchmoves, stop at enumerated poll points, virtual clock) compared with the model on what the property determines, judged by the rules Spec, and by the real engine binary over pipes.",
         TB + 'thread scheduling and wall clock are replaced by the poll-period / pending-message / virtual-clock parameters (hooks), over which the theorems quantify.',
         'Lean 4 theorems about an executable state-machine model + differential testing of sessions',
         '§4 C07'),
 'C08': ('Lean theorems: fail-soft alpha-beta with ANY move order and transposition table over fail-hard quiescence equals minimax (ab_ok, ab_tt_ok under TTValid, order_irrelevant, root_exact, best_move_optimal); C08Sim: the CONCRETE search model (make/unmake on one board, fuel, node counters, polls, hash-keyed table, repetition test, killer/PV/TT ordering) computes specValue for d<=3 and plays an optimal move (negamax_eq_spec, go_eq_spec; for every d<=3 with no hypothesis beyond hash non-collision and non-zero keys: the transposition facts transp13/transp22 are proved in C08Transp, go_eq_spec_le3); mate_found/mate_real, C16Pv.mate_pv (a reported mate N has a legal PV of 2N-1 plies ending in checkmate). The verified evaluator is the executable oracle on every run: engine scores at depth 1..3 must equal it, the best move must attain it; validated corpora of mates in 2-3 and being-mated positions; the REAL transposition table is read back (hook) and every sampled entry checked against the invariant TTValid; deeper-then-shallower searches on one engine instance.',
         TB + '64-bit hash non-collision (HashInj/HashNonzero) on the <=3-ply neighbourhood of the root is a hypothesis; for d=3 Transp13/Transp22 are stated, not proved.',
         'Lean 4 proof (abstract game + simulation by the concrete search model) + differential testing against the verified evaluator + invariant read-back',
         '§4 C08'),
 'C09': ("Lean bracket theorem: for every fuel, window, poll period, pending message, clock and go parameters negamax/quiescence/deepen/go leave the visible board unchanged (every exit path incl. abort at any node), by induction, from C03's unmake_make; sessions by induction over consecutive searches; tied to the code by enumerating EVERY poll point of small searches (stop and quit, movetime expiry under the virtual clock) and reading the board back through the hook.",
         TB + "hypotheses H1/H2 (unmake∘make = id on wf boards; wf preserved by legal moves) are discharged by C03 / checked by the correspondence.",
         "Lean 4 invariant proof by induction over the search recursion + exhaustive interruption-point enumeration", "§4 C09"),
 'C10': ("Lean theorems countRepetitions_value/spec/threefold_iff characterise the repetition counter for every history, start index and half-move window and connect it to 'occurred three times' under explicit hypotheses; max_half_moves = 100 on the regenerated constant, fifty_only_after_100; engine-level correspondence on histories with repetitions, on the same game re-sent as a FEN with clocks, on half-move clocks 0..150, and on a validated corpus of perpetual-check positions where the rule decides the depth-4 value below the root (expected value from the executable path-dependent specification Model/RepSpec run through the verified alpha-beta). C10Search/C10Rep/C10Deep: the search MODEL cuts a node off as a repetition exactly when its position occurred three times in game + line (every node, every depth), and go depth 1..3 after a game reports the exact path-dependent minimax value of that specification; a graph-history witness at depth 5 (C10DeepGhi) shows why exactness cannot extend further.",
         TB + "64-bit hash collisions excluded by hypothesis HashInj inside the theorem.",
         "Lean 4 theorem about the executable model + differential testing against ZobristHistory through a hook", "§4 C10"),
 'C11': ("Lean theorems: black_tables_mirror (1152 entries, regenerated), eval_flip for EVERY board, evaluate_flip incl. terminal positions (check detection proved flip-equivariant via C04), terminal_sign, nearer_mate_better, score_mate_*/score_mated_* arithmetic for both colours; C11Search: wf_flipBoard, equivariance of legal moves/successors/horizon test/terminal status under the flip (via the mailbox Spec), specScore_flip — the reported score of the exact minimax value is flip-invariant at EVERY depth — and search_flip for the engine model at d<=3 (via go_eq_spec); tied to the code by static evaluation of positions and their flips and depth<=3 searches of both.",
         TB + "search_flip (fixed-depth scores of flipped twins) is decided by differential testing, stated as TARGET in Lean.",
         "Lean 4 proof (sum re-indexing by the mirror involution) over regenerated tables + differential testing", "§4 C11"),
 'C12': ("Lean theorems: print_parse_board / print_parse_legal (reading back what was written gives the same position, all rights/e.p./clocks < 2^32), decode_correct against an independent FEN printer Spec, parse_print_same, four_field_defaults, eight rejection theorems, parse_no_panic_branch (totality); tied to the code by canonical, mutated and random strings with an independent Python FEN reference.",
         TB + "the regex crate is modelled by a hand translation of FEN_REGEX.",
         "Lean 4 round-trip proof on strings + differential testing with an independent reference reader", "§4 C12"),
 'C13': ("Lean theorems: findUci/uciToSan leave the visible board unchanged in every case, findUci_ok_iff_legal_wf (accepted iff the trimmed text is the UCI text of a legal move of the rules Spec), makeAllUci_all_or_nothing_wf by induction with C03's line theorem; tied to the code by structured and random move strings, complete 64x64x6 sweeps and move lists with an error at a random index, judged by the rules Spec.",
         TB + 'uses C03 (unmake_make_generated) and C01 (genLegal_eq_rules).',
         'Lean 4 proof from the C03 bracket lemmas + differential testing judged by the rules Spec',
         '§4 C13'),
 'C14': ('Lean theorems: san_eq_spec / uciToSan_eq_spec (Props/C14Spec) — for every well-formed board and legal move the SAN writer model produces exactly the standard SAN of the independent Spec (minimal disambiguation among LEGAL like pieces, capture, promotion, castling, + and # from C05); parse-back theorems on the SAN regex matcher (leftmost-first translation) and suffix logic. Tied to the code by comparing SAN of every legal move between implementation, model and Spec, parse-back, and the SAN parser on perturbed strings.',
         TB + 'the regex crate is modelled by a hand translation of the SAN regex.',
         'Lean 4 proof against a standard-SAN Spec + three-way differential testing',
         '§4 C14'),
 'C15': ("Lean theorems parse_render / parse_line (every well-formed command incl. every subset and order of go parameters, arbitrary spacing), ucimove_roundtrip, rejection lemmas (unknown first word, duplicate go parameter, bad int/move/FEN, missing parameter); the model is total so no input panics; tied to the Rust parser by grammar-generated lines with independently computed expected answers, mutations and random strings.",
         TB + "Rust std trim/split/integer parsing and the regex crate are modelled, not verified.",
         "Lean 4 theorems about a hand-written executable model + differential testing with independent expected answers", "§4 C15"),
 'C16': ('Lean theorems: info depth/nodes/time monotone, bestmove_is_pv0_ponder_is_pv1, null_bestmove_no_ponder; C16Pv.pv_legal_line(_rules): every reported PV is a legal line from the searched position (by the rules Spec), mate_pv; C16Console.render_accepts: every well-formed message printed by the console writer model is accepted by an independent UCI engine-to-GUI grammar, single line; C16Wf.engine_out_wf: every message a go emits is well-formed (no hypothesis on the state), hence every printed line is accepted; C16App: process model (banner, read loop, parser, Engine::accept, idle loop) — app_lines_accepted for EVERY list of stdin lines, app_one_bestmove_per_go, app_parse_error_silent. Tied to the code: the real engine_app process and the process model get the same stdin scripts and must produce the same projected stdout stream and exit status; console lines of the REAL ConsoleUciTx = model and accepted by the grammar; every stdout line of the real binary matched against the grammar; PVs validated as legal lines by the rules Spec; multi-cycle sessions with state carried over.',
         TB + 'SystemTime monotonicity; PV legality through table hits assumes no hash collision on the reachable set (HashInjCore); that every message the engine hands to the printer is well-formed (non-empty pv) follows from the search model, not from the printer.',
         "Lean 4 trace theorems + grammar recogniser theorem + differential testing incl. the real binary's stdout",
         '§4 C16'),
 'C17': ('Lean theorems chunk_independent (for every input, chunk size >= 1 and read fragmentation the buffered reader yields exactly what the plain byte list yields), parse_render (every well-formed Lichess-layout collection is read back completely), c17; C17Replay.pgn_replay: the SAN texts of any legal line written in that layout are read back and replay on the board model to exactly the positions of the line. Tied to pgn/src/reader.rs by differential testing over chunk sizes/schedules with independently computed expected answers, plus SAN replay of the yielded moves on the real board (incl. games of > 255 moves), non-ASCII content, and the chunk-independence oracle on identical bytes.',
         TB + 'std::io::Read contract (0 bytes only at EOF); lines longer than 4095 plies outside wf.',
         'Lean 4 simulation proof (invariant consumed++window++rest=input) + differential testing',
         '§4 C17'),
 'C18': ("Lean refinement theorem: for every capacity, key type and put/get/clear sequence the table model produces the outputs of the abstract FIFO-bounded map; corollaries len_le_cap, len_eq_card, evicts_oldest, get_put_same/other, get_after_clear; tied to HashTable through a hook by differential testing with an independent Python reference.",
         TB + "std HashMap/VecDeque behave as map/queue.",
         "Lean 4 refinement proof by induction over operation sequences + differential testing", "§4 C18"),
 'C19': ("Translator serde_schema.py regenerates the wire schema from the Rust source on every run; Lean theorems: schema_names_documented (generated wire names = documented names, kernel decide), decode_encode (generic round trip for every well-formed schema, every optional subset), wf_generated, moves_split, parse_render_json, decode_text_roundtrip; tied to serde by decoding generated documents of the documented shapes (must decode, fields compared) and mutated ones (model agreement).",
         TB + "serde/serde_json are modelled; the documented names are those written in Spec/LichessDoc.lean (challenge.rules as array vs string cannot be decided offline).",
         "translator + Lean 4 generic decode/encode proof + differential testing against serde", "§4 C19"),
}


E2E = {
 'C07': 'app_go_bestmove_legal — from the stdin TEXT `position fen <b> [moves …]` + ANY parsing go line to the stdout TEXT `bestmove <uci of a move legal by the rules Spec>` of the process model (never 0000, inside searchmoves).',
 'C08': 'app_go_depth_reports_minimax — the script [position fen b, go depth d], d<=3, makes the process model print an info line whose score is the rendered exact minimax value and a bestmove that is optimal.',
 'C16': 'app_position_fen_sets_board, app_position_moves, app_go_depth_reports_minimax, app_go_bestmove_legal — the text-to-text behaviour of the process model.',
}

TRANSLATED = {
 'C01': 'the whole move generator: make_move (side effects of a move computed at generation time), sliding_moves, single_moves, pawn_attacks, pawn_moves, castle_moves, the bit-scan loops, generate_pseudo_legal_moves, generate_pseudo_legal_non_quiescent_moves, generate_legal_moves, is_any_move_legal — each equal to the model function as lists in the same order, and rs_generate_legal_eq_rules: on a well-formed board the TRANSLATED generate_legal_moves never panics and returns exactly the legal moves of the rules Spec (no duplicates), leaving the position intact',
 'C02': 'make_move (rs_make_move_ctor_eq), Bitboard::make / make_castle and the Move word setters/getters with the constants of constants.rs (rs_make_eq, rs_make_generated: no panic on any generated move of a well-formed board; rs_move_encode_eq, rs_move_decode_eq, rs_move_masks, rs_move_shifts)',
 'C03': 'Bitboard::unmake / unmake_castle / make / is_move_legal and the Move word (rs_unmake_eq, rs_make_eq, rs_unmake_generated, rs_is_move_legal_generated, rs_move_roundtrip)',
 'C04': 'magic_hash, MagicConfiguration::get_attacks (the unchecked access is undefined exactly when the model index is out of range), Magics::get_attacks (rs_magic_hash_eq, rs_magic_get_attacks_eq, rs_rook_attacks_eq, rs_bishop_attacks_eq)',
 'C05': 'Bitboard::is_valid, is_current_in_check, is_in_check, _is_square_in_check (rs_is_square_in_check_eq, rs_is_in_check_eq, rs_is_current_in_check_eq, rs_is_valid_eq)',
 'C06': 'Bitboard::zobrist_xor (rs_zobrist_xor_eq, rs_zobrist_xor_generated: no panic on any generated move)',
 'C18': 'HashTable::new/clear/put/get/len with std HashMap/VecDeque mapped to an association list / list (rs_table_put_eq, rs_table_put_no_panic, rs_table_run_spec: every operation sequence gives the FIFO-map answers and never panics)',
 'C07': 'Search::calculate_max_thinking_time with its two getters (rs_calculate_max_thinking_time_eq)',
 'C08': 'KillerTable::get/put, the MvvLva sort key, Heuristic::is_checkmate and the terminal branches of evaluate (rs_killer_get_eq, rs_killer_put_eq, rs_sort_key_eq, rs_is_checkmate_eq, rs_evaluate_eq)',
 'C10': 'ZobristHistory::count_repetitions and Bitboard::ply_clock (rs_count_repetitions_eq, rs_ply_clock_eq)',
 'C11': 'Heuristic::score_from_value, is_checkmate, evaluate, and SimpleHeuristic::game_stage / piece_value / piece_square_value / evaluate_ongoing over the regenerated tables (rs_score_from_value_eq, rs_is_checkmate_eq, rs_evaluate_eq, rs_evaluate_ongoing_eq, rs_evaluate_full_eq: the static evaluation the flip theorems are about IS the translated source)',
 'C13': 'Move::to_uci_string, Bitboard::find_uci, make_uci and make_all_uci (rs_find_uci_eq, rs_make_uci_eq, rs_make_all_uci_eq: after an error the board is the original position; rs_find_uci_vis / rs_make_uci_vis: a rejected string leaves the visible position as it was)',
 'C12': 'Fen::from_str (everything but the regex match, which is an opaque oracle assumed to behave like the hand-translated FenSyntax.regexGroups: hypothesis RegexModel), validate_ranks/validate_rank, the clock checks, the whole reader FenParseExt / Bitboard::from(&Fen) with square_shift_from_fen_unchecked (rs_fen_from_str_eq, rs_fen_decode_eq, rs_fen_read_eq, rs_fen_roundtrip_read: the text printFen writes is read back by the TRANSLATED reader to the same position); the whole writer From<&Bitboard> for Fen (rs_fen_write_eq: its text is the text of the model printer and it never panics; rs_fen_roundtrip: translated writer then translated reader give back the position)',
 'C17': 'the whole PGN reader pgn/src/reader.rs (ensure_buffer, peek/pop/skip_byte, read_until, read_token, tag pairs, moves, comments, Iterator::next) in a monadic translation over the reader state, Read::read as an opaque parameter under the mapping assumption ReadModel: rs_ensure_buffer_eq, rs_read_token_sim, rs_pgn_next_eq, rs_pgn_chunk_independent, rs_pgn_reader_correct (for every input, chunk size and read schedule the translated reader never panics and yields item by item what the plain byte list yields)',
 'C15': 'Square::from_chars / from_indices (rs_from_chars_eq)',
}


def main():
    claimed = sys.argv[1].split(',') if len(sys.argv) > 1 else sorted(P)
    reasons = {}
    if len(sys.argv) > 2:
        reasons = json.loads(sys.argv[2])
    checks = []
    for pid in sorted(P):
        if pid not in claimed:
            continue
        text, note, tech, ref = P[pid]
        if pid in E2E:
            text += ' End to end (Props/EndToEnd): ' + E2E[pid]
        if pid in TRANSLATED:
            text += ' Translated on every run from the current Rust source (rs2lean) and proved equal to the model function the theorems use: ' + TRANSLATED[pid] + '.'
            tech += ' + Rust-to-Lean translation of the named functions with proved equivalence to the model'
        checks.append({
            "property_id": pid,
            "quick_cmd": "bin/check %s --tier quick" % pid,
            "thorough_cmd": "bin/check %s --tier thorough" % pid,
            "evidence_file": "/verif/evidence/%s.json" % pid,
            "replay_cmd_template": "bin/check %s --replay {path}" % pid,
            "engine": "lean4-proof+correspondence",
            "level_claimed": {"category": "proof", "text": text, "design_ref": "DESIGN.md " + ref},
            "level_note": note,
            "technique": tech})
    m = {"version": 1,
         "setup_cmd": "bin/setup",
         "hooks": {"guard": "inkayaku_verif",
                   "enable": "RUSTFLAGS='--cfg inkayaku_verif' (set in /verif/harness/.cargo/config.toml; the harness crates path-depend on /repo's crates)",
                   "baseline_off_cmd": "cd /repo && cargo nextest run --workspace --no-fail-fast --tool-config-file pb:/w/lib/nextest.toml --profile pb --test-threads 8 --offline",
                   "source_commits": ["d03e098", "9aafa85", "0c1f8fe", "6a9543e", "cc3fffa"], "add_only": True},
         "engines": [{"name": "lean4-proof+correspondence", "path": "/verif/bin/check", "serves_properties": [c["property_id"] for c in checks],
                      "kind_free_text": "Lean 4 theorems about executable models (lake build, axiom audit) + line-protocol differential testing of model, executable Spec and the real Rust code"}],
         "checks": checks,
         "notes": "See DESIGN.md. Repaired defects are listed in known_findings.json (status fixed).",
         "not_applicable": [{"property_id": p, "reason": reasons.get(p, "check under construction in this session (model/theorems being built); not claimed yet")}
                            for p in sorted(P) if p not in claimed]}
    json.dump(m, open(os.path.join(VERIF, 'MANIFEST.json'), 'w'), indent=1)
    print('MANIFEST: %d checks, %d not claimed' % (len(checks), len(m['not_applicable'])))


main()
