#!/usr/bin/env python3
"""coverage.py [Cxx …]   — diagnostic, not a registered check.

Measures which lines/regions of /repo's source the correspondence streams of the quick checks actually execute:
builds the harness with `-C instrument-coverage` (nightly toolchain: its llvm-tools match), runs the quick tier of the given
properties (default: all except C19, whose harness is separate) with VERIF_IMPL pointing at the instrumented implrunner,
merges the raw profiles and prints per-file line coverage of the /repo sources plus the uncovered line ranges of the files the
properties are anchored in.  Output: work/cov/report.json, work/cov/uncovered.txt.  Used to find branches of the real code the
generators never reach (generator quality bounds what a differential tie can see)."""
import glob, json, os, re, subprocess, sys
VERIF = os.path.abspath(os.path.join(os.path.dirname(__file__), '..'))
COV = os.path.join(VERIF, 'work', 'cov')
TARGET = os.path.join(VERIF, 'work', 'covtarget')
TOOLS = os.path.expanduser('~/.rustup/toolchains/nightly-x86_64-unknown-linux-gnu/lib/rustlib/x86_64-unknown-linux-gnu/bin')


def sh(cmd, **kw):
    return subprocess.run(cmd, shell=True, stdout=subprocess.PIPE, stderr=subprocess.STDOUT, text=True, **kw)


def main():
    props = sys.argv[1:] or ['C%02d' % i for i in range(1, 19)]
    os.makedirs(COV, exist_ok=True)
    for f in glob.glob(os.path.join(COV, '*.profraw')):
        os.remove(f)
    env = dict(os.environ, RUSTFLAGS='--cfg inkayaku_verif -C instrument-coverage', CARGO_TARGET_DIR=TARGET, CARGO_NET_OFFLINE='true')
    r = sh('cargo +nightly build --offline --bins', cwd=os.path.join(VERIF, 'harness'), env=env)
    if r.returncode != 0:
        print(r.stdout[-3000:])
        return 1
    impl = os.path.join(TARGET, 'debug', 'implrunner')
    env2 = dict(os.environ, VERIF_IMPL=impl, LLVM_PROFILE_FILE=os.path.join(COV, 'p-%p-%m.profraw'),
                VERIF_EVIDENCE_DIR=os.path.join(VERIF, 'work', 'cov_evidence'))   # the instrumented run is not the registered check
    for p in props:
        r = sh('%s/bin/check %s --tier quick 2>&1 | tail -1' % (VERIF, p), cwd=VERIF, env=env2)
        print(r.stdout.strip())
    sh('%s/llvm-profdata merge -sparse %s/*.profraw -o %s/all.profdata' % (TOOLS, COV, COV))
    r = sh("%s/llvm-cov export -format=text -instr-profile=%s/all.profdata %s --ignore-filename-regex='(registry|rustc|verif/harness)'" % (TOOLS, COV, impl))
    data = json.loads(r.stdout)
    rep, unc = {}, []
    for f in data['data'][0]['files']:
        name = f['filename']
        if not name.startswith('/repo/'):
            continue
        s = f['summary']
        rep[name[6:]] = {'lines': s['lines']['percent'], 'regions': s['regions']['percent'], 'functions': s['functions']['percent'],
                         'lines_total': s['lines']['count'], 'lines_covered': s['lines']['covered']}
        # uncovered code regions: segments [line, col, count, hasCount, isRegionEntry, isGap]
        miss = sorted({seg[0] for seg in f['segments'] if seg[3] and seg[2] == 0 and seg[4] and not seg[5]})
        if miss:
            unc.append('%s: %s' % (name[6:], ' '.join(map(str, miss))))
    json.dump({'properties': props, 'files': rep}, open(os.path.join(COV, 'report.json'), 'w'), indent=1, sort_keys=True)
    open(os.path.join(COV, 'uncovered.txt'), 'w').write('\n'.join(unc) + '\n')
    for k in sorted(rep):
        print('%-60s lines %5.1f%%  regions %5.1f%%' % (k, rep[k]['lines'], rep[k]['regions']))
    return 0


sys.exit(main())
