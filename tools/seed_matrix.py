#!/usr/bin/env python3
"""prints the detection matrix of the seeded changes as a markdown table (from seeded/*/meta.json)"""
import glob, json, os, re
VERIF = os.path.abspath(os.path.join(os.path.dirname(__file__), '..'))
import sys
rows = ['| seeded change | property | what it needs | caught by (quick tier) | concrete replay |', '|---|---|---|---|---|']
for d in sorted(glob.glob(os.path.join(VERIF, 'seeded', '*'))):
    m = json.load(open(os.path.join(d, 'meta.json')))
    needs = m.get('summary') or ''
    if not needs:
        txt = m.get('needs', '')
        mm = re.search(r'(?:needs|manifest)[^\n]*\n+([^\n]{20,300})', txt, re.I)
        needs = (mm.group(1) if mm else txt[:160]).strip().replace('|', '/')
    det = m.get('detection', {})
    by, concrete = [], False
    for p, r in det.items():
        if r['exit'] == 1 and r['violation_lines']:
            streams = sorted({re.sub(r'^\[check\] ', '', l).split(' ')[0].rstrip(':') for l in r['log'] if l.startswith('[check] ') and not l.startswith('[check] C')})
            by.append('%s: %s' % (p, ', '.join(s.replace('|', '/') for s in streams[:4])))
            concrete = concrete or any('no-failing-input-found' not in l for l in r['violation_lines'])
    rows.append('| %s | %s | %s | %s | %s |' % (m['id'], ','.join(m['breaks']), needs[:220], '; '.join(by) or '**missed**', 'yes' if concrete else ('no' if by else '-')))

if '--design' in sys.argv:
    p = os.path.join(VERIF, 'DESIGN.md')
    s = open(p).read()
    a, b = s.index('<!-- matrix:begin -->'), s.index('<!-- matrix:end -->')
    open(p, 'w').write(s[:a] + '<!-- matrix:begin -->\n' + '\n'.join(rows) + '\n' + s[b:])
else:
    print('\n'.join(rows))
