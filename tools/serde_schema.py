#!/usr/bin/env python3
"""serde_schema.py -- translate the serde data model of /repo/lichess_api into Lean data (property C19).

usage:  python3 serde_schema.py <repo-root> <out.lean>

Reads
    <repo>/lichess_api/src/api/response.rs
    <repo>/lichess_api/src/api/bot_game_state_response.rs
    <repo>/lichess_api/src/api/bot_event_response.rs
and writes `Inkayaku/Gen/LichessSchema.lean` (namespace `Inkayaku.Gen.Lichess`): for every `struct` / `enum` item its kind,
for every field its Rust name, its WIRE name (after serde's `rename_all` rules), its type reference, and the
`Option` / `default` / `deserialize_with` / `flatten` attributes.

Rules implemented exactly as serde_derive 1.0.x does:
  * `rename_all` on a struct renames its fields        (RenameRule::apply_to_field, input is snake_case)
  * `rename_all` on an enum renames its VARIANTS only  (RenameRule::apply_to_variant, input is PascalCase);
    the fields of a struct variant are renamed only by a `rename_all` placed on that variant
  * `tag = ".."`  -> internally tagged enum
The file is rewritten only if its content changed.  Anything this script does not understand is a hard error
(exit status 2): it never guesses.
"""
import os
import re
import sys

FILES = [
    "lichess_api/src/api/response.rs",
    "lichess_api/src/api/bot_game_state_response.rs",
    "lichess_api/src/api/bot_event_response.rs",
]

PRIMS = {"u32": "u32", "u64": "u64", "i32": "i32", "bool": "bool", "String": "string"}


class SchemaError(Exception):
    pass


def fail(path, line, msg):
    raise SchemaError(f"{path}:{line}: {msg}")


# ------------------------------------------------------------------------------------------------ lexer

TOKEN_RE = re.compile(r"""
    (?P<ws>\s+)
  | (?P<lcomment>//[^\n]*)
  | (?P<bcomment>/\*.*?\*/)
  | (?P<str>"(?:[^"\\]|\\.)*")
  | (?P<lifetime>'[A-Za-z_][A-Za-z0-9_]*(?!'))
  | (?P<char>'(?:[^'\\]|\\.)')
  | (?P<ident>[A-Za-z_][A-Za-z0-9_]*)
  | (?P<num>[0-9][0-9A-Za-z_]*)
  | (?P<punct>::|->|=>|==|!=|<=|>=|&&|\|\||[{}()\[\]<>,;:#=&|!?.*+\-/%^@$~])
""", re.X | re.S)


class Tok:
    __slots__ = ("kind", "text", "line")

    def __init__(self, kind, text, line):
        self.kind, self.text, self.line = kind, text, line

    def __repr__(self):
        return f"{self.kind}:{self.text!r}@{self.line}"


def lex(path, src):
    toks, pos, line = [], 0, 1
    while pos < len(src):
        m = TOKEN_RE.match(src, pos)
        if not m:
            fail(path, line, f"cannot tokenise near {src[pos:pos + 20]!r}")
        kind = m.lastgroup
        text = m.group(0)
        if kind not in ("ws", "lcomment", "bcomment"):
            toks.append(Tok(kind, text, line))
        line += text.count("\n")
        pos = m.end()
    return toks


def unquote(path, tok):
    s = tok.text[1:-1]
    if "\\" in s:
        fail(path, tok.line, f"string literal with escapes not supported: {tok.text}")
    return s


# ------------------------------------------------------------------------------------------------ rename rules

RENAME_RULES = ("lowercase", "UPPERCASE", "PascalCase", "camelCase", "snake_case",
                "SCREAMING_SNAKE_CASE", "kebab-case", "SCREAMING-KEBAB-CASE")


def _snake_from_pascal(variant):
    out = ""
    for i, ch in enumerate(variant):
        if i > 0 and ch.isupper():
            out += "_"
        out += ch.lower()
    return out


def apply_to_variant(rule, variant):
    """serde_derive::internals::case::RenameRule::apply_to_variant"""
    if not variant.isascii():
        raise SchemaError(f"non-ASCII variant name {variant!r}")
    if rule is None or rule == "PascalCase":
        return variant
    if rule == "lowercase":
        return variant.lower()
    if rule == "UPPERCASE":
        return variant.upper()
    if rule == "camelCase":
        return variant[:1].lower() + variant[1:]
    if rule == "snake_case":
        return _snake_from_pascal(variant)
    if rule == "SCREAMING_SNAKE_CASE":
        return _snake_from_pascal(variant).upper()
    if rule == "kebab-case":
        return _snake_from_pascal(variant).replace("_", "-")
    if rule == "SCREAMING-KEBAB-CASE":
        return _snake_from_pascal(variant).upper().replace("_", "-")
    raise SchemaError(f"unknown rename rule {rule!r}")


def apply_to_field(rule, field):
    """serde_derive::internals::case::RenameRule::apply_to_field"""
    if not field.isascii():
        raise SchemaError(f"non-ASCII field name {field!r}")
    if rule is None or rule in ("lowercase", "snake_case"):
        return field
    if rule == "UPPERCASE":
        return field.upper()
    if rule in ("PascalCase", "camelCase"):
        pascal, cap = "", True
        for ch in field:
            if ch == "_":
                cap = True
            elif cap:
                pascal += ch.upper()
                cap = False
            else:
                pascal += ch
        if rule == "PascalCase":
            return pascal
        return pascal[:1].lower() + pascal[1:]
    if rule == "SCREAMING_SNAKE_CASE":
        return field.upper()
    if rule == "kebab-case":
        return field.replace("_", "-")
    if rule == "SCREAMING-KEBAB-CASE":
        return field.upper().replace("_", "-")
    raise SchemaError(f"unknown rename rule {rule!r}")


# ------------------------------------------------------------------------------------------------ parser

# custom deserialisers: function name -> (tag, expected token text of the whole fn item)
CUSTOM_FNS = {
    "from_space_sv": ("spaceSv",
                      "fn from_space_sv < 'de , D > ( deserializer : D ) -> Result < Vec < String > , D :: Error > "
                      "where D : Deserializer < 'de > { let string : & str = Deserialize :: deserialize ( deserializer ) ? ; "
                      "if string . trim ( ) . is_empty ( ) { Ok ( Vec :: default ( ) ) } else { "
                      "let result = string . split ( ' ' ) . map ( & str :: to_string ) . collect ( ) ; Ok ( result ) } }"),
    "from_csv": ("csvRules",
                 "fn from_csv < 'de , D > ( deserializer : D ) -> Result < Vec < ChallengeEventRule > , D :: Error > "
                 "where D : Deserializer < 'de > { let string : & str = Deserialize :: deserialize ( deserializer ) ? ; "
                 "let result = string . split ( ',' ) . map ( | s | ChallengeEventRule :: from_str ( s ) . unwrap ( ) ) . collect ( ) ; "
                 "Ok ( result ) }"),
}
CUSTOM_RESULT_TY = {"spaceSv": ("vec", ("prim", "string")), "csvRules": ("vec", ("named", "ChallengeEventRule"))}


class Parser:
    def __init__(self, path, toks):
        self.path, self.toks, self.i = path, toks, 0

    # -- helpers
    def peek(self, k=0):
        j = self.i + k
        return self.toks[j] if j < len(self.toks) else None

    def at(self, text, k=0):
        t = self.peek(k)
        return t is not None and t.text == text

    def next(self):
        t = self.peek()
        if t is None:
            fail(self.path, self.toks[-1].line if self.toks else 0, "unexpected end of file")
        self.i += 1
        return t

    def expect(self, text):
        t = self.next()
        if t.text != text:
            fail(self.path, t.line, f"expected `{text}`, found `{t.text}`")
        return t

    def ident(self):
        t = self.next()
        if t.kind != "ident":
            fail(self.path, t.line, f"expected identifier, found `{t.text}`")
        return t

    def skip_balanced(self, open_, close):
        """current token is `open_`; skip to after the matching `close`; returns the tokens inside (inclusive)"""
        start = self.i
        depth = 0
        while True:
            t = self.next()
            if t.text == open_:
                depth += 1
            elif t.text == close:
                depth -= 1
                if depth == 0:
                    return self.toks[start:self.i]

    # -- attributes
    def parse_attrs(self):
        """returns dict of serde attributes + 'derive' list"""
        out = {"serde": [], "derive": [], "line": None}
        while self.at("#"):
            t = self.next()
            if self.at("!"):
                fail(self.path, t.line, "inner attributes are not supported")
            self.expect("[")
            name = self.ident()
            if name.text == "derive":
                self.expect("(")
                while not self.at(")"):
                    out["derive"].append(self.ident().text)
                    if self.at(","):
                        self.next()
                self.expect(")")
            elif name.text == "allow":
                self.skip_balanced("(", ")")
            elif name.text == "serde":
                self.expect("(")
                while not self.at(")"):
                    key = self.ident()
                    if self.at("="):
                        self.next()
                        v = self.next()
                        if v.kind != "str":
                            fail(self.path, v.line, f"serde({key.text} = ..) expects a string literal")
                        out["serde"].append((key.text, unquote(self.path, v), key.line))
                    else:
                        out["serde"].append((key.text, None, key.line))
                    if self.at(","):
                        self.next()
                self.expect(")")
            else:
                fail(self.path, name.line, f"unsupported attribute #[{name.text}..]")
            self.expect("]")
        return out

    def serde_opts(self, attrs, allowed, what):
        opts = {}
        for key, val, line in attrs["serde"]:
            if key not in allowed:
                fail(self.path, line, f"unsupported serde attribute `{key}` on {what}")
            needs_value = key in ("rename_all", "tag", "deserialize_with")
            if needs_value and val is None:
                fail(self.path, line, f"serde({key}) needs a value")
            if not needs_value and val is not None:
                fail(self.path, line, f"serde({key} = \"{val}\") is not supported (only the bare form)")
            if key in opts:
                fail(self.path, line, f"serde attribute `{key}` given twice on {what}")
            if key == "rename_all" and val not in RENAME_RULES:
                fail(self.path, line, f"unknown rename_all rule {val!r}")
            opts[key] = val if needs_value else True
        return opts

    # -- types
    def parse_type(self):
        t = self.next()
        if t.kind != "ident":
            fail(self.path, t.line, f"unsupported type syntax at `{t.text}`")
        if self.at("::"):
            fail(self.path, t.line, "path types are not supported")
        if t.text in ("Option", "Vec"):
            self.expect("<")
            inner = self.parse_type()
            self.expect(">")
            return ("option" if t.text == "Option" else "vec", inner)
        if self.at("<"):
            fail(self.path, t.line, f"generic type `{t.text}<..>` is not supported")
        if t.text in PRIMS:
            return ("prim", PRIMS[t.text])
        if t.text in ("u8", "u16", "u128", "usize", "i8", "i16", "i64", "i128", "isize", "f32", "f64", "char", "str"):
            fail(self.path, t.line, f"primitive type `{t.text}` is not supported by the model")
        if not t.text[0].isupper():
            fail(self.path, t.line, f"unsupported type `{t.text}`")
        return ("named", t.text)

    def parse_fields(self, rename_rule, owner):
        """after `{`: named fields until `}`"""
        fields = []
        while not self.at("}"):
            attrs = self.parse_attrs()
            if attrs["derive"]:
                fail(self.path, self.peek().line, "derive on a field")
            opts = self.serde_opts(attrs, ("flatten", "default", "deserialize_with"), f"field of {owner}")
            if self.at("pub"):
                self.next()
                if self.at("("):
                    self.skip_balanced("(", ")")
            name = self.ident()
            if name.text.startswith("r") and self.at("#"):
                fail(self.path, name.line, "raw identifiers are not supported")
            self.expect(":")
            ty = self.parse_type()
            if self.at(","):
                self.next()
            elif not self.at("}"):
                fail(self.path, self.peek().line, f"expected `,` or `}}` after field `{name.text}`")
            custom = None
            if "deserialize_with" in opts:
                fn = opts["deserialize_with"]
                if fn not in CUSTOM_FNS:
                    fail(self.path, name.line, f"unknown deserialize_with function `{fn}`")
                custom = CUSTOM_FNS[fn][0]
                if ty != CUSTOM_RESULT_TY[custom]:
                    fail(self.path, name.line, f"field `{name.text}`: `{fn}` produces a different type than declared")
            if opts.get("flatten") and (custom or opts.get("default") or ty[0] != "named"):
                fail(self.path, name.line, f"field `{name.text}`: flatten combined with other attributes / non-struct type")
            if ty[0] == "option" and ty[1][0] in ("option", "vec"):
                fail(self.path, name.line, f"field `{name.text}`: nested Option/Vec inside Option is not supported")
            if ty[0] == "vec" and custom is None:
                fail(self.path, name.line, f"field `{name.text}`: Vec without deserialize_with is not supported by the model")
            if opts.get("default") and ty[0] != "vec":
                fail(self.path, name.line, f"field `{name.text}`: serde(default) is modelled for Vec fields only")
            fields.append({
                "rust": name.text,
                "wire": apply_to_field(rename_rule, name.text),
                "ty": ty,
                "optional": ty[0] == "option",
                "default": bool(opts.get("default")),
                "custom": custom,
                "flatten": bool(opts.get("flatten")),
                "line": name.line,
            })
        self.expect("}")
        return fields

    # -- items
    def parse_file(self):
        types, fns, fromstr = [], {}, {}
        while self.peek() is not None:
            attrs = self.parse_attrs()
            t = self.peek()
            if t is None:
                fail(self.path, self.toks[-1].line, "attributes at end of file")
            if t.text == "use":
                if attrs["serde"] or attrs["derive"]:
                    fail(self.path, t.line, "attributes on `use`")
                while not self.at(";"):
                    self.next()
                self.next()
                continue
            if t.text == "pub":
                self.next()
                if self.at("("):
                    self.skip_balanced("(", ")")
                t = self.peek()
            if t.text == "fn":
                start = self.i
                self.next()
                name = self.ident().text
                while not self.at("{"):
                    self.next()
                self.skip_balanced("{", "}")
                fns[name] = (" ".join(x.text for x in self.toks[start:self.i]), t.line)
                continue
            if t.text == "impl":
                self.parse_impl(fromstr)
                continue
            if t.text == "struct":
                types.append(self.parse_struct(attrs))
                continue
            if t.text == "enum":
                types.append(self.parse_enum(attrs))
                continue
            fail(self.path, t.line, f"unsupported item starting with `{t.text}`")
        return types, fns, fromstr

    def check_derive(self, attrs, name, line):
        for d in ("Serialize", "Deserialize"):
            if d not in attrs["derive"]:
                fail(self.path, line, f"`{name}` does not derive {d}")

    def parse_struct(self, attrs):
        kw = self.expect("struct")
        name = self.ident().text
        self.check_derive(attrs, name, kw.line)
        if not self.at("{"):
            fail(self.path, kw.line, f"struct `{name}`: only structs with named fields and no generics are supported")
        self.next()
        opts = self.serde_opts(attrs, ("rename_all",), f"struct {name}")
        fields = self.parse_fields(opts.get("rename_all"), name)
        return {"kind": "struct", "name": name, "fields": fields, "line": kw.line, "file": self.path}

    def parse_enum(self, attrs):
        kw = self.expect("enum")
        name = self.ident().text
        self.check_derive(attrs, name, kw.line)
        if not self.at("{"):
            fail(self.path, kw.line, f"enum `{name}`: generics are not supported")
        self.next()
        opts = self.serde_opts(attrs, ("rename_all", "tag"), f"enum {name}")
        variants = []
        while not self.at("}"):
            vattrs = self.parse_attrs()
            if vattrs["derive"]:
                fail(self.path, self.peek().line, "derive on a variant")
            vopts = self.serde_opts(vattrs, ("rename_all",), f"variant of {name}")
            vname = self.ident()
            v = {"rust": vname.text, "wire": apply_to_variant(opts.get("rename_all"), vname.text), "line": vname.line}
            if self.at("{"):
                self.next()
                # NB: the enum-level rename_all does NOT reach the fields of a struct variant
                v["unit"] = False
                v["fields"] = self.parse_fields(vopts.get("rename_all"), f"{name}::{vname.text}")
            elif self.at("("):
                fail(self.path, vname.line, f"tuple variant `{name}::{vname.text}` is not supported")
            elif self.at("="):
                fail(self.path, vname.line, f"explicit discriminant on `{name}::{vname.text}` is not supported")
            else:
                v["unit"] = True
                v["fields"] = []
            if self.at(","):
                self.next()
            elif not self.at("}"):
                fail(self.path, self.peek().line, f"expected `,` or `}}` after variant `{vname.text}`")
            variants.append(v)
        self.expect("}")
        if not variants:
            fail(self.path, kw.line, f"enum `{name}` has no variants")
        if "tag" in opts:
            kind = "tagged"
        elif all(v["unit"] for v in variants):
            kind = "unitEnum"
        else:
            fail(self.path, kw.line, f"enum `{name}`: externally tagged enum with data variants is not supported")
        return {"kind": kind, "name": name, "tag": opts.get("tag"), "variants": variants, "line": kw.line,
                "file": self.path}

    def parse_impl(self, fromstr):
        """only `impl FromStr for T { type Err = (); fn from_str(s: &str) -> .. { match s.to_lowercase().as_str() { arms } } }`"""
        kw = self.expect("impl")
        start = self.i
        if not (self.at("FromStr") and self.at("for", 1)):
            fail(self.path, kw.line, "only `impl FromStr for <Type>` blocks are understood")
        self.next()
        self.next()
        ty = self.ident().text
        body = self.skip_balanced("{", "}")
        text = " ".join(t.text for t in body)
        m = re.fullmatch(
            r"\{ type Err = \( \) ; fn from_str \( s : & str \) -> Result < Self , Self :: Err > "
            r"\{ match s \. to_lowercase \( \) \. as_str \( \) \{ (?P<arms>.*) _ => Err \( \( \) \)(?: ,)? \} \} \}", text)
        if not m:
            fail(self.path, kw.line, f"impl FromStr for {ty}: body is not of the expected `match s.to_lowercase().as_str()` form")
        arms = []
        rest = m.group("arms").strip()
        arm_re = re.compile(r'("(?:[^"\\])*") => Ok \( Self :: ([A-Za-z_][A-Za-z0-9_]*) \) , ?')
        pos = 0
        while pos < len(rest):
            am = arm_re.match(rest, pos)
            if not am:
                fail(self.path, kw.line, f"impl FromStr for {ty}: cannot understand match arm near {rest[pos:pos + 40]!r}")
            arms.append((am.group(1)[1:-1], am.group(2)))
            pos = am.end()
        if ty in fromstr:
            fail(self.path, kw.line, f"two FromStr impls for {ty}")
        fromstr[ty] = arms
        _ = start


# ------------------------------------------------------------------------------------------------ Lean output

def lean_str(s):
    if not all(32 <= ord(c) < 127 and c not in '"\\' for c in s):
        raise SchemaError(f"name {s!r} contains characters that are not plain printable ASCII")
    return '"' + s + '"'


def lean_ty(ty):
    if ty[0] == "prim":
        return f".prim .{ty[1]}"
    if ty[0] == "named":
        return f".named {lean_str(ty[1])}"
    return f".{ty[0]} ({lean_ty(ty[1])})"


def lean_bool(b):
    return "true" if b else "false"


def lean_field(f):
    custom = "none" if f["custom"] is None else f"some .{f['custom']}"
    return ("{ " + f"rust := {lean_str(f['rust'])}, wire := {lean_str(f['wire'])}, ty := {lean_ty(f['ty'])}, "
            f"optional := {lean_bool(f['optional'])}, default := {lean_bool(f['default'])}, custom := {custom}, "
            f"flatten := {lean_bool(f['flatten'])}" + " }")


def lean_fields(fields, indent):
    if not fields:
        return "[]"
    pad = " " * indent
    return "[\n" + ",\n".join(pad + "  " + lean_field(f) for f in fields) + " ]"


HEADER = '''/-!
GENERATED by /verif/tools/serde_schema.py from the serde data model of /repo/lichess_api/src/api
(response.rs, bot_game_state_response.rs, bot_event_response.rs).  DO NOT EDIT BY HAND; re-run
  python3 /verif/tools/serde_schema.py /repo /verif/lean/Inkayaku/Gen/LichessSchema.lean

`wire` is the name on the wire after serde's `rename_all` rules: a container-level `rename_all` on an enum renames the
variants only; the fields of a struct variant are renamed only by a `rename_all` on that variant.
-/
namespace Inkayaku.Gen.Lichess

inductive Prim where
  | u32 | u64 | i32 | bool | string
deriving DecidableEq, Repr, Inhabited

/-- `#[serde(deserialize_with = ..)]`: `from_space_sv` / `from_csv` -/
inductive Custom where
  | spaceSv | csvRules
deriving DecidableEq, Repr, Inhabited

inductive TyRef where
  | prim (p : Prim)
  | named (name : String)
  | option (t : TyRef)
  | vec (t : TyRef)
deriving DecidableEq, Repr, Inhabited

structure Field where
  /-- field name in the Rust source -/
  rust : String
  /-- key on the wire -/
  wire : String
  ty : TyRef
  /-- the type is `Option<..>`: the key may be absent or `null` -/
  optional : Bool
  /-- `#[serde(default)]` -/
  default : Bool
  custom : Option Custom
  /-- `#[serde(flatten)]` -/
  flatten : Bool
deriving DecidableEq, Repr, Inhabited

structure Variant where
  rust : String
  wire : String
  /-- unit variant `V,` (as opposed to a struct variant `V { .. }`) -/
  unit : Bool
  fields : List Field
deriving DecidableEq, Repr, Inhabited

inductive TypeDef where
  | struct (name : String) (fields : List Field)
  /-- enum of unit variants, externally tagged = a plain string; pairs (Rust name, wire name) -/
  | unitEnum (name : String) (variants : List (String × String))
  /-- `#[serde(tag = ..)]` internally tagged enum -/
  | tagged (name : String) (tag : String) (variants : List Variant)
deriving DecidableEq, Repr, Inhabited

def TypeDef.name : TypeDef → String
  | .struct n _ => n
  | .unitEnum n _ => n
  | .tagged n _ _ => n
'''


def emit(types, fromstr):
    out = [HEADER]
    out.append("def schema : List TypeDef := [")
    items = []
    for t in types:
        src = f"  -- {t['file']}:{t['line']}\n"
        if t["kind"] == "struct":
            items.append(src + f"  .struct {lean_str(t['name'])} {lean_fields(t['fields'], 4)}")
        elif t["kind"] == "unitEnum":
            vs = ", ".join(f"({lean_str(v['rust'])}, {lean_str(v['wire'])})" for v in t["variants"])
            items.append(src + f"  .unitEnum {lean_str(t['name'])} [{vs}]")
        else:
            vs = []
            for v in t["variants"]:
                vs.append("    { " + f"rust := {lean_str(v['rust'])}, wire := {lean_str(v['wire'])}, unit := {lean_bool(v['unit'])},\n"
                          f"      fields := {lean_fields(v['fields'], 6)}" + " }")
            items.append(src + f"  .tagged {lean_str(t['name'])} {lean_str(t['tag'])} [\n" + ",\n".join(vs) + " ]")
    out.append(",\n".join(items))
    out.append("]\n")
    out.append("/-- `impl FromStr for ChallengeEventRule`: `match s.to_lowercase().as_str()` arms (literal, Rust variant);\n"
               "    anything else is `Err(())`, which `from_csv` unwraps (panic). -/")
    arms = ", ".join(f"({lean_str(lit)}, {lean_str(var)})" for lit, var in fromstr["ChallengeEventRule"])
    out.append(f"def csvRuleTable : List (String × String) := [{arms}]\n")
    out.append("/-- the element type of the `from_csv` result -/")
    out.append('def csvRuleEnum : String := "ChallengeEventRule"\n')
    out.append("/-- the two stream message types -/")
    out.append('def stateRoot : String := "BotGameState"')
    out.append('def eventRoot : String := "BotEvent"\n')
    out.append("end Inkayaku.Gen.Lichess")
    return "\n".join(out) + "\n"


# ------------------------------------------------------------------------------------------------ main

def translate(repo):
    types, fns, fromstr = [], {}, {}
    for rel in FILES:
        path = os.path.join(repo, rel)
        with open(path, encoding="utf-8") as fh:
            src = fh.read()
        p = Parser(rel, lex(rel, src))
        t, f, fs = p.parse_file()
        types += t
        for k, v in f.items():
            if k in fns:
                raise SchemaError(f"{rel}: function `{k}` defined twice")
            fns[k] = (v[0], rel, v[1])
        for k, v in fs.items():
            if k in fromstr:
                raise SchemaError(f"{rel}: FromStr for `{k}` defined twice")
            fromstr[k] = v
    names = {}
    for t in types:
        if t["name"] in names:
            raise SchemaError(f"{t['file']}:{t['line']}: type `{t['name']}` defined twice")
        names[t["name"]] = t

    # every referenced name must be defined here
    def check_ref(ty, where):
        if ty[0] == "named":
            if ty[1] not in names:
                raise SchemaError(f"{where}: reference to unknown type `{ty[1]}`")
        elif ty[0] in ("option", "vec"):
            check_ref(ty[1], where)
    used_customs = set()
    for t in types:
        flists = [t["fields"]] if t["kind"] == "struct" else [v["fields"] for v in t.get("variants", [])]
        for fl in flists:
            for f in fl:
                check_ref(f["ty"], f"{t['file']}:{f['line']}")
                if f["custom"]:
                    used_customs.add(f["custom"])
                if f["flatten"] and names[f["ty"][1]]["kind"] != "struct":
                    raise SchemaError(f"{t['file']}:{f['line']}: flatten of a non-struct type")
    # the custom deserialisers must be literally the functions the model describes
    for fn, (tag, expected) in CUSTOM_FNS.items():
        if tag in used_customs:
            if fn not in fns:
                raise SchemaError(f"deserialize_with function `{fn}` not found in the parsed files")
            if fns[fn][0] != expected:
                raise SchemaError(f"{fns[fn][1]}:{fns[fn][2]}: body of `{fn}` differs from the form the Lean model describes:\n"
                                  f"  found    {fns[fn][0]}\n  expected {expected}")
    for fn in fns:
        if fn not in CUSTOM_FNS:
            raise SchemaError(f"{fns[fn][1]}:{fns[fn][2]}: unexpected free function `{fn}`")
    if "csvRules" in used_customs:
        if "ChallengeEventRule" not in fromstr:
            raise SchemaError("impl FromStr for ChallengeEventRule not found")
        rule_ty = names.get("ChallengeEventRule")
        if rule_ty is None or rule_ty["kind"] != "unitEnum":
            raise SchemaError("ChallengeEventRule is not a unit-variant enum")
        vnames = [v["rust"] for v in rule_ty["variants"]]
        for lit, var in fromstr["ChallengeEventRule"]:
            if var not in vnames:
                raise SchemaError(f"FromStr for ChallengeEventRule mentions unknown variant `{var}`")
            if lit != lit.lower():
                raise SchemaError(f"FromStr for ChallengeEventRule: literal {lit!r} is not lower case (arm unreachable)")
    for k in fromstr:
        if k != "ChallengeEventRule":
            raise SchemaError(f"unexpected `impl FromStr for {k}`")
    fromstr.setdefault("ChallengeEventRule", [])
    for root in ("BotGameState", "BotEvent"):
        if root not in names or names[root]["kind"] != "tagged":
            raise SchemaError(f"root type `{root}` is missing or not an internally tagged enum")
    return emit(types, fromstr)


def main(argv):
    if len(argv) != 3:
        sys.stderr.write(__doc__)
        return 2
    repo, out = argv[1], argv[2]
    try:
        text = translate(repo)
    except SchemaError as e:
        sys.stderr.write(f"serde_schema.py: ERROR: {e}\n")
        return 2
    except OSError as e:
        sys.stderr.write(f"serde_schema.py: ERROR: {e}\n")
        return 2
    old = None
    if os.path.exists(out):
        with open(out, encoding="utf-8") as fh:
            old = fh.read()
    if old == text:
        print(f"serde_schema.py: {out} unchanged")
        return 0
    os.makedirs(os.path.dirname(os.path.abspath(out)), exist_ok=True)
    tmp = out + ".tmp"
    with open(tmp, "w", encoding="utf-8") as fh:
        fh.write(text)
    os.replace(tmp, out)
    print(f"serde_schema.py: wrote {out}")
    return 0


if __name__ == "__main__":
    sys.exit(main(sys.argv))
