#!/bin/bash
# Mutation sanity check of the translator tie (rs2lean + Inkayaku/Props/Translated/*.lean).
#
# For every mutation: copy ONE Rust source file to a scratch directory, apply a small edit (sed expression), run
# rs2lean with `--override <file>=<scratch copy>` into a scratch output directory, compile the generated Lean files
# that differ from the ones in /verif/lean into scratch .olean files and check every theorem file
# Props/Translated/*.lean that (transitively) imports one of them against these (scratch directory first on
# LEAN_PATH).  Semantic mutations must make the check FAIL, harmless rewrites must PASS.  /repo and /verif/lean are
# not modified.
#
# Theorem files are discovered from the directory (no list of file names here): Props/Translated is split per Rust function
# (Make.lean / Unmake.lean / GenMake.lean / GenUnmake.lean / GenXor.lean ...), and the check of a property builds only the theorem
# modules it lists.  By default the check of a mutation stops at the first theorem file that fails; with KEEP_GOING=1 it goes on
# and prints ALL failing theorem files (a file importing a failed one fails on the missing .olean), to see which modules a change
# of one function takes down (e.g. `KEEP_GOING=1 mutation_check.sh -k unmake-halfmove-zero`: Unmake GenUnmake MakeUnmake Generated
# fail, MakeUnmakeCommon Make GenMake still build).
#
# usage: [KEEP_GOING=1] mutation_check.sh [-k <substring of mutation names>] [repo root]
#        (needs `cargo build --offline` in /verif/translator and `lake build Inkayaku.Props.Translated`)
set -u
FILTER=""
if [ "${1:-}" = "-k" ]; then FILTER=$2; shift 2; fi
REPO=${1:-/repo}
HERE=$(cd "$(dirname "$0")" && pwd)
LEANDIR=/verif/lean
RS2LEAN=${RS2LEAN:-$HERE/target/debug/rs2lean}
WORK=$(mktemp -d /tmp/rs2lean-mut.XXXXXX)
ZH=engine_core/src/engine/zobrist_history.rs
BOARD=board/src/board.rs
HEUR=engine_core/src/engine/heuristic.rs
SQ=core/src/constants/square.rs
KILLER=engine_core/src/engine/table/killer.rs
MO=engine_core/src/engine/move_order.rs
FEN=core/src/fen.rs
SEARCH=engine_core/src/engine/search.rs
TABLE=engine_core/src/engine/table.rs
MAGIC=board/src/board/precalculated/magic.rs
CONSTS=board/src/board/constants.rs
PGN=pgn/src/reader.rs
SIMPLE=engine_core/src/engine/heuristic/simple.rs
LIBRS=board/src/lib.rs

# name | expected (FAIL/PASS) | file | sed expression
MUTATIONS=(
"reps-ge3-to-gt3|FAIL|$ZH|s/if repetitions >= 3 {/if repetitions > 3 {/"
"step-2-to-1|FAIL|$ZH|s/current_index -= 2;/current_index -= 1;/"
"start-minus4-to-minus2|FAIL|$ZH|s/start_index as i32 - 4;/start_index as i32 - 2;/"
"start-lt4-to-lt6|FAIL|$ZH|s/if start_index < 4 {/if start_index < 6 {/"
"reps-init-1-to-0|FAIL|$ZH|s/let mut repetitions = 1_usize;/let mut repetitions = 0_usize;/"
"ply-clock-no-saturating|FAIL|$BOARD|s/(2 \* self.fullmove_clock.saturating_sub(1) + self.turn) as u16/(2 * (self.fullmove_clock - 1) + self.turn) as u16/"
"mate-window-shift20-to-19|FAIL|$HEUR|s/const MAX_FULL_MOVES: i32 = 1 << 20;/const MAX_FULL_MOVES: i32 = 1 << 19;/"
"mate-offset-gt-to-ge|FAIL|$HEUR|s/i32::from(value > 0 \&\& bitboard.turn == WHITE)/i32::from(value >= 0 \&\& bitboard.turn == WHITE)/"
"mated-white-plus-to-minus|FAIL|$HEUR|s/self.loss_score() + bitboard.fullmove_clock as i32/self.loss_score() - bitboard.fullmove_clock as i32/"
"from-chars-rank-8-to-7|FAIL|$SQ|s/8_u32.wrapping_sub(i)/7_u32.wrapping_sub(i)/"
"killer-get-ne-to-eq|FAIL|$KILLER|s/mv.bits != 0/mv.bits == 0/"
"sort-key-pv-bonus|FAIL|$MO|s/900_000/600_000/"
"HARMLESS-rename-local|PASS|$ZH|s/current_zobrist/cz/g"
"HARMLESS-reorder-lets|PASS|$ZH|/let mut repetitions = 1_usize;/{h;d};/let zobrist = self.history\[start_index as usize\];/{G}"
"HARMLESS-literal-suffix|PASS|$ZH|s/repetitions += 1;/repetitions += 1_usize;/"
"HARMLESS-unchanged|PASS|$ZH|s/x/x/"
"validate-rank-count-8-to-7|FAIL|$FEN|s/if count != 8 {/if count != 7 {/"
"validate-rank-and-to-or|FAIL|$FEN|s/chars\[i\].is_ascii_digit() \&\& chars\[i + 1\].is_ascii_digit()/chars[i].is_ascii_digit() || chars[i + 1].is_ascii_digit()/"
"think-time-threshold-20-to-30|FAIL|$SEARCH|s/20\.\. => 1\.0,/30.. => 1.0,/"
"think-time-factor-075-to-05|FAIL|$SEARCH|s/10\.\. => 0\.75,/10.. => 0.5,/"
"think-time-div-60-to-30|FAIL|$SEARCH|s/time_remaining\.div(60)/time_remaining.div(30)/"
"think-time-factor-not-dyadic|FAIL|$SEARCH|s/10\.\. => 0\.75,/10.. => 0.8,/"
"UNSUPPORTED-loop-break|FAIL|$ZH|s/current_index -= 2;/current_index -= 2; if current_index == 7 { break; }/"
# ---- HashTable (C18)
"table-evict-gt-to-ge|FAIL|$TABLE|s/if self.entry_map.len() > self.capacity {/if self.entry_map.len() >= self.capacity {/"
"table-push-on-overwrite|FAIL|$TABLE|s/if self.entry_map.insert(key, value).is_none() {/if self.entry_map.insert(key, value).is_some() {/"
"table-no-map-remove|FAIL|$TABLE|s/self.entry_map.remove(&remove_key);//"
"table-clear-keeps-queue|FAIL|$TABLE|s/self.entry_list.clear();//"
"table-get-wrong-key|FAIL|$TABLE|s/self.entry_map.get(&key)/self.entry_map.get(\&(key + 1))/"
"table-len-of-queue|FAIL|$TABLE|/fn len(&self) -> usize {/,/}/s/self.entry_map.len()/self.entry_list.len()/"
"table-UNSUPPORTED-pop-back|FAIL|$TABLE|s/self.entry_list.pop_front().unwrap()/self.entry_list.pop_back().unwrap()/"
"table-UNSUPPORTED-insert-late|FAIL|$TABLE|s/if self.entry_map.insert(key, value).is_none() {/if self.capacity > 0 \&\& self.entry_map.insert(key, value).is_none() {/"
"table-HARMLESS-rename-local|PASS|$TABLE|s/remove_key/oldest/g"
"table-HARMLESS-clear-order|PASS|$TABLE|/self.entry_list.clear();/{h;d};/self.entry_map.clear();/{G}"
"table-HARMLESS-let-prev|PASS|$TABLE|s/if self.entry_map.insert(key, value).is_none() {/let prev = self.entry_map.insert(key, value); if prev.is_none() {/"
# ---- magic index / lookup (C04)
"magic-and-to-or|FAIL|$MAGIC|s/let i1 = occupancy \& mask;/let i1 = occupancy | mask;/"
"magic-shr-to-shl|FAIL|$MAGIC|s/let i3 = i2 >> hash_shift;/let i3 = i2 << hash_shift;/"
"magic-drop-hash-mask|FAIL|$MAGIC|s/let i4 = i3 \& hash_mask;/let i4 = i3;/"
"magic-checked-mul|FAIL|$MAGIC|s/i1.overflowing_mul(magic).0/i1 * magic/"
"magic-index-plus-one|FAIL|$MAGIC|s/self.attacks.get_unchecked(self.hash(occupancy))/self.attacks.get_unchecked(self.hash(occupancy) + 1)/"
"magic-swap-mask-args|FAIL|$MAGIC|s/magic_hash(self.mask, self.hash_shift, self.hash_mask, self.magic, occupancy)/magic_hash(self.hash_mask, self.hash_shift, self.mask, self.magic, occupancy)/"
"magic-HARMLESS-wrapping-mul|PASS|$MAGIC|s/i1.overflowing_mul(magic).0/i1.wrapping_mul(magic)/"
"magic-HARMLESS-rename-local|PASS|$MAGIC|s/\bi1\b/masked/g"
"magic-array-index-plus-one|FAIL|$MAGIC|s/self.get_unchecked(square as usize).get_attacks(occupancy)/self.get_unchecked(square as usize + 1).get_attacks(occupancy)/"
"magic-array-HARMLESS-let|PASS|$MAGIC|s/self.get_unchecked(square as usize).get_attacks(occupancy)/let c = self.get_unchecked(square as usize); c.get_attacks(occupancy)/"
# ---- packed move word: constants, getters, setters (C02 / C03)
"move-mask-wider|FAIL|$CONSTS|s/PIECE_ATTACKED_MASK: MaskBits = 0b111000;/PIECE_ATTACKED_MASK: MaskBits = 0b1111000;/"
"move-shift-off-by-one|FAIL|$CONSTS|s/pub const TARGET_SQUARE_SHIFT: ShiftBits = TARGET_SQUARE_MASK.trailing_zeros();/pub const TARGET_SQUARE_SHIFT: ShiftBits = TARGET_SQUARE_MASK.trailing_zeros() + 1;/"
"move-getter-wrong-shift|FAIL|$BOARD|s/(self.bits \& PIECE_ATTACKED_MASK) >> PIECE_ATTACKED_SHIFT/(self.bits \& PIECE_ATTACKED_MASK) >> PIECE_MOVED_SHIFT/"
"move-getter-wrong-mask|FAIL|$BOARD|s/((self.bits \& TARGET_SQUARE_MASK) >> TARGET_SQUARE_SHIFT)/((self.bits \& SOURCE_SQUARE_MASK) >> TARGET_SQUARE_SHIFT)/"
"move-setter-or-to-and|FAIL|$BOARD|s/self.bits |= (value as u64) << SOURCE_SQUARE_SHIFT/self.bits \&= (value as u64) << SOURCE_SQUARE_SHIFT/"
"move-setter-or-to-xor|FAIL|$BOARD|s/self.bits |= HALFMOVE_RESET_MASK/self.bits ^= HALFMOVE_RESET_MASK/"
"move-setter-wrong-shift|FAIL|$BOARD|s/self.bits |= value << PROMOTION_PIECE_SHIFT/self.bits |= value << PIECE_MOVED_SHIFT/"
"move-is-attack-ne-to-eq|FAIL|$BOARD|s/self.get_piece_attacked() != NO_PIECE/self.get_piece_attacked() == NO_PIECE/"
"move-is-castle-reads-ep|FAIL|$BOARD|s/pub const fn is_castle_move(\&self) -> bool { self.get_castle_move() != 0 }/pub const fn is_castle_move(\&self) -> bool { self.get_en_passant_attack() != 0 }/"
"move-HARMLESS-shift-literal|PASS|$CONSTS|s/pub const PIECE_ATTACKED_SHIFT: ShiftBits = PIECE_ATTACKED_MASK.trailing_zeros();/pub const PIECE_ATTACKED_SHIFT: ShiftBits = 3;/"
"move-HARMLESS-mask-hex|PASS|$CONSTS|s/PIECE_ATTACKED_MASK: MaskBits = 0b111000;/PIECE_ATTACKED_MASK: MaskBits = 0x38;/"
"move-HARMLESS-getter-parens|PASS|$BOARD|s/(self.bits \& PIECE_MOVED_MASK) >> PIECE_MOVED_SHIFT/((self.bits) \& PIECE_MOVED_MASK) >> PIECE_MOVED_SHIFT/"
# ---- check detection (C05; table lookups opaque)
"check-rook-ignores-queens|FAIL|$BOARD|s/(rook_attacks \& (passive.rooks() | passive.queens())) != 0/(rook_attacks \& passive.rooks()) != 0/"
"check-bishop-uses-rook-table|FAIL|$BOARD|s/let bishop_attacks = BISHOP_MAGICS.get_attacks(king_square_shift, full_occupancy);/let bishop_attacks = ROOK_MAGICS.get_attacks(king_square_shift, full_occupancy);/"
"check-pawn-colors-swapped|FAIL|$BOARD|s/let pawn_attacks = if color_bits == WHITE {/let pawn_attacks = if color_bits == BLACK {/"
"check-valid-tests-side-to-move|FAIL|$BOARD|s/!self._is_in_check_by_bits(self.opposite_turn())/!self._is_in_check_by_bits(self.turn)/"
"check-active-passive-swapped|FAIL|$BOARD|s/let (active, passive) = if color_bits == WHITE {/let (active, passive) = if color_bits != WHITE {/"
"check-kings-reads-queens|FAIL|$BOARD|s/pub const fn kings(\&self) -> OccupancyBits { self.occupancy\[KING as usize\] }/pub const fn kings(\&self) -> OccupancyBits { self.occupancy[QUEEN as usize] }/"
"check-full-occupancy-no-pawns|FAIL|$BOARD|s/self.bishops() | self.knights() | self.pawns()/self.bishops() | self.knights()/"
"check-king-square-leading-zeros|FAIL|$BOARD|s/active.kings().trailing_zeros(), full_occupancy)/active.kings().leading_zeros(), full_occupancy)/"
"check-UNSUPPORTED-opposite-xor|FAIL|board/src/lib.rs|s/    1 - color_bits/    color_bits ^ 1/"
"check-HARMLESS-rename-local|PASS|$BOARD|s/rook_attacks/ra/g"
"check-HARMLESS-final-if|PASS|$BOARD|s/        (king_attacks \& passive.kings()) != 0$/        if (king_attacks \& passive.kings()) != 0 { return true; } false/"
# ---- incremental Zobrist update (C06; key tables opaque)
"zxor-castle-king-queen-swapped|FAIL|$BOARD|0,/result ^= Zobrist::castle_hash(KING, self_color);/s//result ^= Zobrist::castle_hash(QUEEN, self_color);/"
"zxor-ep-victim-16|FAIL|$BOARD|s/                target_square_shift + 8$/                target_square_shift + 16/"
"zxor-attacked-own-color|FAIL|$BOARD|s/result ^= Zobrist::piece_square_hash(piece_attacked, target_square_shift, opponent_color);/result ^= Zobrist::piece_square_hash(piece_attacked, target_square_shift, self_color);/"
"zxor-no-black-to-move|FAIL|$BOARD|s/        pawn_result ^= Zobrist::BLACK_TO_MOVE_HASH;//"
"zxor-full-without-pawn-part|FAIL|$BOARD|s/(result ^ pawn_result, pawn_result)/(result, pawn_result)/"
"zxor-castle-rook-target|FAIL|$BOARD|s/G1 => (H1, E1, F1, G1),/G1 => (H1, E1, D1, G1),/"
"zxor-prev-ep-uses-next|FAIL|$BOARD|s/pawn_result ^= Zobrist::en_passant_square_hash(mv.get_previous_en_passant_square());/pawn_result ^= Zobrist::en_passant_square_hash(mv.get_next_en_passant_square());/"
"zxor-HARMLESS-rename-local|PASS|$BOARD|s/piece_promoted/promo/g"
"zxor-HARMLESS-swap-lets|PASS|$BOARD|/pub fn zobrist_xor(mv: Move)/,/pub const fn calculate_zobrist_hash/{/        let piece_moved = mv.get_piece_moved();/{h;d};/        let piece_promoted = mv.get_promotion_piece();/{G}}"
# ---- make / unmake (C02 / C03)
"make-fullmove-always-plus-1|FAIL|$BOARD|s/self.fullmove_clock += self.turn;/self.fullmove_clock += 1;/"
"make-halfmove-reset-to-1|FAIL|$BOARD|s/            self.halfmove_clock = 0;/            self.halfmove_clock = 1;/"
"make-active-passive-swapped|FAIL|$BOARD|s/let (passive, active) = self.get_active_and_passive_mut();/let (active, passive) = self.get_active_and_passive_mut();/"
"make-ep-victim-two-ranks|FAIL|$BOARD|/pub fn make(&mut self, mv: Move)/,/pub fn unmake(&mut self, mv: Move)/s/target_square_mask << 8/target_square_mask << 16/"
"make-castle-c1-wrong-rook|FAIL|$BOARD|s/C1 => Self::make_castle(active, A1_MASK, source_square_mask, D1_MASK, target_square_mask),/C1 => Self::make_castle(active, H1_MASK, source_square_mask, D1_MASK, target_square_mask),/"
"make-capture-sets-instead-of-clears|FAIL|$BOARD|s/\*passive.occupancy_ref(mv.get_piece_attacked()) \&= !target_square_mask;/*passive.occupancy_ref(mv.get_piece_attacked()) |= target_square_mask;/"
"make-no-turn-flip|FAIL|$BOARD|/pub fn make(&mut self, mv: Move)/,/pub fn unmake(&mut self, mv: Move)/s/self.turn = self.opposite_turn();/self.turn = self.turn;/"
"unmake-halfmove-zero|FAIL|$BOARD|s/self.halfmove_clock = mv.get_previous_halfmove();/self.halfmove_clock = 0;/"
"unmake-ep-restores-next|FAIL|$BOARD|s/self.en_passant_square_shift = mv.get_previous_en_passant_square();/self.en_passant_square_shift = mv.get_next_en_passant_square();/"
"unmake-fullmove-wrong-side|FAIL|$BOARD|s/self.fullmove_clock -= 1 - self.turn;/self.fullmove_clock -= self.turn;/"
"unmake-captured-piece-not-restored|FAIL|$BOARD|s/            \*passive.occupancy_ref(piece_attacked) |= target_square_mask;\n            \*active.occupancy_ref(piece_moved) |= source_square_mask;/XX/;/pub fn unmake(&mut self, mv: Move)/,/fn make_castle/s/\*active.occupancy_ref(piece_moved) \&= !target_square_mask;/*active.occupancy_ref(piece_moved) |= target_square_mask;/"
"make-castle-or-to-xor|FAIL|$BOARD|s/\*active.rooks_ref() |= rook_target_mask;/*active.rooks_ref() ^= rook_target_mask;/"
"borrow-both-branches-same|FAIL|$BOARD|/fn get_active_and_passive_mut/,/^    }/s/(&mut self.white, &mut self.black)/(\&mut self.black, \&mut self.white)/"
"place-pawns-ref-wrong-index|FAIL|$BOARD|s/fn pawns_ref(&mut self) -> &mut OccupancyBits { &mut self.occupancy\[PAWN as usize\] }/fn pawns_ref(\&mut self) -> \&mut OccupancyBits { \&mut self.occupancy[KNIGHT as usize] }/"
"make-UNSUPPORTED-direct-index|FAIL|$BOARD|0,/\*active.pawns_ref() \&= !source_square_mask;/s//active.occupancy[1] \&= !source_square_mask;/"
"make-UNSUPPORTED-self-access-while-borrowed|FAIL|$BOARD|/pub fn make(&mut self, mv: Move)/,/pub fn unmake(&mut self, mv: Move)/s/let source_square_shift = mv.get_source_square();/let source_square_shift = mv.get_source_square(); let w = \&self.white;/"
"make-HARMLESS-rename-local|PASS|$BOARD|s/source_square_mask/src_mask/g"
"make-HARMLESS-swap-stmts|PASS|$BOARD|/pub fn make(&mut self, mv: Move)/,/pub fn unmake(&mut self, mv: Move)/{/        self.en_passant_square_shift = mv.get_next_en_passant_square();/{h;d};/        self.turn = self.opposite_turn();/{G}}"
# ---- is_move_legal = make; is_valid; unmake
"legal-no-unmake|FAIL|$BOARD|/pub fn is_move_legal(&mut self, mv: Move) -> bool/,/^    }/s/        self.unmake(mv);//"
"legal-valid-before-make|FAIL|$BOARD|/pub fn is_move_legal(&mut self, mv: Move) -> bool/,/^    }/{/        self.make(mv);/{h;d};/        let result = self.is_valid();/{G}}"
"legal-negated|FAIL|$BOARD|/pub fn is_move_legal(&mut self, mv: Move) -> bool/,/^    }/s/        result$/        !result/"
"legal-HARMLESS-rename-local|PASS|$BOARD|/pub fn is_move_legal(&mut self, mv: Move) -> bool/,/^    }/s/result/ok/g"
# ---- move constructor `make_move` of the generator (C01 / C02; module MoveCtor, Props/Translated/GenerateCtor.lean)
"ctor-ep-victim-offset-16|FAIL|$BOARD|/let en_passant_offset = if is_en_passant_attack_mask == 0 {/,/};/s/^            8$/            16/"
"ctor-dcastle-56-to-48|FAIL|$BOARD|s/            d_castle = 56;/            d_castle = 48;/"
"ctor-halfmove-reset-or-to-and|FAIL|$BOARD|s/if piece_active == PAWN || piece_attacked != NO_PIECE {/if piece_active == PAWN \&\& piece_attacked != NO_PIECE {/"
"ctor-self-lost-king-tests-a1|FAIL|$BOARD|s/if active.king_side_castle \&\& (source_square_shift == (H1 - d_castle)/if active.king_side_castle \&\& (source_square_shift == (A1 - d_castle)/"
"ctor-opp-lost-king-not-else|FAIL|$BOARD|s/        } else if passive.king_side_castle \&\& target_square_shift == (H8 + d_castle) {/        } else if passive.king_side_castle \&\& target_square_shift == (A8 + d_castle) {/"
"ctor-prev-ep-stored-as-next|FAIL|$BOARD|s/mv.set_previous_en_passant_square(self.en_passant_square_shift);/mv.set_next_en_passant_square(self.en_passant_square_shift);/"
"ctor-attacked-piece-of-active|FAIL|$BOARD|s/let piece_attacked = passive.get_piece_const_by_square_shift(attack_square_shift);/let piece_attacked = active.get_piece_const_by_square_shift(attack_square_shift);/"
"ctor-quiet-filter-ignores-promotion|FAIL|$BOARD|s/if piece_attacked == NO_PIECE \&\& promote_to == NO_PIECE \&\& non_quiescent_only {/if piece_attacked == NO_PIECE \&\& non_quiescent_only {/"
"ctor-mvvlva-shift-7|FAIL|$BOARD|s/(target_value << 8) - active_value/(target_value << 7) - active_value/"
"ctor-piece-lookup-knight-before-pawn|FAIL|$BOARD|/const fn get_piece_const_by_square_mask/,/^    }/{s/if (self.pawns() \& square_mask) != 0 {/if (self.knights() \& square_mask) != 0 {/;s/^            PAWN$/            KNIGHT/}"
"ctor-UNSUPPORTED-insert-front|FAIL|$BOARD|s/        result.push(mv);/        result.insert(0, mv);/"
"ctor-HARMLESS-rename-local|PASS|$BOARD|s/d_castle/castle_rank_offset/g"
"ctor-HARMLESS-offset-suffix|PASS|$BOARD|/let en_passant_offset = if is_en_passant_attack_mask == 0 {/,/};/s/^            8$/            8_u32/"
# ---- bit scan + piece moves: mask_and_shift_from_lowest_one_bit, generate_attacks, sliding_moves, single_moves (module Generate)
"scan-shift-plus-one|FAIL|board/src/lib.rs|s/    (1 << shift, shift)/    (1 << shift, shift + 1)/"
"scan-leading-zeros|FAIL|board/src/lib.rs|/pub const fn mask_and_shift_from_lowest_one_bit/,/^}/s/u.trailing_zeros()/u.leading_zeros()/"
"gen-attacks-castle-flag|FAIL|$BOARD|/fn generate_attacks(/,/^    }/s/CASTLE_MOVE_FALSE_MASK/CASTLE_MOVE_TRUE_MASK/"
"gen-attacks-bit-not-popped|FAIL|$BOARD|/fn generate_attacks(/,/^    }/s/attack_occupancy \&= !target_square_mask;/attack_occupancy \&= target_square_mask;/"
"gen-sliding-own-pieces-not-masked|FAIL|$BOARD|s/let attack_occupancy = magics.get_attacks(source_square_shift, full_occupancy) \& !active_occupancy;/let attack_occupancy = magics.get_attacks(source_square_shift, full_occupancy);/"
"gen-sliding-blockers-active-only|FAIL|$BOARD|s/magics.get_attacks(source_square_shift, full_occupancy)/magics.get_attacks(source_square_shift, active_occupancy)/"
"gen-single-own-pieces-not-masked|FAIL|$BOARD|s/let attack_occupancy = unsafe { nonmagics.get_attacks(source_square_shift) } \& !active_occupancy;/let attack_occupancy = unsafe { nonmagics.get_attacks(source_square_shift) };/"
"gen-single-quiet-flag-dropped|FAIL|$BOARD|/fn single_moves(/,/^    }/s/self.generate_attacks(result, non_quiescent_only, source_square_shift, attack_occupancy, piece);/self.generate_attacks(result, false, source_square_shift, attack_occupancy, piece);/"
"gen-HARMLESS-rename-local|PASS|$BOARD|s/source_square_shift/src_sq/g"
# ---- pawn moves: generate_pawn_promotions, generate_pawn_attacks, pawn_attacks, pawn_moves
"pawn-attacks-colors-swapped|FAIL|$BOARD|s/let pawn_attacks = if self.is_white_turn() { WHITE_PAWN_NONMAGICS } else { BLACK_PAWN_NONMAGICS };/let pawn_attacks = if self.is_white_turn() { BLACK_PAWN_NONMAGICS } else { WHITE_PAWN_NONMAGICS };/"
"pawn-attacks-ep-on-last-ranks|FAIL|$BOARD|s/(passive_occupancy | ((1 << self.en_passant_square_shift) \& !(RANK_1_OCCUPANCY | RANK_8_OCCUPANCY)))/(passive_occupancy | (1 << self.en_passant_square_shift))/"
"pawn-attacks-ep-flag-inverted|FAIL|$BOARD|s/if is_en_passant { EN_PASSANT_ATTACK_TRUE_MASK } else { EN_PASSANT_ATTACK_FALSE_MASK },/if is_en_passant { EN_PASSANT_ATTACK_FALSE_MASK } else { EN_PASSANT_ATTACK_TRUE_MASK },/"
"pawn-attacks-promotion-only-rank-8|FAIL|$BOARD|s/if (attack_square_mask \& RANK_8_OCCUPANCY) != 0 || (attack_square_mask \& RANK_1_OCCUPANCY) != 0 {/if (attack_square_mask \& RANK_8_OCCUPANCY) != 0 {/"
"pawn-promotions-order|FAIL|$BOARD|s/source_square_shift, target_square_shift, QUEEN);/source_square_shift, target_square_shift, XX);/;s/source_square_shift, target_square_shift, KNIGHT);/source_square_shift, target_square_shift, QUEEN);/;s/source_square_shift, target_square_shift, XX);/source_square_shift, target_square_shift, KNIGHT);/"
"pawn-promotion-is-ep|FAIL|$BOARD|/fn generate_pawn_promotion(/,/^    }/s/EN_PASSANT_ATTACK_FALSE_MASK/EN_PASSANT_ATTACK_TRUE_MASK/"
"pawn-moves-single-step-16|FAIL|$BOARD|s/(source_square_mask >> 8, RANK_8_OCCUPANCY)/(source_square_mask >> 16, RANK_8_OCCUPANCY)/"
"pawn-moves-double-from-wrong-rank|FAIL|$BOARD|s/(single_move_target_mask >> 8, RANK_2_OCCUPANCY)/(single_move_target_mask >> 8, RANK_7_OCCUPANCY)/"
"pawn-moves-double-no-ep-square|FAIL|$BOARD|s/^                            single_move_target_shift,$/                            NO_SQUARE,/"
"pawn-moves-double-through-piece|FAIL|$BOARD|s/if (source_square_mask \& double_move_source_rank) != 0 \&\& (double_move_target_mask \& full_occupancy) == 0 {/if (source_square_mask \& double_move_source_rank) != 0 {/"
"pawn-HARMLESS-rename-local|PASS|$BOARD|s/promote_rank/last_rank/g"
# ---- castling: _is_occupancy_in_check, make_castle_move, castle_moves, the castling masks of constants.rs
"castle-white-queen-side-to-d1|FAIL|$BOARD|s/self.make_castle_move(result, E1, C1);/self.make_castle_move(result, E1, D1);/"
"castle-black-check-color|FAIL|$BOARD|s/!Self::_is_occupancy_in_check(BLACK, \&self.white, full_occupancy, BLACK_KING_SIDE_CASTLE_CHECK_OCCUPANCY)/!Self::_is_occupancy_in_check(WHITE, \&self.white, full_occupancy, BLACK_KING_SIDE_CASTLE_CHECK_OCCUPANCY)/"
"castle-no-attack-test|FAIL|$BOARD|s/\&\& !Self::_is_occupancy_in_check(WHITE, \&self.black, full_occupancy, WHITE_QUEEN_SIDE_CASTLE_CHECK_OCCUPANCY) {/\&\& true {/"
"castle-king-side-needs-queen-right|FAIL|$BOARD|s/            if self.white.king_side_castle$/            if self.white.queen_side_castle/"
"castle-empty-mask-without-b1|FAIL|$CONSTS|s/WHITE_QUEEN_SIDE_CASTLE_EMPTY_OCCUPANCY: OccupancyBits = B1_MASK | C1_MASK | D1_MASK;/WHITE_QUEEN_SIDE_CASTLE_EMPTY_OCCUPANCY: OccupancyBits = C1_MASK | D1_MASK;/"
"castle-occupancy-check-returns-false|FAIL|$BOARD|/fn _is_occupancy_in_check(/,/^    }/s/                return true;/                return false;/"
"castle-move-not-flagged|FAIL|$BOARD|/fn make_castle_move(/,/^    }/s/CASTLE_MOVE_TRUE_MASK/CASTLE_MOVE_FALSE_MASK/"
"castle-move-of-a-rook|FAIL|$BOARD|/fn make_castle_move(/,/^    }/s/^            KING,$/            ROOK,/"
"castle-HARMLESS-parens|PASS|$BOARD|s/\&\& (full_occupancy \& WHITE_QUEEN_SIDE_CASTLE_EMPTY_OCCUPANCY) == 0$/\&\& ((full_occupancy \& WHITE_QUEEN_SIDE_CASTLE_EMPTY_OCCUPANCY) == 0)/"
# ---- top-level generators (order of the generated moves matters)
"top-kings-before-knights|FAIL|$BOARD|s/self.single_moves(result, false, active.knights(), active_occupancy, \&KNIGHT_NONMAGICS, KNIGHT);/self.single_moves(result, false, active.kings(), active_occupancy, \&KING_NONMAGICS, XXKING);/;s/self.single_moves(result, false, active.kings(), active_occupancy, \&KING_NONMAGICS, KING);/self.single_moves(result, false, active.knights(), active_occupancy, \&KNIGHT_NONMAGICS, KNIGHT);/;s/XXKING/KING/"
"top-queen-diagonals-use-rook-table|FAIL|$BOARD|s/self.sliding_moves(result, false, active.queens(), active_occupancy, full_occupancy, \&BISHOP_MAGICS, QUEEN);/self.sliding_moves(result, false, active.queens(), active_occupancy, full_occupancy, \&ROOK_MAGICS, QUEEN);/"
"top-no-castling|FAIL|$BOARD|s/        self.castle_moves(result, full_occupancy);/        let _unused = full_occupancy;/"
"top-nq-quiet-pawn-pushes|FAIL|$BOARD|s/self.pawn_moves(result, true, active.pawns(), full_occupancy);/self.pawn_moves(result, false, active.pawns(), full_occupancy);/"
"top-nq-quiet-rook-moves|FAIL|$BOARD|s/self.sliding_moves(result, true, active.rooks(), active_occupancy, full_occupancy, \&ROOK_MAGICS, ROOK);/self.sliding_moves(result, false, active.rooks(), active_occupancy, full_occupancy, \&ROOK_MAGICS, ROOK);/"
"top-active-passive-swapped|FAIL|$BOARD|/const fn get_active_and_passive(&self)/,/^    }/s/            (&self.white, &self.black)/            (\&self.black, \&self.white)/"
"top-HARMLESS-rename-local|PASS|$BOARD|s/passive_occupancy/enemy_occupancy/g"
# ---- legality filter: generate_legal_moves, is_any_move_legal
"legal-filter-from-quiescence-generator|FAIL|$BOARD|/pub fn generate_legal_moves(&mut self)/,/^    }/s/self.generate_pseudo_legal_moves()/self.generate_pseudo_legal_non_quiescent_moves()/"
"legal-UNSUPPORTED-filter-negated|FAIL|$BOARD|s/.filter(|\&mv| self.is_move_legal(mv))/.filter(|\&mv| !self.is_move_legal(mv))/"
"legal-HARMLESS-closure-variable|PASS|$BOARD|s/.filter(|\&mv| self.is_move_legal(mv))/.filter(|\&m| self.is_move_legal(m))/"
"any-legal-returns-false|FAIL|$BOARD|/pub fn is_any_move_legal(&mut self, moves: &\[Move\]) -> bool/,/^    }/s/                return true;/                return false;/"
"any-legal-default-true|FAIL|$BOARD|/pub fn is_any_move_legal(&mut self, moves: &\[Move\]) -> bool/,/^    }/s/^        false$/        true/"
"any-legal-HARMLESS-rename|PASS|$BOARD|/pub fn is_any_move_legal(&mut self, moves: &\[Move\]) -> bool/,/^    }/s/\bmv\b/candidate/g"
# ---- FEN decoder (C12; modules FenText / FenDecode, Props/Translated/FenDecode.lean)
"fen-decode-file-rank-swapped|FAIL|$BOARD|s/square_mask_from_index(file_index, rank_index as u32)/square_mask_from_index(rank_index as u32, file_index)/"
"fen-decode-upper-case-is-black|FAIL|$BOARD|s/let board = if c.is_uppercase() { \&mut white } else { \&mut black };/let board = if c.is_uppercase() { \&mut black } else { \&mut white };/"
"fen-decode-knight-letter-places-bishop|FAIL|$BOARD|s/'n' => board.knights_ref(),/'n' => board.bishops_ref(),/"
"fen-decode-file-not-advanced|FAIL|$BOARD|s/^                    file_index += 1;$//"
"fen-decode-digit-advances-one|FAIL|$BOARD|s/file_index += c.to_digit(10).unwrap();/file_index += 1;/"
"fen-decode-castle-Q-reads-K|FAIL|$BOARD|s/white.queen_side_castle = self.get_castling_availability().contains('Q');/white.queen_side_castle = self.get_castling_availability().contains('K');/"
"fen-decode-turn-swapped|FAIL|$BOARD|s/\"b\" => BLACK,/\"b\" => WHITE,/"
"fen-decode-ep-dash-test|FAIL|$BOARD|s/if self.get_en_passant_target_square() == \"-\" { NO_SQUARE }/if self.get_en_passant_target_square() == \"x\" { NO_SQUARE }/"
"fen-decode-clocks-swapped|FAIL|$BOARD|s/fullmove_clock: fen.parse_fullmove_clock(),/fullmove_clock: fen.parse_halfmove_clock(),/"
"fen-decode-UNSUPPORTED-borrow-used-later|FAIL|$BOARD|s/^                    file_index += 1;$/                    file_index += 1; white.king_side_castle = false;/"
"fen-decode-HARMLESS-rename-local|PASS|$BOARD|s/file_index/fidx/g"
"fen-decode-HARMLESS-unwrap-expect|PASS|$BOARD|s/let pieces = match c.to_ascii_lowercase() {/let pieces = match (c.to_ascii_lowercase()) {/"
"fen-square-rank-from-7|FAIL|$CONSTS|s/let rank_index = 8 - second_char.to_digit(10)/let rank_index = 7 - second_char.to_digit(10)/"
"fen-square-file-from-b|FAIL|$CONSTS|s/(first_char as u8 - b'a') as u32/(first_char as u8 - b'b') as u32/"
"fen-square-mask-shift-plus-one|FAIL|$CONSTS|/pub const fn square_mask_from_index/,/^}/s/1 << square_shift_from_index(file_index, rank_index)/1 << (square_shift_from_index(file_index, rank_index) + 1)/"
"fen-square-HARMLESS-assert-message|PASS|$CONSTS|s/\"Illegal string length for square {}\"/\"bad square {}\"/"
"fen-getter-halfmove-default-1|FAIL|$FEN|s/self.halfmove_clock.as_ref().map_or(\"0\"/self.halfmove_clock.as_ref().map_or(\"1\"/"
"fen-getter-color-reads-castling-range|FAIL|$FEN|s/\&self.fen\[self.active_color.start..self.active_color.end\]/\&self.fen[self.castling_availability.start..self.castling_availability.end]/"
# ---- Fen::from_str without the regex (C12; module FenFromStr, Props/Translated/FenFromStr.lean)
"fen-fromstr-no-clock-check|FAIL|$FEN|s/if fen\[range.start..range.end\].parse::<u32>().is_err() {/if false {/"
"fen-fromstr-clock-groups-4-5|FAIL|$FEN|s/for clock_group in \[5, 6\] {/for clock_group in [4, 5] {/"
"fen-fromstr-groups-swapped|FAIL|$FEN|s/active_color: group_to_slice(2).unwrap(),/active_color: group_to_slice(3).unwrap(),/"
"fen-fromstr-validates-group-2|FAIL|$FEN|s/Self::validate_ranks(group_to_slice(1)/Self::validate_ranks(group_to_slice(2)/"
"fen-validate-ranks-find-ok|FAIL|$FEN|s/.find(Result::is_err)/.find(Result::is_ok)/"
"fen-fromstr-alias-other-word|FAIL|$FEN|s/if s == \"startpos\" {/if s == \"start\" {/"
"fen-fromstr-UNSUPPORTED-closure-captures-mut|FAIL|$FEN|s/let temp_fen = fen.clone();/let temp_fen = fen.clone(); let mut n = 0; let bump = |k: usize| { n += k; };/"
"fen-fromstr-HARMLESS-rename-local|PASS|$FEN|s/temp_fen/scratch/g"
"fen-fromstr-HARMLESS-closure-param|PASS|$FEN|s/match_index/gi/g"
# ---- FEN writer: get_colored_piece (C12; module FenWrite, Props/Translated/FenWrite.lean)
"fen-write-white-piece-gets-black-letter|FAIL|$BOARD|s/(Some(piece), None) => Some(piece.to_white()),/(Some(piece), None) => Some(piece.to_black()),/"
"fen-write-both-colours-no-panic|FAIL|$BOARD|s/(Some(_), Some(_)) => panic!(),/(Some(_), Some(_)) => None,/"
"fen-write-find-piece-index-plus-one|FAIL|$BOARD|s/Piece::from_index(self.get_piece_const_by_square_mask(square) as usize)/Piece::from_index(self.get_piece_const_by_square_mask(square) as usize + 1)/"
"fen-write-HARMLESS-rename-local|PASS|$BOARD|s/maybe_white/found_white/g"
# ---- FEN writer loops and fields (rs_for_2 / rs_for_1 / rs_fen_write_eq / rs_fen_roundtrip)
"fen-writer-empty-run-not-reset|FAIL|$BOARD|/fn from(bitboard: &Bitboard) -> Self {/,/^    }/s/^                        consecutive_empty = 0;$//"
"fen-writer-no-trailing-run|FAIL|$BOARD|/fn from(bitboard: &Bitboard) -> Self {/,/^    }/s/^            if consecutive_empty > 0 {$/            if consecutive_empty > 8 {/"
"fen-writer-slash-after-last-rank|FAIL|$BOARD|s/            if rank < 7 {/            if rank < 8 {/"
"fen-writer-file-rank-swapped|FAIL|$BOARD|s/let square = Square::from_indices(file, rank).unwrap();/let square = Square::from_indices(rank, file).unwrap();/"
"fen-writer-castle-order-QK|FAIL|$BOARD|/let castle = \[/,/collect::<String>/{s/('K', bitboard.white.king_side_castle),/('Q', bitboard.white.queen_side_castle),/;t;s/('Q', bitboard.white.queen_side_castle),/('K', bitboard.white.king_side_castle),/}"
"fen-writer-clocks-swapped|FAIL|$BOARD|s/result.push_str(&bitboard.halfmove_clock.to_string());/result.push_str(\&bitboard.fullmove_clock.to_string());/"
"fen-writer-side-swapped|FAIL|$BOARD|s/result.push(if bitboard.is_white_turn() { 'w' } else { 'b' });/result.push(if bitboard.is_white_turn() { 'b' } else { 'w' });/"
"fen-writer-HARMLESS-rename-local|PASS|$BOARD|s/consecutive_empty/run/g"
# ---- PGN reader (C17; module Pgn, monadic mode; Props/Translated/Pgn{Buffer,Bytes,Loops,Tags,Moves,Iter}.lean)
"pgn-ensure-ge-to-gt|FAIL|$PGN|s/if self.current_byte >= self.current_buffer.len() {/if self.current_byte > self.current_buffer.len() {/"
"pgn-short-read-sets-eof|FAIL|$PGN|s/self.current_buffer.resize(bytes_read, 0);/self.current_buffer.resize(bytes_read, 0); self.eof_reached = true;/"
"pgn-short-read-no-resize|FAIL|$PGN|s/self.current_buffer.resize(bytes_read, 0);//"
"pgn-refill-keeps-current-byte|FAIL|$PGN|s/^            self.current_byte = 0;$//"
"pgn-increment-no-position|FAIL|$PGN|s/^        self.position += 1;$//"
"pgn-consume-ne|FAIL|$PGN|s/if actual == expected {/if actual != expected {/"
"pgn-skip-spaces-skips-newlines|FAIL|$PGN|/fn skip_spaces/,/^    }/s/b' '/b'\\\\n'/"
"pgn-blank-lines-and-spaces-one-peek|FAIL|$PGN|s/while self.peek_byte()? == b'\\\\n' || self.peek_byte()? == b' ' {/while self.peek_byte()? == b'\\\\n' {/"
"pgn-read-until-no-skip|FAIL|$PGN|/fn read_until/,/^    }/s/self.skip_byte()?;//"
"pgn-read-token-space-only|FAIL|$PGN|s/if byte == b' ' || byte == b'\\\\n' {/if byte == b' ' {/"
"pgn-read-token-no-increment|FAIL|$PGN|/fn read_token/,/^    }/s/self.increment_byte();//"
"pgn-tag-value-propagates-before-quote|FAIL|$PGN|s/let value = self.read_until(b'\"');/let value = self.read_until(b'\"')?;/;s/^        value$/        Ok(value)/"
"pgn-tag-pairs-insert-swapped|FAIL|$PGN|s/result.insert(k, v);/result.insert(v, k);/"
"pgn-result-token-no-draw|FAIL|$PGN|s@\"\*\" | \"1-0\" | \"0-1\" | \"1/2-1/2\"@\"*\" | \"1-0\" | \"0-1\"@"
"pgn-move-number-test-comma|FAIL|$PGN|s/if token.contains('.') {/if token.contains(',') {/"
"pgn-moves-closed-is-error|FAIL|$PGN|s/Ok(()) | Err(ReadingFromClosedRead) => Ok(result),/Ok(()) => Ok(result),/"
"pgn-next-closed-is-item|FAIL|$PGN|s/Err(ReadingFromClosedRead) => { None }/Err(ReadingFromClosedRead) => { Some(Err(ReadingFromClosedRead)) }/"
"pgn-with-chunk-size-cursor-zero|FAIL|$PGN|s/current_buffer: vec!\[0; chunk_size\], current_byte: chunk_size,/current_buffer: vec![0; chunk_size], current_byte: 0,/"
"pgn-panic-on-full-chunk|FAIL|$PGN|s/Ok(bytes_read) if bytes_read > self.chunk_size => {/Ok(bytes_read) if bytes_read >= self.chunk_size => {/"
"pgn-position-wraps|FAIL|$PGN|s/^        self.position += 1;$/        self.position = self.position.wrapping_add(1);/"
"pgn-UNSUPPORTED-nested-loop|FAIL|$PGN|s/^            result.push(mv);$/            result.push(mv); while self.ensure_buffer() { break; }/"
"pgn-HARMLESS-rename-local|PASS|$PGN|s/cur_byte/cb/g"
"pgn-HARMLESS-default-chunk|PASS|$PGN|s/Self::with_chunk_size(reader, 8192)/Self::with_chunk_size(reader, 4096)/"
# ---- UCI text lookup: `to_uci_string`, `piece_to_string`, `find_uci`, `make_uci` (C13)
"uci-find-eq-to-ne|FAIL|$BOARD|s/self.generate_pseudo_legal_moves().into_iter().find(|mv| mv.to_uci_string() == uci)/self.generate_pseudo_legal_moves().into_iter().find(|mv| mv.to_uci_string() != uci)/"
"uci-find-no-trim|FAIL|$BOARD|/fn find_uci/,/Ok(result)/s/let uci = uci.trim();/let uci = uci;/"
"uci-find-valid-negated|FAIL|$BOARD|/fn find_uci/,/Ok(result)/s/if !self.is_valid() {/if self.is_valid() {/"
"uci-find-no-final-unmake|FAIL|$BOARD|/fn find_uci/,/Ok(result)/s/^        self.unmake(result);$//"
"uci-find-non-quiescent-generator|FAIL|$BOARD|s/let result = self.generate_pseudo_legal_moves().into_iter().find(/let result = self.generate_pseudo_legal_non_quiescent_moves().into_iter().find(/"
"uci-make-uci-no-make|FAIL|$BOARD|/fn make_uci/,/Ok(())/s/^        self.make(mv);$//"
"uci-text-squares-swapped|FAIL|$BOARD|s/format!(\"{}{}{}\", square_to_string(self.get_source_square()), square_to_string(self.get_target_square())/format!(\"{}{}{}\", square_to_string(self.get_target_square()), square_to_string(self.get_source_square())/"
"uci-text-separator|FAIL|$BOARD|s/format!(\"{}{}{}\", square_to_string(self.get_source_square())/format!(\"{}-{}{}\", square_to_string(self.get_source_square())/"
"uci-piece-index-plus-one|FAIL|$LIBRS|s/Piece::from_index(piece_bits as usize).map_or_else/Piece::from_index(piece_bits as usize + 1).map_or_else/"
"uci-HARMLESS-to-owned|PASS|$BOARD|/fn find_uci/,/Ok(result)/s/MoveDoesNotExist(uci.to_string())/MoveDoesNotExist(uci.to_owned())/"
"uci-all-rollback-not-reversed|FAIL|$BOARD|s/for mv in potential_unmake.iter().rev() {/for mv in potential_unmake.iter() {/"
"uci-all-rollback-makes|FAIL|$BOARD|s/^                        self.unmake(\*mv);$/                        self.make(*mv);/"
"uci-all-no-make|FAIL|$BOARD|/fn make_all_uci/,/^    }/s/^                    self.make(mv);$//"
"uci-all-no-push|FAIL|$BOARD|s/^                    potential_unmake.push(mv);$//"
"uci-all-error-swallowed|FAIL|$BOARD|/fn make_all_uci/,/^    }/s/return Err(error);/return Ok(());/"
"uci-all-HARMLESS-rename-local|PASS|$BOARD|s/potential_unmake/made_so_far/g"
# ---- `SimpleHeuristic` (C11; the piece-square tables are opaque)
"simple-queen-value|FAIL|$SIMPLE|s/const QUEEN_VALUE: u32 = 900;/const QUEEN_VALUE: u32 = 950;/"
"simple-stage-le-to-lt|FAIL|$SIMPLE|s/(board.white.knights() | board.white.bishops()).count_ones() <= 1/(board.white.knights() | board.white.bishops()).count_ones() < 1/"
"simple-stage-always-mid|FAIL|$SIMPLE|s/^            LATE$/            MID/"
"simple-stage-drops-a-case|FAIL|$SIMPLE|s/|| (black_has_queens_but_one_or_fewer_minor_pieces \&\& !white_has_queens)//"
"simple-sum-wrong-table|FAIL|$SIMPLE|s/Self::piece_square_sum(player.knights(), \&tables\[KNIGHT as usize - 1\])/Self::piece_square_sum(player.knights(), \&tables[BISHOP as usize - 1])/"
"simple-black-uses-white-tables|FAIL|$SIMPLE|s/\&BLACK_TABLES\[stage\]/\&WHITE_TABLES[stage]/"
"simple-their-sum-added|FAIL|$SIMPLE|s/my_sum - their_sum + psv/my_sum + their_sum + psv/"
"simple-loop-subtracts|FAIL|$SIMPLE|s/sum += values\[shift as usize\];/sum -= values[shift as usize];/"
"simple-material-no-pawns|FAIL|$SIMPLE|s/state.knights().count_ones() \* KNIGHT_VALUE +/state.knights().count_ones() * KNIGHT_VALUE)/;s/^            state.pawns().count_ones() \* PAWN_VALUE) as i32/            as i32/"
"simple-HARMLESS-rename-local|PASS|$SIMPLE|s/\bpsv\b/square_part/g"
"simple-HARMLESS-stage-let|PASS|$SIMPLE|s/let white_sum = Self::piece_square_sum_for_player(\&board.white, \&WHITE_TABLES\[stage\]);/let wt = \&WHITE_TABLES[stage]; let white_sum = Self::piece_square_sum_for_player(\&board.white, wt);/"
)

ok=0; bad=0
ORIG_LEAN_PATH=$(cd $LEANDIR && lake env printenv LEAN_PATH)
REALLIB=$LEANDIR/.lake/build/lib/lean
for m in "${MUTATIONS[@]}"; do
  IFS='|' read -r name expect file expr <<< "$m"
  case "$name" in *"$FILTER"*) ;; *) continue ;; esac
  d=$WORK/$name; mkdir -p $d/src $d/gen $d/lib/Inkayaku/Gen/Rs $d/lib/Inkayaku/Props/Translated
  # overlay of the real build products: everything is a symlink except Inkayaku/Gen/Rs and Inkayaku/Props/Translated
  # (a package is looked up in the first LEAN_PATH entry that contains its root directory, so the scratch lib must
  # be complete)
  for x in $REALLIB/Inkayaku/*; do case "$(basename $x)" in Gen|Props) ;; *) ln -s $x $d/lib/Inkayaku/ ;; esac; done
  for x in $REALLIB/Inkayaku/Gen/*; do [ "$(basename $x)" = Rs ] || ln -s $x $d/lib/Inkayaku/Gen/; done
  for x in $REALLIB/Inkayaku/Props/*; do [ "$(basename $x)" = Translated ] || ln -s $x $d/lib/Inkayaku/Props/; done
  cp $REPO/$file $d/src/mutated.rs
  sed -i -e "$expr" $d/src/mutated.rs
  if [ "$expect" = FAIL ] && cmp -s $REPO/$file $d/src/mutated.rs; then
    echo "[$name] the sed expression did not change the file (the Rust source has changed; update this script)"; bad=$((bad+1)); continue
  fi
  result=PASS; why=""; failed=""; rebuilt=""
  if ! $RS2LEAN $REPO $d/gen --override $file=$d/src/mutated.rs > $d/rs2lean.log 2>&1; then
    result=FAIL; why="rs2lean: $(tail -1 $d/rs2lean.log)"
  else
    # plan: generated modules in import order, marked changed/unchanged (unchanged ones whose imports are unchanged are
    # linked, not recompiled); theorem files that transitively import a changed module, in import order
    plan=$(python3 - $d/gen $LEANDIR <<'EOF'
import re, os, sys
gen, leandir = sys.argv[1], sys.argv[2]
real = os.path.join(leandir, 'Inkayaku', 'Gen', 'Rs')
mods = {f[:-5]: re.findall(r'^import Inkayaku\.Gen\.Rs\.(\w+)', open(os.path.join(gen, f)).read(), re.M) for f in os.listdir(gen) if f.endswith('.lean')}
order = []
def visit(m):
    if m in order: return
    for x in mods[m]: visit(x)
    order.append(m)
for m in sorted(mods): visit(m)
dirty = set()
for m in order:
    rp = os.path.join(real, m + '.lean')
    same = os.path.exists(rp) and open(rp).read() == open(os.path.join(gen, m + '.lean')).read()
    if not same or any(x in dirty for x in mods[m]): dirty.add(m)
tdir = os.path.join(leandir, 'Inkayaku', 'Props', 'Translated')
thms = {}
for f in os.listdir(tdir):
    if f.endswith('.lean'):
        src = open(os.path.join(tdir, f)).read()
        thms[f[:-5]] = (re.findall(r'^import Inkayaku\.Gen\.Rs\.(\w+)', src, re.M), re.findall(r'^import Inkayaku\.Props\.Translated\.(\w+)', src, re.M))
torder = []
def tvisit(t):
    if t in torder: return
    for x in thms[t][1]: tvisit(x)
    torder.append(t)
for t in sorted(thms): tvisit(t)
tdirty = []
for t in torder:
    if any(g in dirty for g in thms[t][0]) or any(x in tdirty for x in thms[t][1]): tdirty.append(t)
for m in order: print('GEN', m, 'dirty' if m in dirty else 'clean')
for t in torder: print('THM', t, 'dirty' if t in tdirty else 'clean')
EOF
)
    while read -r kind mod state; do
      [ $result = PASS ] || { [ -n "${KEEP_GOING:-}" ] && [ -n "$failed" ]; } || break
      if [ $kind = GEN ]; then
        if [ $state = clean ]; then ln -s $REALLIB/Inkayaku/Gen/Rs/$mod.olean $REALLIB/Inkayaku/Gen/Rs/$mod.ilean $d/lib/Inkayaku/Gen/Rs/ 2>/dev/null
        elif ! (cd $d/gen && LEAN_PATH=$d/lib:$ORIG_LEAN_PATH lean -o $d/lib/Inkayaku/Gen/Rs/$mod.olean $mod.lean > $d/$mod.log 2>&1); then
          result=FAIL; why="generated $mod.lean does not compile: $(grep -m1 error $d/$mod.log)"
        fi
      else
        if [ $state = clean ]; then ln -s $REALLIB/Inkayaku/Props/Translated/$mod.olean $d/lib/Inkayaku/Props/Translated/ 2>/dev/null
        elif ! (cd $LEANDIR && LEAN_PATH=$d/lib:$ORIG_LEAN_PATH timeout 600 lean -o $d/lib/Inkayaku/Props/Translated/$mod.olean Inkayaku/Props/Translated/$mod.lean > $d/thm-$mod.log 2>&1); then
          [ -n "$failed" ] || why="Props/Translated/$mod.lean: $(grep -m1 'error' $d/thm-$mod.log)"
          result=FAIL; failed="$failed $mod"
        else rebuilt="$rebuilt $mod"
        fi
      fi
    done <<< "$plan"
  fi
  if [ $result = $expect ]; then ok=$((ok+1)); verdict=as-expected; else bad=$((bad+1)); verdict=UNEXPECTED; fi
  if [ -n "${KEEP_GOING:-}" ] && [ -n "$failed" ]; then why="$why [failing theorem files:$failed; rechecked and still building:${rebuilt:- none}]"; fi
  echo "[$name] expected $expect, got $result ($verdict) $why"
done
echo "mutation check: $ok as expected, $bad unexpected (scratch: $WORK)"
[ $bad = 0 ]
