#!/bin/bash
# Mutation sanity check of the translator tie (rs2lean + Inkayaku/Props/Translated.lean).
#
# For every mutation: copy ONE Rust source file to a scratch directory, apply a small edit (sed expression), run
# rs2lean with `--override <file>=<scratch copy>` into a scratch output directory, compile the generated Lean files
# into scratch .olean files and check Props/Translated.lean against them (scratch directory first on LEAN_PATH).
# Semantic mutations must make the check FAIL, harmless rewrites must PASS.  /repo and /verif/lean are not modified.
#
# usage: mutation_check.sh [repo root]        (needs `cargo build --offline` in /verif/translator and the Lean
#                                              modules Inkayaku.Gen.Rs.* + model files built)
set -u
REPO=${1:-/repo}
HERE=$(cd "$(dirname "$0")" && pwd)
LEANDIR=/verif/lean
RS2LEAN=$HERE/target/debug/rs2lean
WORK=$(mktemp -d /tmp/rs2lean-mut.XXXXXX)
ZH=engine_core/src/engine/zobrist_history.rs
BOARD=board/src/board.rs
HEUR=engine_core/src/engine/heuristic.rs
SQ=core/src/constants/square.rs
KILLER=engine_core/src/engine/table/killer.rs
MO=engine_core/src/engine/move_order.rs
FEN=core/src/fen.rs
SEARCH=engine_core/src/engine/search.rs

# name | expected (FAIL/PASS) | file | sed expression
MUTATIONS=(
"reps-ge3-to-gt3|FAIL|$ZH|s/if repetitions >= 3 {/if repetitions > 3 {/"
"step-2-to-1|FAIL|$ZH|s/current_index -= 2;/current_index -= 1;/"
"start-minus4-to-minus2|FAIL|$ZH|s/start_index as i32 - 4;/start_index as i32 - 2;/"
"start-lt4-to-lt6|FAIL|$ZH|s/if start_index < 4 {/if start_index < 6 {/"
"reps-init-1-to-0|FAIL|$ZH|s/let mut repetitions = 1_usize;/let mut repetitions = 0_usize;/"
"ply-clock-no-saturating|FAIL|$BOARD|s/(2 \* self.fullmove_clock.saturating_sub(1) + self.turn) as u16/(2 * (self.fullmove_clock - 1) + self.turn) as u16/"
"mate-window-shift20-to-19|FAIL|$HEUR|s/const MAX_FULL_MOVES: i32 = 1 << 20;/const MAX_FULL_MOVES: i32 = 1 << 19;/"
"mate-offset-gt-to-ge|FAIL|$HEUR|s/i32::from(value > 0 \&\& bitboard.turn == WHITE)/i32::from(value >= 0 \&\& bitboard.turn == WHITE)/"
"mated-white-plus-to-minus|FAIL|$HEUR|s/self.loss_score() + bitboard.fullmove_clock as i32/self.loss_score() - bitboard.fullmove_clock as i32/"
"from-chars-rank-8-to-7|FAIL|$SQ|s/8_u32.wrapping_sub(i)/7_u32.wrapping_sub(i)/"
"killer-get-ne-to-eq|FAIL|$KILLER|s/mv.bits != 0/mv.bits == 0/"
"sort-key-pv-bonus|FAIL|$MO|s/900_000/600_000/"
"HARMLESS-rename-local|PASS|$ZH|s/current_zobrist/cz/g"
"HARMLESS-reorder-lets|PASS|$ZH|/let mut repetitions = 1_usize;/{h;d};/let zobrist = self.history\[start_index as usize\];/{G}"
"HARMLESS-literal-suffix|PASS|$ZH|s/repetitions += 1;/repetitions += 1_usize;/"
"HARMLESS-unchanged|PASS|$ZH|s/x/x/"
"validate-rank-count-8-to-7|FAIL|$FEN|s/if count != 8 {/if count != 7 {/"
"validate-rank-and-to-or|FAIL|$FEN|s/chars\[i\].is_ascii_digit() \&\& chars\[i + 1\].is_ascii_digit()/chars[i].is_ascii_digit() || chars[i + 1].is_ascii_digit()/"
"think-time-threshold-20-to-30|FAIL|$SEARCH|s/20\.\. => 1\.0,/30.. => 1.0,/"
"think-time-factor-075-to-05|FAIL|$SEARCH|s/10\.\. => 0\.75,/10.. => 0.5,/"
"think-time-div-60-to-30|FAIL|$SEARCH|s/time_remaining\.div(60)/time_remaining.div(30)/"
"think-time-factor-not-dyadic|FAIL|$SEARCH|s/10\.\. => 0\.75,/10.. => 0.8,/"
"UNSUPPORTED-loop-break|FAIL|$ZH|s/current_index -= 2;/current_index -= 2; if current_index == 7 { break; }/"
)

ok=0; bad=0
ORIG_LEAN_PATH=$(cd $LEANDIR && lake env printenv LEAN_PATH)
REALLIB=$LEANDIR/.lake/build/lib/lean
for m in "${MUTATIONS[@]}"; do
  IFS='|' read -r name expect file expr <<< "$m"
  d=$WORK/$name; mkdir -p $d/src $d/gen $d/lib/Inkayaku/Gen/Rs
  # overlay of the real build products: everything is a symlink except Inkayaku/Gen/Rs (a package is looked up in
  # the first LEAN_PATH entry that contains its root directory, so the scratch lib must be complete)
  for x in $REALLIB/Inkayaku/*; do [ "$(basename $x)" = Gen ] || ln -s $x $d/lib/Inkayaku/; done
  for x in $REALLIB/Inkayaku/Gen/*; do [ "$(basename $x)" = Rs ] || ln -s $x $d/lib/Inkayaku/Gen/; done
  cp $REPO/$file $d/src/mutated.rs
  sed -i -e "$expr" $d/src/mutated.rs
  if [ "$expect" = FAIL ] && cmp -s $REPO/$file $d/src/mutated.rs; then
    echo "[$name] the sed expression did not change the file (the Rust source has changed; update this script)"; bad=$((bad+1)); continue
  fi
  result=PASS; why=""
  if ! $RS2LEAN $REPO $d/gen --override $file=$d/src/mutated.rs > $d/rs2lean.log 2>&1; then
    result=FAIL; why="rs2lean: $(tail -1 $d/rs2lean.log)"
  else
    # compile the generated modules in dependency order (= order of imports) into the scratch lib
    order=$(cd $d/gen && python3 - <<'EOF'
import re,os
mods={f[:-5]:re.findall(r'^import Inkayaku\.Gen\.Rs\.(\w+)',open(f).read(),re.M) for f in os.listdir('.') if f.endswith('.lean')}
done=[]
def visit(m):
    if m in done: return
    for d in mods[m]: visit(d)
    done.append(m)
for m in sorted(mods): visit(m)
print(' '.join(done))
EOF
)
    for mod in $order; do
      if ! (cd $d/gen && LEAN_PATH=$d/lib:$ORIG_LEAN_PATH lean -o $d/lib/Inkayaku/Gen/Rs/$mod.olean $mod.lean > $d/$mod.log 2>&1); then
        result=FAIL; why="generated $mod.lean does not compile: $(grep -m1 error $d/$mod.log)"; break
      fi
    done
    if [ $result = PASS ]; then
      if ! (cd $LEANDIR && LEAN_PATH=$d/lib:$ORIG_LEAN_PATH lean Inkayaku/Props/Translated.lean > $d/translated.log 2>&1); then
        result=FAIL; why="Props/Translated.lean: $(grep -m1 'error' $d/translated.log)"
      fi
    fi
  fi
  if [ $result = $expect ]; then ok=$((ok+1)); verdict=as-expected; else bad=$((bad+1)); verdict=UNEXPECTED; fi
  echo "[$name] expected $expect, got $result ($verdict) $why"
done
echo "mutation check: $ok as expected, $bad unexpected (scratch: $WORK)"
[ $bad = 0 ]
